#!/usr/bin/env python3
"""Orchestrator: ./check.py <Cxx> [--tier quick|thorough] [--replay FILE]

For one property: (1) re-check the Lean theorems (lake build of Properties/<id> + axiom audit),
(2) rebuild the Go harness from /repo's working tree and the Lean model driver, (3) run the
correspondence (same op lines through the real code and through the model, outputs diffed),
(4) on any broken obligation or disagreement search for / report a concrete failing input,
(5) write evidence/<id>.json.  Exit 0 = held on everything explored, 1 = VIOLATION, 2 = infrastructure.
"""
import sys, os, json, time, subprocess, random, hashlib, re, importlib, tempfile, shutil, itertools, atexit

ROOT = os.path.dirname(os.path.abspath(__file__))
LEAN = os.path.join(ROOT, 'lean')
BUILD = os.path.join(ROOT, 'build')
REPO = os.environ.get('VERIF_REPO', '/repo')
GOENV = dict(os.environ, GOFLAGS='-mod=mod', GOPROXY='off', GOSUMDB='off', GOTOOLCHAIN='local')
ALLOWED_AXIOMS = {'propext', 'Classical.choice', 'Quot.sound'}
FORBIDDEN = re.compile(r'\b(sorry|admit|native_decide|bv_decide|implemented_by|unsafe)\b|^\s*axiom\s|maxHeartbeats\s+0|^\s*(private\s+)?partial\s+def\b')

sys.path.insert(0, os.path.join(ROOT, 'gen'))


def log(*a):
    print(*a, file=sys.stderr, flush=True)


def run(cmd, **kw):
    return subprocess.run(cmd, stdout=subprocess.PIPE, stderr=subprocess.STDOUT, text=True, **kw)


# ---------------------------------------------------------------- Lean side

def strip_comments(src):
    # remove /- ... -/ (nested) and -- comments
    out = []
    i, depth, n = 0, 0, len(src)
    while i < n:
        if src.startswith('/-', i):
            depth += 1; i += 2; continue
        if depth and src.startswith('-/', i):
            depth -= 1; i += 2; continue
        if depth:
            if src[i] == '\n': out.append('\n')
            i += 1; continue
        if src.startswith('--', i):
            while i < n and src[i] != '\n': i += 1
            continue
        out.append(src[i]); i += 1
    return ''.join(out)


# which tie modules (Proofs/FactsTie/*.lean) carry constants that a property's model depends on
FACT_TIES = {
    'C01': ['Sxg', 'Mice', 'Cert'], 'C02': ['Sxg', 'Mice', 'Cert'], 'C08': ['Sxg', 'Mice'], 'C09': ['Sxg'],
    'C03': ['Bundle'], 'C04': ['Bundle'], 'C05': ['Bundle'], 'C06': ['Bundle', 'Mice', 'Cert'], 'C07': ['IB'],
    'C10': ['Sxg', 'Bundle', 'Cert', 'Mice', 'IB'], 'C14': ['Mice'], 'C15': ['Mice'], 'C17': ['Cert'],
    'C18': ['Sxg', 'Bundle', 'Cert', 'IB', 'Mice'], 'C19': ['Sxg', 'Bundle', 'Cert', 'Mice'], 'C20': ['Sxg', 'Bundle', 'Cert', 'IB', 'Mice', 'GenBundle'],
}


# function-level ties (tools/xlate): which generated packages each property's model rests on
_SXG, _BND = ['FuncsSxgver', 'FuncsMice', 'FuncsSh', 'FuncsCbor'], ['FuncsBundlever', 'FuncsCbor']
FUNC_TIES = {
    'C01': _SXG, 'C02': _SXG, 'C08': _SXG, 'C09': _SXG, 'C03': _BND, 'C04': _BND, 'C05': _BND, 'C06': _BND + ['FuncsMice'], 'C07': ['FuncsCbor'],
    'C10': _SXG + ['FuncsBundlever'], 'C11': ['FuncsCbor'], 'C12': ['FuncsCbor'], 'C13': ['FuncsCbor'], 'C14': ['FuncsMice'], 'C15': ['FuncsMice'], 'C16': ['FuncsSh'],
    'C17': ['FuncsCbor'], 'C18': _SXG + ['FuncsBundlever', 'Purity'], 'C19': _SXG + ['FuncsBundlever'], 'C20': _SXG + ['FuncsBundlever'],
}


def lean_check(pid, tier):
    """returns dict(ok, obligations, discharged, theorems, failures[list of str])"""
    res = dict(ok=True, obligations=0, discharged=0, theorems=[], failures=[], axioms={})
    facts = regenerate_facts()
    # regenerated tie: constants / tables of the Go sources (Gen/Facts.lean) and its pure scalar / dispatch functions translated to
    # Lean (Gen/Funcs<Pkg>.lean), both rewritten above, against the model's definitions
    tie_names = FACT_TIES.get(pid, []) + FUNC_TIES.get(pid, [])
    for part, err in facts.items():
        # a translator refusal concerns only the properties whose ties import that package's module
        if part == 'facts' or ('Funcs' + part[0].upper() + part[1:]) in tie_names or (part == 'purity' and 'Purity' in tie_names):
            res['ok'] = False
            res['failures'].append(f'source translation ({part}): {err}')
    mod = f'WebPkg.Properties.{pid}'
    targets = [mod, 'wpmodel']
    ties = ['WebPkg.Proofs.FactsTie.' + t for t in tie_names]
    res['fact_ties'] = ties
    targets += ties
    r = run(['lake', 'build'] + targets, cwd=LEAN)
    if r.returncode != 0:
        res['ok'] = False
        errs = [l for l in r.stdout.splitlines() if 'error' in l][:8]
        res['failures'].append('lake build failed: ' + ' | '.join(errs))
        return res
    # forbidden tokens in every source file the property module (transitively) imports (comments stripped)
    seen, todo = set(), [mod, 'WebPkg.Driver.Main']
    while todo:
        mname = todo.pop()
        if mname in seen or not mname.startswith('WebPkg'):
            continue
        seen.add(mname)
        fpath = os.path.join(LEAN, *mname.split('.')) + '.lean'
        if not os.path.exists(fpath):
            continue
        src = strip_comments(open(fpath).read())
        for ln in src.splitlines():
            mm = re.match(r'\s*import\s+(\S+)', ln)
            if mm:
                todo.append(mm.group(1))
            fm = FORBIDDEN.search(ln)
            if fm and 'partial' in fm.group(0) and mname.startswith('WebPkg.Driver'):
                fm = None          # the line-protocol driver is glue (IO loops), not part of any theorem
            if fm:
                res['ok'] = False
                res['failures'].append(f'forbidden token in {mname}: {ln.strip()[:80]}')
    res['modules_scanned'] = len(seen)
    # the tie modules: same token scan, and every theorem they state is audited for its axioms
    tie_thms = []
    for tmod in ties:
        fpath = os.path.join(LEAN, *tmod.split('.')) + '.lean'
        src = strip_comments(open(fpath).read())
        ns = re.search(r'^namespace\s+(\S+)', src, re.M)
        for ln in src.splitlines():
            fm = FORBIDDEN.search(ln)
            if fm:
                res['ok'] = False
                res['failures'].append(f'forbidden token in {tmod}: {ln.strip()[:80]}')
            tm = re.match(r'\s*theorem\s+([^\s:({\[]+)', ln)
            if tm and ns:
                tie_thms.append((tmod, ns.group(1) + '.' + tm.group(1)))
    res['tie_obligations'], res['tie_discharged'] = len(tie_thms), 0
    if tie_thms:
        os.makedirs(BUILD, exist_ok=True)
        ta = os.path.join(BUILD, f'tie-audit-{pid}.lean')
        with open(ta, 'w') as f:
            f.write(''.join(f'import {m}\n' for m in dict.fromkeys(m for m, _ in tie_thms)) + ''.join(f'#print axioms {t}\n' for _, t in tie_thms))
        r = run(['lake', 'env', 'lean', ta], cwd=LEAN)
        txt = r.stdout.replace('\n  ', ' ').replace('\n ', ' ')
        okn = 0
        for m in re.finditer(r"'([^']+)' (depends on axioms: \[([^\]]*)\]|does not depend on any axioms)", txt):
            axs = set(a.strip() for a in (m.group(3) or '').split(',') if a.strip())
            if axs <= ALLOWED_AXIOMS:
                okn += 1
            else:
                res['ok'] = False
                res['failures'].append(f'tie theorem {m.group(1)} depends on {sorted(axs - ALLOWED_AXIOMS)}')
        res['tie_discharged'] = okn
        if r.returncode != 0 or okn != len(tie_thms):
            res['ok'] = False
            res['failures'].append(f'tie audit: {okn} of {len(tie_thms)} tie theorems audited: ' + r.stdout[:200])
    audit = os.path.join(LEAN, 'WebPkg', 'Audit', f'{pid}.lean')
    r = run(['lake', 'env', 'lean', audit], cwd=LEAN)
    if r.returncode != 0:
        res['ok'] = False
        res['failures'].append('audit failed: ' + r.stdout[:400])
        return res
    # parse "'name' depends on axioms: [a, b]" / "'name' does not depend on any axioms"
    txt = r.stdout.replace('\n  ', ' ').replace('\n ', ' ')
    for m in re.finditer(r"'([^']+)' (depends on axioms: \[([^\]]*)\]|does not depend on any axioms)", txt):
        name = m.group(1)
        axs = set(a.strip() for a in (m.group(3) or '').split(',') if a.strip())
        res['obligations'] += 1
        res['theorems'].append(name)
        res['axioms'][name] = sorted(axs)
        if axs <= ALLOWED_AXIOMS:
            res['discharged'] += 1
        else:
            res['ok'] = False
            res['failures'].append(f'theorem {name} depends on {sorted(axs - ALLOWED_AXIOMS)}')
    if res['obligations'] == 0:
        res['ok'] = False
        res['failures'].append('audit printed no theorems')
    if tier == 'thorough':
        r = run(['lake', 'env', 'leanchecker', mod], cwd=LEAN)
        res['leanchecker'] = (r.returncode == 0)
        if r.returncode != 0:
            res['ok'] = False
            res['failures'].append('leanchecker: ' + r.stdout[-300:])
    return res


def regenerate_facts():
    """Re-extract constants/tables from /repo into Gen/Facts.lean and re-translate the whitelisted Go functions into
    Gen/Funcs<Pkg>.lean. Returns {part: error text} ('facts' or a package tag of tools/xlate); empty when all went well."""
    ex = os.path.join(ROOT, 'tools', 'extract_facts.py')
    if not os.path.exists(ex):
        return {}
    r = run([sys.executable, ex, REPO, os.path.join(LEAN, 'WebPkg', 'Gen', 'Facts.lean')])
    if r.returncode == 0:
        return {}
    errs = {}
    for piece in r.stdout.split(' | '):
        m = re.match(r'\s*xlate (\w+): (.*)', piece, re.S)
        if m:
            errs[m.group(1)] = m.group(2)[:300]
    return errs or {'facts': r.stdout[-300:]}


# ---------------------------------------------------------------- Go side

_BUILT = []


def build_harness(race=False):
    # one binary per invocation of this script (build/harness.<pid>): checks of several properties may run at the same time, and one of them
    # must never delete or rewrite the file another one is executing
    out = os.path.join(BUILD, ('harness-race' if race else 'harness') + f'.{os.getpid()}')
    os.makedirs(BUILD, exist_ok=True)
    if os.path.exists(out):
        os.remove(out)
    if not _BUILT:
        atexit.register(lambda: [os.path.exists(f) and os.remove(f) for f in _BUILT])
    _BUILT.append(out)
    cmd = [os.path.join(ROOT, 'harness', 'build.sh'), out] + (['-race'] if race else [])
    r = run(cmd, env=GOENV)
    if r.returncode != 0 or not os.path.exists(out):
        return None, r.stdout[-1500:]
    return out, ''


# address-space cap for harness processes (ulimit -v, KiB): a parser that trusts a declared length dies with Go's fatal "out of memory"
# (reported as 'crash') instead of taking the machine down. Set by a shell wrapper, not by preexec_fn: some families start harness
# processes from several threads, where running Python code between fork and exec is not safe.
LIMIT_WRAPPER = ['/bin/sh', '-c', f'ulimit -v {12 << 20}; exec "$0" "$@"']


def run_lines(binary, lines, nproc=8, env=None, timeout=3600):
    """feed numbered op lines to `binary` in nproc parallel processes; returns dict id->result"""
    if not lines:
        return {}
    nproc = max(1, min(nproc, len(lines) // 200 + 1))
    chunks = [[] for _ in range(nproc)]
    for i, l in enumerate(lines):
        chunks[i % nproc].append(l)
    procs = []
    for ch in chunks:
        tf = tempfile.TemporaryFile('w+')
        tf.write('\n'.join(ch) + '\n'); tf.flush(); tf.seek(0)
        p = subprocess.Popen((LIMIT_WRAPPER if env else []) + [binary], stdin=tf, stdout=subprocess.PIPE, stderr=subprocess.PIPE, text=True, env=env)
        procs.append((p, tf))
    res = {}
    for p, tf in procs:
        try:
            out, err = p.communicate(timeout=timeout)
        except subprocess.TimeoutExpired:
            p.kill(); out, err = p.communicate()
        tf.close()
        if not out.endswith('\n'):
            # the process died while writing: its last line is cut short and is not a result (the op counts as missing and is re-run)
            out = out[:out.rfind('\n') + 1]
        for l in out.splitlines():
            sp = l.split(' ', 1)
            if len(sp) == 2:
                res[sp[0]] = sp[1]
    return res


def model_bin():
    return os.path.join(LEAN, '.lake', 'build', 'bin', 'wpmodel')


class Ctx:
    """what a generator module sees: run op lines on the real code, on the model, or on both (compared)"""
    def __init__(self, tier, rng, hbin, model_ok, limit=None):
        self.tier, self.rng, self.hbin, self.model_ok = tier, rng, hbin, model_ok
        self.records = []      # (op, go result, model result) of compared ops
        self.infra = []
        self.confirm_ms = {}   # record -> watchdog (ms) for the confirming re-run of a 'timeout' / 'crash' answer, where the default is too short
        self.full_op = {}      # abbreviated record -> the op line it stands for (Go-only families with very long arguments)
        self.limit = limit
        self.goenv = dict(os.environ, VERIF_OP_TIMEOUT_MS=os.environ.get('VERIF_OP_TIMEOUT_MS', '4000'), GOMEMLIMIT='4GiB')

    def go(self, ops):
        if not self.hbin:
            return [None] * len(ops)
        lines = [f'{k} {op}' for k, op in enumerate(ops)]
        r = run_lines(self.hbin, lines, 16, env=self.goenv)
        # a harness process that died (fatal runtime error, OOM kill) loses the rest of its chunk: re-run what is missing,
        # finally one op per process; an op that kills its own process is reported as 'crash'
        for rnd in range(4):
            missing = [k for k in range(len(ops)) if str(k) not in r]
            if not missing:
                break
            if rnd < 3 and len(missing) > 32:
                r.update(run_lines(self.hbin, [lines[k] for k in missing], 16, env=self.goenv))
            else:
                for k in missing[:256]:
                    r.update(run_lines(self.hbin, [lines[k]], 1, env=self.goenv, timeout=120))
                    if str(k) not in r:
                        r[str(k)] = 'crash'
                break
        return [r.get(str(k)) for k in range(len(ops))]

    def model(self, ops):
        if not self.model_ok:
            return [None] * len(ops)
        lines = [f'{k} {op}' for k, op in enumerate(ops)]
        r = run_lines(model_bin(), lines, 16)
        # a driver process that died loses the rest of its chunk: what is missing is run again, at the end one op per process
        missing = [k for k in range(len(ops)) if str(k) not in r]
        if len(missing) > 32:
            r.update(run_lines(model_bin(), [lines[k] for k in missing], 16))
            missing = [k for k in missing if str(k) not in r]
        for k in missing[:64]:
            r.update(run_lines(model_bin(), [lines[k]], 1, timeout=600))
        return [r.get(str(k)) for k in range(len(ops))]

    def go_race(self, ops, timeout=1800):
        """run ops in ONE process of the -race build; returns (results, race report text or '')"""
        rb, err = build_harness(race=True)
        if not rb:
            self.infra.append('race build failed: ' + err[-300:])
            return [None] * len(ops), ''
        tf = tempfile.TemporaryFile('w+')
        tf.write('\n'.join(f'{k} {op}' for k, op in enumerate(ops)) + '\n'); tf.flush(); tf.seek(0)
        env = dict(self.goenv, GORACE='halt_on_error=0', VERIF_OP_TIMEOUT_MS='120000')
        p = subprocess.run([rb], stdin=tf, stdout=subprocess.PIPE, stderr=subprocess.PIPE, text=True, env=env, timeout=timeout)
        res = {}
        for l in p.stdout.splitlines():
            sp = l.split(' ', 1)
            if len(sp) == 2: res[sp[0]] = sp[1]
        race = p.stderr if 'DATA RACE' in p.stderr else ''
        return [res.get(str(k)) for k in range(len(ops))], race

    def both(self, ops):
        ops = list(ops)
        g, m = self.go(ops), self.model(ops)
        self.records.extend(zip(ops, g, m))
        return g, m


# ---------------------------------------------------------------- known findings

def load_known():
    kf = os.path.join(ROOT, 'KNOWN_FINDINGS.txt')
    openf = []
    if os.path.exists(kf):
        for l in open(kf):
            l = l.strip()
            if l.startswith('open:'):
                m = re.match(r'open:\s+property=(\S+)\s+op=\[(.*?)\]\s+(.*)', l)
                if m:
                    openf.append((m.group(1), m.group(2).strip(), m.group(3)))
    return openf


# ---------------------------------------------------------------- main flow

RESOURCE_OUTCOMES = ('timeout', 'crash')


def confirm_resource_outcomes(pid, gen, hbin, ctx, disagreements, notes):
    """A harness answer 'timeout' (the per-op watchdog) or 'crash' (the process died) says that the op did not finish THERE AND THEN: on a
    machine that is busy, short of memory or freshly restored that happens to code that is fine. Before such an answer counts, the op is run
    again alone (nothing else running, a fresh process) under ten times the watchdog. Code that hangs, blows up or dies on that input does so
    again and is reported. The re-run can only CLEAR the outcome, and only when the op now completes with exactly the expected answer; in
    every other case the original record stands. Only these two outcomes are re-run: a value that differs is never given a second chance
    (state leaking between the ops of one process is a violation of its own)."""
    out, confirmed = [], 0
    base = int(ctx.goenv.get('VERIF_OP_TIMEOUT_MS', '4000'))
    long_ms = max(10 * base, 60000)
    env = dict(ctx.goenv, VERIF_OP_TIMEOUT_MS=str(long_ms))
    t0 = time.time()
    for op, g, m in disagreements:
        # bounded: after three confirmed outcomes, or four minutes, whatever is left stands as it is (it is reported, not cleared)
        if g not in RESOURCE_OUTCOMES or confirmed >= 3 or time.time() - t0 > 240:
            out.append((op, g, m)); continue
        full = ctx.full_op.get(op, op)          # families that record an abbreviated op line keep the real one here
        ms = max(long_ms, ctx.confirm_ms.get(op, 0))          # families moving tens of MiB per op ask for more
        g2 = run_lines(hbin, ['0 ' + full], 1, env=dict(env, VERIF_OP_TIMEOUT_MS=str(ms)), timeout=ms / 1000 + 60).get('0', 'crash')
        if g2 not in RESOURCE_OUTCOMES and g2 != 'bad-op' and gen.agree(op, g2, m):
            notes.append(f'{g} not confirmed (run alone under a {ms // 1000} s watchdog the op completes with the expected answer): {op[:160]}')
            log(f'[{pid}] {notes[-1]}')
            continue
        if g2 in RESOURCE_OUTCOMES:
            confirmed += 1
        out.append((op, g, m))
    return out


def write_replay(pid, payload):
    d = os.path.join(ROOT, 'replays')
    os.makedirs(d, exist_ok=True)
    h = hashlib.sha1(json.dumps(payload, sort_keys=True).encode()).hexdigest()[:12]
    p = os.path.join(d, f'{pid}-{h}.json')
    json.dump(payload, open(p, 'w'), indent=1)
    return p


def shrink(pid, gen, op, hbin, gores, mres):
    """greedy shrinking of hex arguments while the two sides still disagree"""
    def disagree(o):
        g = run_lines(hbin, ['0 ' + o], 1).get('0', 'crash')
        m = run_lines(model_bin(), ['0 ' + o], 1).get('0', 'crash')
        if m in ('bad-op', 'crash') or g == 'bad-op':
            return None
        return (g, m) if not gen.agree(o, g, m) else None
    cur = op
    budget = 60
    improved = True
    while improved and budget > 0:
        improved = False
        toks = cur.split(' ')
        for i, t in enumerate(toks):
            if budget <= 0: break
            if re.fullmatch(r'[0-9a-f]{4,}', t):
                for cand in (t[:len(t) // 2 - (len(t) // 2) % 2], t[:-2], t[2:]):
                    if not cand: cand = '-'
                    o = ' '.join(toks[:i] + [cand] + toks[i + 1:])
                    budget -= 1
                    d = disagree(o)
                    if d:
                        cur, gores, mres = o, d[0], d[1]
                        improved = True
                        break
                if improved: break
    return cur, gores, mres


def main():
    args = sys.argv[1:]
    if not args:
        print(__doc__); sys.exit(2)
    pid = args[0]
    tier = os.environ.get('VERIF_TIER', 'quick')
    replay = None
    i = 1
    while i < len(args):
        if args[i] == '--tier': tier = args[i + 1]; i += 2
        elif args[i] == '--replay': replay = args[i + 1]; i += 2
        else: i += 1
    seed = int(os.environ.get('VERIF_SEED', '20260928'))
    t0 = time.time()
    gen = importlib.import_module(pid.lower())
    violations = []      # (replay_path, suffix)
    known_hits = []

    if replay:
        rp = json.load(open(replay))
        hbin, err = build_harness()
        run(['lake', 'build', 'wpmodel'], cwd=LEAN)
        still = False
        for op in rp.get('ops', []):
            g = run_lines(hbin, ['0 ' + op], 1).get('0', 'crash') if hbin else 'harness-build-failed'
            m = run_lines(model_bin(), ['0 ' + op], 1).get('0', 'crash')
            if g == 'bad-op' and m == 'bad-op':
                # a derived record (a comparison the generator makes between several ops / tool runs), not a single op of the line protocol
                print(f'record: {op[:300]}\n  recorded: real code [{str(rp.get("go"))[:200]}] expected [{str(rp.get("model"))[:200]}]\n'
                      f'  re-run it with: VERIF_SEED={rp.get("seed")} ./check.py {pid} --tier {rp.get("tier", "quick")}')
                continue
            ok = gen.agree(op, g, m)
            still = still or not ok
            print(f'op: {op[:300]}\n  go:    {g[:300]}\n  model: {m[:300]}\n  agree: {ok}')
        if not rp.get('ops'):
            print('no op recorded (broken proof obligation / tie): ' + str(rp.get('broken'))[:600])
        sys.exit(1 if still else 0)

    # 1. theorems
    lean = lean_check(pid, tier)
    log(f'[{pid}] lean: ok={lean["ok"]} obligations={lean["obligations"]} discharged={lean["discharged"]} {lean["failures"][:3]}')

    # 2. harness
    hbin, herr = build_harness()
    if not hbin:
        log(f'[{pid}] harness build failed:\n{herr}')

    # 3. correspondence
    rng = random.Random(seed)
    model_ok = os.path.exists(model_bin())
    ctx = Ctx(tier, rng, hbin, model_ok)
    corpus_dir = os.path.join(ROOT, 'corpus', pid)
    corpus = []
    if os.path.isdir(corpus_dir):
        for f in sorted(os.listdir(corpus_dir)):
            for l in open(os.path.join(corpus_dir, f)):
                l = l.strip()
                if l and not l.startswith('#'):
                    corpus.append(l)
    if corpus:
        # ops of a family that moves tens of MiB per op (SLOW_OPS of the generator module: op name -> watchdog in ms) run under that family's
        # watchdog here too, not under the default one
        slow = getattr(gen, 'SLOW_OPS', {})
        ctx.both([l for l in corpus if l.split(' ')[0] not in slow])
        for name, ms in slow.items():
            sel = [l for l in corpus if l.split(' ')[0] == name]
            if sel:
                goenv = ctx.goenv
                ctx.goenv = dict(goenv, VERIF_OP_TIMEOUT_MS=str(max(ms, int(goenv.get('VERIF_OP_TIMEOUT_MS', '4000')))))
                try:
                    ctx.both(sel)
                finally:
                    ctx.goenv = goenv
                for l in sel:
                    ctx.confirm_ms[l] = 10 * ms
    def one_pass():
        if hasattr(gen, 'run'):
            gen.run(ctx)
        else:
            ctx.both(list(gen.generate(tier, ctx.rng)))
    one_pass()
    passes = 1
    if tier == 'thorough':
        # cheap checks get further passes with fresh random streams (seed+1, seed+2, ...) until the time budget is used up: the deterministic
        # families repeat (harmless), the random parts explore new inputs
        budget = float(os.environ.get('VERIF_THOROUGH_BUDGET_S', '150'))
        while passes < int(os.environ.get('VERIF_THOROUGH_PASSES', '6')) and time.time() - t0 < budget:
            ctx.rng = random.Random(seed + passes)
            one_pass()
            passes += 1
    ops = [r[0] for r in ctx.records]
    infra = list(ctx.infra)
    disagreements = []
    notes = []
    classes = {}
    distinct = set()
    for op, g, m in ctx.records:
        if model_ok and (m is None or m == 'bad-op'):
            infra.append(f'model driver gave {m!r} for op {op[:120]}')
            continue
        if hbin and g is None:
            g = 'crash'
        if hbin and g == 'bad-op':
            infra.append(f'harness gave bad-op for {op[:120]}')
            continue
        if m is not None:
            cls = gen.classify(op, m)
            classes[cls] = classes.get(cls, 0) + 1
            if gen.nontrivial(op, m):
                distinct.add(hashlib.sha1(op.encode()).digest()[:8])
        if hbin and model_ok and not gen.agree(op, g, m):
            disagreements.append((op, g, m))
    if disagreements and hbin:
        disagreements = confirm_resource_outcomes(pid, gen, hbin, ctx, disagreements, notes)
    known = load_known()
    for op, g, m in disagreements[:]:
        site = gen.finding_site(op, g, m) if hasattr(gen, 'finding_site') else None
        for kp, kop, what in known:
            if kp == pid and (kop == op or (site is not None and kop == 'site:' + site)):
                known_hits.append((op, what))
                disagreements.remove((op, g, m))
                break
    for what in dict.fromkeys(w for _, w in known_hits):
        print(f'KNOWN-FINDING: property={pid} {what}')

    if infra and not disagreements and lean['ok'] and hbin:
        log(f'[{pid}] infrastructure problems: {infra[:3]}')
        write_evidence(pid, tier, seed, lean, ops, classes, distinct, 0, t0, gen, extra={'infrastructure': infra[:5]})
        sys.exit(2)

    # 4. verdicts
    seen_sig = set()
    for op, g, m in disagreements:
        sig = gen.signature(op, g, m)
        if sig in seen_sig:
            continue
        seen_sig.add(sig)
        if len(seen_sig) > 5:
            break
        sop, sg, sm = shrink(pid, gen, op, hbin, g, m)
        p = write_replay(pid, dict(property=pid, kind='correspondence-disagreement', ops=[sop], original_op=op, go=sg, model=sm,
                                   seed=seed, tier=tier, theorem=(lean.get('theorems') or gen.THEOREMS),
                                   explanation=gen.explain(sop, sg, sm)))
        violations.append((p, ''))
        log(f'[{pid}] disagreement: op [{sop[:300]}] real code [{sg[:200]}] model [{sm[:200]}]')
    if not lean['ok'] or not hbin:
        what = lean['failures'] if not lean['ok'] else ['correspondence harness no longer compiles against /repo: ' + herr[-600:]]
        if not violations:
            # directed search: thorough generators with another seed
            found = False
            if hbin and model_ok:
                ctx2 = Ctx('thorough', random.Random(seed + 1), hbin, model_ok, limit=200000)
                if hasattr(gen, 'run'):
                    gen.run(ctx2)
                else:
                    ctx2.both(list(itertools.islice(gen.generate('thorough', ctx2.rng), 200000)))
                for op, g, m in ctx2.records:
                    if m is None or m == 'bad-op' or g == 'bad-op': continue
                    if g is None: g = 'crash'
                    if not gen.agree(op, g, m) and not any(kp == pid and kop == op for kp, kop, _ in known):
                        p = write_replay(pid, dict(property=pid, kind='correspondence-disagreement', ops=[op], go=g, model=m, seed=seed + 1,
                                                   broken=what, theorem=(lean.get('theorems') or gen.THEOREMS), explanation=gen.explain(op, g, m)))
                        violations.append((p, '')); found = True
                        break
            if not found:
                p = write_replay(pid, dict(property=pid, kind='obligation-broken', broken=what, theorem=(lean.get('theorems') or gen.THEOREMS), ops=[],
                                           note='no concrete failing input found by the directed search'))
                violations.append((p, ' no-failing-input-found'))
    write_evidence(pid, tier, seed, lean, ops, classes, distinct, len(violations), t0, gen,
                   extra={'disagreements_checked': len(disagreements), 'known_findings_hit': len(known_hits), 'corpus_ops': len(corpus), 'generator_passes': passes,
                          'resource_outcomes_not_confirmed': notes[:20]})
    for p, suffix in violations:
        print(f'VIOLATION property={pid} replay={p}{suffix}')
    sys.exit(1 if violations else 0)


def write_evidence(pid, tier, seed, lean, ops, classes, distinct, nviol, t0, gen, extra=None):
    os.makedirs(os.path.join(ROOT, 'evidence'), exist_ok=True)
    if not lean['obligations']:
        # the Lean build or audit did not get as far as printing the theorems: the obligations are still those of Audit/<id>.lean, none discharged
        try:
            lean = dict(lean, obligations=max(1, len(re.findall(r'^#print axioms', open(os.path.join(LEAN, 'WebPkg', 'Audit', f'{pid}.lean')).read(), re.M))))
        except OSError:
            lean = dict(lean, obligations=1)
    cov = {
        'obligations': lean['obligations'],
        'discharged': lean['discharged'],
        'checker_cmd': f'cd lean && lake build WebPkg.Properties.{pid} && lake env lean WebPkg/Audit/{pid}.lean' + (f' && lake env leanchecker WebPkg.Properties.{pid}' if tier == 'thorough' else ''),
        'trusted_base': ['Lean 4.33.0 kernel', 'axioms: propext, Classical.choice, Quot.sound (per theorem in axioms_per_theorem)',
                         'correspondence check (Go harness + Lean driver + generators) tying the hand-written model to /repo',
                         'fact extractor tools/extract (go/ast) regenerating Gen/Facts.lean from /repo on every run; Proofs/FactsTie/*.lean ties the model constants to it',
                         ] + gen.TRUSTED,
        'regenerated_fact_ties': lean.get('fact_ties', []),
        'tie_theorems': {'stated': lean.get('tie_obligations', 0), 'axiom_audited': lean.get('tie_discharged', 0)},
        'theorems': lean['theorems'],
        'axioms_per_theorem': lean['axioms'],
        'proof_failures': lean['failures'],
        'evaluations': len(ops),
        'distinct_nontrivial': len(distinct),
        'rule': gen.RULE,
        'samples': ops[:3] + ops[len(ops) // 2: len(ops) // 2 + 3],
        'outcome_classes': classes,
        'exhaustive': bool(getattr(gen, 'EXHAUSTIVE', {}).get(tier)),
        'exhaustive_space': getattr(gen, 'EXHAUSTIVE', {}).get(tier, ''),
    }
    if 'leanchecker' in lean:
        cov['leanchecker_ok'] = lean['leanchecker']
    if extra:
        cov.update(extra)
    ev = {
        'property_id': pid, 'tier': tier, 'seed': seed, 'level': 'proof', 'coverage': cov,
        'assumptions': gen.ASSUMPTIONS, 'wall_s': round(time.time() - t0, 2), 'violations': nviol,
    }
    json.dump(_clip(ev), open(os.path.join(ROOT, 'evidence', f'{pid}.json'), 'w'), indent=1)


def _clip(o, n=400):
    """evidence is a summary: long op lines / hex strings are cut (length kept), outcome classes whose names contain whole inputs are merged by
    their clipped name"""
    if isinstance(o, str):
        return o if len(o) <= n else o[:n] + f'...({len(o)} chars)'
    if isinstance(o, list):
        return [_clip(x, n) for x in o]
    if isinstance(o, dict):
        out = {}
        for k, v in o.items():
            k2 = k if not isinstance(k, str) or len(k) <= 120 else k[:120] + '...'
            v2 = _clip(v, n)
            if k2 in out and isinstance(out[k2], (int, float)) and isinstance(v2, (int, float)):
                out[k2] += v2
            else:
                out[k2] = v2
        return out
    return o


if __name__ == '__main__':
    main()
