"""Helpers for the bundle properties (C03, C04, C05, C06): bundles in op-line form, staged read pipeline."""
from common import *
from sxglib import H, unhex, canon, hdrs, add, setup as sxg_setup, oracle_tables

URLS = [b'https://example.com/', b'https://example.com/index.html', b'https://example.com:8443/a/b', b'https://example.com/p%20q?x=1&y=%2F',
        b'https://example.com/%E3%81%82', b'/relative/path', b'rel/x?y', b'https://example.com/a?q', b'http://other.example/', b'https://example.com/very/long/' + b'x' * 40,
        b'https://example.com/a', b'https://example.com/b', b'https://example.com/c', b'?onlyquery', b'', b'https://Example.COM/Mixed', b'https://example.com', b'https://example.com:8443', b'https://example.com?lang=en']
HNAMES = [b'content-type', b'content-length', b'x-a', b'etag', b'cache-control', b'vary', b'x-long-header-name-for-testing', b'link']


def rand_resp(rng, blen=None):
    status = rng.choice([200, 200, 404, 100, 999, 301, 599])
    d = []
    for _ in range(rng.randrange(0, 4)):
        name = rng.choice(HNAMES)
        v = bytes(rng.choice(b'abc xyz-;=/,"\t') for _ in range(rng.choice([0, 1, 5, 23, 24, 30])))
        add(d, name, v)
        if rng.random() < 0.2: add(d, name, b'two')
    if rng.random() < 0.25:     # a hand-made http.Header: keys stored as spelled, not in Go's canonical MIME form
        raw = rng.choice([b'ETag', b'WWW-Authenticate', b'x-request-id', b'content-language', b'DNT', b'X-a', b'CONTENT-TYPE'])
        if all(n != raw for n, _ in d):
            d.append((raw, [b'raw-' + raw] + ([b'second'] if rng.random() < 0.3 else [])))
    if blen is None:
        blen = rng.choice([0, 1, 22, 23, 24, 25, 254, 255, 256, 257, 1000])
    return status, d, rbytes(rng, blen)


def exch(url, status, headers, body):
    return f'{hexs(url)}~{status}~{hdrs(headers)}~{hexs(body)}'


def bundle(ver, primary, manifest, sigs, exchanges):
    return ' '.join([ver, 'nil' if primary is None else hexs(primary), 'nil' if manifest is None else hexs(manifest), sigs or 'nil', ','.join(exchanges) or '.'])


def rand_bundle(rng, ver, w=None, nex=None, urls=None):
    urls = urls or URLS
    n = rng.randrange(0, 5) if nex is None else nex
    us = rng.sample(urls, min(n, len(urls)))
    exs = [exch(u, *rand_resp(rng)) for u in us]
    primary = None
    if ver == 'b1':
        primary = rng.choice([b'https://example.com/', b'https://example.com/index.html'] + us) if rng.random() < 0.9 or True else None
    elif rng.random() < 0.5:
        primary = rng.choice([b'https://example.com/', b'https://example.com/a'])
    manifest = b'https://example.com/manifest.json' if (ver == 'b1' and rng.random() < 0.4) else None
    sigs = None
    if w is not None and rng.random() < 0.3:
        k = rng.choice(w.keys)
        auth = f'{k["cert"]}:{hexs(b"ocsp")}:nil'
        subs = '+'.join(f'{rng.randrange(0, 3)}:{hexs(rbytes(rng, 8))}:{hexs(rbytes(rng, 20))}' for _ in range(rng.randrange(0, 3))) or '.'
        sigs = f'{auth}/{subs}'
    return bundle(ver, primary, manifest, sigs, exs)


def variants_group(rng, url, axes):
    """exchanges for all key combinations of `axes` = [(header, [values])]: Variants / Variant-Key headers set"""
    import itertools
    vhdr = b', '.join(name + b''.join(b';' + v for v in vals) for name, vals in axes)
    out = []
    for combo in itertools.product(*[vals for _, vals in axes]):
        hs = []
        add(hs, b'variants', vhdr)
        add(hs, b'variant-key', b';'.join(combo))
        out.append((exch(url, 200, hs, b'body-' + b'-'.join(combo)), combo))
    return out


def burl_tables(ctx, need_lists):
    urlq, certq = set(), set()
    for needs in need_lists:
        for q in needs:
            p = q.split(':')
            if p[0] == 'burl': urlq.add(p[1])
            elif p[0] == 'cert': certq.add(p[1])
    urlq, certq = sorted(urlq), sorted(certq)
    ures = ctx.go([f'oracle.burl {u}' for u in urlq])
    cres = ctx.go([f'oracle.cert {c}' for c in certq])
    umap = {u: f'{u}:{r}' for u, r in zip(urlq, ures)}
    cmap = {c: f'{H(c)}:{r}' for c, r in zip(certq, cres)}
    out = []
    for needs in need_lists:
        us, cs = [], []
        for q in needs:
            p = q.split(':')
            if p[0] == 'burl' and umap[p[1]] not in us: us.append(umap[p[1]])
            elif p[0] == 'cert' and cmap[p[1]] not in cs: cs.append(cmap[p[1]])
        out.append((','.join(us) or '.', ','.join(cs) or '.'))
    return out


def read_stage(ctx, files, op='bundle.read'):
    """op: 'bundle.read' (bytes.Reader) or 'bundle.read.buffer' (caller-owned *bytes.Buffer, overwritten before the result is printed)"""
    if not files:
        return [], []
    needs = ctx.model([f'bundle.read.needs {f}' for f in files])
    need_lists = [[q for q in (n or '').split(' ') if ':' in q] for n in needs]
    tabs = burl_tables(ctx, need_lists)
    return ctx.both([f'{op} {f} {u} {c}' for f, (u, c) in zip(files, tabs)])


# ---------------------------------------------------------------- hand-assembled b2 bundles (python CBOR, only to build inputs)
def _head(major, n):
    if n < 24: return bytes([major << 5 | n])
    if n < 1 << 8: return bytes([major << 5 | 24, n])
    if n < 1 << 16: return bytes([major << 5 | 25]) + n.to_bytes(2, 'big')
    if n < 1 << 32: return bytes([major << 5 | 26]) + n.to_bytes(4, 'big')
    return bytes([major << 5 | 27]) + n.to_bytes(8, 'big')


def _bstr(b): return _head(2, len(b)) + b
def _tstr(b): return _head(3, len(b)) + b


def craft_response(pairs, body, count=None):
    """[headers, payload] with the header map written exactly as given: `pairs` in order, duplicates / any case allowed"""
    hdr = _head(5, len(pairs) if count is None else count) + b''.join(_bstr(k) + _bstr(v) for k, v in pairs)
    return b'\x82' + _bstr(hdr) + _bstr(body)


def craft_b2(entries, primary=None):
    """entries: [(url bytes, response bytes)]; responses laid out in order, index in the given order"""
    offs, blob = [], b''
    for u, r in entries:
        offs.append((len(_head(4, len(entries))) + len(blob), len(r))); blob += r
    responses = _head(4, len(entries)) + blob
    idx = _head(5, len(entries)) + b''.join(_tstr(u) + _head(4, 2) + _head(0, o) + _head(0, l) for (u, r), (o, l) in zip(entries, offs))
    secs = [(b'index', idx)] + ([(b'primary', _tstr(primary))] if primary else []) + [(b'responses', responses)]
    sl = _head(4, 2 * len(secs)) + b''.join(_tstr(n) + _head(0, len(b)) for n, b in secs)
    b = bytes([0x85, 0x48, 0xf0, 0x9f, 0x8c, 0x90, 0xf0, 0x9f, 0x93, 0xa6, 0x44]) + b'b2\0\0' + _bstr(sl) + _head(4, len(secs)) + b''.join(b for n, b in secs)
    return b + b'\x48' + (len(b) + 9).to_bytes(8, 'big')



def craft_b1(entries, primary=b'https://example.com/'):
    """b1 bundle built by hand. entries: [(url, variants-value bytes, [response bytes ...], nlocs or None)]: the index value array is
    [variants-value, (offset, length) x nlocs]; nlocs=None -> one location per response; a smaller number leaves responses unlisted"""
    nresp = sum(len(rs) for _, _, rs, _ in entries)
    blob, idxents = b'', []
    for u, vv, rs, nlocs in entries:
        locs = []
        for r in rs:
            locs.append((len(_head(4, nresp)) + len(blob), len(r))); blob += r
        if nlocs is not None: locs = locs[:nlocs]
        idxents.append(_tstr(u) + _head(4, 1 + 2 * len(locs)) + _bstr(vv) + b''.join(_head(0, o) + _head(0, l) for o, l in locs))
    responses = _head(4, nresp) + blob
    idx = _head(5, len(entries)) + b''.join(idxents)
    secs = [(b'index', idx), (b'responses', responses)]
    sl = _head(4, 2 * len(secs)) + b''.join(_tstr(n) + _head(0, len(b)) for n, b in secs)
    b = bytes([0x86, 0x48, 0xf0, 0x9f, 0x8c, 0x90, 0xf0, 0x9f, 0x93, 0xa6, 0x44]) + b'b1\0\0' + _tstr(primary) + _bstr(sl) + _head(4, len(secs)) + b''.join(b for n, b in secs)
    return b + b'\x48' + (len(b) + 9).to_bytes(8, 'big')
