"""Helpers for the bundle properties (C03, C04, C05, C06): bundles in op-line form, staged read pipeline."""
from common import *
from sxglib import H, unhex, canon, hdrs, add, setup as sxg_setup, oracle_tables

URLS = [b'https://example.com/', b'https://example.com/index.html', b'https://example.com:8443/a/b', b'https://example.com/p%20q?x=1&y=%2F',
        b'https://example.com/%E3%81%82', b'/relative/path', b'rel/x?y', b'https://example.com/a?q', b'http://other.example/', b'https://example.com/very/long/' + b'x' * 40,
        b'https://example.com/a', b'https://example.com/b', b'https://example.com/c', b'?onlyquery', b'']
HNAMES = [b'content-type', b'content-length', b'x-a', b'etag', b'cache-control', b'vary', b'x-long-header-name-for-testing', b'link']


def rand_resp(rng, blen=None):
    status = rng.choice([200, 200, 404, 100, 999, 301, 599])
    d = []
    for _ in range(rng.randrange(0, 4)):
        name = rng.choice(HNAMES)
        v = bytes(rng.choice(b'abc xyz-;=/,"\t') for _ in range(rng.choice([0, 1, 5, 23, 24, 30])))
        add(d, name, v)
        if rng.random() < 0.2: add(d, name, b'two')
    if blen is None:
        blen = rng.choice([0, 1, 22, 23, 24, 25, 254, 255, 256, 257, 1000])
    return status, d, rbytes(rng, blen)


def exch(url, status, headers, body):
    return f'{hexs(url)}~{status}~{hdrs(headers)}~{hexs(body)}'


def bundle(ver, primary, manifest, sigs, exchanges):
    return ' '.join([ver, 'nil' if primary is None else hexs(primary), 'nil' if manifest is None else hexs(manifest), sigs or 'nil', ','.join(exchanges) or '.'])


def rand_bundle(rng, ver, w=None, nex=None, urls=None):
    urls = urls or URLS
    n = rng.randrange(0, 5) if nex is None else nex
    us = rng.sample(urls, min(n, len(urls)))
    exs = [exch(u, *rand_resp(rng)) for u in us]
    primary = None
    if ver == 'b1':
        primary = rng.choice([b'https://example.com/', b'https://example.com/index.html'] + us) if rng.random() < 0.9 or True else None
    elif rng.random() < 0.5:
        primary = rng.choice([b'https://example.com/', b'https://example.com/a'])
    manifest = b'https://example.com/manifest.json' if (ver == 'b1' and rng.random() < 0.4) else None
    sigs = None
    if w is not None and rng.random() < 0.3:
        k = rng.choice(w.keys)
        auth = f'{k["cert"]}:{hexs(b"ocsp")}:nil'
        subs = '+'.join(f'{rng.randrange(0, 3)}:{hexs(rbytes(rng, 8))}:{hexs(rbytes(rng, 20))}' for _ in range(rng.randrange(0, 3))) or '.'
        sigs = f'{auth}/{subs}'
    return bundle(ver, primary, manifest, sigs, exs)


def variants_group(rng, url, axes):
    """exchanges for all key combinations of `axes` = [(header, [values])]: Variants / Variant-Key headers set"""
    import itertools
    vhdr = b', '.join(name + b''.join(b';' + v for v in vals) for name, vals in axes)
    out = []
    for combo in itertools.product(*[vals for _, vals in axes]):
        hs = []
        add(hs, b'variants', vhdr)
        add(hs, b'variant-key', b';'.join(combo))
        out.append((exch(url, 200, hs, b'body-' + b'-'.join(combo)), combo))
    return out


def burl_tables(ctx, need_lists):
    urlq, certq = set(), set()
    for needs in need_lists:
        for q in needs:
            p = q.split(':')
            if p[0] == 'burl': urlq.add(p[1])
            elif p[0] == 'cert': certq.add(p[1])
    urlq, certq = sorted(urlq), sorted(certq)
    ures = ctx.go([f'oracle.burl {u}' for u in urlq])
    cres = ctx.go([f'oracle.cert {c}' for c in certq])
    umap = {u: f'{u}:{r}' for u, r in zip(urlq, ures)}
    cmap = {c: f'{H(c)}:{r}' for c, r in zip(certq, cres)}
    out = []
    for needs in need_lists:
        us, cs = [], []
        for q in needs:
            p = q.split(':')
            if p[0] == 'burl' and umap[p[1]] not in us: us.append(umap[p[1]])
            elif p[0] == 'cert' and cmap[p[1]] not in cs: cs.append(cmap[p[1]])
        out.append((','.join(us) or '.', ','.join(cs) or '.'))
    return out


def read_stage(ctx, files):
    if not files:
        return [], []
    needs = ctx.model([f'bundle.read.needs {f}' for f in files])
    need_lists = [[q for q in (n or '').split(' ') if ':' in q] for n in needs]
    tabs = burl_tables(ctx, need_lists)
    return ctx.both([f'bundle.read {f} {u} {c}' for f, (u, c) in zip(files, tabs)])
