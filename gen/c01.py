from common import *
from sxglib import *
import re

THEOREMS = ['C01.verify_checked', 'C01.signedMessage_injective', 'C01.verify_sound_euf', 'C15.decodeAll_sound (payload)']
TRUSTED = ['ECDSA unforgeability appears only as the explicit hypothesis hEUF of C01.verify_sound_euf; SHA-256 collision resistance only as the disjunct Collision H',
           'independent strict-DER + stdlib ecdsa.Verify oracle in the harness decides every signature verdict the model uses (so a verifier that builds another message, skips cert-sha256 or tolerates trailing signature bytes disagrees)',
           'Go stdlib crypto/x509, net/url, encoding/asn1']
ASSUMPTIONS = ['certificate path validation is out of scope of Exchange.Verify (TODO in the code): "the key holder" = holder of the key in the fetched leaf certificate']
RULE = ('honest signed exchanges (3 versions x P-256/P-384 x record sizes x payload lengths) and mutants: every bit of the serialized file for small files (quick: sampled 300 bits/file; thorough: all bits), '
        'byte insert/delete/truncate at sampled offsets, every semantic field edited in memory, every Signature parameter edited/removed/duplicated, trailing bytes on sig, foreign certificate / foreign key, '
        'verification times around the window; windows a whole number of wrap periods (2^64 / 2^63 ns, 2^64 us / ms, 2^31 / 2^32 s) away from the verification instant and windows across those overflow points; '
        'header maps that cannot be encoded (case-colliding keys, pseudo-header keys, either map or both): every serialisation refuses, and whatever the library agrees to sign is verified with its request fields edited; '
        'compared: ReadExchange result and Exchange.Verify verdict + payload; non-trivial = mutant (not the honest artifact)')
EXHAUSTIVE = {}

signature = Base.signature; explain = Base.explain


def agree(op, g, m):
    # 'ood': the model declares the input outside its domain (non-ASCII header name: Go applies Unicode case mapping)
    return m == 'ood' or g == m



def nontrivial(op, m):
    return True


def classify(op, m):
    t = op.split(' ')
    return f'{t[0]}:{m.split(" ")[0]}'


def wrapped_windows(ctx, k, certurl, vurl):
    """'t lies inside the signed [date, expires] window', for windows that are a whole number of WRAP PERIODS away from t: an instant kept
    as int64 / uint64 nanoseconds (UnixNano), micro- or milliseconds, or as 32-bit seconds, wraps, and a window signed for t + period lands
    on t again (date * 1e9 mod 2^64 <= t_ns <= expires * 1e9 mod 2^64). Independent far-away dates never hit the 7-day-wide sliver, so the
    dates are computed from the verification instant. Also windows that straddle the points where such a representation overflows.
    Signed by the real code (Go only), verified by both sides."""
    NS = 10**9
    t_sec = 1517418800 + 1800
    instants = [(t_sec, 0), (t_sec, 500000000), (t_sec, 999999999)]
    periods = [2**64, 2 * 2**64, 3 * 2**64, 2**63, 2**32 * NS, 2**31 * NS, 2**64 * 1000, 2**64 * 10**6, 2**32 * 1000 * NS]
    ops, meta = [], []

    def sign(ver, d, x, times):
        e = ex(ver, b'https://example.com/', b'GET', [(b'Accept', [b'*/*'])] if ver != 'b3' else [], 200, [(b'Content-Type', [b'text/html'])], b'', b'signed for another era')
        ops.append(f'sxg.sign {exs(e)} 16 {k["cert"]} {k["key"]} {hexs(certurl)} {hexs(vurl)} {d} {x}')
        meta.append(times)
    for ver in VERS:
        for P in periods:
            for sgn in (1, -1):
                off = -((-sgn * P) // NS)          # ceil(sgn * P / 1e9): (d + off) * 1e9 = d * 1e9 + sgn * P + (less than a second)
                # t just inside the start of the aliased window, just inside its end, in the middle of a maximal one
                for life, back in ((3600, 1), (3600, 3600), (604800, 302400)):
                    d = t_sec - back + off
                    if not -2**63 <= d < 2**63 - life: continue
                    sign(ver, d, d + life, instants + [(d, 0), (d + life, 0)])
        # windows across the points where seconds * 1e9 leaves int64 / uint64, where seconds leave 31 / 32 bits, and across the epoch
        for B in (9223372036, 9223372037, -9223372037, 18446744073, 18446744074, 2**31, 2**32, 0):
            sign(ver, B - 5, B + 5, [(B - 5, 0), (B - 1, 999999999), (B, 0), (B, 999999999), (B + 1, 0), (B + 5, 0), (B + 5, 1), (B - 6, 999999999), (t_sec, 0)])
    items = []
    for r, times in zip(ctx.go(ops), meta):
        se = parse_ex(r) if r else None
        if not se: continue        # the signer may refuse a date (e.g. a negative one); nothing to verify then
        for t in times:
            if -2**62 < t[0] < 2**62:
                items.append((se, t, {certurl: k['chain']}))
    verify_stage(ctx, items)


def unencodable_request_maps(ctx, rng, k, certurl, vurl, date, expires, t_ok):
    """Exchanges whose header maps CANNOT be encoded (two keys equal after lower-casing, or a key equal to a pseudo header), built the way
    a caller builds them (map literal / direct assignment, no canonicalisation): every serialisation of the signed headers must refuse
    (sxg.hdr / sxg.msg / sxg.write, compared), and IF the library agrees to sign one, the result and every edit of the fields the request
    map carries go through the verifier, compared with the model (for which such an exchange has no signed message at all)."""
    ct = (b'Content-Type', [b'text/html'])
    req_sets = [
        [(b'Accept', [b'text/html']), (b'accept', [b'*/*'])],
        [(b'Accept', [b'*/*']), (b'accept', [b'*/*'])],                      # equal values too
        [(b'ACCEPT', [b'a']), (b'Accept', [b'b']), (b'accept', [b'c'])],
        [(b'X-A', [b'1']), (b'Accept', [b'*/*']), (b'x-A', [b'2'])],
        [(b':method', [b'GET']), (b'Accept', [b'text/html'])],
        [(b':method', [b'HEAD'])],
        [(b':Method', [b'GET'])],
        [(b':url', [b'https://example.com/'])],                               # a duplicate in b1 only (b2 signs the URL outside the map)
        [(b':URL', [b'https://example.com/other'])],
        [(b':status', [b'200'])],                                             # not a duplicate in the request map
        [(b'Accept', [b'*/*'])],                                              # control
    ]
    resp_sets = [
        [ct, (b'content-type', [b'text/html'])],
        [ct, (b'CONTENT-TYPE', [b'text/plain'])],
        [ct, (b':status', [b'200'])],
        [ct, (b':Status', [b'404'])],
        [ct, (b'X-B', [b'1']), (b'x-b', [b'1'])],
    ]
    cases = []
    for ver in VERS:
        for rq in req_sets:
            cases.append(ex(ver, b'https://example.com/', b'GET', rq, 200, [ct], b'', b'request map'))
        for rs_ in resp_sets:
            cases.append(ex(ver, b'https://example.com/', b'GET', [(b'Accept', [b'*/*'])] if ver != 'b3' else [], 200, rs_, b'', b'response map'))
        # both maps at once: the first error must not be lost behind the second, nor the second behind the first
        cases.append(ex(ver, b'https://example.com/', b'GET', req_sets[0], 200, resp_sets[0], b'', b'both maps'))
    csha = hashlib.sha256(unhex(k['cert'])).hexdigest()
    pure = []
    for e in cases:
        e2 = list(e); e2[6] = hexs(b'label;sig=*AA==*')
        pure += [f'sxg.hdr {exs(e)}', f'sxg.hdrint {exs(e)}', f'sxg.msg {exs(e)} {csha} {hexs(vurl)} {date} {expires}', f'sxg.msg {exs(e)} nil {hexs(vurl)} {date} {expires}', f'sxg.write {exs(e2)}']
    ctx.both(pure)
    sops = [f'sxg.sign {exs(e)} 16 {k["cert"]} {k["key"]} {hexs(certurl)} {hexs(vurl)} {date} {expires}' for e in cases]
    items = []
    fetch = {certurl: k['chain']}
    for e, r in zip(cases, ctx.go(sops)):
        se = parse_ex(r) if r else None
        if not se: continue        # refused: the property holds vacuously for this exchange
        items.append((se, t_ok, fetch))
        edits = [(2, hexs(b'HEAD')), (2, hexs(b'POST')), (1, hexs(b'https://example.com/some/other/page.html')),
                 (3, hdrs([(b'Accept', [b'application/evil'])])), (3, '.'), (3, (se[3] + ';' if se[3] != '.' else '') + hexs(b'X-Injected') + '=' + hexs(b'1')),
                 (3, hdrs([(n, [b'edited'] * len(vs)) for n, vs in [(unhex(p.split('=')[0]), p.split('=')[1].split('|')) for p in se[3].split(';')]]) if se[3] != '.' else '.')]
        for col, val in edits:
            e2 = list(se)
            if e2[col] == val: continue
            e2[col] = val
            items.append((e2, t_ok, fetch))
    verify_stage(ctx, items)


def run(ctx):
    rng, thorough = ctx.rng, ctx.tier == 'thorough'
    w = setup(ctx)
    keys = [k for k in w.keys if k['curve'] in ('p256', 'p384') and k['hosts'].startswith(b'example.com')][:2]
    foreign = [k for k in w.keys if k['hosts'].startswith(b'other')][0]
    certurl, vurl = b'https://example.com/cert.msg', b'https://example.com/v'
    date, expires = 1517418800, 1517418800 + 3600
    t_ok = ((date + expires) // 2, 0)
    # honest set
    ops, meta = [], []
    for ver in VERS:
        for k in keys:
            # record size x payload length, incl. final records longer than a reader's first buffer (512) and exact multiples
            for rs, plen in ((16, 0), (16, 16), (16, 40), (1, 3), (4096, 10), (4096, 1000), (1000, 1000), (100, 513), (4096, 8192), (513, 513), (512, 1023)):
                rq = [(b'Accept', [b'*/*'])] if ver != 'b3' else []
                rs_ = [(b'Content-Type', [b'text/html']), (b'Foo', [b'Bar', b'Baz'])]
                # a directive that names another (present) header field: verification only looks, it does not edit the response
                if (rs + plen) % 2 == 0: rs_ += [(b'Cache-Control', [b'max-age=600, no-cache="foo, content-type"'])]
                e = ex(ver, b'https://example.com/', b'GET', rq, 200, rs_, b'', rbytes(rng, plen))
                ops.append(f'sxg.sign {exs(e)} {rs} {k["cert"]} {k["key"]} {hexs(certurl)} {hexs(vurl)} {date} {expires}')
                meta.append(k)
    res = ctx.go(ops)
    honest = [(parse_ex(r), k) for r, k in zip(res, meta) if r and parse_ex(r)]
    if len(honest) < len(ops):
        ctx.infra.append(f'sxg.sign failed for {len(ops) - len(honest)} honest exchanges')
    wr, _ = ctx.both([f'sxg.write {exs(e)}' for e, k in honest])      # compared: the file the mutants are cut from is the model's file too
    files = [(unhex(r.split(' ')[1]), e, k) for r, (e, k) in zip(wr, honest) if r and r.startswith('ok ')]
    # --- file-level mutants
    mutants = []      # (file hex, key)
    for f, e, k in files:
        nbits = len(f) * 8
        if thorough and len(f) <= 700:
            bits = range(nbits)
        else:
            bits = sorted(rng.sample(range(nbits), min(nbits, 300 if not thorough else 1500)))
        # every single-bit flip of the request URL as stored in the file (b2/b3: 2-byte length at offset 8, URL after it; b1: inside the CBOR map)
        ub = f.find(b'https://example.com/')
        if ub >= 0:
            bits = sorted(set(bits) | set(range(ub * 8, (ub + 20) * 8)))
        for b in bits:
            t = bytearray(f); t[b // 8] ^= 1 << (b % 8)
            mutants.append((hexs(bytes(t)), k))
        for _ in range(40 if not thorough else 300):
            t = bytearray(f); i = rng.randrange(len(t))
            kind = rng.randrange(3)
            if kind == 0: t.insert(i, rng.getrandbits(8))
            elif kind == 1: del t[i]
            else: del t[i:]
            mutants.append((hexs(bytes(t)), k))
        mutants.append((hexs(f), k))
        mutants.append((hexs(f + b'extra'), k))
    g, m = read_stage(ctx, [f for f, k in mutants])
    items = []
    urlflip_idx = set()
    honest_urls = {hexs(b'https://example.com/')}
    for (f, k), gr in zip(mutants, g):
        e = parse_ex(gr) if gr else None
        if e:
            if e[1] not in honest_urls: urlflip_idx.add(len(items))      # the URL read back differs from the signed one: always kept
            items.append((e, t_ok, {certurl: k['chain']}))
    items_file_marker = list(items)
    # --- in-memory field edits of honest exchanges
    def sigparams(sig):
        return sig

    file_of = {tuple(e): hexs(f) for f, e, k in files}
    reread = {}
    for hi, (e0, k) in enumerate(honest):
        fetch = {certurl: k['chain']}
        variants = []
        def v(**kw):
            e = list(e0)
            for key, val in kw.items():
                e[key if isinstance(key, int) else int(key)] = val
            variants.append(e)
        e = list(e0); e[1] = hexs(b'https://example.com/other'); variants.append(e)
        # the same resource spelled differently (what a parse / re-serialise step would identify with the signed URL), and near misses
        for u2 in (b'https://example.com/#', b'https://example.com/#frag', b'HTTPS://example.com/', b'Https://example.com/', b'https://EXAMPLE.com/', b'https://example.com:443/', b'https://example.com',
                   b'https://example.com/?', b'https://example.com//', b'https://example.com/.', b'https://example.com/%2F', b'https://example.com./', b'https://example.com/ ', b'http://example.com/'):
            e = list(e0); e[1] = hexs(u2); variants.append(e)
        e = list(e0); e[2] = hexs(b'HEAD'); variants.append(e)
        e = list(e0); e[4] = '404'; variants.append(e)
        for st2 in ('0', '20', '2000', '-200', '201', '100', '299', '999', '2147483848'):      # incl. the zero value of the field
            e = list(e0); e[4] = st2; variants.append(e)
        e = list(e0); e[7] = hexs(unhex(e0[7]) + b'x'); variants.append(e)
        e = list(e0); e[7] = hexs(unhex(e0[7])[:-1]); variants.append(e)
        # payload removed / cut at structural points (empty body, record-size field only, first record only)
        pl = unhex(e0[7])
        for cut in (0, 4, 8, 9, 8 + 16, 8 + 16 + 32, len(pl) // 2):
            if cut < len(pl):
                e = list(e0); e[7] = hexs(pl[:cut]); variants.append(e)
        e = list(e0); e[7] = hexs(pl + pl); variants.append(e)
        # a header field added after signing, under every name the code base treats specially (and a neutral one)
        for nm in (b'Signature', b'signature', b'Digest', b'Content-Encoding', b'Mi', b'Content-Type', b'X-Injected', b'Variants', b'Variant-Key', b'Link'):
            for col in ([5] if e0[0] == 'b3' else [5, 3]):
                if hexs(nm).lower() in e0[col].lower() or hexs(nm.lower()) in e0[col].lower():
                    continue
                e = list(e0); e[col] = (e0[col] + ';' if e0[col] != '.' else '') + hexs(nm) + '=' + hexs(b'evil'); variants.append(e)
        # Digest / Content-Encoding edited or dropped
        for nm in (b'Digest', b'Content-Encoding'):
            e = list(e0); e[5] = ';'.join(p for p in e0[5].split(';') if not p.lower().startswith(hexs(nm).lower())); variants.append(e)
        e = list(e0); e[5] = ';'.join((p.split('=')[0] + '=' + hexs(b'mi-sha256-03=AAAA')) if p.lower().startswith(hexs(b'Digest').lower()) else p for p in e0[5].split(';')); variants.append(e)
        e = list(e0); e[5] = e0[5].replace(hexs(b'Bar'), hexs(b'Bat')); variants.append(e)
        e = list(e0); e[5] = e0[5] + ';' + hexs(b'X-New') + '=' + hexs(b'1'); variants.append(e)
        e = list(e0); e[5] = ';'.join(p for p in e0[5].split(';') if not p.startswith(hexs(b'Foo'))); variants.append(e)
        e = list(e0); e[5] = e0[5].replace(hexs(b'Bar') + '|' + hexs(b'Baz'), hexs(b'Bar,Baz')); variants.append(e)   # same joined value: must still verify
        # white space / separators added to or moved between the values of a repeated field (the joined value changes: must fail)
        for vals in ([b'Bar', b' Baz'], [b'Bar ', b'Baz'], [b'Bar\t', b'Baz'], [b'Bar', b'Baz\r\n'], [b' Bar', b'Baz'], [b'Bar,', b'Baz'], [b'Ba', b'rBaz'], [b'Baz', b'Bar'],
                     [b'Bar', b'Baz', b''], [b'Bar', b'', b'Baz'], [b'Bar,Baz', b''], [b'Bar'], [b'Bar', b'Baz', b'Baz']):
            e = list(e0); e[5] = e0[5].replace(hexs(b'Bar') + '|' + hexs(b'Baz'), '|'.join(hexs(v) for v in vals)); variants.append(e)
        if e0[0] != 'b3':
            e = list(e0); e[3] = hdrs([(b'Accept', [b'text/html'])]); variants.append(e)
        for other in VERS:
            if other != e0[0]:
                e = list(e0); e[0] = other; variants.append(e)
        # Signature header parameter edits
        sig = unhex(e0[6])
        def sub(pat, rep, s=sig):
            return re.sub(pat, rep, s, count=1)
        sigs = [sub(rb'date=(\d+)', lambda mm: b'date=' + str(int(mm.group(1)) + 1).encode()),
                sub(rb'expires=(\d+)', lambda mm: b'expires=' + str(int(mm.group(1)) + 1).encode()),
                sub(rb'expires=(\d+)', lambda mm: b'expires=' + str(int(mm.group(1)) + 700000).encode()),
                sub(rb'validity-url="[^"]*"', b'validity-url="https://example.com/w"'),
                sub(rb'cert-url="[^"]*"', b'cert-url="https://example.com/other.cert"'),
                sub(rb'integrity="[^"]*"', b'integrity="mi-draft2x"'),
                sub(rb';integrity="[^"]*"', b''), sub(rb';date=\d+', b''), sub(rb';sig=\*[^*]*\*', b''), sub(rb';cert-sha256=\*[^*]*\*', b''),
                sub(rb'cert-sha256=\*(.)', lambda mm: b'cert-sha256=*' + (b'B' if mm.group(1) != b'B' else b'C')),
                sub(rb'sig=\*(.)(.)(.)(.)', lambda mm: b'sig=*' + mm.group(1) + mm.group(2) + mm.group(3) + (b'A' if mm.group(4) != b'A' else b'B')),
                sig + b';extra=1', sig + b', ' + sig, b'x;a=1, ' + sig, sig.replace(b'label', b'other', 1), sig + b';date=5', sig[:-1], b'', sig.replace(b';', b' ; ')]
        # trailing bytes inside the DER signature (re-encode base64)
        mm = re.search(rb'sig=\*([^*]*)\*', sig)
        if mm:
            import base64
            raw = base64.b64decode(mm.group(1) + b'=' * (-len(mm.group(1)) % 4))
            for raw2 in (raw + b'\x00', raw[:-1], b'\x30\x00', raw[:1] + bytes([raw[1] + 1]) + raw[2:] + b'\x00'):
                sigs.append(sig.replace(mm.group(0), b'sig=*' + base64.b64encode(raw2) + b'*'))
        for s2 in sigs:
            e = list(e0); e[6] = hexs(s2); variants.append(e)
        for e in variants:
            # every sixth honest exchange: its variants also as in-place edits of the object ReadExchange returned for the honest file
            if hi % 6 == 0 and tuple(e0) in file_of and e[0] == e0[0]:
                reread[len(items)] = file_of[tuple(e0)]
            items.append((e, t_ok, fetch))
        # foreign certificate / chain, times
        items.append((e0, t_ok, {certurl: foreign['chain']}))
        items.append((e0, t_ok, {certurl: 'err'}))
        items.append((e0, t_ok, {}))
        items.append((e0, t_ok, {certurl: hexs(unhex(k['chain'])[:-3])}))
        items.append((e0, t_ok, {b'https://example.com/other.cert': k['chain']}))
        other_same_curve = [kk for kk in keys if kk is not k]
        for kk in other_same_curve:
            items.append((e0, t_ok, {certurl: kk['chain']}))
        for t in [(date, 0), (expires, 0), (date - 1, 0), (expires + 1, 0), (0, 0), (2**40, 0),
                  (expires, 1), (expires, 500000000), (expires, 999999999), (date - 1, 999999999), (date, 1), (expires - 1, 999999999)]:
            items.append((e0, t, fetch))
    # the zero time.Time (year 1; a caller's unset field) and other far-away instants as verification time, for an exchange whose window
    # contains the real wall clock (a "zero means now" default would make the first one verify)
    import time as _time
    now = int(_time.time())
    nops = [f'sxg.sign {exs(ex(ver, b"https://example.com/", b"GET", [], 200, [(b"Content-Type", [b"text/html"])], b"", b"valid right now"))} 16 {keys[0]["cert"]} {keys[0]["key"]} {hexs(certurl)} {hexs(vurl)} {now - 1000} {now + 90000}' for ver in VERS]
    for r in ctx.go(nops):
        se = parse_ex(r) if r else None
        if not se: continue
        for t in [(-62135596800, 0), (-62135596800, 1), (0, 0), (now, 0), (now - 1001, 0), (now + 90001, 0), (2**33, 0), (-1, 0)]:
            items.append((se, t, {certurl: keys[0]['chain']}))
    if not thorough and len(items) > 9000:
        # keep every in-memory variant; sample the file-level mutants, but never below 3000 of them (the in-memory set grows with the
        # number of keys; a budget that is only "what is left" once silently dropped every file-level mutant)
        nfile = sum(1 for _ in items_file_marker)
        urlflips = [i for i, it in enumerate(items[:nfile]) if i in urlflip_idx]
        keep = set(rng.sample(range(nfile), min(nfile, max(3000, 9000 - (len(items) - nfile))))) | set(urlflips)
        remap, out = {}, []
        for i, it in enumerate(items):
            if i >= nfile or i in keep:
                remap[i] = len(out); out.append(it)
        items, reread = out, {remap[i]: f for i, f in reread.items() if i in remap}
    verify_stage(ctx, items, reread)
    wrapped_windows(ctx, keys[0], certurl, vurl)
    unencodable_request_maps(ctx, rng, keys[0], certurl, vurl, date, expires, t_ok)

    # payloads past 16 MiB (nothing in the format limits the payload; a verifier that caps what it reads must refuse, not cut): the
    # property's own round trip on the real code alone -- the verified payload is the signed payload, byte for byte
    big = []
    for ver, n_ in (('b3', 17 * 2**20), ('b1', 16 * 2**20 + 1), ('b2', 16 * 2**20)):
        e = list(ex(ver, b'https://example.com/big', b'GET', [], 200, [(b'Content-Type', [b'text/html'])], b'', b''))
        e[7] = f'rep:ab:{n_}'
        big.append(f'sxg.rt.sign {exs(e)} 16384 {keys[0]["cert"]} {keys[0]["key"]} {hexs(certurl)} {hexs(vurl)} {date} {expires} {keys[0]["chain"]} {date + 10}')
    goenv = ctx.goenv      # ~0.5 s per op on an idle machine; a loaded or freshly restored machine must not turn the watchdog into a verdict
    ctx.goenv = dict(goenv, VERIF_OP_TIMEOUT_MS=str(max(60000, int(goenv.get('VERIF_OP_TIMEOUT_MS', '4000')))))
    try:
        rbig = ctx.go(big)
    finally:
        ctx.goenv = goenv
    for op, r in zip(big, rbig):
        label = ' '.join(op.split(' ')[:3]) + ' ... ' + op.split(' ')[8]
        ctx.full_op[label] = op; ctx.confirm_ms[label] = 600000
        ctx.records.append((label, r or 'crash', 'same'))
