from common import *
from sxglib import *

THEOREMS = ['C02.read_write', 'C02.write_fails_iff', 'C02.verify_invariant', 'C02.honest_verifies', 'C02.bigendian_roundtrip']
TRUSTED = ['Go stdlib crypto/ecdsa, crypto/x509, net/url, net/http (parameters of the model; answers supplied by the harness oracle ops and cross-checked)',
           'independent strict-DER ECDSA verification oracle in the harness (oracle.sig)']
ASSUMPTIONS = ['http.Header values are built through Header.Add/Set (canonical keys)', 'header names are ASCII',
               'request URL is an absolute https URL (the reader enforces it, the writer does not: DESIGN O1)']
RULE = ('staged: real ECDSA signing by the harness (P-256/P-384) of exchanges (3 versions x record sizes x payload lengths 0,1,k*rs-1,k*rs,k*rs+1 x header sets with mixed case and repeated values), '
        'then compared ops sxg.write, sxg.read of the written file, sxg.verify before and after the round trip at t = date, mid, expires; plus length boundaries 65535/65536 (URL), 16384/16385 (signature), '
        '524288/524289 and 2^24 (thorough) and bigendian ops; single-field edge families through the whole pipeline: request methods in every letter case / with bytes a case mapping changes, '
        'every named status code and its unnamed neighbours without freshness information / with public / with explicit freshness, IsCacheable over all codes; non-trivial = compared op on a signed exchange')
EXHAUSTIVE = {}

signature = Base.signature; explain = Base.explain


def agree(op, g, m):
    # 'ood': the model declares the input outside its domain (non-ASCII header name: Go applies Unicode case mapping)
    return m == 'ood' or g == m



def nontrivial(op, m):
    return not op.startswith('be.')


def classify(op, m):
    t = op.split(' ')
    if t[0].startswith('sxg.'):
        return f'{t[0]}:{t[1] if t[0] != "sxg.read" else "file"}:{m.split(" ")[0]}'
    return f'{t[0]}:{m.split(" ")[0]}'


KNOWN_STATUS = [100, 101, 102, 103] + list(range(200, 209)) + [226] + list(range(300, 309)) + list(range(400, 419)) + list(range(421, 427)) + [428, 429, 431, 451] + \
    list(range(500, 509)) + [510, 511]
METHODS = [b'GET', b'HEAD', b'get', b'head', b'Get', b'gET', b'Head', b'HEAd', b'purge', b'POST', b'post', b'', b'G\xc3\x89T', b'g\xc3\xa9t', b'\xc4\xb1', b'\xc5\xbft', b'get\xff', b'GET ', b'GET\x00', b'M-Search']


def field_families(ctx, rng, k, certurl, vurl, date, expires, thorough):
    """mi (compared) -> sign (real code) -> Signature header / signed message against the model -> write (compared) -> read (compared) ->
    verify before and after (compared) for exchanges that differ from a plain one in ONE field walked over its edge values:
    * the request method (b1/b2 carry it as signed bytes; the reader has to hand back those bytes, whatever their letter case),
    * the status code: every code net/http names and the unnamed ones next to them, with no freshness information (b3 consults the table
      of codes cacheable by default: each entry and each neighbour of an entry), with `public`, and a few with explicit freshness."""
    ct = (b'Content-Type', [b'text/html'])
    exl = []
    for ver in ('b1', 'b2'):
        for mth in METHODS:
            exl.append(ex(ver, b'https://example.com/m', mth, [(b'Accept', [b'*/*'])], 200, [ct], b'', b'method ' + mth))
    for mth in (b'GET', b'get', b'HEAD', b'purge'):
        exl.append(ex('b3', b'https://example.com/m', mth, [], 200, [ct], b'', b'method ' + mth))
    default_cacheable = [200, 203, 204, 206, 300, 301, 404, 405, 410, 414, 501]
    unnamed = [0, 99, 199, 209, 299, 306, 309, 399, 419, 499, 509, 512, 599, 600, 999]
    fresh = [[(b'Cache-Control', [b'max-age=60'])], [(b'Expires', [b'Thu, 01 Feb 2018 00:00:00 GMT'])], [(b'Cache-Control', [b'no-store'])], [(b'Cache-Control', [b's-maxage=60, private'])]]
    for st in KNOWN_STATUS + unnamed:
        exl.append(ex('b3', b'https://example.com/s', b'GET', [], st, [ct], b'', b'status %d' % st))
        if st in default_cacheable or st in (201, 302, 308, 500, 502, 0, 999) or thorough:
            exl.append(ex('b3', b'https://example.com/s', b'GET', [], st, [ct, (b'Cache-Control', [b'public'])], b'', b'status %d public' % st))
        if st in (200, 308, 500, 501):
            for f in fresh:
                exl.append(ex('b3', b'https://example.com/s', b'GET', [], st, [ct] + f, b'', b'status %d fresh' % st))
    for ver in ('b1', 'b2'):
        for st in default_cacheable + [308, 302, 500, 0, 999]:
            exl.append(ex(ver, b'https://example.com/s', b'GET', [], st, [ct], b'', b'status %d' % st))
    ctx.both([f'sxg.mi {exs(e)} 16' for e in exl])
    res = ctx.go([f'sxg.sign {exs(e)} 16 {k["cert"]} {k["key"]} {hexs(certurl)} {hexs(vurl)} {date} {expires}' for e in exl])
    signed = [(parse_ex(r), k) for r in res if r and parse_ex(r)]
    signed_checks(ctx, signed, certurl, vurl, date, expires, 'c02')
    g, m = ctx.both([f'sxg.write {exs(e)}' for e, _ in signed])
    ok = [(e, gr.split(' ')[1]) for (e, _), gr in zip(signed, g) if gr and gr.startswith('ok ')]
    g, m = read_stage(ctx, [f for e, f in ok])
    items = []
    fetch = {certurl: k['chain']}
    for (e, f), x in zip(ok, g):
        b = parse_ex(x) if x else None
        for t in [(date, 0), (expires, 0)]:
            items.append((e, t, fetch))
            if b and b != e: items.append((b, t, fetch))      # identical read-back: the verdict after the round trip is the one just compared
    verify_stage(ctx, items)
    # IsCacheable itself, over every status code (table look-ups are wrong one entry at a time)
    st_tab = dict(p.split(':') for p in status_table(ctx).split(','))
    cops = []
    for st in sorted(int(c) for c in st_tab):       # 90 .. 619 and -1, 0, 999, 1000: the codes whose StatusText the oracle was asked for
        for rs_ in ([ct], [ct, (b'Cache-Control', [b'public'])]):
            e = ex('b3', b'https://example.com/s', b'GET', [], st, rs_, b'', b'x')
            cops.append(f'sxg.cacheable {exs(e)} {st}:{st_tab[str(st)]}')
    ctx.both(cops)


def run(ctx):
    rng, thorough = ctx.rng, ctx.tier == 'thorough'
    w = setup(ctx)
    keys = [k for k in w.keys if k['curve'] in ('p256', 'p384') and k['hosts'].startswith(b'example.com')]
    date, expires = 1517418800, 1517418800 + 3600
    certurl, vurl = b'https://example.com/cert.msg', b'https://example.com/resource.validity'
    # 1. honest exchanges, signed by the real code
    unsigned, meta, miops, plain = [], [], [], []
    n = 40 if not thorough else 600
    for ver in VERS:
        shapes = [(rs, p) for rs in (1, 2, 16) for p in (2 * rs, 3 * rs, 5 * rs)] + [(4096, 8192), (16384, 32768)]     # exact multiples of the record size
        shapes += [(4096, 1000), (1000, 1000), (100, 513), (513, 513), (512, 1023), (4096, 5000)]
        shapes += [(16, 0), (1, 0), (4096, 0), (16, 1), (16, 15), (16, 17)]           # the empty payload of each draft, and the smallest ones (never left to the draw)                      # final records longer than a reader's first buffer
        for i in range(n):
            if i < len(shapes):
                rs, plen = shapes[i]
            else:
                rs = rng.choice([1, 2, 16, 100, 4096, 16384])
                plen = rng.choice([0, 1, max(0, rs - 1), rs, rs + 1, 2 * rs, 2 * rs + 1]) if rs <= 100 else rng.choice([0, 1, rs - 1, rs, rs + 1, 2 * rs])
            e = rand_exchange(rng, ver, payload=rbytes(rng, plen))
            k = rng.choice(keys)
            unsigned.append(f'sxg.sign {exs(e)} {rs} {k["cert"]} {k["key"]} {hexs(certurl)} {hexs(vurl)} {date} {expires}')
            miops.append(f'sxg.mi {exs(e)} {rs}')
            plain.append(e[7])
            meta.append(k)
    # header fields a shared cache must not store, under keys that are NOT in Go's canonical form (hand-made map): refused or not, the
    # verdict must be the same before the write and after the read (the reader rebuilds the map with canonical keys)
    for ver in VERS:
        for raw in (b'set-cookie', b'SET-COOKIE', b'WWW-Authenticate', b'strict-transport-security', b'Set-cookie', b'x-harmless'):
            e = ex(ver, b'https://example.com/', b'GET', [], 200, [(b'Content-Type', [b'text/html']), (raw, [b'v=1'])], b'', rbytes(rng, 20))
            unsigned.append(f'sxg.sign {exs(e)} 16 {keys[0]["cert"]} {keys[0]["key"]} {hexs(certurl)} {hexs(vurl)} {date} {expires}')
            miops.append(f'sxg.mi {exs(e)} 16'); plain.append(e[7]); meta.append(keys[0])
    # the MI-encoding step of signing, compared with the model (payload stream, Digest / Content-Encoding headers)
    ctx.both(miops)
    # one *Exchange object reused: serialised / hashed / written as A, then edited in place into B: every output must be B's
    reuse = []
    for ver in VERS:
        for _ in range(8 if not thorough else 100):
            a = rand_exchange(rng, ver, payload=rbytes(rng, rng.choice([0, 5, 40])))
            b = list(a)
            k = rng.randrange(5)
            if k == 0: b[5] = hdrs([(b'Content-Type', [b'text/html']), (b'Cache-Control', [b'max-age=60'])])
            elif k == 1: b[5] = a[5] + ';' + hexs(b'X-Late') + '=' + hexs(b'added-after-preview')
            elif k == 2: b[4] = '404'
            elif k == 3: b[7] = hexs(rbytes(rng, 33))
            else: b = rand_exchange(rng, ver)
            for what in ('write', 'hdr', 'hdrint'):
                reuse.append(f'sxg.reuse {what} {exs(a)} {exs(b)}')
            reuse.append(f'sxg.reuse mi {exs(a)} {exs(b)} 16')
    ctx.both(reuse)
    # F14 regression: digest header already present with an empty value must be refused by MiEncodePayload
    for ver in VERS:
        dn = b'MI-Draft2' if ver == 'b1' else b'Digest'
        e = ex(ver, b'https://example.com/', b'GET', [], 200, [(b'Content-Type', [b'text/html']), (dn, [b''])], b'', b'hello world')
        unsigned.append(f'sxg.sign {exs(e)} 16 {keys[0]["cert"]} {keys[0]["key"]} {hexs(certurl)} {hexs(vurl)} {date} {expires}')
        meta.append(keys[0])
    res = ctx.go(unsigned)
    f14 = res[-3:]
    if any(r and r.startswith('ok ') for r in f14):
        # the library agreed to sign: the result must verify (property C02); record as a compared pseudo-op
        for r in f14:
            if r and r.startswith('ok '):
                ctx.records.append(('sxg.sign-with-empty-digest-header must be refused or verify', 'signed', 'refused'))
    signed = []
    for r, k in zip(res, meta):
        e = parse_ex(r) if r else None
        if e: signed.append((e, k))
    signed_checks(ctx, signed, certurl, vurl, date, expires, 'c02')
    if len(signed) < len(unsigned) * 0.9:
        ctx.infra.append(f'sxg.sign failed for {len(unsigned) - len(signed)} of {len(unsigned)} exchanges: {res[:2]}')
    # 2. write (compared)
    g, m = ctx.both([f'sxg.write {exs(e)}' for e, k in signed])
    files = []
    for (e, k), gr in zip(signed, g):
        files.append(gr.split(' ')[1] if gr and gr.startswith('ok ') else None)
    # 3. read back (compared)
    ok = [(e, k, f) for (e, k), f in zip(signed, files) if f]
    g, m = read_stage(ctx, [f for e, k, f in ok])
    read_stage(ctx, [f for e, k, f in ok][::2], op='sxg.read.buffer')
    back = [parse_ex(x) if x else None for x in g]
    # 4. verify before and after the round trip (compared), same instants
    items = []
    for (e, k, f), b in zip(ok, back):
        fetch = {certurl: k['chain']}
        for t in [(date, 0), (expires, 0), ((date + expires) // 2, 500), (date - 1, 999999999), (expires, 1)]:
            items.append((e, t, fetch))
            if b: items.append((b, t, fetch))
    if not thorough:
        items = items[:1500]
    verify_stage(ctx, items)
    # 4a. deterministic edge families of single FIELDS, each through the whole pipeline with its own verification budget (the cap above
    #     never reaches them): request methods in every letter case / with bytes a case mapping would change, and every status code
    field_families(ctx, rng, keys[0], certurl, vurl, date, expires, thorough)
    # 4b. maximum lifetime (exactly 7 days) across a daylight-saving change, verified with the process's local zone set to zones that
    #     do / do not change in that week: "every instant of [date, expires]" does not depend on where the verifier runs
    dops, dmeta = [], []
    for ver in VERS:
        for d0 in (1520251200, 1521892800, 1540641600):
            for life in (604800, 601201):
                e = rand_exchange(rng, ver, payload=rbytes(rng, 40))
                dops.append(f'sxg.sign {exs(e)} 16 {keys[0]["cert"]} {keys[0]["key"]} {hexs(certurl)} {hexs(vurl)} {d0} {d0 + life}')
                dmeta.append((d0, life))
    ditems, dtz = [], {}
    for r, (d0, life) in zip(ctx.go(dops), dmeta):
        e = parse_ex(r) if r else None
        if not e: continue
        for t in ((d0, 0), (d0 + life // 2, 1), (d0 + life, 0)):
            dtz[len(ditems)] = ['America/New_York', 'Europe/Berlin', 'Australia/Sydney', 'UTC']
            ditems.append((e, t, {certurl: keys[0]['chain']}))
    verify_stage(ctx, ditems, tz=dtz)
    # 4b'. the smallest windows: expires == date (one instant), expires = date + 1
    wops, wmeta = [], []
    for ver in VERS:
        for life in (0, 1):
            e = rand_exchange(rng, ver, payload=rbytes(rng, 20))
            wops.append(f'sxg.sign {exs(e)} 16 {keys[0]["cert"]} {keys[0]["key"]} {hexs(certurl)} {hexs(vurl)} {date} {date + life}')
            wmeta.append(life)
    witems = []
    for r, life in zip(ctx.go(wops), wmeta):
        e = parse_ex(r) if r else None
        if not e: continue
        for t in ((date, 0), (date + life, 0), (date - 1, 999999999), (date + life, 1), (date, 500000000)):
            witems.append((e, t, {certurl: keys[0]['chain']}))
    verify_stage(ctx, witems)
    # 4c. inputs outside the model's domain (header names with non-ASCII letters, in either case; the model folds ASCII only): the
    #     property's own round trip on the real code alone -- what the library agreed to sign and write reads back with the same fields
    #     and the same verdict, or it is refused at signing / writing time
    odd = ['X-\u00dcbung', 'x-\u00fcbung', 'X-\u212aelvin', 'X-\u017fong', 'X-\u0130', 'X-\u0131', 'X-\u00df', 'X-\u01c5', 'X-\u03a3\u03c3\u03c2', 'X-\u65e5\u672c', 'X-caf\u00e9', 'X-\u00c9', 'x-plain', 'X-Plain']
    rops = []
    for ver in VERS:
        for nm in odd:
            for col in ([5] if ver == 'b3' else [5, 3]):
                e = list(ex(ver, b'https://example.com/', b'GET', [], 200, [(b'Content-Type', [b'text/html'])], b'', b'payload'))
                e[col] = (e[col] + ';' if e[col] != '.' else '') + hexs(nm.encode('utf-8')) + '=' + hexs(b'v')
                rops.append(f'sxg.rt.sign {exs(e)} 16 {keys[0]["cert"]} {keys[0]["key"]} {hexs(certurl)} {hexs(vurl)} {date} {expires} {keys[0]["chain"]} {date + 10}')
    for op, r in zip(rops, ctx.go(rops)):
        if r and r.startswith('refused'): continue
        ctx.full_op[' '.join(op.split(' ')[:7])[:400]] = op
        ctx.records.append((' '.join(op.split(' ')[:7])[:400], r or 'crash', 'same'))
    # 5. length boundaries of the writer
    ops = []
    for ver in VERS:
        for ulen in [65534, 65535, 65536, 65537]:
            uri = b'https://example.com/' + b'u' * (ulen - 20)
            ops.append(f'sxg.write {exs(ex(ver, uri, b"GET", [], 200, [], b"sig", b"p"))}')
        for slen in [16383, 16384, 16385]:
            ops.append(f'sxg.write {exs(ex(ver, b"https://example.com/", b"GET", [], 200, [], b"s" * slen, b"p"))}')
        if thorough or ver == 'b1':
            for hlen in [524288, 524289]:
                # one header whose value pads the header block to exactly hlen bytes is found by search on the model side: use sizes around
                for pad in (range(-3, 4) if thorough else (-20, 0, 20)):
                    rs_ = [(b'X', [b'v' * (hlen - 40 + pad)])]
                    ops.append(f'sxg.write {exs(ex(ver, b"https://example.com/", b"GET", [], 200, rs_, b"sig", b"p"))}')
    for n_, size in [(0, 2), (1, 2), (65535, 2), (65536, 2), (65537, 2), (2**24 - 1, 3), (2**24, 3), (2**24 + 1, 3), (-1, 3), (2**63 - 1, 8), (0, 8), (2**40, 8), (-5, 8)]:
        ops.append(f'be.enc {n_} {size}')
    for _ in range(200):
        ops.append(f'be.enc {rng.getrandbits(rng.randrange(1, 63))} {rng.choice([2, 3, 8])}')
        ops.append(f'be.dec3 {hexs(rbytes(rng, 3))}')
    g5, m5 = ctx.both(ops)
    # what the writer accepted at the length boundaries must read back (every version has its own limits: 1b1 only the field widths)
    bfiles = [x.split(' ')[1] for op, x in zip(ops, g5) if op.startswith('sxg.write ') and x and x.startswith('ok ')]
    read_stage(ctx, bfiles)
    # the same round trip through the real tools (gen-signedexchange -> file / stdout -> dump-signedexchange -verify)
    import c20
    c20.sxg_cli_stage(ctx, rng, thorough)
