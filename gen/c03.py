from common import *
from bundlelib import *

THEOREMS = ['C03.read_write', 'C03.read_write_b2', 'C03.read_write_b1_variants', 'C03.write_refuses_overlapping_variants', 'C03.write_refuses_incomplete_variants', 'C03.read_normal', 'C03.read_write_normal', 'C03.write_read_fixpoint', 'C03.index_is_row_major', 'C03.index_injective', 'C03.offsets_accounting']
TRUSTED = ['Go stdlib net/url (Parse/String facts supplied by the harness oracle op oracle.burl), crypto/x509 (certificate parse), regexp, strconv (modelled, compared)']
ASSUMPTIONS = ['format constraints the reader enforces and the writer does not (DESIGN 5, C03 D): exchange URLs without fragment/userinfo, valid UTF-8, re-parsing to themselves; status 100..999; ASCII header names not starting with ":" and distinct after lower-casing; ASCII values; b1 has a primary URL']
RULE = ('bundles: versions b1/b2 x 0..4 exchanges x URL shapes (ports, escapes, queries, relative) x header maps x status 100..999 x body lengths around 23/24, 255/256, 65535/65536 x optional primary/manifest/signatures x b1 Variants sets '
        '(1-3 axes, incl. multi-key Variant-Key, incomplete and overlapping coverage); compared ops: bundle.write (both destination kinds), bundle.read of the written bytes, re-write of what was read (fixpoint), second read; '
        'header fields describing the body as served (Content-Length in every relation to the stored length and every integer spelling, codings, ranges, digests, media types, validators) on exchanges whose stored body differs; histories: write/read cycles of length 2; non-trivial = bundle with at least one exchange')
EXHAUSTIVE = {}

agree = Base.agree; signature = Base.signature; explain = Base.explain


def nontrivial(op, m):
    return not op.endswith(' .')


def classify(op, m):
    t = op.split(' ')
    return f'{t[0]}:{t[1] if t[0].startswith("bundle.write") else "file"}:{m.split(" ")[0]}'


ODD_BUNDLE_URLS = [(b'https://example.com/files/a%2Fb.html', b'https://example.com/files/a/b.html'), (b'https://example.com/p%24q', b'https://example.com/p$q'),
                   (b'https://example.com/search?', b'https://example.com/search'), (b'https://example.com/a%3Fb', b'https://example.com/a?b'), (b'https://example.com/%7Euser/', b'https://example.com/~user/'),
                   (b'https://example.com/caf%c3%a9', b'https://example.com/caf%C3%A9'), (b'https://example.com/x%41', b'https://example.com/xA'), (b'https://EXAMPLE.com/Up', b'https://example.com/Up'),
                   (b'https://example.com:443/d', b'https://example.com/d'), (b'https://example.com/a//b', b'https://example.com/a/b'), (b'https://example.com/a/./b', b'https://example.com/a/b'),
                   (b"https://example.com/it's!/*.txt", b"https://example.com/it%27s%21/%2A.txt"), (b'https://example.com/wiki/Go_(game)', b'https://example.com/wiki/Go_%28game%29'),
                   (b'https://example.com', b'https://example.com/')]


def body_describing_headers(ver):
    """header fields that describe the body AS SERVED (Content-Length, Content-Encoding, Content-Range, digests, validators ...) and go
    stale or were never true for the body as stored: the writer stores map and body as given, the reader has to give them back.
    Content-Length: every relation to len(body) (equal, one less / more, 0 with a body, a number with no body), the edges of the
    integer syntaxes a parser might accept (+N, -N, leading zeros, 2^31, 2^32, 2^63-1, 2^63, 2^64), repeated values, key spellings;
    the statuses that legitimately carry a length without a body (204, 304, HEAD-like 200, 206)"""
    out = []
    U = b'https://example.com/'
    ctl = exch(U + b'control', 200, [(b'Content-Length', [b'7'])], b'control')
    bodies = [b'', b'x', b'The quick brown fox jumps over', b'z' * 300]
    for body in bodies:
        n = len(body)
        vals = [str(v).encode() for v in sorted({n, max(n - 1, 0), n + 1, 0, 1, 20, 2 * n + 1, 255, 256, 65536, 2**31 - 1, 2**31, 2**32, 2**63 - 1, 2**63, 2**64 - 1, 2**64})]
        vals += [b'+%d' % n, b'+%d' % (n + 1), b'-%d' % (n + 1), b'-0', b'-1', b'0%d' % (n + 1), b'000', b'%d ' % (n + 1), b' %d' % (n + 1), b'%d.0' % (n + 1), b'%de0' % (n + 1), b'0x10', b'1_0', b'', b'abc', b'%d, %d' % (n + 1, n + 1)]
        for i, v in enumerate(vals):
            out.append(bundle(ver, U, None, None, [exch(U, 200, [(b'Content-Type', [b'text/plain']), (b'Content-Length', [v])], body), ctl]))
        # repeated field lines, key spellings (hand-made http.Header), the field alone in the map
        for hs in ([(b'Content-Length', [b'%d' % (n + 1), b'%d' % (n + 1)])], [(b'Content-Length', [b'%d' % n, b'%d' % (n + 1)])], [(b'Content-Length', [b'%d' % (n + 1), b'%d' % n])],
                   [(b'content-length', [b'%d' % (n + 1)])], [(b'CONTENT-LENGTH', [b'%d' % (n + 1)])], [(b'Content-length', [b'%d' % (n + 2)])],
                   [(b'X-Content-Length', [b'%d' % (n + 1)])], [(b'Content-Length', [b'%d' % (n + 1)]), (b'Transfer-Encoding', [b'chunked'])]):
            out.append(bundle(ver, U, None, None, [ctl, exch(U, 200, hs, body)]))
    # a length without a body where HTTP says so, and a partial body with the full length
    for st, hs, body in ((304, [(b'Content-Length', [b'1234']), (b'Etag', [b'"v1"'])], b''), (204, [(b'Content-Length', [b'0'])], b''), (204, [(b'Content-Length', [b'5'])], b''),
                         (200, [(b'Content-Length', [b'1234']), (b'X-Method', [b'HEAD'])], b''), (206, [(b'Content-Length', [b'10']), (b'Content-Range', [b'bytes 0-9/100'])], b'0123456789'),
                         (206, [(b'Content-Length', [b'100']), (b'Content-Range', [b'bytes 0-9/100'])], b'0123456789'), (416, [(b'Content-Range', [b'bytes */100'])], b''),
                         (301, [(b'Content-Length', [b'178']), (b'Location', [b'https://example.com/new'])], b''), (100, [(b'Content-Length', [b'3'])], b''), (999, [(b'Content-Length', [b'3'])], b'abcd')):
        out.append(bundle(ver, U, None, None, [exch(U, st, hs, body), ctl]))
    # other fields a "sanity check" could hold against the stored body: codings (body stored decoded / not a gzip stream), digests that
    # do not match, media types that do not match the bytes, ranges, validators and dates in odd forms, framing fields
    png = bytes.fromhex('89504e470d0a1a0a') + b'not really'
    gz = bytes.fromhex('1f8b0800000000000003') + b'truncated'
    for hs, body in (([(b'Content-Encoding', [b'gzip']), (b'Content-Length', [b'20'])], b'stored decoded, served gzipped'), ([(b'Content-Encoding', [b'gzip'])], b'plain text'), ([(b'Content-Encoding', [b'gzip'])], gz),
                     ([(b'Content-Encoding', [b'br'])], b''), ([(b'Content-Encoding', [b'mi-sha256-03'])], b'no records here'), ([(b'Content-Encoding', [b'identity', b'gzip'])], b'x'), ([(b'Content-Encoding', [b'zstd, unknown-coding'])], b'x'),
                     ([(b'Transfer-Encoding', [b'chunked'])], b'5\r\nhello\r\n0\r\n\r\n'), ([(b'Transfer-Encoding', [b'chunked'])], b'not chunked'), ([(b'Trailer', [b'Expires'])], b'x'), ([(b'Connection', [b'close']), (b'Keep-Alive', [b'timeout=5'])], b'x'),
                     ([(b'Digest', [b'mi-sha256-03=AAAAAAAAAAAAAAAAAAAAAAAAAAAAAAAAAAAAAAAAAAA='])], b'digest of something else'), ([(b'Digest', [b'sha-256=AAAAAAAAAAAAAAAAAAAAAAAAAAAAAAAAAAAAAAAAAAA='])], b'x'), ([(b'Digest', [b'garbage'])], b'x'),
                     ([(b'Content-Md5', [b'AAAAAAAAAAAAAAAAAAAAAA=='])], b'x'), ([(b'Repr-Digest', [b'sha-256=:AAAA:'])], b'x'), ([(b'Content-Digest', [b'sha-512=:AAAA:'])], b''),
                     ([(b'Content-Type', [b'text/html'])], png), ([(b'Content-Type', [b'image/png'])], b'<!DOCTYPE html><p>not a png'), ([(b'Content-Type', [b'application/json'])], b'{not json'), ([(b'Content-Type', [b''])], b'x'),
                     ([(b'Content-Type', [b'text/html; charset=utf-8'])], b'\xff\xfe not utf-8'), ([(b'Content-Type', [b'not a media type'])], b'x'), ([(b'Content-Type', [b'text/html', b'text/plain'])], b'x'), ([(b'X-Content-Type-Options', [b'nosniff'])], png),
                     ([(b'Content-Range', [b'bytes 5-1/3'])], b'x'), ([(b'Accept-Ranges', [b'bytes'])], b'x'), ([(b'Content-Disposition', [b'attachment; filename="a.txt"'])], b'x'), ([(b'Content-Location', [b'/elsewhere'])], b'x'),
                     ([(b'Etag', [b'W/"weak"'])], b'x'), ([(b'Etag', [b'unquoted'])], b'x'), ([(b'Last-Modified', [b'not a date'])], b'x'), ([(b'Date', [b'Thu, 01 Jan 1970 00:00:00 GMT'])], b'x'), ([(b'Expires', [b'0'])], b'x'), ([(b'Expires', [b'-1'])], b'x'),
                     ([(b'Age', [b'-1'])], b'x'), ([(b'Age', [b'99999999999999999999'])], b'x'), ([(b'Retry-After', [b'soon'])], b'x'), ([(b'Location', [b'https://example.com/elsewhere'])], b'a 200 with a Location'), ([(b'Set-Cookie', [b'a=b', b'c=d'])], b'x'),
                     ([(b'Cache-Control', [b'no-store'])], b'x'), ([(b'Vary', [b'*'])], b'x'), ([(b'Link', [b'<https://example.com/s.css>;rel=preload;as=style'])], b'x'), ([(b'Signature', [b'garbage'])], b'x'), ([(b'Status', [b'404'])], b'x'), ([(b'Content-Length', [b'1']), (b'Content-Encoding', [b'gzip']), (b'Digest', [b'x']), (b'Content-Range', [b'bytes 0-0/1'])], b'')):
        out.append(bundle(ver, U, None, None, [exch(U, 200, hs, body), ctl]))
    return out


def gen_bundles(rng, w, thorough):
    out = []
    for ver in ('b1', 'b2'):
        for _ in range(120 if not thorough else 4000):
            out.append(rand_bundle(rng, ver, w))
        # body length classes
        for blen in [0, 23, 24, 255, 256, 65535, 65536, 65537, 70000] + ([131072, 200001] if thorough else []):
            st, hs, body = rand_resp(rng, blen)
            out.append(bundle(ver, b'https://example.com/', None, None, [exch(b'https://example.com/', st, hs, body), exch(b'https://example.com/x', 200, [], b'')]))
        # many exchanges (index map head classes)
        for n in [23, 24, 25] + ([256] if thorough else []):
            exs = [exch(b'https://example.com/r%d' % i, 200, [(b'X-I', [str(i).encode()])], b'b%d' % i) for i in range(n)]
            rng.shuffle(exs)
            out.append(bundle(ver, b'https://example.com/r0', None, None, exs))
        # same URL twice (b2: refused; b1 without variants: refused)
        e1, e2 = exch(b'https://example.com/d', 200, [], b'1'), exch(b'https://example.com/d', 200, [], b'2')
        out.append(bundle(ver, b'https://example.com/d', None, None, [e1, e2]))
        # statuses outside / header problems (writer accepts, reader refuses: asymmetry ops)
        for st in (99, 1000, 0, -1):
            out.append(bundle(ver, b'https://example.com/', None, None, [exch(b'https://example.com/', st, [], b'x')]))
        out.append(bundle(ver, b'https://example.com/', None, None, [exch(b'https://example.com/#frag', 200, [], b'x')]))
        out.append(bundle(ver, b'https://example.com/', None, None, [exch(b'https://user@example.com/', 200, [], b'x')]))
        out.append(bundle(ver, b'https://example.com/', None, None, [exch(b'https://example.com/', 200, [(b':pseudo', [b'v'])], b'x')]))
        out.append(bundle(ver, b'https://example.com/', None, None, [exch(b'https://example.com/', 200, [(b'X-A', [b'caf\xc3\xa9'])], b'x')]))
        out.append(bundle(ver, b'https://example.com/', None, None, [exch(b'https://example.com/', 200, [(b'Foo', [b'1']), (b'foo', [b'2'])], b'x')]))
        # byte-identical responses under different URLs (a writer that shares them must keep the responses array consistent)
        same = (200, [(b'Content-Type', [b'text/plain'])], b'same body')
        out.append(bundle(ver, b'https://example.com/s1', None, None, [exch(b'https://example.com/s1', *same), exch(b'https://example.com/s2', *same), exch(b'https://example.com/s3', 200, [], b'other'), exch(b'https://example.com/s4', *same)]))
        out.append(bundle(ver, b'https://example.com/e1', None, None, [exch(b'https://example.com/e1', 200, [], b''), exch(b'https://example.com/e2', 200, [], b'')]))
        # a single representation that nevertheless carries Variants / Variant-Key headers (one and several possible keys)
        for vh, vk in ((b'Accept-Language;en;fr', b'en'), (b'Accept-Language;en', b'en'), (b'Accept-Language;en;fr, Accept-Encoding;gzip;br', b'en;gzip'), (b'Accept-Language;en;fr', b'')):
            hs = []
            add(hs, b'variants', vh)
            if vk: add(hs, b'variant-key', vk)
            out.append(bundle(ver, b'https://example.com/one', None, None, [exch(b'https://example.com/one', 200, hs, b'only one'), exch(b'https://example.com/two', 200, [], b'2')]))
        # names equal after case folding with IDENTICAL values, alone and among other fields, two and three spellings
        for hs in ([(b'Content-Type', [b'text/html']), (b'content-type', [b'text/html'])],
                   [(b'A', [b'1']), (b'Content-Type', [b'text/html']), (b'content-type', [b'text/html']), (b'Z', [b'2'])],
                   [(b'X-K', [b'v']), (b'x-k', [b'v']), (b'X-k', [b'v'])],
                   [(b'X-K', [b'v', b'w']), (b'x-k', [b'v', b'w'])], [(b'X-K', [b'v,w']), (b'x-k', [b'v', b'w'])], [(b'X-K', [b'']), (b'x-k', [b''])]):
            out.append(bundle(ver, b'https://example.com/', None, None, [exch(b'https://example.com/', 200, hs, b'x'), exch(b'https://example.com/2', 200, [(b'Ok', [b'1'])], b'y')]))
        out.append(bundle(ver, b'https://example.com/', b'https://example.com/m', None, []))
        # URL spellings that re-assembling a url.URL from its parts does not reproduce (RawPath, ForceQuery, host case, empty path ...):
        # as primary URL, as manifest URL and as exchange URL, next to the exchange the re-spelled URL would name
        for u, sib in ODD_BUNDLE_URLS:
            exs2 = [exch(u, 200, [(b'X-U', [b'odd'])], b'odd spelling'), exch(sib, 200, [(b'X-U', [b'sibling'])], b'sibling')] if sib != u else [exch(u, 200, [], b'odd spelling')]
            out.append(bundle(ver, u, None, None, exs2))
            out.append(bundle(ver, b'https://example.com/', u if ver == 'b1' else None, None, list(reversed(exs2))))
        # absolute URLs without a host (urn:, file:, uuid-in-package:, mailto:, data:) where the format allows any absolute URL, and the
        # empty string where a URL is optional
        for u in (b'urn:uuid:f81d4fae-7dec-11d0-a765-00a0c91e6bf6', b'uuid-in-package:429fcc4e-0696-4bad-b099-ee9175f023ae', b'file:///index.html', b'https:/index.html', b'mailto:a@example.com', b'data:,x', b'about:blank'):
            out.append(bundle(ver, u, None, None, [exch(b'https://example.com/', 200, [], b'x')]))
            if ver == 'b1': out.append(bundle(ver, b'https://example.com/', u, None, [exch(b'https://example.com/', 200, [], b'x')]))
            out.append(bundle(ver, b'https://example.com/', None, None, [exch(u, 200, [], b'x')]))
        out.append(bundle(ver, b'', None, None, [exch(b'https://example.com/', 200, [], b'x')]))
        out.append(bundle(ver, b'', None, None, []))
        # URLs whose string is not valid UTF-8 / has control characters (url.Parse takes them; a text string cannot carry them)
        for u in (b'https://example.com/manifest.json?v=\xff', b'https://example.com/\xe9', b'https://example.com/a?b=\xc3', b'https://example.com/\x00', b'https://example.com/\x7f'):
            out.append(bundle(ver, u, None, None, [exch(b'https://example.com/', 200, [], b'x')]))
            if ver == 'b1': out.append(bundle(ver, b'https://example.com/', u, None, [exch(b'https://example.com/', 200, [], b'x')]))
            out.append(bundle(ver, b'https://example.com/', None, None, [exch(u, 200, [], b'x')]))
        # a header block just below / above 512 KiB (no CBOR boundary there: a limit somebody might add)
        for hl in (524200, 524300, 600000):
            out.append(bundle(ver, b'https://example.com/', None, None, [exch(b'https://example.com/', 200, [(b'Content-Type', [b'text/html']), (b'X-Policy', [b'p' * hl])], b'x'), exch(b'https://example.com/2', 200, [], b'y')]))
        # signatures section: every presence pattern of ocsp / sct on the authorities (incl. sct without ocsp), one and two certificates
        if w is not None:
            k1_, k2_ = w.keys[0], w.keys[1]
            for a1 in ('nil:nil', f'{hexs(b"o")}:nil', f'nil:{hexs(b"SCT1")}', f'{hexs(b"o")}:{hexs(b"SCT1")}', '-:-'):
                for a2 in (None, 'nil:nil', f'nil:{hexs(b"SCT-OF-INTERMEDIATE")}', f'{hexs(b"o2")}:nil'):
                    auths = f'{k1_["cert"]}:{a1}' + (f'+{k2_["cert"]}:{a2}' if a2 else '')
                    out.append(bundle(ver, b'https://example.com/', None, f'{auths}/0:{hexs(b"sig")}:{hexs(b"signed")}', [exch(b'https://example.com/', 200, [], b'x')]))
        # header fields that describe the body as served and do not (or no longer) match the body as stored
        out += body_describing_headers(ver)
        # optional / positional fields left out (b1: the primary URL is a positional element of the top-level array)
        out.append(bundle(ver, None, None, None, [exch(b'https://example.com/', 200, [], b'x')]))
        out.append(bundle(ver, None, b'https://example.com/m' if ver == 'b1' else None, None, []))
        out.append(bundle(ver, b'relative/primary', None, None, []))
        out.append(bundle(ver, None, None, None, []) if ver == 'b2' else bundle(ver, b'', None, None, []))
    # b1 variants
    axes_sets = [[(b'Accept-Language', [b'en', b'fr'])], [(b'Accept-Language', [b'en', b'fr']), (b'Accept-Encoding', [b'gzip', b'br'])],
                 [(b'A', [b'1', b'2', b'3']), (b'B', [b'x', b'y'])], [(b'A', [b'1']), (b'B', [b'x', b'y']), (b'C', [b'p', b'q'])]]
    for axes in axes_sets:
        grp = variants_group(rng, b'https://example.com/v', axes)
        exs = [e for e, c in grp]
        for _ in range(6 if not thorough else 60):
            p = list(exs); rng.shuffle(p)
            out.append(bundle('b1', b'https://example.com/v', None, None, p + [exch(b'https://example.com/other', 200, [], b'o')]))
        # complete coverage PLUS one more representation whose Variant-Key names a value outside an axis / has the wrong arity / is empty
        vh_ = b', '.join(name + b''.join(b';' + v for v in vals) for name, vals in axes)
        for badkey in (b'zz', b';'.join([b'zz'] * len(axes)), b';'.join(c_ for c_ in grp[0][1]) + b';extra', b'"en"', grp[0][1][0].upper() if grp[0][1][0].upper() != grp[0][1][0] else b'ZZ'):
            hsx = []
            add(hsx, b'variants', vh_); add(hsx, b'variant-key', badkey)
            extra = exch(b'https://example.com/v', 200, hsx, b'outside the axes: ' + badkey)
            out.append(bundle('b1', b'https://example.com/v', None, None, exs + [extra]))
            out.append(bundle('b1', b'https://example.com/v', None, None, [extra] + exs))
        out.append(bundle('b1', b'https://example.com/v', None, None, exs[:-1]))                # incomplete coverage
        out.append(bundle('b1', b'https://example.com/v', None, None, exs + [exs[0]]))          # overlapping coverage
        out.append(bundle('b2', b'https://example.com/v', None, None, exs))                     # b2: multiple resources
        # multi-key Variant-Key: one exchange covering two keys
        if len(grp) >= 2:
            (e0, c0), (e1, c1) = grp[0], grp[1]
            hs = []
            vh = b', '.join(name + b''.join(b';' + v for v in vals) for name, vals in axes)
            add(hs, b'variants', vh); add(hs, b'variant-key', b';'.join(c0) + b', ' + b';'.join(c1))
            merged = exch(b'https://example.com/v', 200, hs, b'merged')
            out.append(bundle('b1', b'https://example.com/v', None, None, [merged] + [e for e, c in grp[2:]]))
            # the same with the two keys (and the Variants axes) given as repeated header field values
            hs2 = []
            for part in vh.split(b', '): add(hs2, b'variants', part)
            add(hs2, b'variant-key', b';'.join(c0)); add(hs2, b'variant-key', b';'.join(c1))
            merged2 = exch(b'https://example.com/v', 200, hs2, b'merged2')
            out.append(bundle('b1', b'https://example.com/v', None, None, [merged2] + [e for e, c in grp[2:]]))       # complete
            out.append(bundle('b1', b'https://example.com/v', None, None, [merged2] + [e for e, c in grp[1:]]))       # overlaps on c1: refused
            out.append(bundle('b1', b'https://example.com/v', None, None, [e for e, c in grp[1:]] + [merged2]))       # same, other order
            out.append(bundle('b1', b'https://example.com/v', None, None, [merged2] + [e for e, c in grp[3:]]))       # incomplete when > 3 keys
    # malformed Variants / Variant-Key
    for vh, vk in [(b'', b'en'), (b'A;1;2', b''), (b'A', b'1'), (b'A;1;2', b'3'), (b'A;1;2', b'1;2'), (b'"A";"1";"2"', b'"1"'), (b'A;1;2, B', b'1'), (b'A;' + b';'.join(b'v%d' % i for i in range(101)) + b', B;' + b';'.join(b'w%d' % i for i in range(101)), b'v1;w1')]:
        hs1, hs2 = [], []
        add(hs1, b'variants', vh); add(hs1, b'variant-key', vk)
        add(hs2, b'variants', vh); add(hs2, b'variant-key', b'2')
        out.append(bundle('b1', b'https://example.com/v', None, None, [exch(b'https://example.com/v', 200, hs1, b'1'), exch(b'https://example.com/v', 200, hs2, b'2')]))
    return out


def run(ctx):
    rng, thorough = ctx.rng, ctx.tier == 'thorough'
    w = sxg_setup(ctx)
    bundles = gen_bundles(rng, w, thorough)
    g, m = ctx.both([f'bundle.write {b}' for b in bundles])
    ctx.both([f'bundle.write.plain {b}' for b in bundles[::3]])
    files = [x.split(' ')[1] for x in g if x and x.startswith('ok ')]
    g2, m2 = read_stage(ctx, files)
    read_stage(ctx, files[::3], op='bundle.read.buffer')      # caller-owned buffer, scribbled over before the result is printed
    # fixpoint: re-serialize what was read and read again
    back = [x[3:] for x in g2 if x and x.startswith('ok ')]
    g3, m3 = ctx.both([f'bundle.write {b}' for b in back])
    files2 = [x.split(' ')[1] for x in g3 if x and x.startswith('ok ')]
    read_stage(ctx, files2[: (300 if not thorough else 5000)])
