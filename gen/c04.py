from common import *
from bundlelib import *
import c03

THEOREMS = ['C04.write_wellFormed', 'C04.write_count', 'C04.response_wellFormed', 'C04.variants_index_complete']
TRUSTED = c03.TRUSTED
ASSUMPTIONS = ['well-formedness is judged by Spec/Bundle.lean WellFormed (proved for every output of the model writer); the correspondence compares Go\'s bytes with the model\'s bytes for both destination kinds and Go\'s returned count with the number of bytes the destination received']
RULE = ('same bundle space as C03 (versions x exchanges x URL shapes x header maps x statuses x body length classes x optional sections x b1 Variants sets); compared ops: bundle.write (destination implementing io.ReaderFrom: bytes.Buffer) and '
        'bundle.write.plain (destination without ReaderFrom), incl. returned count = bytes received (count-mismatch is a disagreement); non-trivial = bundle with at least one exchange')
EXHAUSTIVE = {}
agree = Base.agree; signature = Base.signature; explain = Base.explain
nontrivial = c03.nontrivial
classify = c03.classify


def run(ctx):
    rng, thorough = ctx.rng, ctx.tier == 'thorough'
    w = sxg_setup(ctx)
    bundles = c03.gen_bundles(rng, w, thorough)
    ctx.both([f'bundle.write {b}' for b in bundles])
    ctx.both([f'bundle.write.plain {b}' for b in bundles])
    ctx.both([f'bundle.write.cw {b}' for b in bundles[::2]])
    # CountingWriter accounting (observation point CountingWriter.Written): Write / ReadFrom sequences, three destination kinds
    ctx.both(cw_ops(rng, 150 if not thorough else 3000))


def cw_ops(rng, n):
    ops = []
    sizes = [0, 1, 100, 32767, 32768, 32769, 65536, 65537, 100000]
    for kind in ('buf', 'plain', 'short', 'hard'):
        for total in sizes:
            for chunk in (1 if total <= 100 else 4096, 32768, 40000, 1 << 20):
                for room in ((0,) if kind in ('buf', 'plain') else (0, 1, total // 2, 32768, 32769, total, total + 5)):
                    ops.append(f'cw.seq {kind} {room} r{total}/{chunk}')
                    ops.append(f'cw.seq {kind} {room} w7,r{total}/{chunk},w3,r5/2')
                    ops.append(f'cw.seq {kind} {room} R{total}/{chunk}')
                    ops.append(f'cw.seq {kind} {room} w7,R{total}/{chunk},w3,R5/2')
    for _ in range(n):
        kind = rng.choice(['buf', 'plain', 'short', 'hard'])
        seq = ','.join(rng.choice([f'w{rng.choice(sizes)}', f'{rng.choice("rR")}{rng.choice(sizes)}/{rng.choice([1, 7, 4096, 32768, 32769, 100000])}']) for _ in range(rng.randrange(1, 6)))
        seq = ','.join(o for o in seq.split(',') if not (o[0] in 'rR' and int(o[1:].split('/')[0]) > 1000 and o.endswith('/1')))
        if seq:
            ops.append(f'cw.seq {kind} {rng.choice([0, 10, 40000, 70000, 200000])} {seq}')
    return list(dict.fromkeys(ops))

