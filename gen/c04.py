from common import *
from bundlelib import *
import c03

THEOREMS = ['C04.write_wellFormed', 'C04.write_count', 'C04.response_wellFormed', 'C04.variants_index_complete']
TRUSTED = c03.TRUSTED
ASSUMPTIONS = ['well-formedness is judged by Spec/Bundle.lean WellFormed (proved for every output of the model writer); the correspondence compares Go\'s bytes with the model\'s bytes for both destination kinds and Go\'s returned count with the number of bytes the destination received']
RULE = ('same bundle space as C03 (versions x exchanges x URL shapes x header maps x statuses x body length classes x optional sections x b1 Variants sets); compared ops: bundle.write (destination implementing io.ReaderFrom: bytes.Buffer) and '
        'bundle.write.plain (destination without ReaderFrom), incl. returned count = bytes received (count-mismatch is a disagreement); destinations that fail after k bytes (plain io.Writer, + WriteByte / WriteString / ReadFrom, bufio.Writer of the caller, /dev/full; short write / error return; k at both ends, around every conventional buffer size and within a buffer size of the end) for bundles below / above 4096 and 8192 bytes: error iff k < size, accepted bytes are a prefix, count = accepted; non-trivial = bundle with at least one exchange')
EXHAUSTIVE = {}
agree = Base.agree; signature = Base.signature; explain = Base.explain
nontrivial = c03.nontrivial
classify = c03.classify


def run(ctx):
    rng, thorough = ctx.rng, ctx.tier == 'thorough'
    w = sxg_setup(ctx)
    bundles = c03.gen_bundles(rng, w, thorough)
    ctx.both([f'bundle.write {b}' for b in bundles])
    ctx.both([f'bundle.write.plain {b}' for b in bundles])
    ctx.both([f'bundle.write.cw {b}' for b in bundles[::2]])
    # CountingWriter accounting (observation point CountingWriter.Written): Write / ReadFrom sequences, three destination kinds
    ctx.both(cw_ops(rng, 150 if not thorough else 3000))
    # destinations that FAIL: the count returned = bytes the destination accepted, and "no error" only for the complete bundle
    failing_destinations(ctx, thorough)


def fault_positions(T, dense):
    """failure positions for an output of T bytes: both ends, the middle, every buffer-size boundary a writer in between might
    have (16 ... 65536, and its multiples inside the output), distances from the end up to a buffer size"""
    ks = set(range(0, T + 1)) if dense else set()
    ks |= set(range(0, 12)) | {T + 5, T // 2, T // 3}
    for d in list(range(0, 41)) + [64, 100, 255, 256, 511, 512, 513, 1000, 4095, 4096, 4097, 8192]:
        ks.add(T - d)
    for b in (16, 64, 512, 1024, 4096, 8192, 32768, 65536):
        for m in range(1, 4):
            ks |= {b * m - 1, b * m, b * m + 1}
        ks |= {T - T % b - 1, T - T % b, T - T % b + 1}      # the last full buffer before the end
    return sorted(k for k in ks if 0 <= k <= T + 5)


def failing_destinations(ctx, thorough):
    """`fault bundle` (destination: a plain io.Writer that runs out of room after k bytes, short-write and error-return flavour) and
    `fault.destio` (the same destination offering WriteByte / WriteString / ReadFrom / all of them, a caller's bufio.Writer, /dev/full)
    for b1 / b2 bundles whose size is below one, between one and two, and above several conventional buffer sizes"""
    U = b'https://example.com/'
    arts = []
    for ver in ('b1', 'b2'):
        for blen in (13, 6000, 9000) + ((70000,) if thorough else ()):
            arts.append(bundle(ver, U, None, None, [exch(U, 200, [(b'Content-Type', [b'text/plain'])], b'p' * blen)]))
        arts.append(bundle(ver, U, None, None, []))
        arts.append(bundle(ver, U, U + b'manifest' if ver == 'b1' else None, None, [exch(U, 200, [(b'A', [b'1'])], b'x' * 4000), exch(U + b'2', 404, [], b''), exch(U + b'3', 200, [(b'B', [b'2', b'3'])], b'y' * 5000)]))
    lens = ctx.go([f'faultlen bundle {a}' for a in arts])
    ctx.both([f'faultlen bundle {a}' for a in arts])
    ops = []
    for a, ln in zip(arts, lens):
        if not (ln and ln.startswith('ok ')):
            ctx.infra.append('C04 failing_destinations: artifact could not be written'); continue
        T = int(ln.split(' ')[1])
        ks = fault_positions(T, dense=T <= 400)
        for k in ks:
            for mode in ('short', 'error'):
                ops.append(f'fault bundle {k} {mode} {a}')
        sub = ks if T <= 400 else [k for k in ks if k < 12 or k > T - 24 or k % 4096 in (0, 1, 4095) or k in (T // 2, T // 3)]
        for i, k in enumerate(sub):
            for j, dk in enumerate(('plain', 'bw', 'sw', 'rf', 'all', 'bufio')):
                if T <= 400 and (i + j) % 3 and 12 <= k <= T - 24: continue
                ops.append(f'fault.destio {dk} bundle {k} {"short" if (i + j) % 2 else "error"} {a}')
        ops.append(f'fault.destio devfull bundle 0 error {a}')
    ctx.both(ops)


def cw_ops(rng, n):
    ops = []
    sizes = [0, 1, 100, 32767, 32768, 32769, 65536, 65537, 100000]
    for kind in ('buf', 'plain', 'short', 'hard'):
        for total in sizes:
            for chunk in (1 if total <= 100 else 4096, 32768, 40000, 1 << 20):
                for room in ((0,) if kind in ('buf', 'plain') else (0, 1, total // 2, 32768, 32769, total, total + 5)):
                    ops.append(f'cw.seq {kind} {room} r{total}/{chunk}')
                    ops.append(f'cw.seq {kind} {room} w7,r{total}/{chunk},w3,r5/2')
                    ops.append(f'cw.seq {kind} {room} R{total}/{chunk}')
                    ops.append(f'cw.seq {kind} {room} w7,R{total}/{chunk},w3,R5/2')
    for _ in range(n):
        kind = rng.choice(['buf', 'plain', 'short', 'hard'])
        seq = ','.join(rng.choice([f'w{rng.choice(sizes)}', f'{rng.choice("rR")}{rng.choice(sizes)}/{rng.choice([1, 7, 4096, 32768, 32769, 100000])}']) for _ in range(rng.randrange(1, 6)))
        seq = ','.join(o for o in seq.split(',') if not (o[0] in 'rR' and int(o[1:].split('/')[0]) > 1000 and o.endswith('/1')))
        if seq:
            ops.append(f'cw.seq {kind} {rng.choice([0, 10, 40000, 70000, 200000])} {seq}')
    return list(dict.fromkeys(ops))

