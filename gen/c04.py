from common import *
from bundlelib import *
import c03

THEOREMS = ['C04.write_wellFormed', 'C04.write_count', 'C04.response_wellFormed', 'C04.variants_index_complete']
TRUSTED = c03.TRUSTED
ASSUMPTIONS = ['well-formedness is judged by Spec/Bundle.lean WellFormed (proved for every output of the model writer); the correspondence compares Go\'s bytes with the model\'s bytes for both destination kinds and Go\'s returned count with the number of bytes the destination received']
RULE = ('same bundle space as C03 (versions x exchanges x URL shapes x header maps x statuses x body length classes x optional sections x b1 Variants sets); compared ops: bundle.write (destination implementing io.ReaderFrom: bytes.Buffer) and '
        'bundle.write.plain (destination without ReaderFrom), incl. returned count = bytes received (count-mismatch is a disagreement); non-trivial = bundle with at least one exchange')
EXHAUSTIVE = {}
agree = Base.agree; signature = Base.signature; explain = Base.explain
nontrivial = c03.nontrivial
classify = c03.classify


def run(ctx):
    rng, thorough = ctx.rng, ctx.tier == 'thorough'
    w = sxg_setup(ctx)
    bundles = c03.gen_bundles(rng, w, thorough)
    ctx.both([f'bundle.write {b}' for b in bundles])
    ctx.both([f'bundle.write.plain {b}' for b in bundles])
