from common import *
from bundlelib import *
import c10

THEOREMS = ['C05.read_no_panic', 'C05.read_in_bounds', 'C05.unknown_sections_skipped', 'C05.sections_fit']
TRUSTED = ['Go stdlib net/url, crypto/x509, regexp, bytes.Buffer, ioutil.ReadAll (modelled or supplied by harness oracle ops)']
ASSUMPTIONS = ['the independent extraction oracle is the Lean model proved panic-free and in-bounds; Go is compared with it on result class and on the complete returned bundle']
RULE = ('valid bundles (b1/b2, with variants, primary/manifest/signatures sections) and mutants: EVERY CBOR head of the file (lengths, offsets, counts, section lengths, index entries; also inside nested byte strings) '
        'replaced by {0, v-1, v+1, file size, 2^32, 2^63, 2^64-1} (shortest and 8-byte forms), truncation at every offset (small files) / sampled, sections reordered / duplicated / renamed to unknown names / removed, '
        'trailing-length edits, random byte edits; sources handed over at a position k > 0 (nine reader kinds: read / Seek / Next / Discard behind a k-byte prefix, SectionReader window, LimitReader with bytes behind the file, os.File) x files cut j bytes short for j around 9, k, k+9; compared: ok+bundle / err / panic; non-trivial = mutant')
EXHAUSTIVE = {}

agree = Base.agree; nontrivial = Base.nontrivial; signature = Base.signature; explain = Base.explain


def classify(op, m):
    return f'bundle.read:{m.split(" ")[0]}'


def enc_head(mt, n, size=None):
    if size is None:
        size = 0 if n < 24 else 1 if n < 256 else 2 if n < 65536 else 4 if n < 2**32 else 8
    if size == 0: return bytes([mt * 32 + n])
    return bytes([mt * 32 + {1: 24, 2: 25, 4: 26, 8: 27}[size]]) + n.to_bytes(size, 'big')


def walk(bs, pos, end, heads, depth=0):
    """walk CBOR items in bs[pos:end], recording (pos, headlen, mt, value); returns True if the range parses completely"""
    while pos < end:
        b = bs[pos]; mt, ai = b >> 5, b & 31
        if ai < 24: hl, v = 1, ai
        elif ai in (24, 25, 26, 27):
            k = {24: 1, 25: 2, 26: 4, 27: 8}[ai]
            if pos + 1 + k > end: return False
            hl, v = 1 + k, int.from_bytes(bs[pos + 1:pos + 1 + k], 'big')
        else: return False
        heads.append((pos, hl, mt, v))
        pos += hl
        if mt in (2, 3):
            if pos + v > end: return False
            if mt == 2 and v > 0 and depth < 4:
                sub = []
                if walk(bs, pos, pos + v, sub, depth + 1): heads.extend(sub)
            pos += v
        elif mt in (4, 5):
            pass  # children follow inline
        elif mt in (0, 1, 7):
            pass
        else: return False
    return pos == end


def mutants(rng, f, thorough):
    out = []
    heads = []
    start = 15
    walk(f, start, len(f), heads)
    for (pos, hl, mt, v) in heads:
        for nv in {0, max(v - 1, 0), v + 1, len(f), 2**32, 2**63, 2**64 - 1, 2**63 - 1, 2**64 - 11}:
            if nv == v: continue
            out.append(f[:pos] + enc_head(mt, nv) + f[pos + hl:])
            if thorough and nv < 2**64: out.append(f[:pos] + enc_head(mt, nv, 8) + f[pos + hl:])
        if v > 0: out.append(f[:pos] + enc_head(mt, v, 8) + f[pos + hl:])      # non-shortest head, same value
        out.append(f[:pos] + enc_head((mt + 1) % 8, v) + f[pos + hl:])          # wrong major type
    # coordinated pairs: two consecutive unsigned integers (offset, length) whose 64-bit sum wraps around
    uints = [(pos, hl, v) for (pos, hl, mt, v) in heads if mt == 0]
    for (p1, h1, v1), (p2, h2, v2) in zip(uints, uints[1:]):
        if p2 != p1 + h1:
            continue
        for ln in {v2, max(v2, 1), len(f) // 2, len(f) - 60 if len(f) > 200 else v2}:
            if ln <= 0: continue
            for off in {2**64 - ln, 2**64 - ln + 1, 2**64 - ln - 1 if ln < 2**64 - 1 else 0}:
                if 0 <= off < 2**64:
                    out.append(f[:p1] + enc_head(0, off) + enc_head(0, ln) + f[p2 + h2:])
    ks = range(len(f)) if (len(f) <= (600 if thorough else 250)) else sorted(rng.sample(range(len(f)), 150))
    for k in ks: out.append(f[:k])
    out.append(f + b'\x00'); out.append(f[:-8] + (len(f) + 1).to_bytes(8, 'big')); out.append(f[:-9])
    for _ in range(60 if not thorough else 400):
        t = bytearray(f); t[rng.randrange(len(t))] = rng.getrandbits(8); out.append(bytes(t))
    # section names: rename to unknown / duplicate known
    for name in (b'index', b'primary', b'manifest', b'signatures', b'responses'):
        i = f.find(bytes([0x60 + len(name)]) + name)
        if i >= 0:
            out.append(f[:i + 1] + b'z' * len(name) + f[i + 1 + len(name):])
            other = b'index' if name != b'index' else b'responses'
            if len(other) == len(name): out.append(f[:i + 1] + other + f[i + 1 + len(name):])
    return out


def sections_variants(f):
    """reorder / insert unknown sections by rebuilding the section table of a b2 bundle (python re-serialisation)"""
    out = []
    try:
        assert f[:15] == bytes.fromhex('8548f09f8c90f09f93a6') + bytes.fromhex('4462320000')
        pos = 15
        heads = []
        # section-lengths bstr
        b = f[pos]; assert b >> 5 == 2
        ai = b & 31
        if ai < 24: hl, sl = 1, ai
        else:
            k = {24: 1, 25: 2}[ai]; hl, sl = 1 + k, int.from_bytes(f[pos + 1:pos + 1 + k], 'big')
        table = f[pos + hl: pos + hl + sl]
        pos += hl + sl
        secs = []
        tp = 1 if table[0] < 0x98 else 2
        n = (table[0] & 31) if table[0] < 0x98 else table[1]
        for _ in range(n // 2):
            ln = table[tp] & 31; name = table[tp + 1: tp + 1 + ln]; tp += 1 + ln
            b2 = table[tp]; a2 = b2 & 31
            if a2 < 24: v, h2 = a2, 1
            else:
                k = {24: 1, 25: 2, 26: 4, 27: 8}[a2]; v, h2 = int.from_bytes(table[tp + 1: tp + 1 + k], 'big'), 1 + k
            tp += h2
            secs.append((name, v))
        assert f[pos] >> 5 == 4
        pos += 1
        bodies = []
        for name, v in secs:
            bodies.append((name, f[pos:pos + v])); pos += v
        footer_len = 9

        def build(slist):
            tab = enc_head(4, 2 * len(slist)) + b''.join(enc_head(3, len(nm)) + nm + enc_head(0, len(bd)) for nm, bd in slist)
            body = f[:15] + enc_head(2, len(tab)) + tab + enc_head(4, len(slist)) + b''.join(bd for nm, bd in slist)
            return body + b'\x48' + (len(body) + 9).to_bytes(8, 'big')
        out.append(build(bodies))                                                     # identity rebuild
        out.append(build([(b'zzz', b'\x01\x02\x03')] + bodies))                        # unknown section first (F6)
        out.append(build(bodies[:-1] + [(b'ext', b'')] + bodies[-1:]))                # unknown empty section before responses
        out.append(build(bodies[:1] + [(b'unknown-section', b'\xa0' * 40)] + bodies[1:]))
        if len(bodies) >= 2:
            out.append(build([bodies[-1]] + bodies[:-1]))                             # responses first
            out.append(build(bodies + bodies[:1]))                                    # duplicate index at the end
            out.append(build(bodies[1:]))                                             # index missing
            out.append(build(bodies[:-1]))                                            # responses missing
        out.append(build([(nm, bd) for nm, bd in reversed(bodies[:-1])] + bodies[-1:]))
        # the same section name twice where the earlier occurrence is EMPTY (a lookup that skips empty sections does not see it)
        for dup in ([(b'foo', b''), (b'foo', b'')], [(b'foo', b''), (b'foo', b'\x01\x02\x03')], [(b'foo', b'\x01'), (b'foo', b'')], [(b'responses', b'')], [(b'index', b'')],
                    [(b'primary', b''), (b'primary', b'')], [(b'signatures', b'')], [(b'manifest', b''), (b'manifest', b'')], [(b'', b''), (b'', b'')]):
            out.append(build(dup + bodies))
            out.append(build(bodies[:1] + dup + bodies[1:]))
    except Exception:
        pass
    return out


def split_sections(f):
    """(prefix up to the section table, [(name, body)]) of a b1/b2 bundle written by the real writer"""
    pos = 15
    if f[0] == 0x86:
        n, h = c10.read_head(f, pos); pos += h + n
    pre = f[:pos]
    tl, h = c10.read_head(f, pos)
    table = f[pos + h: pos + h + tl]; pos += h + tl
    cnt, tp = c10.read_head(table, 0)
    secs = []
    for _ in range(cnt // 2):
        ln, h2 = c10.read_head(table, tp); name = table[tp + h2: tp + h2 + ln]; tp += h2 + ln
        v, h3 = c10.read_head(table, tp); tp += h3
        secs.append((name, v))
    pos += 1                                   # sections array head
    bodies = []
    for name, v in secs:
        bodies.append((name, f[pos:pos + v])); pos += v
    return pre, bodies


def join_sections(pre, bodies):
    tab = enc_head(4, 2 * len(bodies)) + b''.join(enc_head(3, len(nm)) + nm + enc_head(0, len(bd)) for nm, bd in bodies)
    body = pre + enc_head(2, len(tab)) + tab + enc_head(4, len(bodies)) + b''.join(bd for nm, bd in bodies)
    return body + b'\x48' + (len(body) + 9).to_bytes(8, 'big')


def index_mutants(f):
    """index entries (offset, length) replaced inside the index section, with the section table and the trailing length
    recomputed so that the rest of the file stays consistent: 64-bit wrap-around pairs, entries reaching before / beyond the
    responses section, entries into other sections"""
    out = []
    try:
        pre, bodies = split_sections(f)
        idx = [i for i, (nm, bd) in enumerate(bodies) if nm == b'index'][0]
        ib = bodies[idx][1]
        resp_len = len(bodies[-1][1])
        heads = []
        walk(ib, 0, len(ib), heads)
        uints = [(pos, hl, v) for (pos, hl, mt, v) in heads if mt == 0]
        M = 1 << 64
        for (p1, h1, v1), (p2, h2, v2) in zip(uints, uints[1:]):
            if p2 != p1 + h1:
                continue
            cands = set()
            for ln in {v2, 1, resp_len, resp_len // 2, max(resp_len - 1, 1)}:
                for off in (M - ln, M - ln + 1, M - ln - 1, M - 1, resp_len - ln + 1 if resp_len >= ln else 0, resp_len, M // 2):
                    if 0 <= off < M and 0 < ln < M:
                        cands.add((off, ln))
            cands |= {(v1, resp_len + 1), (v1, M - 1), (v1, M - v1), (v1 + 1, v2), (0, resp_len), (resp_len, 0), (M - 1, 0)}
            for off, ln in sorted(cands):
                if not (0 <= off < M and 0 <= ln < M): continue
                nb = ib[:p1] + enc_head(0, off) + enc_head(0, ln) + ib[p2 + h2:]
                out.append(join_sections(pre, bodies[:idx] + [(b'index', nb)] + bodies[idx + 1:]))
        # one entry rewritten to share the offset (or the end) of another: same range (legal, response shared), shorter, longer, shifted
        pairs = [((p1, h1, v1), (p2, h2, v2)) for (p1, h1, v1), (p2, h2, v2) in zip(uints, uints[1:]) if p2 == p1 + h1]
        for a, ((q1, g1, o1), (q2, g2, l1)) in enumerate(pairs):
            for b_, ((p1, h1, v1), (p2, h2, v2)) in enumerate(pairs):
                if a == b_: continue
                for off, ln in ((o1, l1), (o1, l1 - 1), (o1, l1 + 1), (o1, 1), (o1 + 1, l1 - 1), (o1, l1 + v2), (o1 + l1 - v2 if o1 + l1 >= v2 else 0, v2)):
                    if 0 <= off < M and 0 < ln < M:
                        nb = ib[:p1] + enc_head(0, off) + enc_head(0, ln) + ib[p2 + h2:]
                        out.append(join_sections(pre, bodies[:idx] + [(b'index', nb)] + bodies[idx + 1:]))
    except Exception:
        pass
    return out


READER_KINDS = ('bytes', 'seek', 'strings', 'section', 'window', 'buffer', 'bufio', 'limit', 'file')


def positioned_sources(ctx, files, crafted, thorough):
    """the input of bundle.Read is what the caller's source still delivers, not what the source was created over: the file stands
    behind k bytes (a container header) that were read / skipped before (bundle.read.at; reader kinds with a Size method -
    bytes.Reader, strings.Reader, SectionReader -, with Stat - os.File -, without - Buffer, bufio, LimitReader with bytes BEHIND the
    file). RELATION walked: the file is cut j bytes short while k bytes were in front, for j below / at / above the 9-byte trailer and
    below / at / above k and k + 9 (bytes that are not in the input must not become part of a response), plus the uncut file"""
    ops = []
    ks = (1, 9, 16, 64) + ((4096,) if thorough else ())
    for fi, f in enumerate(files):
        for k in ks:
            js = sorted({0, 1, 8, 9, 10, 11, 14, k, k + 1, k + 8, k + 9, k + 10, max(k - 1, 0), 2 * k + 9})
            for ji, j in enumerate(js):
                if j >= len(f): continue
                cut = f[:len(f) - j]
                kinds = READER_KINDS if (fi < 4 or len(f) < 400) else READER_KINDS[(fi + ji) % 3::3]
                if len(f) > 5000: kinds = ('bytes', 'section', 'file') if j in (0, 10, k + 9) else ()
                for rk in kinds:
                    ops.append((f'bundle.read.at {rk} {k}', cut))
    # hand-made bundles (header-map faults, odd index keys) and cuts of the first files at EVERY offset through positioned sources
    for ci, c in enumerate(crafted):
        ops.append((f'bundle.read.at {READER_KINDS[ci % len(READER_KINDS)]} {(1, 9, 16, 64)[ci % 4]}', c))
    for f in files[:2]:
        for cutat in range(len(f)):
            ops.append((f'bundle.read.at {READER_KINDS[cutat % 4]} {len(f) - cutat}', f[:cutat]))       # as many bytes in front as are missing behind
            ops.append((f'bundle.read.at {READER_KINDS[cutat % 4]} {max(len(f) - cutat - 9, 1)}', f[:cutat]))
    pairs = list(dict.fromkeys((op, hexs(data)) for op, data in ops))
    uniq_files = list(dict.fromkeys(f for _, f in pairs))
    needs = ctx.model([f'bundle.read.needs {f}' for f in uniq_files])           # one staged pass for all ops (as bundlelib.read_stage)
    tabs = dict(zip(uniq_files, burl_tables(ctx, [[q for q in (n or '').split(' ') if ':' in q] for n in needs])))
    ctx.both([f'{op} {f} {tabs[f][0]} {tabs[f][1]}' for op, f in pairs])


def run(ctx):
    rng, thorough = ctx.rng, ctx.tier == 'thorough'
    w = sxg_setup(ctx)
    seeds = []
    for ver in ('b1', 'b2'):
        seeds.append(bundle(ver, b'https://example.com/', None, None, [exch(b'https://example.com/', 200, [(b'Content-Type', [b'text/html'])], b'hello')]))
        seeds.append(bundle(ver, b'https://example.com/a', None, None, [exch(b'https://example.com/a', 200, [(b'X-A', [b'1'])], b'A' * 30), exch(b'https://example.com/b', 404, [], b'')]))
        for _ in range(2 if not thorough else 10):
            seeds.append(rand_bundle(rng, ver, w, nex=rng.randrange(1, 4)))
    for ver in ('b1', 'b2'):      # a responses section much larger than everything in front of it
        seeds.append(bundle(ver, b'https://example.com/', None, None, [exch(b'https://example.com/', 200, [], b'B' * 3000), exch(b'https://example.com/2', 200, [], b'C' * 1200)]))
    grp = variants_group(rng, b'https://example.com/v', [(b'Accept-Language', [b'en', b'fr'])])
    seeds.append(bundle('b1', b'https://example.com/v', b'https://example.com/m', None, [e for e, c in grp]))
    k = w.keys[0]
    seeds.append(bundle('b2', b'https://example.com/', None, f'{k["cert"]}:{hexs(b"o")}:nil/0:{hexs(b"sig")}:{hexs(b"signed")}', [exch(b'https://example.com/', 200, [], b'x')]))
    res, _ = ctx.both([f'bundle.write {b}' for b in seeds])            # compared: seeds are the model writer's bytes too
    files = [unhex(r.split(' ')[1]) for r in res if r and r.startswith('ok ')]
    if len(files) < len(seeds) // 2:        # (random bundles may legitimately be refused by the writer; only a collapse is an infrastructure problem)
        ctx.infra.append(f'{len(seeds) - len(files)} of {len(seeds)} seed bundles could not be written')
    muts = []
    for f in files:
        muts.append(f)
        muts += mutants(rng, f, thorough)
        muts += sections_variants(f)
        muts += index_mutants(f)
        muts += c10.retabled(f)            # declared section lengths whose sum wraps / single huge entries (table re-measured)
    # response header maps written by hand: duplicated names (either value empty, equal, different), names that collide only
    # after canonicalisation, pseudo headers duplicated / missing / misplaced, unsorted keys, wrong declared count
    ST = (b':status', b'200')
    crafted = []
    for pairs, count in [([ST, (b'x-note', b''), (b'x-note', b'injected')], None), ([ST, (b'x-note', b'first'), (b'x-note', b'')], None), ([ST, (b'x-note', b''), (b'x-note', b'')], None),
                         ([ST, (b'x-note', b'a'), (b'x-note', b'a')], None), ([ST, (b'content-type', b''), (b'content-type', b'text/html')], None),
                         ([(b'x-a', b''), ST, (b'x-a', b'v')], None), ([ST, ST], None), ([ST, (b':status', b'404')], None), ([(b'x-a', b'1')], None), ([ST, (b'X-A', b'1')], None),
                         ([ST, (b'x-b', b'2'), (b'x-a', b'1')], None), ([ST, (b'x-a', b'1')], 3), ([ST, (b'x-a', b'1'), (b'x-b', b'2')], 2), ([ST, (b':method', b'GET')], None),
                         ([(b':status', b'20')], None), ([(b':status', b'2000')], None), ([(b':status', b'2x0')], None),
                         # three bytes that a number parser takes but that are not three digits; and other near-numbers
                         ([(b':status', b'-20')], None), ([(b':status', b'+20')], None), ([(b':status', b'-07')], None), ([(b':status', b'+00')], None), ([(b':status', b'-00')], None),
                         ([(b':status', b' 20')], None), ([(b':status', b'20 ')], None), ([(b':status', b'2e1')], None), ([(b':status', b'0x1')], None), ([(b':status', b'1_0')], None),
                         ([(b':status', b'\xef\xbc\x91')], None), ([(b':status', b'000')], None), ([(b':status', b'099')], None), ([(b':status', b'600')], None), ([(b':status', b'999')], None), ([(b':status', b'')], None), ([ST, (b'x-a', b'caf\xc3\xa9')], None), ([ST, (b'', b'v')], None)]:
        r = craft_response(pairs, b'body', count)
        crafted.append(craft_b2([(b'https://example.com/', r)]))
        crafted.append(craft_b2([(b'https://example.com/0', craft_response([ST], b'ok')), (b'https://example.com/1', r)], primary=b'https://example.com/0'))
    # index keys (b2) that are not plain absolute URLs: with a fragment, with credentials, relative, empty, not UTF-8-clean, with spaces
    for ku in (b'https://example.com/page#top', b'https://example.com/page?x=1#top', b'https://example.com/#', b'https://user:pw@example.com/', b'/relative', b'', b'https://example.com/a b',
               b'HTTPS://EXAMPLE.com/', b'https://example.com', b'//example.com/x', b'https://example.com/%zz', b'https://[::1]/', b'urn:x:y'):
        crafted.append(craft_b2([(ku, craft_response([ST], b'k'))]))
        crafted.append(craft_b2([(b'https://example.com/0', craft_response([ST], b'ok')), (ku, craft_response([ST], b'k'))], primary=b'https://example.com/0'))
    muts += crafted
    # header magic of one version with the version string of the other, and other pairings of the two magic fields
    magic_mix = []
    for f in files:
        if len(f) > 15:
            for h0 in (0x85, 0x86, 0x84, 0x87):
                for vs in (b'b1', b'b2', b'b3', b'b0'):
                    magic_mix.append(bytes([h0]) + f[1:11] + vs + f[13:])
    muts += magic_mix
    # b1 index entries whose Variants axes multiply past the limit, to 2^63, to 2^64 (wraps to 0) and beyond, with a value array that
    # carries no / one / the honest number of locations; plus small honest variant entries built the same way (controls)
    okr = craft_response([ST], b'ok')
    def axes(n, k=2): return b', '.join(b'A%d;' % i + b';'.join(b'v%d' % j for j in range(k)) for i in range(n))
    b1c = []
    for vv, nresp, nlocs in [(b'accept-encoding, accept-language;en', 1, 1), (b'accept-language;en, accept-encoding', 1, 1), (b'accept-encoding', 1, 1), (b'a, b, c;x', 1, 1), (b'a;x, b, c;y;z', 2, 2),
                             (b',', 1, 1), (b'a;x,', 1, 1), (b'a;;x', 1, 1), (b';', 1, 1), (b'a;x;x', 2, 2), (b'a;x, a;y', 1, 1), (axes(1), 2, None), (axes(2), 4, None), (axes(2), 4, 3), (axes(2), 4, 0), (axes(1), 2, 0), (axes(13), 1, 1), (axes(14), 1, 1), (axes(14), 0, 0),
                             (axes(62), 0, 0), (axes(63), 0, 0), (axes(64), 0, 0), (axes(65), 0, 0), (axes(70), 0, 0), (axes(63), 1, 1), (axes(64), 1, 1), (axes(32, 4), 0, 0), (axes(16, 16), 0, 0),
                             (axes(1, 10000), 0, 0), (axes(1, 10001), 0, 0), (axes(2, 100), 0, 0), (axes(2, 101), 0, 0), (b'', 1, None), (b'', 2, None), (b'', 1, 0)]:
        ents = [(b'https://example.com/huge', vv, [craft_response([ST], b'r%d' % i) for i in range(nresp)], nlocs), (b'https://example.com/ok', b'', [okr], None)]
        b1c.append(craft_b1(ents)); b1c.append(craft_b1(list(reversed(ents))))
    muts += b1c
    # bundles past 64 KiB: offsets / lengths of every CBOR width class (1, 2, 3, 5 byte heads) decoded one after another by the same
    # decoder, in both orders (index entries are sorted by URL, so the URL names decide the order in which the widths appear)
    bigseeds = []
    for ver in ('b1', 'b2'):
        for names in ((b'a', b'b', b'c', b'd', b'e'), (b'e', b'd', b'c', b'b', b'a'), (b'c', b'a', b'e', b'b', b'd')):
            sizes = [10, 70000, 1000, 2000, 300]
            bigseeds.append(bundle(ver, b'https://example.com/' + names[0], None, None,
                                   [exch(b'https://example.com/' + n, 200, [(b'X-N', [n])], bytes([65 + i]) * sz) for i, (n, sz) in enumerate(zip(names, sizes))]))
    bres, _ = ctx.both([f'bundle.write {b}' for b in bigseeds])
    bigfiles = [r.split(' ')[1] for r in bres if r and r.startswith('ok ')]
    if len(bigfiles) < len(bigseeds):
        ctx.infra.append(f'{len(bigseeds) - len(bigfiles)} large seed bundles could not be written')
    read_stage(ctx, bigfiles)
    # F5/F6/F7 witnesses built by hand
    seen, uniq = set(), []
    for mfile in muts:
        if mfile not in seen:
            seen.add(mfile); uniq.append(mfile)
    if not thorough and len(uniq) > 20000:
        keep = set(crafted) | set(b1c) | set(magic_mix)
        for f in files:
            keep.update(index_mutants(f)); keep.update(c10.retabled(f)); keep.update(sections_variants(f)); keep.add(f)
        rest = [u for u in uniq if u not in keep]
        first = [u for u in uniq if u in keep]
        uniq = first + [rest[i] for i in sorted(rng.sample(range(len(rest)), max(0, min(len(rest), 20000 - len(first)))))]   # structured mutants all kept; the rest sampled
    read_stage(ctx, [hexs(x) for x in uniq])
    read_stage(ctx, [hexs(x) for x in uniq[::9]], op='bundle.read.buffer')
    positioned_sources(ctx, files + [unhex(x) for x in bigfiles[:2]], crafted, thorough)
