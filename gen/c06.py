from common import *
from bundlelib import *
from sxglib import oracle_tables
import re, hashlib

THEOREMS = ['C06.authority_invariant', 'C06.authority_points_to_own_leaf', 'C06.honest_verifies', 'C06.honest_verifies_all', 'C06.honest_verifies_after_roundtrip', 'C06.verify_sound', 'C06.subset_checked_before_trusted', 'C06.signedMessage_injective']
TRUSTED = ['ECDSA and SHA-256 are parameters; every signature verdict the model uses comes from the independent strict-DER oracle (oracle.sig) on the message the MODEL computes, so a signer/verifier that builds another message disagrees',
           'x509 VerifyHostname (CanSignForURL) is the parameter canSign, answered by oracle.cansign', 'net/url.Parse of the validity URL (oracle.url)']
ASSUMPTIONS = ['a second signer covering an exchange that already carries a Digest header fails by design (expected error on both sides; disjointness of successful sequences is a theorem)',
               'the signing loop of cmd/sign-bundle `addSignature` (package main) is replicated in the harness from library calls']
RULE = ('staged: bundles (b1/b2) x certificates/hosts x P-256/P-384 x record sizes x sequences of 1..3 signers (real ECDSA signing by the harness), model recomputes the signed bundle from the signature bytes (bsig.signstep), '
        'verify (NewVerifier + VerifyExchange for every exchange) before and after a bundle write/read cycle at t in {date-1, date, mid, expires, expires+1}, and mutants: body / status / header edits of covered exchanges, '
        'sig bytes, signed-subset bytes, authority index, swapped/dropped authorities, lifetime > 7 days; plus SignedSubset.Encode and generateSignedMessage ops; non-trivial = compared op on a signed bundle; '
        'near-miss families: a covered response that already has a Digest field (21 kinds of value: other algorithms, lists, empty, look-alikes of the MI name, the right MI digest) x position in the bundle; '
        'signatures made at the wall-clock time verified at the zero time.Time and its neighbours, the epoch, and around date / expires, before and after write/read')
EXHAUSTIVE = {}

agree = Base.agree; nontrivial = Base.nontrivial; signature = Base.signature; explain = Base.explain


def classify(op, m):
    t = op.split(' ')
    return f'{t[0]}:{m.split(" ")[0]}'


HOSTS = {b'example.com': [b'https://example.com/', b'https://example.com/a', b'https://www.example.com/w', b'https://example.com:8443/p', b'https://example.com:443/d', b'https://Example.com/Mixed.html', b'https://EXAMPLE.COM:443/U',
                           # spellings that re-assembling a url.URL from its parts changes (RawPath, ForceQuery)
                           b'https://example.com/caf%c3%a9.html', b'https://example.com/a%2Fb.js', b'https://example.com/wiki/Go_(game)', b"https://example.com/it's!/*.txt", b'https://example.com/%7Euser/x', b'https://example.com/search?'], b'other.example': [b'https://other.example/', b'https://other.example/x']}


def verify_stage(ctx, items):
    """items: (bundle spec str, (sec, nsec))"""
    if not items: return [], []
    needs = ctx.model([f'bsig.verify.needs {b}' for b, t in items])
    need_lists = [[q for q in (n or '').split(' ') if ':' in q] for n in needs]
    tabs = oracle_tables(ctx, need_lists, None)
    return ctx.both([f'bsig.verify {b} {t[0]} {t[1]} {u} {c} {s}' for (b, t), (u, c, s) in zip(items, tabs)])


def sign_compare(ctx, jobs, chain, vurl):
    """one signer over each job's bundle: bsig.sign on the real code, bsig.signstep (fed with the signature bytes) on the model, compared.
    job: dict(b, key, rs, long, date, nsec, dur); returns the signed bundle spec (or None) per job"""
    ops = [f'bsig.sign {j["b"]} {j["rs"]} {chain(j["key"], j["long"])} {j["key"]["key"]} {hexs(vurl)} {j["date"]}:{j["nsec"]} {j["dur"]}' for j in jobs]
    res = ctx.go(ops)
    cq = []
    for j in jobs:
        j['urls'] = [e.split('~')[0] for e in j['b'].split(' ')[4].split(',') if e != '.']
        cq += [(j['key']['cert'], u) for u in j['urls']]
    cq = list(dict.fromkeys(cq))
    cmap = dict(zip(cq, ctx.go([f'oracle.cansign {c} {u}' for c, u in cq])))
    mops, gout, out = [], [], []
    for j, r in zip(jobs, res):
        cs = ','.join(f'{u}:{cmap[(j["key"]["cert"], u)]}' for u in j['urls']) or '.'
        ok = bool(r and r.startswith('ok '))
        sig = r[3:].split(' ')[3].split('/')[1].split('+')[-1].split(':')[1] if ok else '-'
        mops.append(f'bsig.signstep {j["b"]} {j["rs"]} {chain(j["key"], j["long"])} {hexs(vurl)} {j["date"]} {j["date"] + j["dur"]} {cs} {sig}')
        gout.append(('ok ' + r[3:]) if ok else 'err')
        out.append(r[3:] if ok else None)
    for op, g, m in zip(mops, gout, ctx.model(mops)):
        ctx.records.append((op, g, m))
    return out


def r10_stage(ctx, rng, chain, K, vurl):
    import time as _time, base64
    T = [(b'Content-Type', [b'text/plain'])]
    # (1) a covered response that already carries a Digest header field of ANY kind (another algorithm, several, empty, look-alikes of the
    # MI one, the right MI digest): the signer refuses (both sides: err) -- signing it would either stack a second value behind the
    # first (the verifier reads the first) or vouch for a digest that is not the one of the stored payload. Controls: the field on an
    # exchange the certificate does not cover (left alone, bundle signed), and no such field at all.
    body = b'<html>digest family</html>'
    s256 = b'sha-256=' + base64.b64encode(hashlib.sha256(body).digest())
    mi = b'mi-sha256-03=' + base64.b64encode(hashlib.sha256(body + b'\x00').digest())       # the MI digest of a single-record body
    fam = [[s256], [b'SHA-256=' + s256[8:]], [b'md5=1B2M2Y8AsgTpgAmY7PhCfg=='], [s256 + b',sha-512=AAAA'], [s256, b'sha-512=AAAA'], [b''], [b' '], [b'', b''], [b'mi-sha256-03'], [b'MI-SHA256-03=' + mi[13:]],
           [b'mi-sha256-draft2=' + mi[13:]], [b'xmi-sha256-03=' + mi[13:]], [s256, mi], [s256 + b',' + mi], [s256 + b', ' + mi], [b' ' + mi], [mi], [mi, s256], [b'mi-sha256-03='], [b'=', b'x'], [b'id=1']]
    jobs = []
    for n_, dv in enumerate(fam):
        for ver in ('b1', 'b2'):
            if n_ >= 6 and (n_ + (ver == 'b1')) % 2: continue          # the first six under both versions, the rest alternating
            exs = [exch(b'https://example.com/', 200, T, b'plain'), exch(b'https://example.com/digest.html', 200, T + [(b'Digest', dv)], body), exch(b'https://other.example/x', 200, T, b'uncovered')]
            if n_ % 3 == 1: exs = exs[1:]            # the exchange with the field is the first one / the only covered one
            if n_ % 3 == 2: exs = [exs[0], exs[2], exs[1]]      # ... the last one (everything before it has been processed already)
            jobs.append(dict(b=bundle(ver, unhex(exs[0].split('~')[0]) if ver == 'b1' else None, None, None, exs), key=K['A'] if n_ % 4 else K['A2'], rs=[16, 4096, 1][n_ % 3], long=False, date=1517418800, nsec=0, dur=3600))
    for ver in ('b1', 'b2'):
        for dv in (fam[0], fam[16], fam[5]):
            exs = [exch(b'https://example.com/', 200, T, b'plain'), exch(b'https://other.example/digest.html', 200, T + [(b'Digest', dv)], body)]
            jobs.append(dict(b=bundle(ver, b'https://example.com/' if ver == 'b1' else None, None, None, exs), key=K['A'], rs=16, long=False, date=1517418800, nsec=0, dur=3600))
    signed = [(b, j) for b, j in zip(sign_compare(ctx, jobs, chain, vurl), jobs) if b]
    verify_stage(ctx, [(b, (j['date'] + 5, 0)) for b, j in signed])
    # (2) signatures made just now (the window contains this machine's wall clock) verified at instants that have nothing to do with the
    # wall clock: the zero time.Time (year 1; what an unset field of a caller holds) and its neighbours, the Unix epoch, one second
    # outside either end, the ends themselves. A verifier that takes "zero" (or any far-away value) for "now" accepts where it must
    # answer "not yet valid". With the 2018 dates of every other family such a default is invisible: "now" is outside the window too.
    now = int(_time.time())
    jobs = []
    for ver in ('b1', 'b2'):
        for key, dur, back in ((K['A'], 3600, 60), (K['A2'], 604800, 3600), (K['B'], 86400, 1)):
            host = b'other.example' if key is K['B'] else b'example.com'
            exs = [exch(b'https://' + host + b'/', 200, T, b'made just now'), exch(b'https://' + host + b'/x', 200, T, rbytes(rng, 40))]
            jobs.append(dict(b=bundle(ver, b'https://' + host + b'/' if ver == 'b1' else None, None, None, exs), key=key, rs=16, long=dur == 604800, date=now - back, nsec=0, dur=dur))
    signed = [(b, j) for b, j in zip(sign_compare(ctx, jobs, chain, vurl), jobs) if b]
    Z = -62135596800          # time.Time{}.Unix()
    def instants(j):
        d, x = j['date'], j['date'] + j['dur']
        return [(Z, 0), (Z, 1), (Z - 1, 999999999), (Z + 1, 0), (Z + 32400, 0), (0, 0), (-1, 0), (1, 0), (d - 1, 0), (d - 1, 999999999), (d, 0), (now, 0), (x, 0), (x, 1), (x + 1, 0), (2**33, 0), (253402300800, 0)]
    verify_stage(ctx, [(b, t) for b, j in signed for t in instants(j)])
    wr, _ = ctx.both([f'bundle.write {b}' for b, j in signed])
    files = [(r.split(' ')[1], j) for r, (b, j) in zip(wr, signed) if r and r.startswith('ok ')]
    g, m = read_stage(ctx, [f for f, j in files])
    back_ = [(x[3:], j) for x, (f, j) in zip(g, files) if x and x.startswith('ok ')]
    verify_stage(ctx, [(b, t) for b, j in back_ for t in instants(j)[:1] + instants(j)[8:13]])


def run(ctx):
    rng, thorough = ctx.rng, ctx.tier == 'thorough'
    w = sxg_setup(ctx)
    kA = [k for k in w.keys if k['curve'] == 'p256' and k['hosts'].startswith(b'example.com')][0]
    kA2 = [k for k in w.keys if k['curve'] == 'p384'][0]
    kB = [k for k in w.keys if k['hosts'].startswith(b'other')][0]
    date = 1517418800
    vurl = b'https://example.com/validity'

    others = {id(k): [o for o in w.keys if o is not k] for k in w.keys}

    def chain(k, long=False, shared=None):
        if shared:
            return f'{k["cert"]}:{hexs(b"ocsp")}:nil,{shared}:nil:nil'
        # long: the leaf followed by further certificates (issuer position), so that authority indices are not 0, 1, 2, ...
        c = f'{k["cert"]}:{hexs(b"ocsp")}:nil'
        if long:
            c += ''.join(f',{o["cert"]}:nil:nil' for o in others[id(k)][:1 + (len(k["cert"]) % 2)])
        return c

    r3 = ctx.go([f'setup.key p256 {hexs(b"third.example")} 9'])[0]
    kC = None
    if r3 and r3.startswith('ok '):
        _, c3, k3 = r3.split(' ')
        kC = dict(curve='p256', hosts=b'third.example', cert=c3, key=k3)
        w.keys.append(kC); others[id(kC)] = [o for o in w.keys if o is not kC]
        HOSTS[b'third.example'] = [b'https://third.example/', b'https://third.example/t']
    bundles = []
    for ver in ('b1', 'b2'):
        for _ in range(10 if not thorough else 150):
            urls = rng.sample(HOSTS[b'example.com'], rng.randrange(1, 4)) + rng.sample(HOSTS[b'other.example'], rng.randrange(0, 3)) + ([b'/relative'] if rng.random() < 0.2 else [])
            rng.shuffle(urls)
            exs = []
            for u in urls:
                body = rbytes(rng, rng.choice([0, 1, 16, 17, 100]))
                hs_ = [(b'Content-Type', [b'text/plain'])] + ([(b'X-K', [b'v'])] if rng.random() < 0.5 else [])
                # header fields that describe the body as served (http.ServeFile always sets Content-Length): they go stale when the body
                # is replaced by its integrity encoding, and must not stop the signed bundle from being read back
                if len(exs) % 2 == 0: hs_ += [(b'Content-Length', [str(len(body)).encode()])] + ([(b'Etag', [b'"abc"']), (b'Accept-Ranges', [b'bytes'])] if len(exs) % 4 == 0 else [])
                exs.append(exch(u, 200, hs_, body))
            bundles.append(bundle(ver, urls[0] if ver == 'b1' else None, None, None, exs))
    # signer sequences
    seqs = []
    if kC:
        # three signers, disjoint hosts, every chain = own leaf + the SAME second certificate (a shared intermediate)
        shared = kA2['cert']
        for ver in ('b1', 'b2'):
            for _ in range(2 if not thorough else 20):
                urls = [HOSTS[b'example.com'][0], HOSTS[b'other.example'][0], HOSTS[b'third.example'][0], HOSTS[b'third.example'][1]]
                rng.shuffle(urls)
                exs3 = [exch(u, 200, [(b'Content-Type', [b'text/plain'])], rbytes(rng, rng.choice([1, 17, 100]))) for u in urls]
                b3 = bundle(ver, urls[0] if ver == 'b1' else None, None, None, exs3)
                ks = [kA, kB, kC]; rng.shuffle(ks)
                seqs.append(dict(b=b3, keys=ks, rs=16, dur=3600, long=[True, True, True], shared=shared))
    # a signer whose certificate covers NONE of the exchanges (its vouched subset is empty but correctly signed), before and after one that does
    for ver in ('b1', 'b2'):
        urls = HOSTS[b'example.com'][:3]
        exs0 = [exch(u, 200, [(b'Content-Type', [b'text/plain'])], rbytes(rng, 20)) for u in urls]
        for ks in ([kB, kA], [kA, kB], [kB]):
            seqs.append(dict(b=bundle(ver, urls[0] if ver == 'b1' else None, None, None, exs0), keys=ks, rs=16, dur=3600, long=[False] * len(ks)))
    for b in bundles:
        r = rng.random()
        ks = [kA] if r < 0.4 else [kA, kB] if r < 0.7 else [kB, kA2] if r < 0.85 else [kA, kA2]      # last: overlapping coverage -> error
        seqs.append(dict(b=b, keys=ks, rs=rng.choice([1, 16, 4096]), dur=rng.choice([3600, 604800, 604801]), long=[rng.random() < 0.5 for _ in ks]))
    signed_all = []
    for step in range(3):
        act = [s for s in seqs if step < len(s['keys']) and s['b']]
        # the signing instant has a sub-second part (time.Now() always has): date and expires are both floored to whole seconds
        for s in act:
            if 'nsec' not in s: s['nsec'] = [0, 600000000, 499999999, 999999999, 500000000, 1][len(signed_all + act) % 6] if s['dur'] != 3600 else rng.choice([0, 0, 700000000])
        ops = [f'bsig.sign {s["b"]} {s["rs"]} {chain(s["keys"][step], s["long"][step], s.get("shared"))} {s["keys"][step]["key"]} {hexs(vurl)} {date}:{s["nsec"]} {s["dur"]}' for s in act]
        res = ctx.go(ops)
        # cansign tables
        cq = []
        for s in act:
            urls = [e.split('~')[0] for e in s['b'].split(' ')[4].split(',') if e != '.']
            s['urls'] = urls
            cq += [(s['keys'][step]['cert'], u) for u in urls]
        cres = ctx.go([f'oracle.cansign {c} {u}' for c, u in cq])
        cmap = {k: v for k, v in zip(cq, cres)}
        mops, gout = [], []
        for s, r in zip(act, res):
            cs = ','.join(f'{u}:{cmap[(s["keys"][step]["cert"], u)]}' for u in s['urls']) or '.'
            sig = '-'
            if r and r.startswith('ok '):
                nb = r[3:]
                sig = nb.split(' ')[3].split('/')[1].split('+')[-1].split(':')[1]
            mops.append(f'bsig.signstep {s["b"]} {s["rs"]} {chain(s["keys"][step], s["long"][step], s.get("shared"))} {hexs(vurl)} {date} {date + s["dur"]} {cs} {sig}')
            gout.append(('ok ' + r[3:]) if r and r.startswith('ok ') else 'err')
        mres = ctx.model(mops)
        for op, g, m in zip(mops, gout, mres):
            ctx.records.append((op, g, m))
        for s, r in zip(act, res):
            if r and r.startswith('ok '):
                s['b'] = r[3:]
                signed_all.append((s['b'], s['dur']))
            else:
                s['b'] = None
    # verification: times, before and after write/read
    items = []
    for b, dur in signed_all:
        for t in [(date - 1, 0), (date, 0), (date + dur // 2, 7), (date + dur, 0), (date + dur, 1)]:
            items.append((b, t))
    verify_stage(ctx, items if thorough else items[:400])
    wr, _ = ctx.both([f'bundle.write {b}' for b, dur in signed_all])       # compared: the writer must serialise the signatures section as it is
    files = [(r.split(' ')[1], dur) for r, (b, dur) in zip(wr, signed_all) if r and r.startswith('ok ')]
    g, m = read_stage(ctx, [f for f, dur in files])
    back = [(x[3:], dur) for x, (f, dur) in zip(g, files) if x and x.startswith('ok ')]
    verify_stage(ctx, [(b, (date + 5, 0)) for b, dur in back])
    # mutants of signed bundles
    muts = []
    for b, dur in signed_all[: (25 if not thorough else 400)]:
        p = b.split(' ')
        exs = p[4].split(',')
        t_ok = (date + 5, 0)
        for i, e in enumerate(exs):
            f = e.split('~')
            body = unhex(f[3])
            variants = []
            if body:
                bb = bytearray(body); bb[rng.randrange(len(bb))] ^= 1 << rng.randrange(8)
                variants.append('~'.join([f[0], f[1], f[2], hexs(bytes(bb))]))
                variants.append('~'.join([f[0], f[1], f[2], hexs(body[:-1])]))
                # the encoded body cut at structural points (nothing, record-size field only, first record) and doubled
                for cut in (0, 4, 8, 9, 8 + 16, len(body) // 2):
                    if cut < len(body):
                        variants.append('~'.join([f[0], f[1], f[2], hexs(body[:cut])]))
                variants.append('~'.join([f[0], f[1], f[2], hexs(body + body)]))
            variants.append('~'.join([f[0], '404', f[2], f[3]]))
            variants.append('~'.join([f[0], f[1], f[2] + ';' + hexs(b'X-Injected') + '=' + hexs(b'1'), f[3]]))
            # a field added after signing under names some part of the code base treats specially (uncached / stateful / hop-by-hop lists,
            # integrity fields, variants): every one of them is covered by the header hash
            for nm2 in (b'Set-Cookie', b'Clear-Site-Data', b'Strict-Transport-Security', b'Www-Authenticate', b'Connection', b'Keep-Alive', b'Public-Key-Pins', b'Authorization', b'Cookie',
                        b'Variants', b'Variant-Key', b'Link', b'Signature', b'Content-Length'):
                if hexs(nm2).lower() in f[2].lower(): continue
                variants.append('~'.join([f[0], f[1], f[2] + ';' + hexs(nm2) + '=' + hexs(b'evil=1'), f[3]]))
            variants.append('~'.join([f[0], f[1], f[2].replace(hexs(b'text/plain'), hexs(b'text/html')), f[3]]))
            variants.append('~'.join([hexs(unhex(f[0]) + b'2'), f[1], f[2], f[3]]))
            # white space added around one header value (the header block hash must change)
            hl = f[2].split(';')
            for hi, hx in enumerate(hl):
                nm_, val_ = hx.split('=')
                first = unhex(val_.split('|')[0])
                for pv in (b' ' + first, first + b' ', first + b'\t', b'\t' + first, first + b'\r\n'):
                    variants.append('~'.join([f[0], f[1], ';'.join(hl[:hi] + [nm_ + '=' + '|'.join([hexs(pv)] + val_.split('|')[1:])] + hl[hi + 1:]), f[3]]))
            for nm in (b'Digest', b'Content-Encoding'):
                kept = ';'.join(x for x in f[2].split(';') if not x.lower().startswith(hexs(nm).lower()))
                variants.append('~'.join([f[0], f[1], kept or '.', f[3]]))
            variants.append('~'.join([f[0], f[1], ';'.join((x.split('=')[0] + '=' + hexs(b'mi-sha256-03=AAAA')) if x.lower().startswith(hexs(b'Digest').lower()) else x for x in f[2].split(';')), f[3]]))
            for v in variants:
                muts.append((' '.join(p[:4] + [','.join(exs[:i] + [v] + exs[i + 1:])]), t_ok))
        # signatures section edits
        auths, subs = p[3].split('/')
        sl = subs.split('+')
        for j, sub in enumerate(sl):
            ai, sg, sd = sub.split(':')
            sgb, sdb = bytearray(unhex(sg)), bytearray(unhex(sd))
            k1 = rng.randrange(len(sgb)); sgb[k1] ^= 1
            k2 = rng.randrange(len(sdb)); sdb[k2] ^= 1 << rng.randrange(8)
            for nsub in (f'{ai}:{hexs(bytes(sgb))}:{sd}', f'{ai}:{sg}:{hexs(bytes(sdb))}', f'{int(ai) + 1}:{sg}:{sd}', f'{max(int(ai) - 1, 0)}:{sg}:{sd}' if int(ai) > 0 else f'5:{sg}:{sd}',
                         f'{ai}:{hexs(unhex(sg) + bytes([0]))}:{sd}', f'{ai}:{hexs(unhex(sg)[:-1])}:{sd}'):
                muts.append((' '.join(p[:3] + [auths + '/' + '+'.join(sl[:j] + [nsub] + sl[j + 1:])] + p[4:]), t_ok))
        al = auths.split('+')
        if len(al) >= 2:
            muts.append((' '.join(p[:3] + ['+'.join(reversed(al)) + '/' + subs] + p[4:]), t_ok))
            muts.append((' '.join(p[:3] + ['+'.join(al[1:]) + '/' + subs] + p[4:]), t_ok))
        muts.append((' '.join(p[:3] + [chain(kB if al[0].startswith(kA['cert']) else kA) + '/' + subs] + p[4:]), t_ok))
        muts.append((' '.join([('b2' if p[0] == 'b1' else 'b1')] + ([p[1]] if p[1] != 'nil' else [exs[0].split('~')[0]]) + p[2:]), t_ok))   # other version context string
    verify_stage(ctx, muts)
    # SignedSubset.Encode / generateSignedMessage
    ops = []
    for _ in range(200 if not thorough else 4000):
        n = rng.randrange(0, 4)
        hs = []
        used = set()
        for _ in range(n):
            u = rng.choice(HOSTS[b'example.com'] + HOSTS[b'other.example'] + [b'/r', b''])
            if u in used: continue
            used.add(u)
            hs.append(hexs(u) + '^' + hexs(rbytes(rng, rng.choice([0, 0, 3]))) + ''.join('^' + hexs(rbytes(rng, 32)) + '~' + hexs(rng.choice([b'digest/mi-sha256-03', b'', b'x'])) for _ in range(rng.randrange(1, 3))))
        d = rng.choice([0, 1, date, -5, 2**40, 2**62])
        ops.append(f'bsig.subset {hexs(rng.choice([vurl, b"", b"https://example.com/" + b"v" * 30]))}|{hexs(rbytes(rng, rng.choice([0, 32])))}|{d}|{d + rng.choice([0, 3600, -1])}|{",".join(hs) or "."}')
        ops.append(f'bsig.msg {hexs(rbytes(rng, rng.randrange(0, 40)))} {rng.choice(["b1", "b2"])}')
    ctx.both(ops)

    r10_stage(ctx, rng, chain, dict(A=kA, A2=kA2, B=kB), vurl)

    # the real sign-bundle binary (its signing loop is not the library's): refuse, or write something that verifies completely
    import c20
    c20.sign_bundle_variants_stage(ctx, rng)
