from common import *
from sxglib import H, unhex
import hashlib, itertools

THEOREMS = ['C07.output_layout', 'C07.stack_newest_first_and_verifies', 'C07.errors_leave_state', 'C07.dataToBeSigned_injective', 'C07.webBundleId']
TRUSTED = ['Ed25519 (crypto/ed25519) and SHA-512 are parameters of the theorems; the harness supplies signatures (oracle.edsign) and an independent stdlib verdict (oracle.edverify) for every signature the model reasons about',
           'the Lean SHA-512 of the driver is compared with crypto/sha512 on every run (sha512 ops)', 'file I/O (os.File Seek/Stat/ReadAll) is modelled as the byte content of the file']
ASSUMPTIONS = ['attribute names are valid UTF-8 (the only name used by the tools is "ed25519PublicKey")']
RULE = ('staged: for files (random content whose last 8 bytes state the length, wrong / too large / negative trailers, files shorter than 8 bytes, already signed files) x Ed25519 key pairs from seeds x extra attribute maps '
        '(0-3 keys, every permutation) x matching / non-matching public key x failing strategy x sequences of 1..4 signing operations: model computes data-to-be-signed, harness signs it, compared ops ib.dts, ib.signadd '
        '(resulting block state and CBOR bytes), ib.cbor, ib.obtain, ib.id, sha512; every signature in an emitted block is re-verified by oracle.edverify; distinct = op lines; '
        'near-miss family: public keys that are not Ed25519 keys (lengths 0, 1, 16, 31, 33, 63, 64, 65, 96, stray byte before / after, one byte cut) through ib.signadd.anykey and ib.libverify')
EXHAUSTIVE = {}

agree = Base.agree; nontrivial = Base.nontrivial; signature = Base.signature; explain = Base.explain


def classify(op, m):
    return op.split(' ')[0] + ':' + m.split(' ')[0]


MAGIC = 'f09f968bf09f93a6'
VER = '31620000'
KEYNAME = b'ed25519PublicKey'


def attrs_str(a):
    return '&'.join(f'{hexs(k)}={hexs(v)}' for k, v in a) or '.'


def badkey_stage(ctx, rng, seeds, pks, states):
    """The public key about to be recorded is not an Ed25519 key at all: every length class around 32 (empty, 1, 16, 31, 33, 63, 64 = the
    private key / the key twice, 65, 96, the key as hex text), a stray byte before / after, one byte cut at either end, next to the two
    controls (matching key, other key of the right length). No signature verifies under such a key (oracle.edverify answers 0), so the
    signer must refuse and leave the block as it was (crypto/ed25519 panics on such a key; the harness op counts a panic that leaves the
    block untouched as a refusal). On an empty block and on one that already carries signatures; key handed to SignAndAddNewSignature
    recorded in the attributes (as SignWithIntegrityBlock does) or only verified against; the exported VerifyEd25519Signature directly."""
    seed, pk, other = seeds[0], unhex(pks[0]), unhex(pks[1])
    keys = [pk, other, pk + b'\n', pk + b'\x00', b'\x00' + pk, pk[:31], pk[1:], b'', pk[:1], pk[:16], unhex(seed) + pk, pk + pk, (pk + pk)[:63], pk + pk + b'\x00',
            pk.hex().encode(), pk * 3, bytes(31), bytes(33), pk + other[:1]]
    sts = [f'{MAGIC}:{VER}:.'] + [s for s in states if not s.endswith(':.')][:1]
    hash_ = hashlib.sha512(b'bad-key family').hexdigest()
    jobs = []
    for st in sts:
        for i, k in enumerate(keys):
            jobs.append((st, k, [(KEYNAME, k)]))
            if i % 3 == 2:       # the attributes name the right key, the key checked against is the malformed one
                jobs.append((st, k, [(b'note', b'x'), (KEYNAME, pk)]))
    g, m = ctx.both([f'ib.dts {hash_} {st} {attrs_str(a)}' for st, k, a in jobs])
    msgs = [x.split(' ')[1] if x and x.startswith('ok ') else None for x in m]
    jobs = [(j, mm) for j, mm in zip(jobs, msgs) if mm]
    sigs = ctx.go([f'oracle.edsign {seed} {mm}' for j, mm in jobs])
    vds = ctx.go([f'oracle.edverify {hexs(k)} {mm} {sg}' for ((st, k, a), mm), sg in zip(jobs, sigs)])
    ops = []
    for n_, (((st, k, a), mm), sg, vd) in enumerate(zip(jobs, sigs, vds)):
        if not sg or vd not in ('0', '1'): continue
        ops.append(f'ib.signadd.anykey {hash_} {st} {hexs(k)} {attrs_str(a)} {sg} {vd}')
        ops.append(f'ib.libverify {hexs(k)} {mm} {sg} {vd}')
        if n_ % 5 == 0:      # the strategy fails / returns something that is not a signature, AND the key is malformed
            ops.append(f'ib.signadd.anykey {hash_} {st} {hexs(k)} {attrs_str(a)} fail 0')
            ops.append(f'ib.signadd.anykey {hash_} {st} {hexs(k)} {attrs_str(a)} {sg[:-2]} 0')
    ctx.both(ops)


def run(ctx):
    rng, thorough = ctx.rng, ctx.tier == 'thorough'
    seeds = [hexs(rbytes(rng, 32)) for _ in range(4)]
    pks = ctx.go([f'oracle.edkey {s}' for s in seeds])
    # --- sequences of signing operations
    chains = []
    n = 30 if not thorough else 500
    for _ in range(n):
        f = rbytes(rng, rng.choice([8, 20, 100, 1000]))
        hash_ = hashlib.sha512(f).hexdigest()
        steps = []
        for _ in range(rng.randrange(1, 5)):
            i = rng.randrange(len(seeds))
            mismatch = rng.random() < 0.15
            j = (i + 1) % len(seeds) if mismatch else i
            extra = [(b'k%d' % t, rbytes(rng, rng.randrange(0, 5))) for t in range(rng.randrange(0, 3))]
            # attribute names of unusual shape: with U+FFFD / other non-ASCII characters, of the lengths where the CBOR head changes
            # width (23 | 24, 255 | 256) and whose length byte is >= 0x80 (128 ... 255)
            if len(chains) % 3 == 1:
                extra.append((rng.choice(['note\ufffd', '\ufffd', 'gr\u00fc\u00dfe', 'k\u212a', '\u65e5\u672c']).encode('utf-8'), b'v'))
            if len(chains) % 3 == 2:
                extra.append((b'n' * rng.choice([23, 24, 127, 128, 130, 200, 255, 256, 300]), b'v'))
            attrs = [(KEYNAME, unhex(pks[j]))] + extra
            rng.shuffle(attrs)
            steps.append(dict(seed=seeds[i], pk=pks[j], attrs=attrs, fail=rng.random() < 0.05))
        chains.append(dict(hash=hash_, steps=steps, state=f'{MAGIC}:{VER}:.'))
    maxlen = max(len(c['steps']) for c in chains)
    for step in range(maxlen):
        act = [c for c in chains if step < len(c['steps'])]
        g, m = ctx.both([f'ib.dts {c["hash"]} {c["state"]} {attrs_str(c["steps"][step]["attrs"])}' for c in act])
        msgs = [x.split(' ')[1] if x and x.startswith('ok ') else None for x in m]
        sigs = ctx.go([f'oracle.edsign {c["steps"][step]["seed"]} {mm}' for c, mm in zip(act, msgs) if mm])
        it = iter(sigs)
        sig_for = [next(it) if mm else None for mm in msgs]
        vers = ctx.go([f'oracle.edverify {c["steps"][step]["pk"]} {mm} {sg}' for c, mm, sg in zip(act, msgs, sig_for) if mm])
        it = iter(vers)
        ver_for = [next(it) if mm else '0' for mm in msgs]
        ops = []
        for c, mm, sg, vd in zip(act, msgs, sig_for, ver_for):
            st = c['steps'][step]
            ops.append(f'ib.signadd {c["hash"]} {c["state"]} {st["pk"]} {attrs_str(st["attrs"])} {"fail" if st["fail"] or not sg else sg} {vd}')
        g, m = ctx.both(ops)
        # what the strategy returned is not a 64-byte signature: zero / non-zero padding, truncation, empty (must be refused, block unchanged)
        vops = []
        for c, mm, sg in zip(act, msgs, sig_for):
            if not (mm and sg) or step > 1: continue
            st = c['steps'][step]
            raw = unhex(sg)
            cands = [raw + b'\x00', raw + bytes(32), raw + b'\x01', raw[:-1], raw[:32], b'', raw + raw]
            vds = ctx.go([f'oracle.edverify {st["pk"]} {mm} {hexs(x)}' for x in cands])
            for x, vd in zip(cands, vds):
                vops.append(f'ib.signadd {c["hash"]} {c["state"]} {st["pk"]} {attrs_str(st["attrs"])} {hexs(x) if x else "-"} {vd}')
        ctx.both(vops)
        for c, gr in zip(act, g):
            if gr and gr.startswith('ok '):
                c['state'] = gr.split(' ')[1]
        # all attribute permutations give the same block bytes (C18): compare ib.cbor for permuted states
    ops = []
    for c in chains[:40]:
        ops.append(f'ib.cbor {c["state"]}')
        st = c['state'].split(':')
        if st[2] != '.':
            ents = st[2].split('+')
            a, sg = ents[0].split('*')
            if a != '.':
                for perm in itertools.permutations(a.split('&')):
                    ops.append(f'ib.cbor {st[0]}:{st[1]}:{"+".join(["&".join(perm) + "*" + sg] + ents[1:])}')
    # duplicate attribute names are impossible in a Go map; non-standard magic/version
    ops.append(f'ib.cbor -:-:.')
    ops.append(f'ib.cbor {MAGIC}:{VER}:.')
    # obtain: trailers
    for size in (0, 1, 7, 8, 9, 100, 300):
        body = rbytes(rng, size)
        ops.append(f'ib.obtain {hexs(body)}')
        if size >= 8:
            # the true size with one extra high bit (a conversion that drops or masks that bit makes it look right again), and its neighbours
            highbit = [size | (1 << b) for b in (8, 16, 24, 31, 32, 33, 47, 48, 55, 56, 62, 63)] + [(size | (1 << 63)) + d for d in (-1, 1)] + [2**64 - size, 2**64 - 1 - size]
            for tl in [size, size - 1, size + 1, 0, 2**63, 2**64 - 1, 2**63 - 1, size + 2**32] + highbit:
                ops.append(f'ib.obtain {hexs(body[:-8] + (tl % 2**64).to_bytes(8, "big"))}')
    # keys whose own bytes end with (or contain) the 00 01 02 type suffix, or part of it
    sfx = [hexs(rbytes(rng, 29)) + '000102', hexs(rbytes(rng, 30)) + '0001', hexs(rbytes(rng, 31)) + '00', '000102' + hexs(rbytes(rng, 29)), hexs(rbytes(rng, 26)) + '000102000102', '000102' * 10 + '0001']
    # a file that is unsigned by the only rule there is (trailing length == file size) although it starts like an integrity block, and the
    # other pairings of "looks like a block" x "length says so"
    IBM = bytes.fromhex('f09f968bf09f93a6')
    for pre in (b'\x84\x48' + IBM, b'\x83\x48' + IBM, b'\x00\x00' + IBM, b'\x84\x48' + IBM[:7] + b'\x00', b'\x84' + IBM):
        for size in (18, 26, 100, 1000):
            body = (pre + rbytes(rng, size))[:size - 8] if size - 8 >= len(pre) else pre[:max(0, size - 8)]
            for tl in (len(body) + 8, len(body) + 9, len(body) + 7, 0):
                ops.append(f'ib.obtain {hexs(body + tl.to_bytes(8, "big"))}')
    for pk in pks + [hexs(rbytes(rng, 32)) for _ in range(20)] + ['00' * 32, 'ff' * 32] + sfx:
        ops.append(f'ib.id {pk}')
    for n_ in list(range(0, 140)) + [200, 255, 256, 1000]:
        ops.append(f'sha512 {hexs(rbytes(rng, n_))}')
    for n_ in (0, 1, 8, 50, 500):          # the hash of the file as computed from a handle something has already read n bytes from
        ops.append(f'ib.sha512.handle {hexs(rbytes(rng, 200))} {n_}')
    ctx.both(ops)
    badkey_stage(ctx, rng, seeds, pks, [c['state'] for c in chains])
    # the command-line path (cmd/sign-bundle integrity-block): real binary, reused / pre-existing output files
    import c20
    c20.ib_cli_stage(ctx, rng, 6 if not thorough else 16)
    c20.ib_strategy_stage(ctx, rng, 12 if not thorough else 48)

