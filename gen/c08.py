from common import *
from sxglib import *

THEOREMS = ['C08.signedMessage_eq_spec', 'C08.headers_eq_spec', 'C08.file_eq_spec', 'C08.signature_header_eq_spec', 'C08.header_integrity']
TRUSTED = ['Go stdlib: strconv.Itoa, strings.ToLower/Join on ASCII, net/http.Header, bytes.Buffer (modelled, compared)',
           'overlay-only export VerifSerializeSignedMessage (harness/overlay) to call serializeSignedMessage with arbitrary parameters']
ASSUMPTIONS = ['header names are ASCII (Go applies Unicode case mapping to other names; not modelled)',
               'the signer has a non-empty certificate list (cert-sha256 present), as this implementation only supports cert-url signatures']
RULE = ('sxg.msg / sxg.hdr / sxg.write / sxg.sign.mock over versions x URLs x validity URLs x dates {0, negative, 2^31, 2^62, random} x header sets (0..70 entries, every CBOR length class of names/values, '
        'mixed case, multi-valued, duplicate after case folding) x statuses x methods x certificates; '
        'digest-header names of either MI draft present / absent / both under every version (integrity parameter follows the version only); signer certificate lists over '
        '{root, intermediate, leaf, leaf with CA:FALSE, unrelated CA, self-signed leaf} in every order (cert-sha256 = hash of the first); distinct = distinct op lines')
EXHAUSTIVE = {}

agree = Base.agree; nontrivial = Base.nontrivial; signature = Base.signature; explain = Base.explain


def classify(op, m):
    t = op.split(' ')
    if t[0].startswith('sxg.'):
        return f'{t[0]}:{t[1]}:{m.split(" ")[0]}'
    return f'{t[0]}:{m.split(" ")[0]}'


def big_headers(rng, n, vlen):
    d = []
    for i in range(n):
        add(d, b'x-h%d' % i, bytes(rng.choice(b'abcdefgh ,;') for _ in range(vlen)))
    return d


DIGESTISH = [b'Digest', b'digest', b'DIGEST', b'Mi-Draft2', b'MI-Draft2', b'mi-draft2', b'MI', b'Want-Digest', b'Content-Digest', b'Repr-Digest', b'Integrity']
DIGVALS = [b'sha-256=X48E9qOokqqrvdts8nOJRJN3OWDUoyWxBf7kbu9DBPE=', b'mi-sha256-03=dcRDgR2GM35DluAV13PzgnG6+pvQwPywfFvAu1UeFrs=', b'mi-sha256-draft2=dcRDgR2GM35DluAV13PzgnG6-pvQwPywfFvAu1UeFrs', b'']
CODINGS = [b'mi-sha256-03', b'mi-sha256-draft2', b'gzip']


def integrity_name_sets():
    """header sets (lists of (name, [values]), keys stored as spelled) in which zero, one or both of the digest header names of the MI
    drafts occur, in several spellings, with the value forms of either draft / of RFC 3230 / empty, with and without a content coding"""
    sets = [[]]
    for i, n in enumerate(DIGESTISH):
        sets.append([(n, [DIGVALS[i % len(DIGVALS)]])])
        sets.append([(n, [DIGVALS[(i + 1) % len(DIGVALS)]]), (b'Content-Encoding', [CODINGS[i % len(CODINGS)]])])
    for v in DIGVALS:
        sets.append([(b'Digest', [v])])
        sets.append([(b'Mi-Draft2', [v])])
        sets.append([(b'Digest', [v]), (b'Mi-Draft2', [DIGVALS[2]])])
        sets.append([(b'Mi-Draft2', [v]), (b'Digest', [DIGVALS[0]]), (b'X-Other', [b'1'])])
    sets.append([(b'Digest', [DIGVALS[0], DIGVALS[1]])])
    sets.append([(b'Mi-Draft2', [DIGVALS[2], DIGVALS[2]])])
    sets.append([(b'X-Other', [b'1'])])
    return sets


def integrity_name_ops(w):
    ops = []
    cu, vu = hexs(b'https://example.com/cert.msg'), hexs(b'https://example.com/v')
    for ver in VERS:
        for j, rs in enumerate(integrity_name_sets()):
            e = ex(ver, b'https://example.com/', b'GET', [], 200, [(b'Content-Type', [b'text/html'])] + rs, b'', b'payload')
            ops += [f'sxg.sign.mock {exs(e)} {w.keys[j % 2]["cert"]} {cu} {vu} 1517418800 1517422400', f'sxg.hdr {exs(e)}']
            if ver != 'b3' and j % 3 == 0:      # the same names among the request headers (b1 / b2 sign them)
                e = ex(ver, b'https://example.com/', b'GET', rs, 200, [(b'Content-Type', [b'text/html'])], b'', b'payload')
                ops += [f'sxg.sign.mock {exs(e)} {w.keys[0]["cert"]} {cu} {vu} 1517418800 1517422400']
    return ops


def chain_shapes(kinds):
    """certificate LISTS over the kinds of certificate a chain file can contain (kinds: dict name -> DER hex): every single one, every
    ordered pair, every order of the real hierarchy (with either kind of leaf) and of an unrelated trio, longer lists, repetitions"""
    import itertools as it
    n = list(kinds)
    shapes = [[a] for a in n] + [list(p) for p in it.permutations(n, 2)]
    for trio in (('root', 'inter', 'leaf'), ('root', 'inter', 'leafbc'), ('selfca', 'root', 'leaf2'), ('inter', 'leafbc', 'leaf')):
        shapes += [list(p) for p in it.permutations(trio)]
    shapes += [['root', 'inter', 'selfca', 'leaf'], ['inter', 'root', 'leafbc', 'leaf'], ['leaf', 'inter', 'root', 'selfca'], ['selfca', 'root', 'inter', 'leafbc', 'leaf', 'leaf2'],
               ['root', 'root', 'leaf'], ['leaf', 'leaf'], ['inter', 'inter'], ['root', 'leaf', 'root']]
    return shapes


def chain_stage(ctx):
    """signers whose certificate list has several certificates: cert-sha256 -- in the Signature header and in the signed message -- is the
    hash of the FIRST certificate, whether that is a leaf, an intermediate or a root, and whatever comes after it"""
    r = ctx.go([f'setup.chain {hexs(b"example.com,www.example.com")}'])[0]
    if not (r and r.startswith('ok ') and len(r.split(' ')) == 7):
        ctx.infra.append(f'setup.chain failed: {str(r)[:80]}')
        return
    kinds = dict(zip(['root', 'inter', 'leaf', 'leafbc', 'selfca', 'leaf2'], r.split(' ')[1:]))
    cu, vu = hexs(b'https://example.com/cert.msg'), b'https://example.com/v'
    ops, dops, mops = [], [], []
    for ver in VERS:
        e = ex(ver, b'https://example.com/', b'GET', [], 200, [(b'Content-Type', [b'text/html'])], b'', b'payload')
        for sh in chain_shapes(kinds):
            cl = ','.join(kinds[x] for x in sh)
            ops.append(f'sxg.sign.mock.chain {exs(e)} {cl} {cu} {hexs(vu)} 1517418800 1517422400')
            dops.append(f'sxg.dumpmsg.chain {exs(e)} {cl} {cu} {hexs(vu)} 1517418800 1517422400')
            mops.append(f'sxg.msg {exs(e)} {H(kinds[sh[0]])} {hexs(vu)} 1517418800 1517422400')
    ctx.both(ops)
    for d, g, m in zip(dops, ctx.go(dops), ctx.model(mops)):
        ctx.records.append((d, g, m))


def run(ctx):
    rng, thorough = ctx.rng, ctx.tier == 'thorough'
    w = setup(ctx)
    ops = []
    dates = [0, 1, -1, -5, 2**31, 2**62, 1517418800, 2**63 - 1, -2**63]
    for ver in VERS:
        for _ in range(150 if not thorough else 3000):
            e = rand_exchange(rng, ver)
            e[6] = hexs(bytes(rng.choice(b'abcdef;=* "') for _ in range(rng.randrange(0, 40))))
            d = rng.choice(dates + [rng.randrange(0, 2**40)])
            x = max(-2**63, min(2**63 - 1, rng.choice([d + 3600, d + 604800, d - 1, rng.choice(dates)])))
            vu = rng.choice([b'https://example.com/v', b'', b'https://example.com/' + b'v' * 300, b'https://example.com/\xc3\xa9'])
            cs = rng.choice([H(w.keys[0]['cert']), 'nil', '-', 'aa' * 31])
            ops.append(f'sxg.msg {exs(e)} {cs} {hexs(vu)} {d} {x}')
            ops.append(f'sxg.hdr {exs(e)}')
            ops.append(f'sxg.hdrint {exs(e)}')
            ops.append(f'sxg.write {exs(e)}')
            k = rng.choice(w.keys)
            # signer dates with a sub-second part: the signed message and the Signature header both carry Date.Unix() (truncation)
            ns = rng.choice(['', ':0', ':1', ':499999999', ':500000000', ':500000001', ':999999999'])
            ns2 = rng.choice(['', ':500000000', ':999999999'])
            ops.append(f'sxg.sign.mock {exs(e)} {k["cert"]} {hexs(b"https://example.com/cert.msg")} {hexs(b"https://example.com/v")} {abs(d) % 2**40}{ns} {abs(d) % 2**40 + 3600}{ns2}')
        # header-set sizes: every CBOR length class for the map header and for names/values
        for n, vlen in [(0, 0), (1, 23), (1, 24), (22, 1), (23, 1), (24, 1), (3, 255), (3, 256), (70, 10)] + ([(300, 3), (2, 65534), (2, 65535), (2, 65536), (2, 65537), (9, 60000)] if thorough else [(256, 1), (1, 65535), (2, 65536)]):
            e = ex(ver, b'https://example.com/', b'GET', big_headers(rng, n, vlen) if ver != 'b3' else [], 200, big_headers(rng, n, vlen))
            ops += [f'sxg.hdr {exs(e)}', f'sxg.write {exs(e)}', f'sxg.msg {exs(e)} {"bb" * 32} {hexs(b"https://example.com/v")} 5 10']
        # header maps whose keys are not in canonical MIME form (filled by direct map assignment): lower case, upper case, mixed
        for rs in ([(b'content-type', [b'text/html']), (b'x-note', [b'hello', b'world'])], [(b'CONTENT-TYPE', [b'text/html'])], [(b'x-Note', [b'v'])],
                   [(b'Content-Type', [b'text/html']), (b'etag', [b'"x"']), (b'X-A', [b''])], [(b'x_under', [b'1'])], [(b'x-a', [b'1', b'', b'2'])]):
            e = ex(ver, b'https://example.com/', b'GET', rs if ver != 'b3' else [], 200, rs, b'sig', b'payload')
            ops += [f'sxg.hdr {exs(e)}', f'sxg.hdrint {exs(e)}', f'sxg.write {exs(e)}', f'sxg.msg {exs(e)} {"bb" * 32} {hexs(b"https://example.com/v")} 5 10']
        # header VALUES that are not UTF-8 (ISO-8859-1 as servers send it), with controls: bytes as given in the header block, the hash, the message
        for rs in ([(b'Content-Type', [b'text/html']), (b'Content-Disposition', [b'attachment; filename="r\xe9sum\xe9.pdf"'])], [(b'Server', [b'Caf\xe9/1.0'])], [(b'X-Bin', [b'\xff\xfe\x80'])],
                   [(b'X-T', [b'a\tb']), (b'X-U', [b'caf\xc3\xa9'])], [(b'X-V', [b'\xc3']), (b'X-W', [b'a', b'\xe9', b'b'])]):
            e = ex(ver, b'https://example.com/', b'GET', rs if ver != 'b3' else [], 200, rs, b'sig', b'payload')
            ops += [f'sxg.hdr {exs(e)}', f'sxg.hdrint {exs(e)}', f'sxg.write {exs(e)}', f'sxg.msg {exs(e)} {"bb" * 32} {hexs(b"https://example.com/v")} 5 10']
        # request URL spellings that a parse / re-serialise step would change: the signed message and the file carry the bytes as given
        for uri in (b'https://example.com/a|b.html', b'https://example.com/caf\xc3\xa9', b'https://example.com/page#', b'HTTPS://example.com/', b'https://EXAMPLE.com/x',
                    b'https://example.com/%7Euser', b'https://example.com/%7euser', b'https://example.com/a b', b'https://example.com/?q=a|b&r=%41', b'https://example.com:443/',
                    b'https://example.com', b'https://example.com/a/../b', b'https://example.com/a//b', b'https://example.com/?', b'https://example.com/"x"', b'https://example.com/\xff',
                    b'http://example.com/', b'example.com/rel', b''):
            e = ex(ver, uri, b'GET', [], 200, [(b'Content-Type', [b'text/html'])], b'sig', b'payload')
            ops += [f'sxg.msg {exs(e)} {"bb" * 32} {hexs(b"https://example.com/v")} 5 10', f'sxg.write {exs(e)}', f'sxg.hdr {exs(e)}']
            ops.append(f'sxg.sign.mock {exs(e)} {w.keys[0]["cert"]} {hexs(b"https://example.com/cert.msg")} {hexs(b"https://example.com/v")} 5 10')
        # length fields at their limits (URL: 2 bytes; signature / header block: 3 bytes and the b2/b3 caps)
        for ulen in (65534, 65535, 65536, 65556, 70000):
            e = ex(ver, b'https://example.com/' + b'u' * (ulen - 20), b'GET', [], 200, [], b'sig', b'p')
            ops += [f'sxg.write {exs(e)}', f'sxg.msg {exs(e)} {"bb" * 32} {hexs(b"https://example.com/v")} 5 10']
        for slen in (16383, 16384, 16385):
            ops.append(f'sxg.write {exs(ex(ver, b"https://example.com/", b"GET", [], 200, [], b"s" * slen, b"p"))}')
        # request header maps that cannot form a CBOR map (b1 / b2): a name that collides with a pseudo header, two names equal after folding
        # (placed so that they are NOT adjacent in any plausible build order), alone and among a dozen others
        if ver != 'b3':
            many = [(b'X-H%02d' % i, [b'v']) for i in range(12)]
            for rq_ in ([(b':method', [b'GET'])], [(b':url', [b'https://example.com/'])], [(b'Accept', [b'a']), (b'accept', [b'b'])], many[:6] + [(b'X-Trace', [b'1'])] + many[6:] + [(b'x-trace', [b'2'])],
                        [(b':status', [b'200'])], [(b'X-Trace', [b'1']), (b'x-trace', [b'1'])]):
                e = ex(ver, b'https://example.com/', b'GET', rq_, 200, [(b'Content-Type', [b'text/html'])], b'sig', b'p')
                ops += [f'sxg.hdr {exs(e)}', f'sxg.hdrint {exs(e)}', f'sxg.write {exs(e)}', f'sxg.msg {exs(e)} {"bb" * 32} {hexs(b"https://example.com/v")} 5 10',
                        f'sxg.sign.mock {exs(e)} {w.keys[0]["cert"]} {hexs(b"https://example.com/cert.msg")} {hexs(b"https://example.com/v")} 5 10']
        # duplicate names after case folding, pseudo-header collisions
        for rs in ([(b'Foo', [b'a']), (b'foo', [b'b'])], [(b':status', [b'x'])], [(b'A', [b'1']), (b'a', [b'2']), (b'B', [b'3'])]):
            e = ex(ver, b'https://example.com/', b'GET', [], 200, rs)
            ops += [f'sxg.hdr {exs(e)}', f'sxg.write {exs(e)}', f'sxg.msg {exs(e)} {"bb" * 32} {hexs(b"https://example.com/v")} 5 10']
        for st in [0, 99, 100, 599, 1000, -1, 2**31]:
            e = ex(ver, b'https://example.com/', rng.choice([b'GET', b'POST', b'']), [], st, [])
            ops += [f'sxg.hdr {exs(e)}', f'sxg.msg {exs(e)} {"bb" * 32} - 5 10']
    # response (and request) headers that NAME an integrity scheme or a digest, under EVERY version: the `integrity` parameter -- like the
    # rest of the Signature header -- is a function of the format version alone, whichever digest headers / content codings the exchange
    # happens to carry (an origin's RFC 3230 Digest in a b1 exchange, a left-over MI-Draft2 in a b3 one, both, in any spelling, empty)
    ops += integrity_name_ops(w)
    for name in [b'content-type', b'Content-Type', b'x_a', b'a b', b':status', b'', b'ETag', b'x-\xc3\xa9', b'WWW-Authenticate', b'a--b', b'-a', b"a'b", b'a(b']:
        ops.append(f'http.canon {hexs(name)}')
    for _ in range(300):
        ops.append(f'http.canon {hexs(bytes(rng.choice(b"abAB-_ :1.") for _ in range(rng.randrange(0, 8))))}')
    g_all, m_all = ctx.both(ops)
    # an exchange obtained by ReadExchange, edited in place, then serialised / hashed again: outputs are those of the edited exchange
    files = [(op, x.split(' ')[1]) for op, x in zip(ops, g_all) if op.startswith('sxg.write ') and x and x.startswith('ok ') and len(x) < 6000][:60 if not thorough else 600]
    rr = []
    for op, f in files:
        e0 = op.split(' ')[1:9]
        b = list(e0)
        k = rng.randrange(4)
        if k == 0: b[5] = (e0[5] + ';' if e0[5] != '.' else '') + hexs(b'Cache-Control') + '=' + hexs(b'max-age=600')
        elif k == 1: b[4] = '203'
        elif k == 2: b[7] = hexs(b'edited payload')
        else: b[5] = hexs(b'Content-Type') + '=' + hexs(b'text/plain')
        for what in ('write', 'hdr', 'hdrint'):
            rr.append(f'sxg.reread {what} {f} {" ".join(b)}')
            rr.append(f'sxg.reuse {what} {" ".join(e0)} {" ".join(b)}')
    ctx.both(rr)
    chain_stage(ctx)
    # signing with real keys (every second call of a process on a Signer that has signed before): header = model's header for the
    # signature it carries, signature verifies under the certificate over the model's message
    date8, exp8 = 1517418800, 1517418800 + 3600
    cu8, vu8 = b'https://example.com/cert.msg', b'https://example.com/v'
    sops, smeta = [], []
    ks8 = [k for k in w.keys if k['curve'] in ('p256', 'p384') and k['hosts'].startswith(b'example.com')]
    for ver in VERS:
        for i in range(8 if not thorough else 60):
            e = rand_exchange(rng, ver, payload=rbytes(rng, rng.choice([0, 5, 40])))
            k = ks8[i % len(ks8)]
            sops.append(f'sxg.sign {exs(e)} 16 {k["cert"]} {k["key"]} {hexs(cu8)} {hexs(vu8)} {date8} {exp8}')
            smeta.append(k)
    for ver in VERS:      # exchanges that carry a digest header of ANOTHER scheme as well (MiEncodePayload adds the version's own)
        for rs in ([(b'Digest', [DIGVALS[0]])] if ver == 'b1' else [(b'Mi-Draft2', [DIGVALS[2]])], [(b'Want-Digest', [b'sha-256'])]):
            e = ex(ver, b'https://example.com/', b'GET', [], 200, [(b'Content-Type', [b'text/html'])] + rs, b'', b'payload of sixteen+')
            sops.append(f'sxg.sign {exs(e)} 16 {ks8[0]["cert"]} {ks8[0]["key"]} {hexs(cu8)} {hexs(vu8)} {date8} {exp8}')
            smeta.append(ks8[0])
    sres = ctx.go(sops)
    signed8 = [(parse_ex(r), k) for r, k in zip(sres, smeta) if r and parse_ex(r)]
    signed_checks(ctx, signed8, cu8, vu8, date8, exp8, 'c08')
    # a signed exchange on which a further AddSignatureHeader fails keeps its Signature header (and therefore its file layout)
    for (e, k) in signed8[:6]:
        for mode in ('nokey', 'httpcert', 'badvalidity'):
            r = ctx.go([f'sxg.resign.fail {exs(e)} {k["cert"]} {mode}'])[0]
            ctx.records.append((f'c08.failed-resign-keeps-signature mode={mode} {e[0]}', r, 'same'))
    # the file layout as the command-line tool emits it (fresh path, over an existing longer file, to stdout; dumps of the header
    # block and of the signed message): accepted by an independent run of dump-signedexchange -verify
    import c20
    c20.sxg_cli_stage(ctx, rng, thorough)
