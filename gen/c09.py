from common import *
from sxglib import *

THEOREMS = ['C09.verify_iff_acceptable', 'C09.isUncached_iff_table', 'C09.isStateful_iff_table', 'C09.timestamps_iff (sane range)', 'C09.sameOrigin_spec']
TRUSTED = ['Go stdlib net/url.Parse (scheme, hostname, port), http.StatusText, time.Time arithmetic (modelled exactly in Model/GoTime.lean, compared by gotime.* ops), crypto/ecdsa, crypto/x509']
ASSUMPTIONS = ['"Content-Type present" = non-empty joined value; "status understood" = http.StatusText != "" for the Go version in use (table re-read every run)',
               'Cache-Control is interpreted on unquoted directive lists (as the implementation does); header names and Cache-Control values are ASCII']
RULE = ('grid over really signed exchanges: versions x {t-date, expires-t} in {-1s,-1ns,0,+1ns,+1s} x lifetime {604799,604800,604801} x methods {GET,HEAD,POST,get,PUT,""} x every entry of the stateful-request and '
        'uncached-response header tables in random letter case (plus harmless names) x Cache-Control subsets of {no-store,private,public,max-age,s-maxage,no-cache,junk} with case/space variations x Expires present/absent '
        'x status codes 100..599 x validity-URL scheme/host/port variants (incl. non-ASCII hosts whose Unicode case mapping / folding meets an ASCII letter: U+017F, U+212A, U+0130, U+0131, and non-ASCII fold pairs, on either side) '
        'x cert-url resources with 1..3 certificates and every presence pattern of ocsp / sct (hand-written CBOR); plus IsCacheable and Go-time ops; compared: Exchange.Verify verdict and payload')
EXHAUSTIVE = {'thorough': 'status codes 100..599 for b3 cacheability; every banned header name'}

agree = Base.agree; nontrivial = Base.nontrivial; signature = Base.signature; explain = Base.explain

STATEFUL = [b'authorization', b'cookie', b'cookie2', b'proxy-authorization', b'sec-websocket-key']
UNCACHED = [b'connection', b'keep-alive', b'proxy-connection', b'trailer', b'transfer-encoding', b'upgrade', b'authentication-control', b'authentication-info',
            b'clear-site-data', b'optional-www-authenticate', b'proxy-authenticate', b'proxy-authentication-info', b'public-key-pins', b'sec-websocket-accept',
            b'set-cookie', b'set-cookie2', b'setprofile', b'strict-transport-security', b'www-authenticate']
NEAR_MISS = [b'cookie3', b'x-cookie', b'set-cookie3', b'connections', b'keepalive', b'authorizations', b'www_authenticate', b'upgrade-insecure-requests', b'trailers']


def classify(op, m):
    t = op.split(' ')
    if t[0].startswith('sxg.'):
        return f'{t[0]}:{t[1]}:{m.split(" ")[0]}'
    return f'{t[0]}'


def randcase(rng, s):
    return bytes((c ^ 0x20) if (97 <= (c | 0x20) <= 122 and rng.random() < 0.4) else c for c in s)


def _u(x):
    return x.encode('utf-8')


# (host of one URL, host of the other); used in both directions
UNICODE_HOST_PAIRS = [(b'shop.example', _u('\u017fhop.example')), (b'SHOP.example', _u('\u017fhop.example')), (b'news.example', _u('new\u017f.example')), (b'host.example', _u('ho\u017ft.example')),
                      (b'kiosk.example', _u('\u212aiosk.example')), (b'kiosk.example', _u('\u212aios\u212a.example')), (b'KIOSK.example', _u('kios\u212a.example')), (b'ask.example', _u('a\u017f\u212a.example')),
                      (b'example.sk', _u('example.\u017f\u212a')),
                      (b'site.example', _u('s\u0130te.example')), (b'SITE.example', _u('s\u0131te.example')), (b'site.example', _u('s\u0131te.example')),
                      (_u('\u00e9.example'), _u('\u00c9.example')), (_u('\u03c3.example'), _u('\u03c2.example')), (_u('\u03c3.example'), _u('\u03a3.example')), (_u('\u00e5.example'), _u('\u212b.example')),
                      (_u('stra\u00dfe.example'), b'strasse.example'), (_u('stra\u00dfe.example'), _u('stra\u1e9ee.example')), (b'shop.example', _u('\uff53hop.example')), (b'shop.example', _u('\u0455hop.example')),
                      (_u('\u017fhop.example'), _u('\u017fhop.example')), (_u('\u017fhop.example'), _u('\u017fHOP.Example')), (_u('\u212aiosk.example'), _u('\u212aiosk.example:443')),
                      (b'shop.example', b'chop.example'), (b'shop.example', b'Shop.Example')]


def pct_host(h):
    """the host with its non-ASCII bytes percent-encoded (upper-case hex, as net/url re-serialises it)"""
    return b''.join(bytes([c]) if c < 0x80 else b'%%%02X' % c for c in h)


def cbor_head(major, n):
    if n < 24: return bytes([major << 5 | n])
    if n < 256: return bytes([major << 5 | 24, n])
    if n < 65536: return bytes([major << 5 | 25]) + n.to_bytes(2, 'big')
    return bytes([major << 5 | 26]) + n.to_bytes(4, 'big')


def chain_cbor(items):
    """application/cert-chain+cbor written from the format's CDDL, independently of CertChain.Write (which refuses to write chains its
    own Validate refuses): items = [(cert DER, ocsp bytes or None, sct bytes or None)]"""
    magic = '\U0001F4DC\u26D3'.encode('utf-8')
    out = cbor_head(4, len(items) + 1) + cbor_head(3, len(magic)) + magic
    for der, ocsp, sct in items:
        ents = [(k, v) for k, v in ((b'sct', sct), (b'cert', der), (b'ocsp', ocsp)) if v is not None]      # canonical key order
        out += cbor_head(5, len(ents)) + b''.join(cbor_head(3, len(k)) + k + cbor_head(2, len(v)) + v for k, v in ents)
    return out


def chain_shapes():
    """presence patterns of ocsp / sct over chains of one to three certificates. The format restricts only `ocsp` (required on the first,
    forbidden on the others); `sct` is optional on EVERY certificate. -> [(pattern per certificate, each 'o' / 's' / 'e' (empty sct) letters)]"""
    first = ['o', 'os', 'oe', '', 's']
    later = ['', 's', 'e', 'o', 'os']
    shapes = [[f] for f in first]
    shapes += [[f, l] for f in first[:3] for l in later] + [['', 's'], ['s', 's']]
    shapes += [[f, l2, l3] for f in first[:2] for l2 in later[:2] for l3 in later]
    return shapes


def chain_items(ctx, w, keys, certurl, base_date):
    """an honestly signed, conforming exchange of every version, verified against every chain shape (leaf first, then unrelated further
    certificates): accepted iff the chain is well-formed by the format's rules, whatever optional entries the later certificates carry"""
    k0 = keys[0]
    others = [unhex(k['cert']) for k in w.keys if k is not k0][:2]
    ops = [f'sxg.sign {exs(ex(ver, b"https://example.com/", b"GET", [], 200, [(b"Content-Type", [b"text/html"])], b"", b"chain shapes"))} 16 {k0["cert"]} {k0["key"]} {hexs(certurl)} {hexs(b"https://example.com/v")} {base_date} {base_date + 3600}'
           for ver in VERS]
    signed = [parse_ex(r) for r in ctx.go(ops) if r and parse_ex(r)]
    if len(signed) != len(VERS) or len(others) < 2:
        ctx.infra.append('chain shapes: could not sign the base exchanges')
        return []
    chains, specs = [], []
    for sh in chain_shapes():
        its = []
        for i, pat in enumerate(sh):
            ocsp = b'ocsp-response' if 'o' in pat else None
            sct = b'\x00\x06\x00\x04sct' + bytes([48 + i]) if 's' in pat else (b'' if 'e' in pat else None)
            its.append(((unhex(k0['cert']) if i == 0 else others[i - 1]), ocsp, sct))
        chains.append(chain_cbor(its))
        specs.append(','.join(f'{hexs(d)}:{"nil" if o is None else hexs(o)}:{"nil" if s_ is None else hexs(s_)}' for d, o, s_ in its))
    # the hand-made writer agrees with the model's writer wherever the model writes (a wrong hand-made chain would test nothing)
    for c, m in zip(chains, ctx.model([f'cert.write {sp}' for sp in specs])):
        if m and m.startswith('ok ') and m.split(' ')[1] != hexs(c):
            ctx.infra.append('chain shapes: hand-made cert-chain writer differs from the model\'s')
            return []
    items = []
    for se in signed:
        for j, c in enumerate(chains):
            items.append((se, (base_date + 10, 0), {certurl: hexs(c)}))
            if j % 7 == 0: items.append((se, (base_date + 3601, 0), {certurl: hexs(c)}))      # control: one second after expires
    return items


def run(ctx):
    rng, thorough = ctx.rng, ctx.tier == 'thorough'
    w = setup(ctx)
    keys = [k for k in w.keys if k['curve'] in ('p256', 'p384') and k['hosts'].startswith(b'example.com')]
    certurl = b'https://example.com/cert.msg'
    base_date = 1517418800
    cases = []   # (exchange, signer params dict, times)

    def case(ver, method=b'GET', rq=None, rs=None, status=200, uri=b'https://example.com/', vurl=b'https://example.com/v', life=3600, times=None, rs_ct=True, date=None, zones=None):
        rq = list(rq or [])
        rs = list(rs or [])
        if rs_ct: add(rs, b'content-type', b'text/html')
        e = ex(ver, uri, method, rq if ver != 'b3' else rq, status, rs, b'', b'payload-bytes')
        d0 = base_date if date is None else date
        cases.append((e, dict(vurl=vurl, date=d0, expires=d0 + life, zones=zones), times or [(d0 + 10, 0)]))

    for ver in VERS:
        # time window
        ts = []
        for d in (-1, 0, 1):
            ts += [(base_date + d, 0), (base_date + 3600 + d, 0)]
        ts += [(base_date - 1, 999999999), (base_date, 1), (base_date + 3600, 1), (base_date + 3599, 999999999), (base_date + 1800, 5)]
        case(ver, times=ts)
        for life in (604799, 604800, 604801, 0, -1, 1):
            case(ver, life=life, times=[(base_date, 0), (base_date + max(life, 0), 0), (base_date + 5, 0)])
        # lifetimes whose nanosecond count does not fit int64 (Duration arithmetic wraps; Time.Sub saturates), and other extremes
        for life in (9223372036, 9223372037, 10**10, 18446744073, 18446744074, 2**62, 2**63 - 1 - base_date, 86400 * 365 * 300):
            case(ver, life=life, times=[(base_date + 60, 0), (base_date, 0)])
        # methods
        for mth in (b'GET', b'HEAD', b'POST', b'get', b'PUT', b'', b'GETX'):
            case(ver, method=mth)
        # banned headers
        for name in STATEFUL + NEAR_MISS + [b'accept']:
            for _ in range(2 if thorough else 1):
                case(ver, rq=[(canon(randcase(rng, name)), [b'v'])])
                case(ver, rs=[(canon(randcase(rng, name)), [b'v'])])
        for name in UNCACHED + NEAR_MISS + STATEFUL:
            case(ver, rs=[(canon(randcase(rng, name)), [b'v']), (b'X-Ok', [b'1'])])
        # non-canonical (hand-made map) names too: the lookup lower-cases whatever is stored
        for name in (b'SET-COOKIE', b'set-cookie', b'Set-cookie', b'COOKIE'):
            case(ver, rs=[(name, [b'v'])]); case(ver, rq=[(name, [b'v'])])
        # exactly one letter upper-cased, at every position, and all letters but one upper-cased (a case-folding fast path that gets one
        # letter or one boundary of its range wrong shows only for such spellings); stored as spelled (hand-made map)
        for name in STATEFUL + UNCACHED:
            spell = []
            for i, ch in enumerate(name):
                if 97 <= ch <= 122:
                    spell.append(name[:i] + bytes([ch - 32]) + name[i + 1:])
                    spell.append(name.upper()[:i] + bytes([ch]) + name.upper()[i + 1:])
            for j, nm in enumerate(spell):
                if (j + len(name)) % 3 != VERS.index(ver): continue          # each spelling under one version, in turn
                if name in STATEFUL and ver != 'b3': case(ver, rq=[(nm, [b'v'])])
                elif name in STATEFUL: case('b1', rq=[(nm, [b'v'])])
                if name in UNCACHED: case(ver, rs=[(nm, [b'v'])])
        # validity-url origin variants
        for vu in (b'https://example.com/v', b'https://example.com:443/v', b'https://EXAMPLE.com/v', b'http://example.com/v', b'https://example.com:8443/v', b'https://example.com.:443/v',
                   b'https://www.example.com/v', b'https://example.org/v', b'HTTPS://example.com/v', b'https://user@example.com/v', b'/v', b'https://example.com', b'https://[::1]/v', b'%zz'):
            case(ver, vurl=vu)
        for uri in (b'https://example.com:443/', b'https://Example.COM/x', b'https://example.com:80/'):
            case(ver, uri=uri)
        # IPv6 literals, IPv4, trailing dots, explicit / implicit default port on either side, mixed case, zone-less forms
        hosts6 = [b'[2001:db8::1]', b'[2001:DB8::1]', b'[::1]', b'127.0.0.1', b'example.com.', b'xn--nxasmq6b.example']
        for h in hosts6:
            for pu, pv in ((b'', b''), (b'', b':443'), (b':443', b''), (b':443', b':443'), (b'', b':8443'), (b':8443', b':8443')):
                case(ver, uri=b'https://' + h + pu + b'/', vurl=b'https://' + h + pv + b'/r.validity')
        case(ver, uri=b'https://[2001:db8::1]/', vurl=b'https://[2001:db8::2]/v')
        case(ver, uri=b'https://[2001:db8::1]/', vurl=b'https://2001:db8::1/v')
        # hosts outside ASCII: host names are compared ASCII-case-insensitively and in no other way. Code points that Unicode case mapping /
        # case folding sends to an ASCII letter (U+017F long s, U+212A Kelvin sign, U+0130, U+0131), pairs of non-ASCII letters that fold to
        # each other, and look-alikes, at the first / a middle / the last position of a label, on either side (percent-encoded in the
        # validity URL, which lives in an ASCII-only header; raw and percent-encoded in the request URL), with same-host controls
        for hu, hv in UNICODE_HOST_PAIRS:
            for a_, b_ in ((hu, hv), (hv, hu)):
                case(ver, uri=b'https://' + a_ + b'/', vurl=b'https://' + pct_host(b_) + b'/v')
                if pct_host(a_) != a_:
                    case(ver, uri=b'https://' + pct_host(a_) + b'/', vurl=b'https://' + pct_host(b_) + b'/v')
        # windows that contain a daylight-saving change of some zone, lifetimes around 7 days (168 h of elapsed time, whatever the calendar
        # says), verified with the process's local zone set to zones that do / do not change in that week
        ZONES = ['America/New_York', 'Europe/Berlin', 'Australia/Sydney', 'Asia/Tokyo', 'UTC']
        for d0 in (1520251200, 1521892800, 1522324800, 1540641600, 1541073600):      # 2018-03-05, 03-24, 03-29, 10-27, 11-01 (12:00Z)
            for life in (604800, 604801, 601201, 601200, 608400, 608401):             # 168 h (+1 s), 167 h (+1 s), 169 h (+1 s)
                case(ver, date=d0, life=life, times=[(d0, 0), (d0 + life // 2, 0), (d0 + min(life, 604800), 0)], zones=ZONES)
        # Content-Type
        case(ver, rs_ct=False)
        case(ver, rs=[(b'Content-Type', [b''])], rs_ct=False)
        case(ver, rs=[(b'Content-Type', [b'', b'text/plain'])], rs_ct=False)
    # b3 cacheability grid
    DIRS = [b'no-store', b'private', b'public', b'max-age=60', b's-maxage=5', b'no-cache', b'junk', b'No-Store', b' private ', b'max-age', b'x=no-store', b'"no-store"', b'PUBLIC',
            # quoted-string arguments: with commas, escaped quotes (odd / even), unterminated -- the implementation splits at every comma
            b'max-age="', b'ext=","', b'"', b'=', b'a="', b'max-age=""', b'no-store="', b's-maxage="', b'private="', b'public="', b'ext="a\\"b"', b'ext="a\\"b\\"c"', b'ext="a,no-store"', b'ext="a, private ,b"', b'ext="x', b'no-cache="set-cookie,x"', b'ext="\\\\"', b'private="a"', b'max-age="60"']
    statuses = list(range(100, 600)) if thorough else [100, 199, 200, 201, 203, 204, 206, 226, 300, 301, 302, 304, 307, 308, 400, 404, 405, 410, 414, 418, 451, 500, 501, 511, 599, 306, 209]
    for st in statuses:
        case('b3', status=st)
        case('b3', status=st, rs=[(b'Cache-Control', [b'public'])])
    for st in (200, 302, 999, 0, 600):
        for _ in range(25 if not thorough else 200):
            k = rng.randrange(0, 4)
            ds = [rng.choice(DIRS) for _ in range(k)]
            rs = []
            if ds:
                if rng.random() < 0.5: rs.append((b'Cache-Control', [rng.choice([b',', b', ', b' , ']).join(ds)]))
                else: rs.append((b'Cache-Control', ds))
            if rng.random() < 0.3: rs.append((b'Expires', [rng.choice([b'Thu, 01 Dec 1994 16:00:00 GMT', b'0', b''])]))
            case('b3', status=st, rs=rs)
    # an Expires field makes a response storable whatever its value says (a malformed date means "already expired", not "do not store")
    for st in (201, 302, 307, 403, 500, 200):
        for exv in ([b'0'], [b'-1'], [b'Thu, 01 Dec 1994 16:00:00 GMT'], [b'Thu, 01 Dec 1994 16:00:00 GMT', b'0'], [b''], [b'never'], [b'Thursday, 01-Dec-94 16:00:00 GMT']):
            case('b3', status=st, rs=[(b'Expires', exv)])
            case('b3', status=st, rs=[(b'Expires', exv), (b'Cache-Control', [b'no-cache'])])
    # a quoted argument placed before the directive that decides
    for st in (200, 201, 302):
        for q in (b'ext="a\\"b"', b'ext="a,b"', b'ext="a\\"b\\"c"', b'ext="x'):
            for d in (b'no-store', b'private', b'max-age=60', b's-maxage=5', b'public'):
                case('b3', status=st, rs=[(b'Cache-Control', [q + b', ' + d])])
                case('b3', status=st, rs=[(b'Cache-Control', [d + b', ' + q])])
    # sign everything with the real code
    ops, meta = [], []
    for e, sp, times in cases:
        k = rng.choice(keys)
        ok_url = True
        ops.append(f'sxg.sign {exs(e)} 16 {k["cert"]} {k["key"]} {hexs(certurl)} {hexs(sp["vurl"])} {sp["date"]} {sp["expires"]}')
        meta.append((k, times))
    res = ctx.go(ops)
    items = []
    tzmap = {}
    unsigned = 0
    for r, (k, times), (e, sp, _) in zip(res, meta, cases):
        se = parse_ex(r) if r else None
        if not se:
            unsigned += 1
            continue
        for t in times:
            if sp.get('zones'): tzmap[len(items)] = sp['zones']
            items.append((se, t, {certurl: k['chain']}))
    import hashlib as _hl, re as _re
    # (i) an independent producer (the model's MI step, signed message and Signature header; ECDSA by the stdlib): exchanges the library
    #     itself might refuse to *sign* must still be judged by the verifier on the conditions alone -- b1/b2 with status codes net/http
    #     has no name for (storability by a cache is a b3 condition), and a few ordinary ones as controls
    k0 = keys[0]
    csha = _hl.sha256(unhex(k0['cert'])).hexdigest()
    vu0 = b'https://example.com/v'
    prod = []
    for ver in VERS:
        for st in (299, 306, 420, 509, 599, 200, 404, 999, 100):
            prod.append(ex(ver, b'https://example.com/', b'GET', [], st, [(b'Content-Type', [b'text/html'])], b'', b'independent producer'))
    mi = ctx.model([f'sxg.mi {exs(e)} 16' for e in prod])
    mied = [parse_ex(x) if x else None for x in mi]
    msgs = ctx.model([f'sxg.msg {exs(e)} {csha} {hexs(vu0)} {base_date} {base_date + 3600}' if e else 'oracle.status 0' for e in mied])
    sigs = ctx.go([f'oracle.ecsign {k0["key"]} {m_.split(" ")[1]}' if m_ and m_.startswith('ok ') else 'oracle.status 0' for m_ in msgs])
    hdrs_ = ctx.model([f'sxg.sigheader {e[0]} {sg.split(" ")[1]} {hexs(vu0)} {hexs(certurl)} {csha} {base_date} {base_date + 3600}' if e and sg and sg.startswith('ok ') else 'oracle.status 0' for e, sg in zip(mied, sigs)])
    nprod = 0
    for e, h_ in zip(mied, hdrs_):
        if e and h_ and h_.startswith('ok '):
            nprod += 1
            items.append((e[:6] + [h_.split(' ')[1]] + e[7:], (base_date + 10, 0), {certurl: k0['chain']}))
    if nprod < len(prod) // 2:
        ctx.infra.append(f'independent producer made only {nprod} of {len(prod)} exchanges')
    # (ii) the integrity scheme of ANOTHER version, consistently: its digest header, its content encoding, its payload stream, and the
    #      (unsigned) integrity parameter rewritten to name it -- "integrity scheme matching the version" must refuse these
    for ver, odraft, ohdr, oenc, oint in (('b3', '02', b'MI-Draft2', b'mi-sha256-draft2', b'mi-draft2'), ('b2', '02', b'MI-Draft2', b'mi-sha256-draft2', b'mi-draft2'),
                                          ('b1', '03', b'Digest', b'mi-sha256-03', b'digest/mi-sha256-03')):
        for plen in (40, 0, 16):
            pay = rbytes(rng, plen)
            me = ctx.model([f'mice.enc {odraft} 16 {hexs(pay)}'])[0]
            if not (me and me.startswith('ok ')): continue
            stream, dig = unhex(me.split(' ')[1]), unhex(me.split(' ')[2])
            e = ex(ver, b'https://example.com/', b'GET', [], 200, [(b'Content-Type', [b'text/html']), (ohdr, [dig]), (b'Content-Encoding', [oenc])], b'', stream)
            r = ctx.go([f'sxg.sign {exs(e)} 0 {k0["cert"]} {k0["key"]} {hexs(certurl)} {hexs(vu0)} {base_date} {base_date + 3600}'])[0]
            se = parse_ex(r) if r else None
            if not se: continue
            h2 = _re.sub(rb'integrity="[^"]*"', b'integrity="' + oint + b'"', unhex(se[6]))
            items.append((se[:6] + [hexs(h2)] + se[7:], (base_date + 10, 0), {certurl: k0['chain']}))
            items.append((se, (base_date + 10, 0), {certurl: k0['chain']}))
    # several members in the Signature header: "run the algorithm for each signature, stopping at the first valid one" -- a member that is
    # incomplete, unparsable as a signature, or complete but wrong must not stop the valid one from being tried, whichever comes first
    seen_ver = set()
    for r, (k, times), (e, sp, _) in zip(res, meta, cases):
        se = parse_ex(r) if r else None
        if not se or se[0] in seen_ver: continue
        seen_ver.add(se[0])
        good = unhex(se[6])
        decoys = [b'other;cert-url="https://example.com/other.cbor";sig=*AAAA*', b'other', b'other;sig=*AAAA*;integrity="digest/mi-sha256-03"',
                  good.replace(b'sig=*', b'sig=*AAAA', 1).replace(b'label', b'wrong', 1), good.replace(b';date=', b';date=1', 1), good.replace(b'validity-url="https://', b'validity-url="https://evil.', 1),
                  good.replace(b';expires=', b';expiry=', 1), good.replace(b'cert-sha256=*', b'cert-sha256=*AAAA', 1)]
        for dcy in decoys:
            for hdr in (dcy + b', ' + good, good + b', ' + dcy, dcy, dcy + b', ' + dcy + b', ' + good):
                items.append((se[:6] + [hexs(hdr)] + se[7:], (base_date + 10, 0), {certurl: k['chain']}))
    # URL spellings: signed, WRITTEN and READ BACK (compared: the reader returns the URL bytes of the file), then verified
    uops = [f'sxg.sign {exs(ex(ver, u, b"GET", [], 200, [(b"Content-Type", [b"text/html"])], b"", b"url spelling"))} 16 {keys[0]["cert"]} {keys[0]["key"]} {hexs(certurl)} {hexs(b"https://example.com/v")} {base_date} {base_date + 3600}'
            for ver in VERS for u in ODD_URLS]
    usigned = [parse_ex(r) for r in ctx.go(uops) if r and parse_ex(r)]
    wr_, _ = ctx.both([f'sxg.write {exs(e)}' for e in usigned])
    ufiles = [x.split(' ')[1] for x in wr_ if x and x.startswith('ok ')]
    gback, _ = read_stage(ctx, ufiles)
    for x in gback:
        e2 = parse_ex(x) if x else None
        if e2: items.append((e2, (base_date + 10, 0), {certurl: keys[0]['chain']}))
    # certificate chains of several certificates with every presence pattern of the optional entries (hand-written CBOR)
    items += chain_items(ctx, w, keys, certurl, base_date)
    ctx.stats = dict(cases=len(cases), not_signable=unsigned)
    verify_stage(ctx, items, tz=tzmap)
    # IsCacheable directly + Go time arithmetic
    ops = []
    st = status_table(ctx)
    for _ in range(300 if not thorough else 5000):
        rs = []
        k = rng.randrange(0, 4)
        ds = [rng.choice(DIRS) for _ in range(k)]
        if ds: rs.append((b'Cache-Control', [b','.join(ds)]))
        if rng.random() < 0.3: rs.append((b'Expires', [b'x']))
        e = ex('b3', b'https://example.com/', b'GET', [], rng.choice([200, 201, 302, 404, 500, 999, 100, 599, 600, 0]), rs)
        ops.append(f'sxg.cacheable {exs(e)} {st}')
    big = [0, 1, -1, 604800, 2**31, 2**62, 2**63 - 1, -2**63, 2**63 - 62135596800, 2**63 - 62135596801, -62135596800, 9223372036, 9223372037, -9223372036, 253402300800]
    for a in big:
        for b in big:
            ops.append(f'gotime.sub {a} {b}')
            ops.append(f'gotime.cmp {a} 0 {b} 0')
    for _ in range(300):
        a = rng.choice(big) + rng.randrange(-3, 4); b = rng.choice(big) + rng.randrange(-700000, 700000)
        a = max(-2**63, min(2**63 - 1, a)); b = max(-2**63, min(2**63 - 1, b))
        ops.append(f'gotime.sub {a} {b}')
        ops.append(f'gotime.cmp {a} {rng.randrange(0, 10**9)} {b} {rng.randrange(0, 10**9)}')
    ctx.both(ops)
