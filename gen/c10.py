"""C10: every parser of external data is total and resource-bounded.
Go side: each entry point under recover + watchdog with runtime.MemStats deltas; model side: cost skeletons (Model/ResParsers.lean)
whose cost is proved linear in the input (Properties/C10.lean)."""
from common import *
from sxglib import setup as sxg_setup, rand_exchange, exs, ex, add, unhex
from bundlelib import rand_bundle, bundle, exch
import micelib, os

THEOREMS = ['C10.declared_counts_do_not_matter', 'C10.cbor_linear', 'C10.certChain_linear', 'C10.sxgRead_linear', 'C10.signedSubset_linear', 'C10.mice_linear', 'C10.sh_linear', 'C10.verify_linear', 'C10.bundle_general', 'C10.bundle_quadratic', 'C10.bundle_linear_partial', 'C10.bundle_not_linear', 'C10.bundle_read_no_panic']
TRUSTED = ['runtime.MemStats.TotalAlloc deltas around the parser call in the harness (includes stdlib allocations: url.Parse, x509, http.Header, fmt.Errorf)',
           'cost skeletons omit semantic validations that only stop the Go code earlier (upper bound on the modelled cost)',
           'recover() + per-op watchdog (VERIF_OP_TIMEOUT_MS) in the harness; a crashed harness process (fatal out-of-memory) is re-run one op at a time']
ASSUMPTIONS = ['memory is compared one-sided: Go TotalAlloc <= S0 + S1 * (model alloc + 64 * model steps); S0, S1 in gen/c10.py',
               'real heap behaviour (GC, fragmentation) and wall time are observed, not modelled']
RULE = ('per entry point (cbor x5, cert chain, sxg reader, sxg verifier, bundle reader, bundle-signature subset decoder, structured headers x2, MI decoder x2, integrity-block detection): '
        'valid artifacts produced by the real writers, then truncation at every/sampled prefix, random byte flips, every CBOR head inflated to declared lengths/counts '
        '{2^16..2^64-1}, fixed-width length fields set to their maximum, MI record sizes around 0 / max / 2^64, raw random bytes behind valid magic; '
        'non-trivial = distinct input reaching the parser; '
        'each integrity-block entry point alone on files of every length 0..20 (contents x handle position); honestly signed bundles (the verifier reaches MI decoding) '
        'whose response body declares record sizes 0 .. 2^64-1')
EXHAUSTIVE = {}

S0, S1 = 1 << 20, 24          # Go bytes allowed: S0 + S1 * (alloc_m + 64 * steps_m)
# model cost must satisfy alloc + steps <= A * len + F with the constants of the theorems in Properties/C10.lean
# (alloc and steps are bounded separately there: the sum is bounded by twice the bound; bundle: C10.bundle_linear_partial)
LINEAR = {'c10.cbor': (8, 12), 'c10.cert': (12, 16), 'c10.sxg': (14, 2 * (2**24 + 6)), 'c10.subset': (8, 18), 'c10.mice': (6, 2 * 522), 'c10.sh': (3, 1),
          'c10.ib': (0, 18), 'c10.ib.obtain': (0, 18), 'c10.ib.has': (0, 18), 'c10.verify': (12, 33829), 'c10.bundle': (28, 520), 'c10.bundleverify': (56, 1040)}

BIG = [1 << 16, (1 << 24) - 1, 1 << 28, (1 << 31) - 1, 1 << 31, (1 << 32) - 1, 1 << 32, 1 << 40, (1 << 62), (1 << 63) - 1, 1 << 63, (1 << 64) - 1]


def inlen(op):
    """bytes of input handed to the parser (every hex argument; small numeric arguments that happen to look like hex add a few bytes)"""
    n = 0
    for t in op.split(' ')[1:]:
        if t.startswith('rep:'):
            n += int(t.split(':')[2])
        elif len(t) >= 2 and len(t) % 2 == 0 and all(c in '0123456789abcdef' for c in t):
            n += len(t) // 2
    return n


def parse(g):
    t = (g or '').split(' ')
    if len(t) >= 3 and t[0] in ('ok', 'err'):
        try:
            return t[0], int(t[1]), int(t[2]), t[3:]
        except ValueError:
            return None
    return None


def verdict(op, g, m):
    """None if fine, else a reason"""
    pg, pm = parse(g), parse(m)
    if pm is None:
        return f'model gave {m!r}'
    if pg is None:
        return f'the parser did not return a value or an error: {g}'
    kind = op.split(' ')[0]
    if kind in ('c10.sh', 'c10.ib', 'c10.ib.obtain', 'c10.ib.has'):
        if pg[0] != pm[0]:
            return f'accept/reject differs: go {pg[0]} model {pm[0]}'
    elif kind != 'c10.verify' and pg[0] == 'ok' and pm[0] != 'ok':
        return 'Go accepts an input on which the cost skeleton stops (skeleton is not an upper bound of the control flow)'
    budget = S0 + S1 * (pm[1] + 64 * pm[2])
    if pg[1] > budget:
        return f'Go allocated {pg[1]} bytes, model cost alloc={pm[1]} steps={pm[2]} allows {budget}'
    A, F = LINEAR[kind]
    if kind == 'c10.mice':
        F += 2 * int(op.split(' ')[2])        # the caller's record-size limit is part of the constant (C10.mice_linear)
    if pm[1] + pm[2] > A * inlen(op) + F:
        return f'cost is not linear in the input: model alloc+steps={pm[1] + pm[2]} for {inlen(op)} input bytes (Go allocated {pg[1]})'
    return None


def agree(op, g, m):
    return verdict(op, g, m) is None


def classify(op, m):
    t = op.split(' ')
    k = t[0] + (':' + t[1] if t[0] in ('c10.cbor', 'c10.sh', 'c10.mice') else '')
    return f'{k}:{(m or "?").split(" ")[0]}'


def nontrivial(op, m):
    return True


def signature(op, g, m):
    v = verdict(op, g, m) or ''
    return op.split(' ')[0] + ':' + v.split(':')[0][:40] + ':' + (g or '').split(' ')[0]


def explain(op, g, m):
    return verdict(op, g, m) or 'agree'


def finding_site(op, g, m):
    """call-site identification for known findings"""
    pm = parse(m)
    if op.startswith(('c10.bundle ', 'c10.bundleverify ')) and pm and len(pm[3]) == 2:
        n, tot = int(pm[3][0]), int(pm[3][1])
        if n > 1 and tot > inlen(op):
            return 'bundle.Read/loadResponse:overlapping-index-entries'
    return None


# ---------------------------------------------------------------- CBOR helpers (python, only to build inputs)
def head(major, n):
    if n < 24: return bytes([major << 5 | n])
    if n < 1 << 8: return bytes([major << 5 | 24, n])
    if n < 1 << 16: return bytes([major << 5 | 25]) + n.to_bytes(2, 'big')
    if n < 1 << 32: return bytes([major << 5 | 26]) + n.to_bytes(4, 'big')
    return bytes([major << 5 | 27]) + n.to_bytes(8, 'big')


def head8(major, n):
    return bytes([major << 5 | 27]) + n.to_bytes(8, 'big')


def bstr(b): return head(2, len(b)) + b
def tstr(b): return head(3, len(b)) + b


def head_len(b0):
    ai = b0 & 31
    return 1 + {24: 1, 25: 2, 26: 4, 27: 8}.get(ai, 0)


def inflations(data, rng, limit):
    """replace a CBOR head (string / array / map) by one declaring a huge length or count"""
    pos = [i for i, b in enumerate(data) if (b >> 5) in (0, 2, 3, 4, 5) and (b & 31) < 28 and i + head_len(b) <= len(data)]
    if len(pos) > limit:
        pos = sorted(rng.sample(pos, limit))
    out = []
    for i in pos:
        b = data[i]
        for n in ((1 << 64) - 1, 1 << 63, 1 << 28, rng.choice(BIG), (1 << 64) - rng.randrange(2, 64)):
            out.append(data[:i] + head8(b >> 5, n) + data[i + head_len(b):])
        n = rng.choice(BIG[:6])
        out.append(data[:i] + bytes([(b >> 5) << 5 | 26]) + (n & 0xffffffff).to_bytes(4, 'big') + data[i + head_len(b):])
    return out


KEYS = [b'cert', b'ocsp', b'sct', b'authority', b'sig', b'signed', b'index', b'responses', b'primary', b'manifest', b'signatures', b':status', b':method', b':url',
        b'validity-url', b'auth-sha256', b'date', b'expires', b'subset-hashes', b'content-type', b'digest', b'variants', b'variant-key']


def key_flips(data):
    """size-preserving renames of known map keys / section names (a required key goes missing, an unknown one appears)"""
    out = []
    for k in KEYS:
        for hb in (0x60 + len(k), 0x40 + len(k)):
            pat = bytes([hb]) + k
            i = data.find(pat)
            while i >= 0:
                out.append(data[:i + len(pat) - 1] + bytes([data[i + len(pat) - 1] ^ 1]) + data[i + len(pat):])
                i = data.find(pat, i + 1)
    return out


def mutants(data, rng, ntrunc, nflip, ninfl):
    out = key_flips(data)
    if len(data) <= ntrunc:
        out += [data[:i] for i in range(len(data))]
    else:
        out += [data[:i] for i in sorted(rng.sample(range(len(data)), ntrunc))]
    for _ in range(nflip):
        if not data: break
        d = bytearray(data)
        for _ in range(rng.choice([1, 1, 2, 5])):
            i = rng.randrange(len(d))
            d[i] = rng.choice([d[i] ^ (1 << rng.randrange(8)), 0, 0xff, 0x5b, 0x7b, 0x9b, 0xbb, 0x1f, 0x5f, 0x9f, 0xbf, rng.randrange(256)])
        out.append(bytes(d))
    out += inflations(data, rng, ninfl)
    return out


def read_head(b, pos):
    ai = b[pos] & 31
    if ai < 24: return ai, 1
    k = {24: 1, 25: 2, 26: 4, 27: 8}[ai]
    return int.from_bytes(b[pos + 1:pos + 1 + k], 'big'), 1 + k


def retabled(f):
    """the same bundle with other *declared* section lengths (section-length table rebuilt, table byte string re-measured):
    sums that wrap around 2^64, single huge entries, off-by-one"""
    out = []
    try:
        pos = 15
        if f[0] == 0x86:                       # b1: fallback URL
            n, h = read_head(f, pos); pos += h + n
        pre = f[:pos]
        tl, h = read_head(f, pos)
        table = f[pos + h: pos + h + tl]; after = f[pos + h + tl:]
        cnt, tp = read_head(table, 0)
        secs = []
        for _ in range(cnt // 2):
            ln, h2 = read_head(table, tp); name = table[tp + h2: tp + h2 + ln]; tp += h2 + ln
            v, h3 = read_head(table, tp); tp += h3
            secs.append((name, v))
        M = 1 << 64

        def build(lens):
            tab = head(4, 2 * len(secs)) + b''.join(tstr(nm) + head(0, l) for (nm, _), l in zip(secs, lens))
            return pre + bstr(tab) + after
        base = [v for _, v in secs]
        for i in range(len(secs)):
            for j in range(len(secs)):
                if i == j: continue
                for a in (M - 1, M - base[j], M - base[j] + 1, (M - base[j] - 1) % M, 1 << 63):
                    l = list(base); l[i] = a % M; out.append(build(l))
                l = list(base); l[i] = 1 << 63; l[j] = 1 << 63; out.append(build(l))
                l = list(base); l[i] = M - 1; l[j] = 1; out.append(build(l))
            for a in (0, base[i] + 1, max(base[i] - 1, 0), len(f), M - 1, 1 << 32):
                l = list(base); l[i] = a; out.append(build(l))
    except Exception:
        pass
    return out


def f15_witness(k, m):
    """b2 bundle whose k index entries all point at the same response with an m-byte body"""
    hdr = head(5, 1) + bstr(b':status') + bstr(b'200')
    resp = b'\x82' + bstr(hdr) + bstr(bytes(m))
    responses = head(4, 1) + resp
    idx = head(5, k)
    for i in range(k):
        idx += tstr(b'https://a.example/%d' % i) + head(4, 2) + head(0, 1) + head(0, len(resp))
    sl = head(4, 4) + tstr(b'index') + head(0, len(idx)) + tstr(b'responses') + head(0, len(responses))
    b = bytes([0x85, 0x48, 0xf0, 0x9f, 0x8c, 0x90, 0xf0, 0x9f, 0x93, 0xa6, 0x44]) + b'b2\0\0' + bstr(sl) + head(4, 2) + idx + responses
    total = len(b) + 9
    return b + b'\x48' + total.to_bytes(8, 'big')


def signed_bundle_bodies(ctx, w, date):
    """bundles HONESTLY signed by the library (signatures section verifies, URL in subset-hashes, header hash and Digest header in place), so
    that VerifyExchange gets as far as MI-decoding the response body -- which the signature does not cover. The body then declares record
    sizes 0 .. 2^64-1 (around the 16 KiB limit, every power-of-two magnitude above it) with a whole record, one byte, or nothing behind
    the 8-byte size field: the declared size must not steer the allocation."""
    k0 = w.keys[0]
    ops, sops = [], []
    for v in ('b1', 'b2'):
        for rs, blen in ((16, 40), (4096, 5000), (16384, 100)):
            bb = bundle(v, b'https://example.com/', None, None, [exch(b'https://example.com/', 200, [(b'Content-Type', [b'text/plain'])], bytes(i % 251 for i in range(blen))),
                                                                 exch(b'https://example.com/other', 200, [(b'Content-Type', [b'text/plain'])], b'second body')])
            sops.append(f'bsig.sign {bb} {rs} {k0["cert"]}:{hexs(b"ocsp")}:nil {k0["key"]} {hexs(b"https://example.com/validity")} {date} 3600')
    signed = [r[3:] for r in ctx.go(sops) if r and r.startswith('ok ')]
    if len(signed) < len(sops):
        ctx.infra.append(f'c10: {len(sops) - len(signed)} bundles could not be signed')
    SIZES = [0, 1, 16, 16383, 16384, 16385, 16416, 32768, 65536, 1 << 20, (1 << 20) + 1, 1 << 22, 1 << 24, 1 << 26, 1 << 28, (1 << 30) - 1, 1 << 30, (1 << 30) + 1, (1 << 31) - 1,
             1 << 31, 1 << 32, 1 << 33, 1 << 40, (1 << 62), (1 << 63) - 1, 1 << 63, (1 << 64) - 33, (1 << 64) - 32, (1 << 64) - 1]
    variants = []
    for si, sb_ in enumerate(signed):
        t = sb_.split(' ')
        exs_ = t[4].split(',')
        first = exs_[0].split('~')
        body = unhex(first[3])
        variants.append(sb_)                                  # the honest one (control: verifies)
        for j, n in enumerate(SIZES):
            if si >= 2 and j % 3 != si % 3: continue          # all sizes on the first b1 and b2 bundle, a third of them on the others
            for tail in (body[8:], b'x', b''):
                nb = n.to_bytes(8, 'big') + tail
                variants.append(' '.join(t[:4] + [','.join(['~'.join(first[:3] + [hexs(nb)])] + exs_[1:])]))
    files = ctx.go([f'bundle.write {b}' for b in variants])
    for r in files:
        if r and r.startswith('ok '):
            ops.append(f'c10.bundleverify {r.split(" ")[1]} {date + 5}')
    if len(ops) < len(variants):
        ctx.infra.append(f'c10: {len(variants) - len(ops)} signed bundles with altered bodies could not be written')
    return ops


def run(ctx):
    rng, thorough = ctx.rng, ctx.tier == 'thorough'
    scale = 6 if thorough else 1
    w = sxg_setup(ctx)
    k0 = w.keys[0]
    date = 1517418800
    ops = []

    # ---- raw CBOR decoder entry points
    for kind, major in (('uint', 0), ('array', 4), ('map', 5), ('bytes', 2), ('text', 3)):
        for n in [0, 1, 23, 24, 255, 256, 65535, 65536] + BIG:
            for avail in (0, 1, 5, 40):
                body = bytes(avail)
                ops.append(f'c10.cbor {kind} {hexs(head(major, n) + body)}')
                ops.append(f'c10.cbor {kind} {hexs(head8(major, n) + body)}')
        for ai in range(24, 32):
            ops.append(f'c10.cbor {kind} {hexs(bytes([major << 5 | ai]) + bytes(rng.randrange(0, 9)))}')
        for _ in range(60 * scale):
            ops.append(f'c10.cbor {kind} {hexs(rbytes(rng, rng.randrange(0, 12)))}')
        ops.append(f'c10.cbor {kind} {hexs(head(major, 200000) + b"a" * 200000)}')

    # ---- cert chains
    chains = [unhex(k['chain']) for k in w.keys if k.get('chain')]
    two = ctx.go([f'cert.write {w.keys[0]["cert"]}:{hexs(b"ocsp")}:{hexs(b"sct-data")},{w.keys[1]["cert"]}:nil:nil'])
    if two[0] and two[0].startswith('ok '):
        chains.append(unhex(two[0].split(' ')[1]))
    for c in chains:
        ops.append(f'c10.cert {hexs(c)}')
        for mu in mutants(c, rng, 40 * scale, 40 * scale, 12 * scale):
            ops.append(f'c10.cert {hexs(mu)}')
    for n in BIG:
        ops.append(f'c10.cert {hexs(head8(4, n) + tstr("📜⛓".encode()) + head8(5, n) + tstr(b"cert") + head8(2, n))}')
        ops.append(f'c10.cert {hexs(head(4, 2) + tstr("📜⛓".encode()) + head8(5, n) + tstr(b"cert") + bstr(b"x") * 3)}')

    # ---- signed exchange files
    sx = [rand_exchange(rng, v) for v in ('b1', 'b2', 'b3') for _ in range(3 * scale)]
    res = ctx.go([f'sxg.sign {exs(e)} {rng.choice([16, 4096])} {k0["cert"]} {k0["key"]} {hexs(b"https://example.com/cert.cbor")} {hexs(b"https://example.com/validity")} {date} {date + 3600}' for e in sx])
    signed = [r[3:].split(' ') for r in res if r and r.startswith('ok ')]
    files = ctx.go([f'sxg.write {exs(e)}' for e in signed])
    files = [unhex(r.split(' ')[1]) for r in files if r and r.startswith('ok ')]
    if not files:
        ctx.infra.append('no signed exchange file could be produced')
    for f in files:
        ops.append(f'c10.sxg {hexs(f)}')
        for mu in mutants(f, rng, 30, 30, 10):
            ops.append(f'c10.sxg {hexs(mu)}')
        # fixed-width length fields at their maximum / beyond the file
        off = 8 if f[:8] == b'sxg1-b1\0' else 10 + int.from_bytes(f[8:10], 'big')
        for sl, hl in ((0xffffff, 0), (0, 0xffffff), (0xffffff, 0xffffff), (16385, 524289), (1, 0xfffffe)):
            ops.append(f'c10.sxg {hexs(f[:off] + sl.to_bytes(3, "big") + hl.to_bytes(3, "big") + f[off + 6:])}')
        if f[:8] != b'sxg1-b1\0':
            ffurl = f[:8] + bytes([255, 255]) + f[10:]
            ops.append(f'c10.sxg {hexs(ffurl)}')
    # header fields that declare sizes must not steer allocation either (Content-Length, Content-Range, ...)
    sized = []
    for v in ('b1', 'b2', 'b3'):
        for cl in (b'268435456', b'9223372036854775807', b'18446744073709551615', b'-1', b'abc', b'0', b'7', b'4294967296', b'1e12'):
            rs_ = [(b'Content-Type', [b'text/html']), (b'Content-Length', [cl]), (b'Content-Range', [b'bytes 0-' + cl + b'/' + cl])]
            sized.append(ex(v, b'https://example.com/', b'GET', [(b'Content-Length', [cl])] if v != 'b3' else [], 200, rs_, b'sig', b'payload'))
    fs = ctx.go([f'sxg.write {exs(e)}' for e in sized])
    for r in fs:
        if r and r.startswith('ok '):
            ops.append(f'c10.sxg {r.split(" ")[1]}')
    bsz = ctx.go([f'bundle.write {bundle(v, b"https://example.com/", None, None, [exch(b"https://example.com/", 200, [(b"Content-Length", [cl])], b"body")])}' for v in ('b1', 'b2') for cl in (b'268435456', b'9223372036854775807', b'-1')])
    for r in bsz:
        if r and r.startswith('ok '):
            ops.append(f'c10.bundle {r.split(" ")[1]}')
    for magic in (b'sxg1-b1\0', b'sxg1-b2\0', b'sxg1-b3\0', b'sxg1\0\0\0\0'):
        for _ in range(10 * scale):
            ops.append(f'c10.sxg {hexs(magic + rbytes(rng, rng.randrange(0, 40)))}')

    # ---- signed exchange verifier: mutated cert chain from the fetcher, mutated payload, mutated Signature header
    for e in signed[:6 * scale]:
        chain = unhex(k0['chain'])
        ops.append(f'c10.verify {exs(e)} {hexs(chain)} {date + 5}')
        for mu in mutants(chain, rng, 6, 6, 6):
            ops.append(f'c10.verify {exs(e)} {hexs(mu)} {date + 5}')
        payload = unhex(e[7])
        for mu in mutants(payload, rng, 4, 4, 0) + [BIG[-1].to_bytes(8, 'big') + payload[8:], (16385).to_bytes(8, 'big') + payload[8:], (16384).to_bytes(8, 'big') + payload[8:]]:
            ops.append(f'c10.verify {" ".join(e[:7] + [hexs(mu)])} {hexs(chain)} {date + 5}')
        sigh = unhex(e[6])
        for mu in mutants(sigh, rng, 6, 8, 0) + [sigh * 50, b'a;' * 2000, b'"' * 3000, b'*' * 4000, b'a;b=' + b'9' * 3000]:
            ops.append(f'c10.verify {" ".join(e[:6] + [hexs(mu)] + e[7:])} {hexs(chain)} {date + 5}')

    # certificates on curves the library does not sign with (P-521), with a well-formed DER Ecdsa-Sig-Value in the signature field: the
    # verifiers must answer "invalid", for signed exchanges and for bundle signatures
    import hashlib as _hl, base64 as _b64, re as _re
    k521 = [k for k in w.keys if k['curve'] == 'p521']
    DER = [bytes.fromhex('3006020101020101'), bytes.fromhex('30080202008002020080'), bytes.fromhex('3000'), bytes.fromhex('300602010002010' + '0')]
    for kk in k521:
        csha = _b64.b64encode(_hl.sha256(unhex(kk['cert'])).digest())
        for e in signed[:3]:
            hdr = unhex(e[6])
            for der in DER + [None]:
                h2 = _re.sub(rb'cert-sha256=\*[^*]*\*', b'cert-sha256=*' + csha + b'*', hdr)
                if der is not None: h2 = _re.sub(rb'sig=\*[^*]*\*', b'sig=*' + _b64.b64encode(der) + b'*', h2)
                ops.append(f'c10.verify {" ".join(e[:6] + [hexs(h2)] + e[7:])} {kk["chain"]} {date + 5}')
    # every status code net/http knows, honestly signed, with and without freshness information (table lookups keyed by the status)
    STATUSES = [100, 101, 102, 103, 200, 201, 202, 203, 204, 205, 206, 207, 208, 226, 300, 301, 302, 303, 304, 305, 307, 308, 400, 401, 402, 403, 404, 405, 406, 407, 408, 409, 410, 411, 412, 413, 414,
                415, 416, 417, 418, 421, 422, 423, 424, 425, 426, 428, 429, 431, 451, 500, 501, 502, 503, 504, 505, 506, 507, 508, 510, 511, 599, 600, 999, 0]
    swe = []
    for st in STATUSES:
        for v in (('b3',) if st not in (200, 503, 511) else ('b1', 'b2', 'b3')):
            e = ex(v, b'https://example.com/', b'GET', [], st, [(b'Content-Type', [b'text/html'])] + ([(b'Cache-Control', [b'max-age=60'])] if st % 7 == 0 else []), b'', b'status sweep')
            swe.append(e)
    # Cache-Control / Expires / Content-Type values at the edges of their little grammars (lone and unbalanced quotes, empty arguments,
    # bare separators, very long runs), honestly signed, through the verifier
    CC = [b'max-age="', b'public, ext=","', b'"', b'=', b'=""', b'a="', b'"="', b',', b' , ', b'max-age=""', b'max-age="60', b'ext="\\"', b'"' * 300, b'a=b=c', b'max-age=', b'=60', b'max-age =60',
          b'no-store="', b'private=",public', b',,,', b'x' * 5000, b'a=' + b'"' * 3, b'\t', b'max-age=\x00', b'\xff\xfe', b'max-age=99999999999999999999', b'max-age=-1', b's-maxage="']
    for st in (200, 201):
        for cc in CC:
            swe.append(ex('b3', b'https://example.com/', b'GET', [], st, [(b'Content-Type', [b'text/html']), (b'Cache-Control', [cc])], b'', b'cc sweep'))
            swe.append(ex('b3', b'https://example.com/', b'GET', [], st, [(b'Content-Type', [b'text/html']), (b'Cache-Control', [b'public', cc])], b'', b'cc sweep'))
    for hv in (b'"', b'', b'0', b'x' * 3000):
        swe.append(ex('b3', b'https://example.com/', b'GET', [], 201, [(b'Content-Type', [b'text/html']), (b'Expires', [hv])], b'', b'exp sweep'))
        swe.append(ex('b3', b'https://example.com/', b'GET', [], 200, [(b'Content-Type', [hv])], b'', b'ct sweep'))
    res = ctx.go([f'sxg.sign {exs(e)} 16 {k0["cert"]} {k0["key"]} {hexs(b"https://example.com/cert.cbor")} {hexs(b"https://example.com/validity")} {date} {date + 3600}' for e in swe])
    for r in res:
        if r and r.startswith('ok '):
            ops.append(f'c10.verify {r[3:]} {k0["chain"]} {date + 5}')

    # ---- bundles
    bs = [rand_bundle(rng, v, w) for v in ('b1', 'b2') for _ in range(5 * scale)]
    res = ctx.go([f'bundle.write {b}' for b in bs])
    bfiles = [unhex(r.split(' ')[1]) for r in res if r and r.startswith('ok ')]
    if not bfiles:
        ctx.infra.append('no bundle could be produced')
    for f in bfiles:
        ops.append(f'c10.bundle {hexs(f)}')
        import c05          # (lazy: c05 imports this module)
        for mu in mutants(f, rng, 40, 60, 25) + retabled(f) + c05.index_mutants(f):
            ops.append(f'c10.bundle {hexs(mu)}')
    # bundles with a signatures section: reader + bundle-signature verifier
    sb = [rand_bundle(rng, v, w) for v in ('b1', 'b2') for _ in range(12 * scale)]
    sb = [b for b in sb if b.split(' ')[3] != 'nil'][:6 * scale]
    # deterministic members: one authority, vouched subsets that really point at it (authority index 0), with and without exchanges
    for v in ('b1', 'b2'):
        for nsub in (1, 2):
            auth = f'{k0["cert"]}:{hexs(b"ocsp")}:{hexs(b"sct")}'
            subs = '+'.join(f'0:{hexs(rbytes(rng, 70))}:{hexs(rbytes(rng, 40))}' for _ in range(nsub))
            sb.append(bundle(v, b'https://example.com/', None, f'{auth}/{subs}', [exch(b'https://example.com/', 200, [(b'Content-Type', [b'text/plain'])], b'body')] if nsub == 1 else []))
    for kk in k521:
        for v in ('b1', 'b2'):
            for der in DER:
                sb.append(bundle(v, b'https://example.com/', None, f'{kk["cert"]}:{hexs(b"ocsp")}:nil/0:{hexs(der)}:{hexs(rbytes(rng, 60))}', [exch(b'https://example.com/', 200, [], b'body')]))
    res = ctx.go([f'bundle.write {b}' for b in sb])
    for r in res:
        if not (r and r.startswith('ok ')): continue
        f = unhex(r.split(' ')[1])
        ops.append(f'c10.bundleverify {hexs(f)} {date + 5}')
        for mu in mutants(f, rng, 10, 20, 10):
            ops.append(f'c10.bundleverify {hexs(mu)} {date + 5}')
    for magic in (bytes([0x86, 0x48, 0xf0, 0x9f, 0x8c, 0x90, 0xf0, 0x9f, 0x93, 0xa6, 0x44]) + b'b1\0\0', bytes([0x85, 0x48, 0xf0, 0x9f, 0x8c, 0x90, 0xf0, 0x9f, 0x93, 0xa6, 0x44]) + b'b2\0\0'):
        for _ in range(20 * scale):
            ops.append(f'c10.bundle {hexs(magic + rbytes(rng, rng.randrange(0, 60)))}')
    # b1 index entries with odd Variants values (axes without values, empty members, repeated axes), built by hand
    from bundlelib import craft_b1, craft_response
    okr = craft_response([(b':status', b'200')], b'ok')
    for vv in (b'accept-encoding, accept-language;en', b'accept-language;en, accept-encoding', b'accept-encoding', b'a, b, c;x', b'a;x, b, c;y;z', b',', b'a;x,', b'a;;x', b';', b'a;x;x', b'a;x, a;y', b'a;' + b';'.join(b'v%d' % i for i in range(300))):
        for nl in (1, 0, 2):
            ops.append(f'c10.bundle {hexs(craft_b1([(b"https://example.com/v", vv, [okr, okr], nl), (b"https://example.com/ok", b"", [okr], None)]))}')
    # many entries, disjoint responses (linear) -- control for the finding below
    ops.append(f'c10.bundle {hexs(f15_witness(1, 200000))}')

    # ---- bundle-signature verifier on really-signed attacker bytes
    # (auth-sha256 of every length around 32, header hashes likewise: these are attacker-chosen byte strings inside a correctly signed subset)
    subs = ctx.go([f'bsig.subset {hexs(b"https://example.com/validity")}|{hexs(bytes(alen)) if alen else "-"}|{date}|{date + 3600}|'
                   + ','.join(f'{hexs(b"https://example.com/%d" % i)}^-^{hexs(bytes(hlen))}~{hexs(b"digest/mi-sha256-03")}' for i in range(n))
                   for n, alen, hlen in ((1, 32, 32), (3, 32, 32), (1, 31, 32), (1, 0, 32), (1, 33, 32), (1, 1, 32), (1, 64, 32), (1, 32, 31), (1, 32, 0), (2, 32, 33))])
    chainspec = f'{k0["cert"]}:{hexs(b"ocsp")}:nil'
    for r in subs:
        if not (r and r.startswith('ok ')):
            ctx.infra.append(f'bsig.subset failed: {r}'); continue
        s = unhex(r.split(' ')[1])
        for v in ('b1', 'b2'):
            ops.append(f'c10.subset {v} {chainspec} {k0["key"]} {hexs(s)} {date + 5}')
        for mu in mutants(s, rng, 30 * scale, 30 * scale, 20 * scale):
            ops.append(f'c10.subset b2 {chainspec} {k0["key"]} {hexs(mu)} {date + 5}')

    # ---- structured headers
    shs = [b'sig1;sig=*AAAA;integrity="digest/mi-sha256-03";validity-url="https://example.com/v";cert-url="https://example.com/c";cert-sha256=*AAAA;date=1;expires=2',
           b'a, b;x=1;y="z", c', b'', b'   ', b'"\\', b'*' * 100, b'a;' * 500, b'a' * 5000, b'"' + b'\\"' * 2000 + b'"', b'1' * 400, b'-' * 50, b'a;b=*' + b'A' * 4001,
           b',' * 300, b'a;a;a;a', b'a  ,  b', b'\xff\xfe', b'a;b=1.' + b'0' * 30,
           # the string ends right after a character that announces an item (or in the middle of one)
           b'sig1;sig=?', b'a, ?', b'Accept;?', b'?', b'a;b=?', b'a;b=?1', b'?0', b'a;b=*', b'a;b="', b'a;b=-', b'a;b=', b'a;', b'a,', b'a;b=\\', b'a;b="\\', b'a;b=*A', b'a;b=@', b'a;b=#', b'a;b=(', b'(', b'a;b=:x:']
    for s in shs:
        for k in ('pl', 'll'):
            ops.append(f'c10.sh {k} {hexs(s)}')
            for mu in mutants(s, rng, 10, 10 * scale, 0):
                ops.append(f'c10.sh {k} {hexs(mu)}')
    alphabet = b'ab1;=,"\\* -._/AZ\t'
    for _ in range(300 * scale):
        s = bytes(rng.choice(alphabet) for _ in range(rng.randrange(0, 30)))
        ops.append(f'c10.sh {rng.choice(["pl", "ll"])} {hexs(s)}')

    # ---- MI decoder
    for draft in ('02', '03'):
        for plen, rs in ((0, 16), (1, 16), (16, 16), (17, 16), (100, 16), (5000, 4096), (40000, 16384)):
            payload = rbytes(rng, plen)
            stream, hdr = micelib.encode(payload, rs, draft)
            ops.append(f'c10.mice {draft} 16384 {hexs(hdr)} {hexs(stream)}')
            for mu in mutants(stream, rng, 8, 8, 0):
                ops.append(f'c10.mice {draft} 16384 {hexs(hdr)} {hexs(mu)}')
            for rsz in [0, 1, 16383, 16384, 16385, 1 << 28, 1 << 32, (1 << 63) - 1, 1 << 63] + [(1 << 64) - d for d in (1, 2, 31, 32, 33, 64)]:
                ops.append(f'c10.mice {draft} 16384 {hexs(hdr)} {hexs(rsz.to_bytes(8, "big") + stream[8:])}')
                ops.append(f'c10.mice {draft} {rng.choice([0, 1, 1 << 20])} {hexs(hdr)} {hexs(rsz.to_bytes(8, "big") + stream[8:])}')
        for h in (b'', b'mi-sha256-03=', b'mi-sha256-03=AAAA', b'x' * 3000):
            ops.append(f'c10.mice {draft} 16384 {hexs(h)} {hexs(bytes(40))}')
        # the digest header value itself: every prefix, list forms, missing '=', other algorithms, separators
        stream, hdr = micelib.encode(b'hello world', 16, draft)
        name = hdr.split(b'=')[0]
        for h in [hdr[:i] for i in range(len(hdr) + 1)] + [name, name + b' ', b' ' + name, b'sha-256=abcd, ' + name, b'foo,' + name + b',bar', name + b',' + hdr, hdr + b',' + name,
                                                            b'sha-256=abcd,' + hdr, hdr + b', sha-256=abcd', b',', b'=', b'==', name + b'==', b'=' + hdr, hdr.replace(b'=', b' = ', 1),
                                                            name.upper() + b'=' + hdr.split(b'=', 1)[1], hdr + b'=', hdr + b';q=1']:
            ops.append(f'c10.mice {draft} 16384 {hexs(h)} {hexs(stream)}')

    # ---- integrity-block detection
    for f in bfiles[:4] + [b'', b'\x84', bytes(9), bytes(10), bytes(18), b'\x84\x48' + '🖋📦'.encode() + bytes(30)]:
        ops.append(f'c10.ib {hexs(f)}')
        for mu in mutants(f, rng, 6, 6, 0):
            ops.append(f'c10.ib {hexs(mu)}')

    # each integrity-block entry point ALONE (c10.ib stops at the first one that reports an error, so the second never saw a file shorter
    # than the first one's minimum): every file length 0 .. 20 x contents (zeros, ff, an honest trailing length, a trailing length of 0 /
    # one more / negative) x where the handle stood before the call
    for n in range(0, 21):
        conts = [bytes(n), b'\xff' * n, bytes(range(1, n + 1))]
        if n >= 8:
            conts += [bytes(n - 8) + tl.to_bytes(8, 'big') for tl in (n, 0, n + 1, n - 1, 1 << 63, (1 << 64) - 1)]
        for c in conts:
            for pos in ('start', 'mid', 'end'):
                ops.append(f'c10.ib.obtain {hexs(c)} {pos}')
                ops.append(f'c10.ib.has {hexs(c)} {pos}')
    for f in bfiles[:2]:
        for cut in list(range(0, 12)) + [len(f) - 9, len(f) - 8, len(f) - 7, len(f) - 1, len(f)]:
            if 0 <= cut <= len(f):
                ops.append(f'c10.ib.obtain {hexs(f[:cut])} start')
                ops.append(f'c10.ib.obtain {hexs(f[len(f) - cut:])} end')

    ops += signed_bundle_bodies(ctx, w, date)

    ops = list(dict.fromkeys(ops))
    ctx.both(ops)
    if os.environ.get('VERIF_C10_STATS'):
        worst = {}
        for op, g, m in ctx.records:
            pg, pm = parse(g), parse(m)
            if pg and pm:
                k = op.split(' ')[0]
                r = pg[1] / (1 + pm[1] + 64 * pm[2])
                if r > worst.get(k, (0,))[0]:
                    worst[k] = (r, pg[1], pm[1], pm[2], inlen(op))
        for k, v in sorted(worst.items()):
            print('STATS', k, 'ratio %.2f go=%d model_alloc=%d steps=%d len=%d' % v)
