from common import *
import itertools

THEOREMS = ['C11.encodeHead_decode', 'C11.encodeHead_shortest', 'C11.encodeInt_decode', 'C11.encodeBytes_decode', 'C11.encodeText_iff',
            'C11.encodeMap_sorted', 'C11.encodeMap_perm', 'C11.encodeMap_dup_iff']
TRUSTED = ['Go stdlib: unicode/utf8.Valid, sort.Slice, bytes.Compare, bytes.Buffer, io.Copy (modelled, compared by the correspondence)']
ASSUMPTIONS = ['EncodeArrayHeader is called with non-negative counts (callers pass len(..))',
               'map entries are passed as (encoded key bytes, encoded value bytes), as Go buffers them in MapEntryEncoder']
RULE = ('cbor.enc scripts: every uint/int within +-40 of each head boundary (24,2^8,2^16,2^32,2^63,2^64), byte/text strings of each length class, '
        'valid and invalid UTF-8, array headers, maps with mixed-length keys in all permutations (<=4 quick, <=6 thorough) and duplicate keys, nested maps; '
        'distinct = distinct op lines')
EXHAUSTIVE = {}

agree = Base.agree; nontrivial = Base.nontrivial; signature = Base.signature; explain = Base.explain


def classify(op, m):
    op = op.replace('cbor.enc.plain ', 'cbor.enc ', 1) if op.startswith('cbor.enc.plain ') else op
    t = op.split(' ')
    kind = t[2][0] if len(t) > 2 else '?'
    return f'enc:{kind}:{m.split(" ")[0]}' + (':' + m.split(' ')[1] if m.startswith('err') else '')


def key_script(rng):
    k = rng.randrange(5)
    if k == 0:
        return 'u%d' % rng.choice([0, 1, 23, 24, 255, 256, 1000, 65536, rng.getrandbits(64)])
    if k == 1:
        return 'b' + hexs(rbytes(rng, rng.choice([0, 1, 2, 3, 23, 24, 30])))
    if k == 2:
        return 't' + hexs(rutf8(rng, 4))
    if k == 3:
        return 'i%d' % rng.choice([-1, -24, -25, -256, -257, 5])
    return 't' + hexs(rng.choice(['a', 'b', 'aa', 'ab', 'b' * 24, 'a' * 23, 'date', 'expires', 'sig']).encode())


def val_script(rng, depth=0):
    k = rng.randrange(6 if depth < 2 else 4)
    if k == 0: return ['u%d' % rng.getrandbits(rng.choice([4, 8, 16, 32, 64]))]
    if k == 1: return ['b' + hexs(rbytes(rng, rng.randrange(40)))]
    if k == 2: return ['t' + hexs(rutf8(rng))]
    if k == 3: return ['o%d' % rng.randrange(2)]
    if k == 4:
        n = rng.randrange(3)
        out = ['a%d' % n]
        for _ in range(n): out += val_script(rng, depth + 1)
        return out
    return map_script(rng, rng.randrange(4), depth + 1)


def entry(k, v):
    return ['k1', k, 'v%d' % count_calls(v)] + v


def count_calls(toks):
    # number of top-level calls in a flat token list produced by val_script/map_script
    n, i = 0, 0
    def skip(i):
        t = toks[i]
        if t[0] == 'm':
            c = int(t[1:]); i += 1
            for _ in range(c):
                kn = int(toks[i][1:]); i += 1
                for _ in range(kn): i = skip(i)
                vn = int(toks[i][1:]); i += 1
                for _ in range(vn): i = skip(i)
            return i
        return i + 1
    while i < len(toks):
        i = skip(i); n += 1
    return n


def map_script(rng, n, depth=0, dup=False):
    keys = []
    while len(keys) < n:
        k = key_script(rng)
        if k not in keys: keys.append(k)
    if dup and keys:
        keys.append(rng.choice(keys))
        rng.shuffle(keys)
    out = ['m%d' % len(keys)]
    for k in keys:
        out += entry(k, val_script(rng, depth))
    return out


def generate(tier, rng):
    # every op that involves a string is also run through a destination that is only an io.Writer (no WriteString fast path)
    for op in generate0(tier, rng):
        yield op
        if op.startswith('cbor.enc ') and (' t' in op or ' b' in op) and len(op) < 4000:
            yield 'cbor.enc.plain ' + op[len('cbor.enc '):]


def generate0(tier, rng):
    thorough = tier == 'thorough'
    for v in near([0, 24, 2**8, 2**16, 2**32, 2**63, 2**64 - 1], 40, 0, 2**64 - 1):
        yield f'cbor.enc 1 u{v}'
    for v in near([0, 24, 2**8, 2**16, 2**32, 2**63 - 1], 40, 0, 2**63 - 1):
        yield f'cbor.enc 1 i{v}'
        yield f'cbor.enc 1 i{-v-1}'
    for v in near([0, 24, 2**8, 2**16, 2**32, 2**62], 3, 0, 2**63 - 1):
        yield f'cbor.enc 1 a{v}'
    for v in near([2**53, 2**52, 2**62, 2**63 - 512], 3, 0, 2**63 - 1) + [2**63 - 1 - d for d in range(0, 600, 37)] + [9007199254740993, 2**60 + 1, 2**61 + 3]:
        yield f'cbor.enc 1 i{-v}'
        yield f'cbor.enc 1 i{v}'
        yield f'cbor.enc 2 i{-v} i{-v - 1}'
    for _ in range(2000 if not thorough else 50000):
        yield f'cbor.enc 1 u{rng.getrandbits(rng.randrange(1, 65))}'
        yield f'cbor.enc 1 i{rng.getrandbits(rng.randrange(1, 64)) * rng.choice([1, -1])}'
    lens = [0, 1, 22, 23, 24, 25, 254, 255, 256, 257, 1000] + ([65535, 65536, 65537, 70000] if thorough else [65535, 65536])
    for n in lens:
        yield 'cbor.enc 1 b' + hexs(rbytes(rng, n))
        yield 'cbor.enc 1 t' + hexs(bytes(rng.randrange(0x20, 0x7f) for _ in range(n)))
    for s in UTF8_GOOD:
        yield 'cbor.enc 1 t' + hexs(s.encode('utf-8', 'surrogatepass') if False else s.encode('utf-8'))
    for b in UTF8_BAD:
        yield 'cbor.enc 1 t' + hexs(b)
        yield 'cbor.enc 2 u1 t' + hexs(b)
    for _ in range(300 if not thorough else 5000):
        yield 'cbor.enc 1 t' + hexs(rutf8(rng, 8))
        b = bytearray(rutf8(rng, 5) + b'x')
        b[rng.randrange(len(b))] = rng.getrandbits(8)
        yield 'cbor.enc 1 t' + hexs(bytes(b))
    yield 'cbor.enc 2 o0 o1'
    # several items through ONE encoder (state carried between calls): every ordered pair of head-size classes, then longer runs
    reps = [0, 23, 24, 200, 255, 256, 0x1234, 65535, 65536, 0x00abcdef, 2**24, 2**32 - 1, 2**32, 2**40 + 7, 2**56 - 1, 2**56, 2**64 - 1]
    for a in reps:
        for b_ in reps:
            yield f'cbor.enc 2 u{a} u{b_}'
    for a in (24, 200, 0x1234):
        for b_ in (65536, 2**32 + 5, 2**40):
            yield f'cbor.enc 2 b{hexs(bytes(a))} u{b_}'
            yield f'cbor.enc 3 u{a} i{-b_} a{b_}'
    for _ in range(200 if not thorough else 4000):
        n = rng.randrange(2, 7)
        toks = []
        for _ in range(n):
            k = rng.choice(['u', 'i-', 'a'])
            v = rng.choice(reps + [rng.getrandbits(rng.randrange(1, 64))])
            toks.append(k + str(v if k == 'u' else min(v, 2**63) if k == 'i-' else min(v, 2**62)))
        yield f'cbor.enc {n} ' + ' '.join(toks)
    # maps: all permutations
    maxperm = 6 if thorough else 4
    for n in range(0, maxperm + 1):
        for rep in range(3 if n < 5 else 1):
            keys = []
            while len(keys) < n:
                k = key_script(rng)
                if k not in keys: keys.append(k)
            ents = [entry(k, val_script(rng, 2)) for k in keys]
            for perm in itertools.permutations(ents):
                yield 'cbor.enc 1 m%d ' % n + ' '.join(' '.join(e) for e in perm)
    # long keys (key and value buffers of one entry must not share storage): every length class incl. 23/24, 63..66, 254..257
    for kl in [22, 23, 24, 25, 62, 63, 64, 65, 66, 100, 200, 253, 254, 255, 256, 257, 300, 1000]:
        for kind in ('t', 'b'):
            k1 = kind + hexs(bytes(rng.randrange(0x61, 0x7b) for _ in range(kl)))
            k2 = kind + hexs(bytes(rng.randrange(0x61, 0x7b) for _ in range(kl)))
            yield 'cbor.enc 1 m1 ' + ' '.join(entry(k1, ['t' + hexs(b'image/webp')]))
            yield 'cbor.enc 1 m2 ' + ' '.join(entry(k1, ['b' + hexs(rbytes(rng, 40))]) + entry(k2, ['u7']))
            yield 'cbor.enc 1 m2 ' + ' '.join(entry('u1', ['t' + hexs(b'v' * kl)]) + entry(k2, ['a2', 'u1', 'u2']))
    # refusals inside map entries (the key / value encoders of GenerateMapEntry are encoders too): invalid UTF-8 as key, as value, inside
    # a nested map; a nested map with a repeated key; and repeated keys whose VALUES are equal as well (still two equal keys)
    bad = 't' + hexs(b'caf\xe9')
    for script in (f'm1 k1 {bad} v1 u1', f'm1 k1 u1 v1 {bad}', f'm2 k1 u1 v1 {bad} k1 u2 v1 u2', f'm1 k1 u1 v1 m1 k1 {bad} v1 u1', f'm1 k1 u1 v1 m1 k1 u1 v1 {bad}',
                   'm1 k1 u1 v1 m2 k1 t6b v1 u1 k1 t6b v1 u2', 'm1 k1 m2 k1 t6b v1 u1 k1 t6b v1 u2 v1 u1', 'm1 k1 u1 v2 a1 m2 k1 u5 v1 u1 k1 u5 v1 u1',
                   'm2 k1 t6b v1 t76 k1 t6b v1 t76', 'm3 k1 t6b v1 t76 k1 t61 v1 u1 k1 t6b v1 t76', 'm2 k1 u1 v1 u1 k1 u1 v1 u1', 'm3 k1 u2 v1 u1 k1 u1 v1 u1 k1 u1 v1 u1',
                   'm2 k1 b6b v1 m0 k1 b6b v1 m0', 'm2 k1 t6b v0 k1 t6b v0'):
        yield 'cbor.enc 1 ' + script
        yield 'cbor.enc.cont 2 ' + script + ' u7'
    # keys of equal length that agree in their first 7, 8, 9, 15 bytes (a comparison that looks at a prefix only cannot order them), in every
    # caller order, with and without a duplicate among them
    for ks in ([b'content-language', b'content-encoding'], [b'content-language', b'content-encoding', b'content-location'], [b'abcdefgX', b'abcdefgA'], [b'abcdefghX', b'abcdefghA'],
               [b'abcdefghiX', b'abcdefghiA'], [b'x' * 15 + b'b', b'x' * 15 + b'a', b'x' * 15 + b'c'], [b'x' * 30 + b'2', b'x' * 30 + b'1']):
        for perm in itertools.permutations(ks):
            yield 'cbor.enc 1 m%d ' % len(perm) + ' '.join(sum((entry('t' + hexs(k), [f'u{i}']) for i, k in enumerate(perm)), []))
        for perm in itertools.permutations(ks + [ks[0]]):
            yield 'cbor.enc 1 m%d ' % len(perm) + ' '.join(sum((entry('t' + hexs(k), [f'u{i}']) for i, k in enumerate(perm)), []))
        for perm in itertools.permutations(ks):
            yield 'cbor.enc 1 m%d ' % len(perm) + ' '.join(sum((entry('b' + hexs(k), [f'u{i}']) for i, k in enumerate(perm)), []))
    # entry counts around the head-size boundary of the map header (23 | 24, and up to 32), top level and nested, into both writer kinds
    for n in (22, 23, 24, 25, 27, 31, 32, 33, 255, 256, 257):
        ents = sum((entry(f'u{i}', [f'u{i % 7}']) for i in range(n)), [])
        yield f'cbor.enc 1 m{n} ' + ' '.join(ents)
        if n <= 33:
            yield f'cbor.enc 1 m1 k1 t6e v1 m{n} ' + ' '.join(ents)
            yield f'cbor.enc 3 a2 m{n} ' + ' '.join(ents) + ' u1'
    # duplicates: adjacent / non adjacent in every position
    for n in range(1, 5):
        for _ in range(20 if not thorough else 200):
            yield 'cbor.enc 1 ' + ' '.join(map_script(rng, n, 0, dup=True))
    # keys that differ in raw order vs encoded order (length classes)
    for a, b in [('b' + '61' * 24, 'b' + '62'), ('t' + '7a', 't' + '61' * 30), ('u24', 'u23'), ('u256', 'u255'), ('i-1', 'u0'), ('b61', 't61')]:
        yield f'cbor.enc 1 m2 k1 {a} v1 u1 k1 {b} v1 u2'
        yield f'cbor.enc 1 m2 k1 {b} v1 u2 k1 {a} v1 u1'
    for _ in range(1500 if not thorough else 100000):
        yield 'cbor.enc 1 ' + ' '.join(map_script(rng, rng.randrange(7)))
    for _ in range(300 if not thorough else 20000):
        v = []
        n = rng.randrange(1, 5)
        for _ in range(n): v += val_script(rng)
        yield f'cbor.enc {count_calls(v)} ' + ' '.join(v)
