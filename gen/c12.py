from common import *

THEOREMS = ['C12.decodeOfType_sound', 'C12.decodeBytes_sound', 'C12.decodeText_sound', 'C12.decodeOfType_complete',
            'C12.decodeBytes_complete', 'C12.decodeText_complete', 'C12.reserved_rejected', 'C12.wrong_type_rejected',
            'C12.truncated_rejected', 'C12.invalid_utf8_rejected', 'C12.roundtrip_*']
TRUSTED = ['Go stdlib: io.ReadFull, io.CopyN, bytes.Buffer, bytes.Reader, unicode/utf8.Valid (modelled, compared by the correspondence)']
ASSUMPTIONS = ['the reader is an in-memory byte stream (no I/O errors other than end of input)']
RULE = ('all 256 initial bytes x follow bytes (all-zero / all-ff / boundary values / random) x content shorter, equal, longer than declared, '
        'through all five Decode* entry points; every (value, head size) pair around the head boundaries incl. non-shortest heads; '
        'string lengths 2^63-1, 2^63, 2^64-1; valid/invalid UTF-8 content; random byte strings; compared: value, bytes consumed, ok/err; '
        'cbor.dec.grow: one decoder whose reader receives more data after a failed call (every failure kind: input ending at every position inside a 1/2/4/8-byte '
        'argument, wrong type, reserved ai, oversized length, short content, bad UTF-8) x every head width and kind decoded next; '
        'cbor.rt.big: encoder -> decoder round trip of byte / text strings of 2^17+1 .. 2^25+1 bytes (2^20, 2^24 with both neighbours) and sizes in between, three reader kinds')
EXHAUSTIVE = {'quick': 'all 256 initial bytes x 5 entry points x {no follow bytes, exact, truncated by 1}',
              'thorough': 'all 256 initial bytes x 5 entry points x {no follow bytes, exact, truncated by 1}'}
OPS = ['cbor.dec.uint', 'cbor.dec.arr', 'cbor.dec.map', 'cbor.dec.bytes', 'cbor.dec.text']
SLOW_OPS = {'cbor.rt.big': 60000}      # watchdog (ms) for ops of this family wherever they run (the family itself, the corpus)

agree = Base.agree; nontrivial = Base.nontrivial; signature = Base.signature; explain = Base.explain


def classify(op, m):
    t = op.split(' ')
    if t[0] in ('cbor.enc', 'cbor.enc.cont'):
        return f'{t[0]}:{m.split(" ")[0]}:{m.split(" ")[-1][:9]}'
    if t[0] == 'cbor.dec.grow':
        return f'{t[0]}:{t[1]}:{len(t) // 2 - 1}phases:{m.split("|")[0].split(" ")[0]}:{m.split("|")[-1].split(" ")[0]}'
    if t[0] == 'cbor.rt.big':
        return f'{t[0]}:{t[1]}:{t[3]}'
    if t[0] == 'cbor.dec.seq':
        return f'{t[0]}:{t[1]}:{m.split(" ")[0]}'
    first = t[1][:2] if t[1] != '-' else 'empty'
    ai = (int(first, 16) & 31) if first != 'empty' else -1
    cls = 'empty' if ai < 0 else ('direct' if ai < 24 else {24: 'one', 25: 'two', 26: 'four', 27: 'eight'}.get(ai, 'reserved'))
    return f'{t[0]}:{cls}:{m.split(" ")[0]}'


def head(mt, n, size=None):
    """head bytes of major type mt, argument n, with `size` follow bytes (None = shortest)"""
    if size is None:
        size = 0 if n < 24 else 1 if n < 256 else 2 if n < 65536 else 4 if n < 2**32 else 8
    if size == 0:
        return bytes([mt * 32 + n])
    ai = {1: 24, 2: 25, 4: 26, 8: 27}[size]
    return bytes([mt * 32 + ai]) + n.to_bytes(size, 'big')


def generate(tier, rng):
    thorough = tier == 'thorough'
    nf = lambda ai: {24: 1, 25: 2, 26: 4, 27: 8}.get(ai, 0)
    # exhaustive over the initial byte
    for b in range(256):
        k = nf(b & 31)
        for op in OPS:
            yield f'{op} {hexs(bytes([b]))}'
            if k:
                for fb in (b'\x00' * k, b'\xff' * k, b'\x00' * (k - 1) + b'\x05', rbytes(rng, k)):
                    yield f'{op} {hexs(bytes([b]) + fb)}'
                    yield f'{op} {hexs(bytes([b]) + fb[:-1])}'
                    yield f'{op} {hexs(bytes([b]) + fb + b"abcdefgh")}'
            else:
                yield f'{op} {hexs(bytes([b]) + b"abc" * 11)}'
    yield from (f'{op} -' for op in OPS)
    # (value, head size) pairs incl. non-shortest
    vals = near([0, 24, 256, 65536, 2**32, 2**63, 2**64 - 1], 2, 0, 2**64 - 1)
    for mt in range(8):
        for v in vals:
            for size in (0, 1, 2, 4, 8):
                if size == 0 and v >= 24: continue
                if size and v >= 256**size: continue
                h = head(mt, v, size)
                content_lens = sorted(set([0, 1, max(0, min(v, 300) - 1), min(v, 300), min(v, 300) + 1]))
                for cl in content_lens:
                    for op in OPS:
                        yield f'{op} {hexs(h + bytes(rng.randrange(0x20, 0x7f) for _ in range(cl)))}'
    # strings: exact / short / long content for each length class
    lens = [0, 1, 23, 24, 255, 256, 1000] + ([65535, 65536, 70000] if thorough else [65535, 65536])
    for mt in (2, 3):
        for n in lens:
            c = bytes(rng.randrange(0x20, 0x7f) for _ in range(n))
            for size in (None, 8):
                h = head(mt, n, size)
                for op in ('cbor.dec.bytes', 'cbor.dec.text'):
                    yield f'{op} {hexs(h + c)}'
                    if n: yield f'{op} {hexs(h + c[:-1])}'
                    yield f'{op} {hexs(h + c + b"zz")}'
    # text: utf-8 validity
    for s in UTF8_GOOD:
        c = s.encode('utf-8')
        yield f'cbor.dec.text {hexs(head(3, len(c)) + c)}'
        yield f'cbor.dec.bytes {hexs(head(3, len(c)) + c)}'
    for c in UTF8_BAD:
        yield f'cbor.dec.text {hexs(head(3, len(c)) + c)}'
        yield f'cbor.dec.text {hexs(head(3, len(c)) + c + b"tail")}'
        yield f'cbor.dec.bytes {hexs(head(2, len(c)) + c)}'
    for _ in range(500 if not thorough else 20000):
        c = bytearray(rutf8(rng, 6) + b'q')
        if rng.random() < 0.5: c[rng.randrange(len(c))] = rng.getrandbits(8)
        yield f'cbor.dec.text {hexs(head(3, len(c)) + bytes(c) + rbytes(rng, rng.randrange(3)))}'
    # concatenated streams: decode at every item start of a stream
    for _ in range(300 if not thorough else 5000):
        items = []
        for _ in range(rng.randrange(1, 5)):
            mt = rng.choice([0, 2, 3, 4, 5, 0, 2])
            if mt in (2, 3):
                c = bytes(rng.randrange(0x20, 0x7f) for _ in range(rng.choice([0, 3, 23, 24, 30])))
                items.append((mt, head(mt, len(c)) + c))
            else:
                items.append((mt, head(mt, rng.getrandbits(rng.choice([3, 8, 16, 32, 64])))))
        for i in range(len(items)):
            s = b''.join(x[1] for x in items[i:])
            for op in OPS:
                yield f'{op} {hexs(s)}'
    for _ in range(3000 if not thorough else 400000):
        op = rng.choice(OPS)
        yield f'{op} {hexs(rbytes(rng, rng.randrange(1, 14)))}'
    # every single byte >= 0x80 as the only non-ASCII byte of a text string (alone, after ASCII, between ASCII): none of them is valid UTF-8
    for b_ in range(0x80, 0x100):
        for c in (bytes([b_]), b'a' + bytes([b_]), b'abc' + bytes([b_]) + b'def'):
            yield f'cbor.dec.text {hexs(head(3, len(c)) + c)}'
    for c in (b'\x80\xc3\xa9', b'\xc3\xa9\x80', b'\xc3', b'\xe6\x97', b'\xf0\x9f\x98', b'\xed\xa0\x80', b'\xc0\x80', b'\xf4\x90\x80\x80', b'\xef\xbf\xbd', b'\xef\xbb\xbfabc'):
        yield f'cbor.dec.text {hexs(head(3, len(c)) + c)}'
    # string lengths that are multiples of the usual buffer sizes (512, 4096, 32768), +-1, byte and text, alone and followed by another item
    for n_ in (511, 512, 513, 4095, 4096, 4097, 8191, 8192, 8193, 12288, 32768, 65536, 131072):
        for mt, op in ((2, 'cbor.dec.bytes'), (3, 'cbor.dec.text')):
            c = b'b' * n_
            yield f'{op} {hexs(head(mt, n_) + c)}'
            yield f'{op} {hexs(head(mt, n_) + c[:-1])}'
            yield f'{op} {hexs(head(mt, n_))}'
            yield f'cbor.dec.seq buffer {"bu" if mt == 2 else "tu"} {hexs(head(mt, n_) + c + head(0, 7))}'
            yield f'cbor.dec.seq plain {"bu" if mt == 2 else "tu"} {hexs(head(mt, n_) + c + head(0, 7))}'
    # long text whose multi-byte characters straddle the copy-buffer boundaries of the standard library (32 KiB, 512, 4096), every reader kind
    for pad in (32767, 32766, 32768, 65535, 511, 4095):
        for ch in ('\u00fc', '\u65e5', '\U0001f600'):
            c = b'a' * pad + ch.encode('utf-8') + b'tail'
            for kind in ('bytes', 'buffer', 'plain', 'one', 'limited'):
                if kind == 'one' and pad > 5000: continue
                yield f'cbor.dec.seq {kind} t {hexs(head(3, len(c)) + c)}'
    # several decode calls on one decoder, over readers with / without ReadByte, delivering one byte per Read, size-limited:
    # values, position of the first error, and bytes taken from the underlying reader (no read-ahead past the decoded items)
    LET = {0: 'u', 2: 'b', 3: 't', 4: 'a', 5: 'm'}
    for _ in range(400 if not thorough else 8000):
        items = []
        for _ in range(rng.randrange(1, 6)):
            mt = rng.choice([0, 2, 3, 4, 5])
            if mt in (2, 3):
                c = bytes(rng.randrange(0x20, 0x7f) for _ in range(rng.choice([0, 1, 3, 23, 24, 30, 300, 5000])))
                if rng.random() < 0.5:      # multi-byte characters (2, 3, 4 bytes) anywhere in the string: a reader may deliver them in pieces
                    c = ''.join(rng.choice(['a', 'z', '\u00fc', '\u00e9', '\u65e5', '\ufffd', '\ufeff', '\U0001f600', '\u212a']) for _ in range(rng.choice([1, 2, 5, 24, 200]))).encode('utf-8')
                items.append((mt, head(mt, len(c)) + c))
            else:
                items.append((mt, head(mt, rng.getrandbits(rng.choice([3, 8, 16, 32, 64])))))
        stream = b''.join(x[1] for x in items)
        script = ''.join(LET[x[0]] for x in items)
        tail = rng.choice([b'', b'PAYLOAD', rbytes(rng, 5000)])
        for kind in ('bytes', 'buffer', 'plain', 'one', 'limited'):
            yield f'cbor.dec.seq {kind} {script} {hexs(stream + tail)}'
            k = rng.randrange(len(script) + 1)
            yield f'cbor.dec.seq {kind} {script[:k] + rng.choice("ubtam") + script[k:]} {hexs(stream + tail)}'      # one extra / mistyped call
            yield f'cbor.dec.seq {kind} {script}{rng.choice("ubtam")} {hexs(stream)}'                                 # a call at end of input
            if stream: yield f'cbor.dec.seq {kind} {script} {hexs(stream[:rng.randrange(len(stream))])}'             # truncated
    # strings whose declared length exceeds what is left, through every reader kind (a fast path must not return a short string)
    for kind in ('bytes', 'buffer', 'plain', 'one', 'limited'):
        for mt, c in ((2, 'b'), (3, 't')):
            for declared, present in ((5, 3), (1, 0), (24, 23), (256, 0), (256, 255), (65536, 10), (2**32, 4), (2**63 - 1, 2)):
                yield f'cbor.dec.seq {kind} {c} {hexs(head(mt, declared) + b"a" * present)}'
                yield f'cbor.dec.seq {kind} u{c}u {hexs(head(0, 7) + head(mt, declared) + b"a" * present)}'
    # tagged items (major type 6) are not part of the supported subset: every tag, incl. self-described CBOR 55799, is a wrong type
    for tag in (0, 1, 2, 23, 24, 32, 55798, 55799, 55800, 2**32, 2**64 - 1):
        for size in (None, 2, 4, 8):
            if size is not None and tag >= 256 ** size: continue
            th = head(6, tag, size)
            for inner, c in ((head(0, 5), 'u'), (head(2, 2) + b'hi', 'b'), (head(3, 2) + b'hi', 't'), (head(4, 1) + head(0, 1), 'a'), (head(5, 0), 'm')):
                for kind in ('bytes', 'buffer'):
                    yield f'cbor.dec.seq {kind} {c} {hexs(th + inner)}'
                yield f'{ {"u": "cbor.dec.uint", "b": "cbor.dec.bytes", "t": "cbor.dec.text", "a": "cbor.dec.arr", "m": "cbor.dec.map"}[c]} {hexs(th + inner)}'
    for kind in ('bytes', 'buffer', 'plain', 'one', 'limited'):
        for c in 'ubtam':
            yield f'cbor.dec.seq {kind} {c} -'
            yield f'cbor.dec.seq {kind} {c}{c} {hexs(head(0, 5))}'
    yield from grow_family(rng)


def grow_family(rng):
    """ONE decoder whose reader receives more data after a call has failed (a buffer being appended to, a connection after a timeout):
    every way a call can fail x every head width and item kind decoded next. The failed call must leave nothing behind in the decoder:
    the items that arrive afterwards decode to their RFC 8949 values and consume exactly their bytes (model: every phase is a fresh decode)."""
    NF = {24: 1, 25: 2, 26: 4, 27: 8}
    LET = {0: 'u', 2: 'b', 3: 't', 4: 'a', 5: 'm'}
    fails = []                                         # (script, bytes) whose last call fails
    # (1) the input ends inside the argument of a head: every width, every cut position, argument bytes non-zero / zero / mixed
    for mt in (0, 2, 3, 4, 5):
        for ai, k in NF.items():
            for cut in range(k):
                for arg in (b'\xff' * k, bytes(range(1, k + 1)), b'\x00' * k, b'\x80' + b'\x00' * (k - 1), b'\x00' * (k - 1) + b'\x01'):
                    if mt != 0 and arg not in (b'\xff' * k, bytes(range(1, k + 1))): continue
                    fails.append((LET[mt], bytes([mt * 32 + ai]) + arg[:cut]))
    # (2) the head is complete but the call fails for another reason: wrong type (argument of every width read first), reserved /
    # indefinite additional information, a length of 2^63 or more, content shorter than declared, invalid UTF-8, nothing there at all
    for ai, k in NF.items():
        fails.append(('u', bytes([2 * 32 + ai]) + b'\xff' * k))
        fails.append(('b', bytes([0 * 32 + ai]) + bytes(range(1, k + 1))))
        fails.append(('t', bytes([4 * 32 + ai]) + b'\xff' * k + b'zz'))
        fails.append(('b', bytes([2 * 32 + ai]) + b'\x00' * (k - 1) + b'\x09' + b'short'))
        fails.append(('t', bytes([3 * 32 + ai]) + (200 if k == 1 else 1000).to_bytes(k, 'big') + b'short'))
    for ai in (28, 29, 30, 31):
        fails.append(('u', bytes([ai]) + b'\xff' * 8))
        fails.append(('b', bytes([2 * 32 + ai])))
    fails += [('b', head(2, 2**63, 8) + b'abc'), ('t', head(3, 2**64 - 1, 8)), ('t', head(3, 2) + b'\xc3\x28'), ('t', head(3, 1, 4) + b'\xff'),
              ('u', b''), ('b', b''), ('uu', head(0, 3)), ('ub', head(0, 2**32 + 5) + b'\x5a\x01\x02'), ('at', head(4, 70000) + b'\x7b\xaa\xbb\xcc\xdd\xee')]
    fails = list(dict.fromkeys(fails))
    # what arrives afterwards: one item per head width (0, 1, 2, 4, 8 follow bytes; shortest and non-shortest), every kind, and a run of them
    nexts = []
    for size, v in ((0, 5), (1, 5), (1, 0x20), (2, 0x102), (2, 3), (4, 0x01020304), (4, 7), (8, 0x0102030405060708), (8, 9)):
        nexts.append(('u', head(0, v, size)))
        nexts.append(('a' if size % 2 else 'm', head(4 if size % 2 else 5, v, size)))
    for size in (0, 1, 2, 4, 8):
        nexts.append(('b', head(2, 3, size) + b'abc'))
        nexts.append(('t', head(3, 4, size) + b'\xc3\xa9ok'))
    nexts.append(('ubtu', head(0, 5, 1) + head(2, 2, 2) + b'hi' + head(3, 2, 1) + b'yo' + head(0, 300)))
    nexts.append(('b', head(2, 30, 1) + b'q' * 30 + b'rest'))
    kinds = ('buffer', 'plain', 'one')
    j = 0
    for fs, fb in fails:
        for ns, nb in nexts:
            # every (failure, next item) pair through one reader kind in turn, the narrow-after-wide pairs through all of them
            wide = len(fb) > 1 and len(nb) < 4
            for kind in (kinds if wide else (kinds[j % 3],)):
                yield f'cbor.dec.grow {kind} {fs} {hexs(fb)} {ns} {hexs(nb)}'
            j += 1
    # longer histories: good items before the failure, two failures of different widths in a row, a failure between two good phases
    pre = ('ub', head(0, 1000) + head(2, 2) + b'ok')
    for i, (fs, fb) in enumerate(fails):
        ns, nb = nexts[i % len(nexts)]
        fs2, fb2 = fails[(i * 7 + 3) % len(fails)]
        kind = kinds[i % 3]
        yield f'cbor.dec.grow {kind} {pre[0] + fs} {hexs(pre[1] + fb)} {ns} {hexs(nb)}'
        yield f'cbor.dec.grow {kind} {fs} {hexs(fb)} {fs2} {hexs(fb2)} {ns} {hexs(nb)}'
        yield f'cbor.dec.grow {kind} {ns} {hexs(nb)} {fs} {hexs(fb)} {ns} {hexs(nb)} u {hexs(head(0, 24))}'



def run(ctx):
    """decoder ops (generate), then the round trip of the statement's first clause: values through the real ENCODER (compared with the
    model's encoder), and what the real encoder produced through the real decoder (compared with the model's decoder)"""
    rng = ctx.rng
    ctx.both(list(generate(ctx.tier, rng)))
    vals = near([0, 24, 256, 65536, 2**31, 2**32, 2**53, 2**62, 2**63, 2**64 - 1], 2, 0, 2**64 - 1)
    enc = []
    for v in vals:
        enc.append((f'cbor.enc 1 u{v}', 'cbor.dec.uint'))
        if v <= 2**31: enc.append((f'cbor.enc 1 a{v}', 'cbor.dec.arr'))
    for n_ in (0, 1, 23, 24, 255, 256, 65535, 65536):
        enc.append((f'cbor.enc 1 b{hexs(rbytes(rng, n_))}', 'cbor.dec.bytes'))
        enc.append((f'cbor.enc 1 t{hexs(b"a" * n_)}', 'cbor.dec.text'))
    enc.append(('cbor.enc 1 m0', 'cbor.dec.map'))
    enc.append(('cbor.enc 1 m1 k1 u1 v1 u2', 'cbor.dec.map'))
    for n_ in (23, 24, 31, 32):
        enc.append((f'cbor.enc 1 m{n_} ' + ' '.join(f'k1 u{i} v1 u{i}' for i in range(n_)), 'cbor.dec.map'))
    g, m = ctx.both([e for e, d in enc])
    back = [f'{d} {x.split(" ")[1]}' for (e, d), x in zip(enc, g) if x and x.startswith('ok ')]
    # the expected value is the model's decode of the MODEL's encoding (proved equal to the input, C12.roundtrip_*); a Go encoder that
    # emitted something else has already disagreed above, and a Go decoder that reads it back differently disagrees here
    ctx.both(back)
    # sequences on ONE encoder in which some calls are refused (invalid UTF-8, duplicate keys): what the stream holds afterwards is the
    # accepted items only, and decodes back to them (cbor.dec.seq over the Go bytes)
    bad = ['tff6162', 'tc328', 'm2 k1 t61 v1 u1 k1 t61 v1 u2', 'm3 k1 u1 v1 u1 k1 u2 v1 u2 k1 u1 v1 u3']
    good = [('u7', 'u'), ('t6f6b', 't'), ('baabbcc', 'b'), ('a2 u1 u2', 'auu'), ('m0', 'm'), ('m1 k1 u1 v1 u2', 'muu'), ('i-5', None), ('u18446744073709551615', 'u')]
    cont = []
    for _ in range(120 if ctx.tier != 'thorough' else 2000):
        seq, script = [], ''
        for _ in range(rng.randrange(2, 6)):
            if rng.random() < 0.35:
                seq.append(rng.choice(bad))
            else:
                tk, sc = rng.choice(good)
                seq.append(tk); script = None if (sc is None or script is None) else script + sc
        # number of top-level calls: count tokens that start a call outside map bodies
        top = len(seq) + sum(t.count(' u') for t in seq if t.startswith('a2'))      # 'a2 u1 u2' = three top-level calls
        cont.append((f'cbor.enc.cont {top} ' + ' '.join(seq), script))
    g2, m2 = ctx.both([c for c, sc in cont])
    big_round_trip(ctx)
    ctx.both([f'cbor.dec.seq bytes {sc} {x.split(" ")[1]}' for (c, sc), x in zip(cont, g2) if sc and x and x.startswith('ok ') and x.split(' ')[1] != '-'])


def big_round_trip(ctx):
    """the statement's first clause for LONG strings ("for every value in range": nothing in the format or the encoder bounds a string,
    the bundle reader decodes every response body with DecodeByteString): the real encoder's output for strings of 2^k + 1 bytes
    (k = 17 .. 25), 2^k - 1 and 2^k for k = 20, 24, and some sizes in between goes through the real decoder (also behind a non-shortest
    8-byte head), which must return the value and consume exactly the item (theorems C12.roundtrip_*, decodeBytes_complete; real code
    only, the values are too long for op lines)"""
    from concurrent.futures import ThreadPoolExecutor
    sizes = sorted(set([2**k + 1 for k in range(17, 26)] + near([2**20, 2**24], 1, 0, 2**40) + [10**7, 2**24 + 4096, 20 * 2**20]))
    if ctx.tier == 'thorough':
        sizes += near([2**k for k in range(17, 26)], 1, 0, 2**40) + [2**25 + 2**24 + 7, 2**26 + 1]
        sizes = sorted(set(sizes))
    kinds = ('bytes', 'buffer', 'plain')
    ops = [f'cbor.rt.big {c} {n} {kinds[(i + j) % 3]}' for i, n in enumerate(sizes) for j, c in enumerate('bt')]
    nchunk = 6          # (a batch of fewer than 200 ops runs in one harness process: split by hand, large and small sizes mixed)
    chunks = [ops[k::nchunk] for k in range(nchunk)]
    goenv = ctx.goenv      # ~1 s per 32 MiB on an idle machine; a loaded machine must not turn the watchdog into a verdict
    ctx.goenv = dict(goenv, VERIF_OP_TIMEOUT_MS=str(max(SLOW_OPS['cbor.rt.big'], int(goenv.get('VERIF_OP_TIMEOUT_MS', '4000')))))
    try:
        with ThreadPoolExecutor(nchunk) as tp:
            results = list(tp.map(ctx.go, chunks))
    finally:
        ctx.goenv = goenv
    for ch, rs in zip(chunks, results):
        for op, r in zip(ch, rs):
            ctx.confirm_ms[op] = 600000
            ctx.records.append((op, r or 'crash', 'same'))
