from common import *
import itertools
from c12 import head

THEOREMS = ['C13.deterministic_iff', 'C13.truncated_rejected', 'C13.encoder_output_accepted', 'C13.detRec_pos (termination)']
TRUSTED = ['Go stdlib: bytes.Compare, encoding/binary.BigEndian (modelled, compared by the correspondence)']
ASSUMPTIONS = ['a panic of cbor.Deterministic counts as "not accepted" (the repository\'s own tests require panics on truncated input); only accept / not-accept / hang is compared']
RULE = ('cbor.det: all byte strings up to length 3 (thorough) / 2 (quick) over all 256 values, all strings up to length 6 (thorough) / 5 (quick) over a 16-symbol grammar alphabet, '
        'generated nested deterministic items, and mutants: one head lengthened, key pair swapped / duplicated, one length or count corrupted incl. 2^63, 2^64-1, truncation at every offset; '
        'non-trivial = model verdict computed past the first byte (length >= 2)')
EXHAUSTIVE = {'quick': 'all byte strings of length <= 2 over 256 values; length <= 5 over the 16-symbol alphabet 00 01 17 18 19 1b 20 40 41 60 80 81 82 a0 a1 ff',
              'thorough': 'all byte strings of length <= 3 over 256 values; length <= 6 over the 16-symbol alphabet'}
ALPHA = [0x00, 0x01, 0x17, 0x18, 0x19, 0x1b, 0x20, 0x40, 0x41, 0x60, 0x80, 0x81, 0x82, 0xa0, 0xa1, 0xff]

agree = Base.agree; signature = Base.signature; explain = Base.explain


def nontrivial(op, m):
    return op.startswith('cbor.encdet') or len(op.split(' ')[1]) >= 4


def classify(op, m):
    if op.startswith('cbor.encdet'):
        return 'encdet:' + m.split(' ')[0]
    h = op.split(' ')[1]
    mt = (int(h[:2], 16) >> 5) if h != '-' else -1
    return f'det:mt{mt}:{m}'


def gen_item(rng, depth=0):
    k = rng.randrange(5 if depth < 3 else 3)
    if k == 0: return head(0, rng.choice([0, 5, 23, 24, 255, 256, 65535, 65536, 2**32 - 1, 2**32, rng.getrandbits(64)]))
    if k == 1:
        n = rng.choice([0, 1, 5, 23, 24, 40]); return head(2, n) + rbytes(rng, n)
    if k == 2:
        n = rng.choice([0, 1, 5, 23, 24, 30]); return head(3, n) + rbytes(rng, n)
    if k == 3:
        n = rng.randrange(4)
        return head(4, n) + b''.join(gen_item(rng, depth + 1) for _ in range(n))
    n = rng.randrange(4)
    keys = set()
    while len(keys) < n: keys.add(gen_item(rng, 3))
    keys = sorted(keys)
    return head(5, n) + b''.join(k + gen_item(rng, depth + 1) for k in keys)


def mutate(rng, s):
    s = bytearray(s)
    k = rng.randrange(7)
    if not s: return bytes(s)
    i = rng.randrange(len(s))
    if k == 0: del s[i:]                         # truncate
    elif k == 1: s[i] = rng.getrandbits(8)       # byte edit
    elif k == 2: s[i] ^= 1 << rng.randrange(8)   # bit flip
    elif k == 3:                                 # lengthen a head: ai -> next class
        b = s[i]; ai = b & 31
        if ai < 24: s[i:i + 1] = bytes([(b & 0xe0) | 24, ai])
        elif ai == 24 and i + 1 < len(s): s[i:i + 2] = bytes([(b & 0xe0) | 25, 0, s[i + 1]])
    elif k == 4:                                 # huge length/count
        b = s[i]
        s[i:i + 1] = bytes([(b & 0xe0) | 27]) + rng.choice([2**63, 2**63 - 1, 2**64 - 1, 2**62, 2**32]).to_bytes(8, 'big')
    elif k == 5: s[i:i] = rbytes(rng, 1)          # insert
    else: del s[i]                               # delete
    return bytes(s)


def generate(tier, rng):
    # every structured / truncated input also as a slice with spare capacity behind it (sampled for the bulk, all of the short ones)
    n = 0
    for op in generate0(tier, rng):
        yield op
        if op.startswith('cbor.det '):
            n += 1
            h = op[len('cbor.det '):]
            if n % 7 == 0 or (8 <= len(h) <= 80):
                yield 'cbor.det.cap ' + h


def generate0(tier, rng):
    thorough = tier == 'thorough'
    yield 'cbor.det -'
    # everything the ENCODER emits must be accepted: values around every head-size threshold (incl. 2^31: a signed/unsigned slip),
    # as integers, lengths, counts, map keys; maps with keys of mixed kinds and lengths
    import c11
    edge = sorted(set(v for b in (24, 2**8, 2**16, 2**31, 2**32, 2**53, 2**63) for v in range(b - 2, b + 3)) | {0, 1, 23, 2**64 - 1})
    for v in edge:
        if v < 2**64: yield f'cbor.encdet 1 u{v}'
        if v <= 2**63: yield f'cbor.encdet 1 i{-v}'
        if v <= 2**62: yield f'cbor.encdet 1 a{v}' if v == 0 else f'cbor.encdet 2 u{v} i{-v}'
        if v < 2**64: yield 'cbor.encdet 1 m2 ' + ' '.join(c11.entry(f'u{v}', ['u1']) + c11.entry('t' + hexs(b'k'), [f'u{v}']))
    for n_ in (0, 23, 24, 255, 256, 65535, 65536):
        yield 'cbor.encdet 1 b' + hexs(rbytes(rng, n_))
        yield 'cbor.encdet 1 t' + hexs(b'a' * n_)
    for _ in range(300 if not thorough else 6000):
        toks = c11.map_script(rng, rng.randrange(0, 5))
        yield 'cbor.encdet 1 ' + ' '.join(toks)
    # maps handed to the encoder with a key repeated, adjacent and non-adjacent in the caller's order, in every position: the encoder must
    # refuse (or whatever it emits must still pass the check)
    ka, kb, kc = 't' + hexs(b'a'), 't' + hexs(b'b'), 'u7'
    for order in ([ka, kb, ka], [ka, ka, kb], [kb, ka, ka], [ka, kb, kc, ka], [kb, ka, kc, ka], [kc, ka, kb, kc], [ka, kb, ka, kb], [ka, ka], [ka, kb, kc, kb, ka]):
        yield 'cbor.encdet 1 m%d ' % len(order) + ' '.join(sum((c11.entry(k, [f'u{i}']) for i, k in enumerate(order)), []))
    for n in range(1, 5):
        for _ in range(20 if not thorough else 300):
            yield 'cbor.encdet 1 ' + ' '.join(c11.map_script(rng, n, 0, dup=True))
    # one valid deterministic item for EVERY initial byte of the subset (each major type x each direct count 0..23, and 24..33 with a
    # one-byte head): uint n, byte / text string of n bytes, array of n items, map of n pairs; bare, as array element, as map value
    def uhead(mt, n): return bytes([mt * 32 + n]) if n < 24 else bytes([mt * 32 + 24, n])
    for n in range(0, 34):
        forms = [uhead(0, n), uhead(2, n) + b'\x01' * n, uhead(3, n) + b'a' * n, uhead(4, n) + b'\x00' * n, uhead(5, n) + b''.join(uhead(0, i) + b'\x00' for i in range(n))]
        for it in forms:
            yield 'cbor.det ' + it.hex()
            yield 'cbor.det ' + (b'\x81' + it).hex()
            yield 'cbor.det ' + (b'\xa1\x00' + it).hex()
            yield 'cbor.det ' + (it + b'\x00').hex()
    # nesting depth: maps inside map KEYS, inside map values, arrays inside arrays (the answer must arrive, and quickly)
    for d in (2, 8, 16, 24, 28, 32, 48, 64, 200):
        yield 'cbor.det ' + (b'\xa1' * d + b'\x00' * (d + 1)).hex()            # key position
        yield 'cbor.det ' + (b'\xa1' * d + b'\x00' * d + b'\x18').hex()        # the same, ending in a truncated head
        yield 'cbor.det ' + (b'\xa1\x00' * d + b'\x00').hex()                  # value position
        yield 'cbor.det ' + (b'\x81' * d + b'\x00').hex()
        yield 'cbor.det ' + (b'\xa2' * d + b'\x00\x00' * 0 + b'\x00' * 3).hex()
    for L in range(1, 4 if thorough else 3):
        for t in itertools.product(range(256), repeat=L):
            yield 'cbor.det ' + bytes(t).hex()
    for L in range(1, 7 if thorough else 6):
        for t in itertools.product(ALPHA, repeat=L):
            yield 'cbor.det ' + bytes(t).hex()
    n = 4000 if not thorough else 150000
    for _ in range(n):
        s = b''.join(gen_item(rng) for _ in range(rng.choice([1, 1, 1, 2, 3])))
        yield 'cbor.det ' + hexs(s)
        for _ in range(3):
            yield 'cbor.det ' + hexs(mutate(rng, s))
    # maps: swapped / duplicated keys
    for _ in range(500 if not thorough else 20000):
        keys = set()
        while len(keys) < 3: keys.add(gen_item(rng, 3))
        keys = sorted(keys)
        vals = [gen_item(rng, 2) for _ in keys]
        for perm in itertools.permutations(range(3)):
            yield 'cbor.det ' + hexs(head(5, 3) + b''.join(keys[i] + vals[i] for i in perm))
        yield 'cbor.det ' + hexs(head(5, 3) + keys[0] + vals[0] + keys[0] + vals[1] + keys[2] + vals[2])
        yield 'cbor.det ' + hexs(head(5, 2) + keys[0] + vals[0] + keys[1] + vals[1] + keys[2] + vals[2])
        yield 'cbor.det ' + hexs(head(5, 4) + keys[0] + vals[0] + keys[1] + vals[1] + keys[2] + vals[2])
    # truncation at every offset of some items
    for _ in range(40 if not thorough else 1000):
        s = gen_item(rng)
        for k in range(len(s)):
            yield 'cbor.det ' + hexs(s[:k])
