from common import *
import micelib

THEOREMS = ['C14.encode_eq_spec', 'C14.decode_encode', 'C14.digest_header_roundtrip', 'C14.base64_roundtrip']
TRUSTED = ['SHA-256 is a parameter H of the theorems (only |H x| = 32 is used); the driver instantiates it with a Lean SHA-256 that is compared with crypto/sha256 on every run (sha256 ops)',
           'Go stdlib: encoding/base64, encoding/binary, bytes.Buffer (modelled, compared)']
ASSUMPTIONS = ['record size >= 1 (the property\'s quantifier; recordSize <= 0 divides by zero / loops in Go)']
RULE = ('drafts 02/03 x record sizes {1..8 exhaustively with every payload length 0..4rs+1; 16,100,255,256,1000,4096,16383,16384 at k*rs-1,k*rs,k*rs+1} x random payloads; '
        'mice.dec.src: honest streams behind every prefix length mod rs+32 of a partly consumed reader x reader kinds (Size()/ReadByte/plain/one-byte/limited/multi/file); empty and boundary bodies through the bundle-signature consumer; ops: mice.enc (stream bytes + digest string), mice.all on the python-reference honest stream (independent third implementation), base64 and sha256 cross-checks; distinct = distinct op lines')
EXHAUSTIVE = {'quick': 'record sizes 1..8 x payload lengths 0..4rs+1 x both drafts', 'thorough': 'record sizes 1..8 x payload lengths 0..4rs+1 x both drafts'}

agree = Base.agree; nontrivial = Base.nontrivial; signature = Base.signature; explain = Base.explain


def classify(op, m):
    o = op.split(' ')[0]
    if o.startswith('c18.') or o.startswith('race-'):
        return o + ':' + m.split(' ')[0]
    if o.startswith('sxg.'):
        return o + ':' + op.split(' ')[1] + ':' + m.split(' ')[0]
    if o == 'mice.dec.src':
        return o + ':' + op.split(' ')[1].split(':')[0] + ':' + m.split(' ')[-1]
    if o.startswith('mice.enc'):
        return o + ':' + op.split(' ')[1] + ':' + m.split(' ')[0]
    if o.startswith('mice'):
        return o + ':' + op.split(' ')[1] + ':' + m.split(' ')[-1]
    return o + ':' + m.split(' ')[0]


def generate(tier, rng):
    # every sized-read schedule is also run with the remainder drained by io.Copy (the usual consumer; uses the source's WriteTo if any)
    n = 0
    for op in generate0(tier, rng):
        yield op
        if op.startswith('mice.dec '):
            n += 1
            if n % 3 == 0 or len(op) < 400:
                yield 'mice.dec.copy ' + op[len('mice.dec '):]
            # and with further Reads after the decoder has reported its end or an error (nothing unauthenticated, nothing twice)
            if n % 4 == 0 or len(op) < 300:
                yield f'mice.dec.more {"copy" if n % 2 else "read"} ' + op[len('mice.dec '):] + ' 3'


def generate0(tier, rng):
    thorough = tier == 'thorough'
    for d in ('02', '03'):
        for rs in range(1, 9):
            for n in range(0, 4 * rs + 2):
                p = rbytes(rng, n)
                yield f'mice.enc {d} {rs} {hexs(p)}'
                s, h = micelib.encode(p, rs, d)
                yield f'mice.all {d} 16384 {hexs(h)} {hexs(s)}'
                yield f'mice.dec {d} {rs} {hexs(h)} {hexs(s)} {",".join(str(rng.choice([0, 1, rs, rs + 1, 3])) for _ in range(rng.randrange(1, 6)))}'
        for rs in (2**32 - 1, 2**32, 2**32 + 5, 2**40, 2**62):      # record sizes that need more than 32 bits (one record, small payload)
            for n_ in (0, 1, 40):
                yield f'mice.enc {d} {rs} {hexs(rbytes(rng, n_))}'
        big = [16, 100, 255, 256, 1000, 4096, 16383, 16384] + ([16385, 40000] if thorough else [])
        for rs in big:
            for k in (0, 1, 2, 3):
                for dl in (-1, 0, 1):
                    n = k * rs + dl
                    if n < 0: continue
                    p = rbytes(rng, n)
                    yield f'mice.enc {d} {rs} {hexs(p)}'
                    s, h = micelib.encode(p, rs, d)
                    yield f'mice.all {d} {max(rs, 16384)} {hexs(h)} {hexs(s)}'
                    yield f'mice.all {d} {rs - 1} {hexs(h)} {hexs(s)}'
                    for mx in (2**63 - 1, 2**63, 2**64 - 1, 2**32, rs):      # "no limit" spelled as a huge unsigned value
                        yield f'mice.all {d} {mx} {hexs(h)} {hexs(s)}'
        for _ in range(200 if not thorough else 5000):
            rs = rng.choice([1, 2, 3, 7, 16, 33, 100, 1000])
            p = rbytes(rng, rng.randrange(0, 5 * rs + 3))
            yield f'mice.enc {d} {rs} {hexs(p)}'
            s, h = micelib.encode(p, rs, d)
            yield f'mice.all {d} 16384 {hexs(h)} {hexs(s)}'
    for n in list(range(0, 70)) + [100, 255, 256, 1000]:
        b = rbytes(rng, n)
        yield f'sha256 {hexs(b)}'
        for url in '01':
            for pad in '01':
                yield f'b64.enc {url} {pad} {hexs(b[:n % 40])}'
    for _ in range(2000 if not thorough else 50000):
        # base64 decoding: valid strings, CR/LF inside, bad padding, bad characters, trailing bits
        import base64
        raw = rbytes(rng, rng.randrange(0, 12))
        s = bytearray(base64.b64encode(raw))
        url, pad = rng.choice('01'), rng.choice('01')
        if url == '1': s = bytearray(bytes(s).replace(b'+', b'-').replace(b'/', b'_'))
        if pad == '0' and rng.random() < 0.8: s = bytearray(bytes(s).rstrip(b'='))
        m = rng.randrange(6)
        if m == 0 and s: s[rng.randrange(len(s))] = rng.choice(b'\r\n=+-_/ A*')
        if m == 1: s.insert(rng.randrange(len(s) + 1), rng.choice(b'\r\n'))
        if m == 2 and s: del s[rng.randrange(len(s))]
        if m == 3: s += rng.choice([b'=', b'==', b'A', b'\n', b'=\n=', b'A='])
        yield f'b64.dec {url} {pad} {hexs(bytes(s))}'


def run(ctx):
    """the encoder / decoder ops of generate(), then the two library call sites above the encoding: Exchange.MiEncodePayload (record
    size and layout as requested, for payloads shorter than, equal to and longer than one record) and the verifier's decode of what it
    produced (incl. the empty payload of each draft)"""
    import sxglib
    rng = ctx.rng
    ctx.both(list(generate(ctx.tier, rng)))
    ops = []
    for ver in sxglib.VERS:
        for rs in (1, 16, 100, 4096, 16384):
            for plen in sorted(set([0, 1, 41, max(rs - 1, 0), rs, rs + 1, 2 * rs, 3 * rs + 5])):
                if plen > 20000: continue
                e = sxglib.ex(ver, b'https://example.com/', b'GET', [], 200, [(b'Content-Type', [b'text/html'])], b'', rbytes(rng, plen))
                ops.append(f'sxg.mi {sxglib.exs(e)} {rs}')
    ctx.both(ops)
    w = sxglib.setup(ctx)
    k = [k for k in w.keys if k['curve'] == 'p256' and k['hosts'].startswith(b'example.com')][0]
    cu, vu, d0 = b'https://example.com/cert.msg', b'https://example.com/v', 1517418800
    sops = []
    for ver in sxglib.VERS:
        for rs, plen in ((16, 0), (16, 1), (16, 16), (16, 17), (16, 40), (4096, 0), (4096, 10), (1, 3)):
            e = sxglib.ex(ver, b'https://example.com/', b'GET', [], 200, [(b'Content-Type', [b'text/html'])], b'', rbytes(rng, plen))
            sops.append(f'sxg.sign {sxglib.exs(e)} {rs} {k["cert"]} {k["key"]} {hexs(cu)} {hexs(vu)} {d0} {d0 + 3600}')
    items = []
    for r in ctx.go(sops):
        se = sxglib.parse_ex(r) if r else None
        if se: items.append((se, (d0 + 10, 0), {cu: k['chain']}))
    if len(items) < len(sops):
        ctx.infra.append(f'{len(sops) - len(items)} exchanges could not be signed')
    sxglib.verify_stage(ctx, items)
    # many Encode calls at once on unrelated goroutines (multi-record payloads: different separator octets are in flight at the same
    # time): every output equals the sequential one, and the race detector stays silent
    cops = [f'c18.conc 8 40 {rng.randrange(10**6)} mice {d} {rs} {hexs(rbytes(rng, n))}' for d in ('02', '03') for rs, n in ((16, 100), (7, 50), (4096, 9000))]
    res, race = ctx.go_race(cops)
    for op, r in zip(cops, res):
        ctx.records.append((op, (r or 'crash').split(' ')[0], 'same'))
    if race:
        ctx.records.append(('race-detector report on concurrent MI encoding: ' + race[:400].replace('\n', ' | '), 'DATA RACE', 'no race'))
    # the consumer of the decoder in go/bundle/signature: Exchange.AddPayloadIntegrity (-> Encode) then Verifier.VerifyExchange
    # (-> NewDecoder) must hand back the body -- the EMPTY body of each bundle version (draft 03: empty stream, no record size field)
    # at several record sizes, one byte, and bodies one short of / equal to / one past one and two records
    import bundlelib, c06
    bops = []
    for v in ('b1', 'b2'):
        for rs, blen in ((16, 0), (1, 0), (4096, 0), (16384, 0), (16, 1), (16, 15), (16, 16), (16, 17), (16, 32), (16, 33), (1, 1), (1, 2), (4096, 4095), (4096, 4096), (4096, 4097), (4096, 8192)):
            bb = bundlelib.bundle(v, b'https://example.com/', None, None, [bundlelib.exch(b'https://example.com/', 200, [(b'Content-Type', [b'text/plain'])], rbytes(rng, blen))])
            bops.append(f'bsig.sign {bb} {rs} {k["cert"]}:{hexs(b"ocsp")}:nil {k["key"]} {hexs(b"https://example.com/validity")} {d0} 3600')
        # an empty body next to a non-empty one in the same bundle (a redirect / 204 among ordinary files)
        bb = bundlelib.bundle(v, b'https://example.com/', None, None, [bundlelib.exch(b'https://example.com/', 200, [(b'Content-Type', [b'text/plain'])], rbytes(rng, 40)),
                                                                       bundlelib.exch(b'https://example.com/empty', 204, [(b'Content-Type', [b'text/plain'])], b''),
                                                                       bundlelib.exch(b'https://example.com/moved', 301, [(b'Location', [b'https://example.com/'])], b'')])
        bops.append(f'bsig.sign {bb} 16 {k["cert"]}:{hexs(b"ocsp")}:nil {k["key"]} {hexs(b"https://example.com/validity")} {d0} 3600')
    bsigned = [r[3:] for r in ctx.go(bops) if r and r.startswith('ok ')]
    if len(bsigned) < len(bops):
        ctx.infra.append(f'{len(bops) - len(bsigned)} bundles could not be signed')
    c06.verify_stage(ctx, [(b, (d0 + 10, 0)) for b in bsigned])
    # the reader handed to NewDecoder is an input too: kinds with / without Size() and ReadByte, streams that start behind an already
    # consumed prefix of their reader (every prefix length modulo the unit size), refused streams (nothing but the size field consumed)
    ctx.both(list(micelib.src_positions(rng)) + list(micelib.src_refusals(rng)))
