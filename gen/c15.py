from common import *
import micelib

THEOREMS = ['C15.decodeAll_sound', 'C15.digest_unique', 'C15.recordsize_refused', 'C15.read_refines_loop']
TRUSTED = ['SHA-256 is a parameter H (only |H x| = 32 assumed; conclusions are "... or an explicit SHA-256 collision")',
           'Go stdlib: io.ReadFull, encoding/binary.Read, encoding/base64, bytes.Reader (modelled, compared)']
ASSUMPTIONS = ['the stream is an in-memory reader: Read errors other than end of input do not occur',
               'callers pass maxRecordSize <= 2^63 (16384 in this repository): recordSize+32 does not wrap']
RULE = ('honest streams for (payload, rs, draft) x every single-bit flip (small streams) / sampled flips x every truncation length x appended suffixes x record swaps x record-size field edits '
        'x arbitrary streams against arbitrary digests x random Read-size sequences x source reader kinds (mice.dec.src: refused streams with data behind the size field, consumption measured at the caller\'s reader) x payloads of 2^k MiB + 1 and 33 MiB through Exchange.Verify; compared: bytes returned per Read, concatenated output, final status class (eof / ErrValidationFailure / other); '
        'non-trivial = stream is not the unmodified honest stream')
EXHAUSTIVE = {}

agree = Base.agree; signature = Base.signature; explain = Base.explain


def classify(op, m):
    if not op.startswith('mice.'):
        return op.split(' ')[0] + ':' + m.split(' ')[0]
    t = m.split(' ')
    return op.split(' ')[0] + ':' + t[-1] + (':released' if t[0] not in ('-', 'nderr') else '')


def nontrivial(op, m):
    return True


def sizes(rng, rs):
    return ','.join(str(rng.choice([0, 1, 2, rs, rs + 1, rs - 1 if rs > 1 else 1, 31, 32, 33, 1000])) for _ in range(rng.randrange(0, 8))) or '-'


def generate(tier, rng):
    # every sized-read schedule is also run with the remainder drained by io.Copy (the usual consumer; uses the source's WriteTo if any)
    n = 0
    for op in generate0(tier, rng):
        yield op
        if op.startswith('mice.dec '):
            n += 1
            if n % 3 == 0 or len(op) < 400:
                yield 'mice.dec.copy ' + op[len('mice.dec '):]
            # and with further Reads after the decoder has reported its end or an error (nothing unauthenticated, nothing twice)
            if n % 4 == 0 or len(op) < 300:
                yield f'mice.dec.more {"copy" if n % 2 else "read"} ' + op[len('mice.dec '):] + ' 3'


def generate0(tier, rng):
    thorough = tier == 'thorough'
    cases = []
    for d in ('02', '03'):
        for rs in (1, 2, 3, 5, 16):
            for n in sorted(set([0, 1, rs - 1, rs, rs + 1, 2 * rs, 2 * rs + 1, 3 * rs])):
                if n < 0: continue
                cases.append((d, rs, rbytes(rng, n)))
    for d, rs, p in cases:
        s, h = micelib.encode(p, rs, d)
        hh = hexs(h)
        yield f'mice.dec {d} 16384 {hh} {hexs(s)} {sizes(rng, rs)}'
        # every truncation
        for k in range(len(s)):
            yield f'mice.dec {d} 16384 {hh} {hexs(s[:k])} {sizes(rng, rs)}'
        # bit flips: all for small streams, sampled otherwise
        nbits = len(s) * 8
        bits = range(nbits) if (nbits <= (1200 if thorough else 400)) else sorted(rng.sample(range(nbits), 120 if thorough else 40))
        for b in bits:
            t = bytearray(s); t[b // 8] ^= 1 << (b % 8)
            yield f'mice.all {d} 16384 {hh} {hexs(bytes(t))}'
        # appended suffixes
        for suf in (b'\x00', b'x' * rs, b'y' * (rs + 31), b'z' * (rs + 32), b'w' * (rs + 33), rbytes(rng, 2 * rs + 70)):
            yield f'mice.dec {d} 16384 {hh} {hexs(s + suf)} {sizes(rng, rs)}'
        # record swaps / duplicated / dropped units
        unit = rs + 32
        body = s[8:]
        units = [body[i:i + unit] for i in range(0, len(body), unit)]
        if len(units) >= 2:
            for i in range(len(units) - 1):
                u = list(units); u[i], u[i + 1] = u[i + 1], u[i]
                yield f'mice.all {d} 16384 {hh} {hexs(s[:8] + b"".join(u))}'
                u = list(units); del u[i]
                yield f'mice.all {d} 16384 {hh} {hexs(s[:8] + b"".join(u))}'
                u = list(units); u.insert(i, u[i])
                yield f'mice.all {d} 16384 {hh} {hexs(s[:8] + b"".join(u))}'
        # record-size field edits and limits
        if len(s) >= 8:
            for nrs in (0, 1, rs - 1, rs + 1, rs + 32, 2 * rs, 16384, 16385, 2**32, 2**63 - 1, 2**63, 2**64 - 33, 2**64 - 32, 2**64 - 31, 2**64 - 16, 2**64 - 2, 2**64 - 1):
                if nrs < 0: continue
                yield f'mice.all {d} 16384 {hh} {hexs(nrs.to_bytes(8, "big") + s[8:])}'
            for mx in (0, rs - 1, rs, rs + 1):
                if mx < 0: continue
                yield f'mice.all {d} {mx} {hh} {hexs(s)}'
        # digest header edits
        for bad in (h[:-1], h + b'A', h.replace(b'=', b':', 1), b'mi-sha256=' + h.split(b'=', 1)[1], h.split(b'=', 1)[1], b'', h.upper(),
                    (b'mi-sha256-03=' if d == '02' else b'mi-sha256-draft2=') + h.split(b'=', 1)[1], h + b'\n', h[:20] + b'\r\n' + h[20:]):
            yield f'mice.all {d} 16384 {hexs(bad)} {hexs(s)}'
        # digests (and in-stream proofs) that differ from the right one only under a textual equivalence of their base64 spelling:
        # letter case of single characters / of all characters, '+/' vs '-_' alphabet, padding
        import base64 as _b64
        hname, hval = h.split(b'=', 1)
        letters = [i for i, c in enumerate(hval) if chr(c).isalpha()]
        for i in (letters[:2] + letters[-2:] + (rng.sample(letters, min(4, len(letters))) if letters else [])):
            yield f'mice.all {d} 16384 {hexs(hname + b"=" + hval[:i] + bytes([hval[i] ^ 0x20]) + hval[i + 1:])} {hexs(s)}'
        yield f'mice.all {d} 16384 {hexs(hname + b"=" + hval.swapcase())} {hexs(s)}'
        yield f'mice.all {d} 16384 {hexs(hname + b"=" + hval.translate(bytes.maketrans(b"+/-_", b"-_+/")))} {hexs(s)}'
        yield f'mice.all {d} 16384 {hexs(hname + b"=" + (hval.rstrip(b"=") if hval.endswith(b"=") else hval + b"="))} {hexs(s)}'
        if len(s) >= 8 + rs + 32:
            pr = s[8 + rs:8 + rs + 32]
            t64 = _b64.b64encode(pr)
            li = [i for i, c in enumerate(t64) if chr(c).isalpha()]
            for i in li[:1] + li[-1:]:
                alt = _b64.b64decode(t64[:i] + bytes([t64[i] ^ 0x20]) + t64[i + 1:])
                yield f'mice.all {d} 16384 {hh} {hexs(s[:8 + rs] + alt + s[8 + rs + 32:])}'
        # honest stream of another payload under this digest
        s2, h2 = micelib.encode(p + b'!', rs, d)
        yield f'mice.all {d} 16384 {hh} {hexs(s2)}'
    # two decodes in one process: an honest stream first, then an altered one under the same digest (nothing remembered from the
    # first decode may vouch for the second), with small and large records
    for d in ('02', '03'):
        for rs, n in ((16, 40), (1024, 2500), (2048, 3 * 2048 + 100), (4096, 4096 * 2 + 1), (1500, 1500)):
            p = rbytes(rng, n)
            s, h = micelib.encode(p, rs, d)
            hh = hexs(h)
            unit = rs + 32
            alts = []
            for pos in (8 + 5, 8 + rs + 32 + 5 if len(s) > 8 + rs + 40 else 8 + 1, len(s) - 1):
                if pos < len(s):
                    t = bytearray(s); t[pos] ^= 0x40; alts.append(bytes(t))
            body = bytearray(s)
            for i in range(8, len(body)):
                if (i - 8) % unit < rs: body[i] = 0x58            # every record's data replaced, in-stream proofs kept
            alts.append(bytes(body))
            alts.append(s[:8] + s[8 + unit:] if len(s) > 8 + unit else s[:8])
            for a in alts:
                yield f'mice.twice {d} 16384 {hh} {hexs(s)} {hexs(a)}'
                yield f'mice.twice {d} 16384 {hh} {hexs(a)} {hexs(s)}'
            yield f'mice.twice {d} 16384 {hh} {hexs(s)} {hexs(s)}'
    # list-valued digest headers with decoys: another algorithm whose name merely ends in / contains the MI name, duplicates, order
    for d in ('02', '03'):
        P, Q = rbytes(rng, 40), rbytes(rng, 40)
        sP, hP = micelib.encode(P, 16, d)
        sQ, hQ = micelib.encode(Q, 16, d)
        name = hP.split(b'=', 1)[0]
        vq, vp = hQ.split(b'=', 1)[1], hP.split(b'=', 1)[1]
        for hdr in (b'x-' + name + b'=' + vq + b',' + hP, b'x-' + name + b'=' + vq + b', ' + hP, hP + b',x-' + name + b'=' + vq, hQ + b',' + hP, hP + b',' + hQ,
                    b'not' + name + b'=' + vq, name + b'x=' + vq + b',' + hP, b'sha-256=' + vq + b',' + hP, hP + b';' + hQ, hP + b' ' + hQ, name + b'=' + vq + b'=' + vp):
            for st in (sP, sQ):
                yield f'mice.all {d} 16384 {hexs(hdr)} {hexs(st)}'
    # arbitrary streams against arbitrary digests
    for _ in range(1500 if not thorough else 60000):
        d = rng.choice(['02', '03'])
        rs = rng.choice([1, 2, 3, 8])
        p = rbytes(rng, rng.randrange(0, 3 * rs + 2))
        s, h = micelib.encode(p, rs, d)
        t = bytearray(s)
        for _ in range(rng.randrange(0, 3)):
            k = rng.randrange(4)
            if k == 0 and t: t[rng.randrange(len(t))] = rng.getrandbits(8)
            elif k == 1 and t: del t[rng.randrange(len(t)):]
            elif k == 2: t += rbytes(rng, rng.randrange(1, 40))
            elif k == 3 and t: del t[rng.randrange(len(t))]
        yield f'mice.dec {d} {rng.choice([16384, rs, 1])} {hexs(h)} {hexs(bytes(t))} {sizes(rng, rs)}'


def run(ctx):
    """the decoder ops of generate(), then the two consumers of the decoder inside the library: what Exchange.Verify and the
    bundle-signature VerifyExchange hand out is the complete payload or nothing -- for payloads cut at every record / proof boundary
    and inside proofs, and for small bodies that span several records"""
    import sxglib, bundlelib, c06
    from sxglib import unhex
    rng = ctx.rng
    ctx.both(list(generate(ctx.tier, rng)))
    w = sxglib.setup(ctx)
    k = [k for k in w.keys if k['curve'] == 'p256' and k['hosts'].startswith(b'example.com')][0]
    cu, vu, d0 = b'https://example.com/cert.msg', b'https://example.com/v', 1517418800
    sops = []
    for ver in sxglib.VERS:
        for rs, plen in ((16, 40), (16, 48), (4, 9), (100, 250)):
            e = sxglib.ex(ver, b'https://example.com/', b'GET', [], 200, [(b'Content-Type', [b'text/html'])], b'', rbytes(rng, plen))
            sops.append((f'sxg.sign {sxglib.exs(e)} {rs} {k["cert"]} {k["key"]} {hexs(cu)} {hexs(vu)} {d0} {d0 + 3600}', rs))
    items = []
    for (op, rs), r in zip(sops, ctx.go([o for o, _ in sops])):
        se = sxglib.parse_ex(r) if r else None
        if not se: continue
        pl = unhex(se[7])
        cuts = set([len(pl)])
        unit = rs + 32
        for u0 in range(8, len(pl) + 1, unit):            # unit boundaries, record ends, first / middle / last byte of each proof
            cuts.update([u0, u0 + rs, u0 + rs + 1, u0 + rs + 16, u0 + rs + 31, u0 + 1])
        cuts.update([0, 1, 7, 8, 9])
        for c in sorted(c for c in cuts if 0 <= c <= len(pl)):
            items.append((se[:7] + [hexs(pl[:c])], (d0 + 10, 0), {cu: k['chain']}))
        items.append((se[:7] + [hexs(pl + pl[8:8 + unit])], (d0 + 10, 0), {cu: k['chain']}))      # extended by a copy of the first unit
    sxglib.verify_stage(ctx, items)
    # bundle signatures: bodies of several records that are small as a whole (every record size below the body length)
    bops = []
    for v in ('b1', 'b2'):
        for rs, blen in ((16, 40), (16, 16), (1, 5), (4096, 4097), (4096, 9000), (100, 101), (16, 0)):
            bb = bundlelib.bundle(v, b'https://example.com/', None, None, [bundlelib.exch(b'https://example.com/', 200, [(b'Content-Type', [b'text/plain'])], rbytes(rng, blen))])
            bops.append(f'bsig.sign {bb} {rs} {k["cert"]}:{hexs(b"ocsp")}:nil {k["key"]} {hexs(b"https://example.com/validity")} {d0} 3600')
    signed = [r[3:] for r in ctx.go(bops) if r and r.startswith('ok ')]
    if len(signed) < len(bops):
        ctx.infra.append(f'{len(bops) - len(signed)} bundles could not be signed')
    c06.verify_stage(ctx, [(b, (d0 + 10, 0)) for b in signed])
    # the reader handed to NewDecoder is an input too: streams NewDecoder must refuse (record size 0 / above the limit) with 0, 1, 300,
    # 5000 bytes behind the size field, through readers with / without ReadByte and Size(), one byte per Read, limited, concatenated,
    # a real file -- "refused before any data is read": at most the 8-byte field is gone from the caller's reader; and honest /
    # truncated / extended streams through every kind and behind an already consumed prefix (model side: alias of mice.dec)
    ctx.both(list(micelib.src_refusals(rng)) + list(micelib.src_positions(rng)))
    # "clean end-of-stream only after delivering that payload completely", one level up: payloads far longer than anything a consumer
    # of the decoder might cap its reading at (1, 2, 4, 8, 16, 33 MiB plus a little; both drafts), the property's own round trip on the real
    # code alone: what Exchange.Verify hands out for an honestly signed exchange is the whole payload (or nothing), never a prefix
    big = []
    for ver, n_ in (('b3', 2**20 + 1), ('b1', 2 * 2**20 + 1), ('b2', 4 * 2**20 + 1), ('b1', 8 * 2**20 + 1), ('b3', 8 * 2**20 + 1), ('b2', 16 * 2**20 + 1), ('b3', 33 * 2**20 + 5)):
        e = list(sxglib.ex(ver, b'https://example.com/big', b'GET', [], 200, [(b'Content-Type', [b'text/html'])], b'', b''))
        e[7] = f'rep:ab:{n_}'
        big.append(f'sxg.rt.sign {sxglib.exs(e)} 16384 {k["cert"]} {k["key"]} {hexs(cu)} {hexs(vu)} {d0} {d0 + 3600} {k["chain"]} {d0 + 10}')
    goenv = ctx.goenv
    ctx.goenv = dict(goenv, VERIF_OP_TIMEOUT_MS=str(max(30000, int(goenv.get('VERIF_OP_TIMEOUT_MS', '4000')))))      # ~0.1 s per 4 MiB; a loaded machine must not turn into a verdict
    try:
        rbig = ctx.go(big)
    finally:
        ctx.goenv = goenv
    for op, r in zip(big, rbig):
        label = ' '.join(op.split(' ')[:3]) + ' ... ' + op.split(' ')[8]
        ctx.full_op[label] = op; ctx.confirm_ms[label] = 600000
        ctx.records.append((label, r or 'crash', 'same'))

