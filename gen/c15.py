from common import *
import micelib

THEOREMS = ['C15.decodeAll_sound', 'C15.digest_unique', 'C15.recordsize_refused', 'C15.read_refines_loop']
TRUSTED = ['SHA-256 is a parameter H (only |H x| = 32 assumed; conclusions are "... or an explicit SHA-256 collision")',
           'Go stdlib: io.ReadFull, encoding/binary.Read, encoding/base64, bytes.Reader (modelled, compared)']
ASSUMPTIONS = ['the stream is an in-memory reader: Read errors other than end of input do not occur',
               'callers pass maxRecordSize <= 2^63 (16384 in this repository): recordSize+32 does not wrap']
RULE = ('honest streams for (payload, rs, draft) x every single-bit flip (small streams) / sampled flips x every truncation length x appended suffixes x record swaps x record-size field edits '
        'x arbitrary streams against arbitrary digests x random Read-size sequences; compared: bytes returned per Read, concatenated output, final status class (eof / ErrValidationFailure / other); '
        'non-trivial = stream is not the unmodified honest stream')
EXHAUSTIVE = {}

agree = Base.agree; signature = Base.signature; explain = Base.explain


def classify(op, m):
    t = m.split(' ')
    return op.split(' ')[0] + ':' + t[-1] + (':released' if t[0] not in ('-', 'nderr') else '')


def nontrivial(op, m):
    return True


def sizes(rng, rs):
    return ','.join(str(rng.choice([0, 1, 2, rs, rs + 1, rs - 1 if rs > 1 else 1, 31, 32, 33, 1000])) for _ in range(rng.randrange(0, 8))) or '-'


def generate(tier, rng):
    thorough = tier == 'thorough'
    cases = []
    for d in ('02', '03'):
        for rs in (1, 2, 3, 5, 16):
            for n in sorted(set([0, 1, rs - 1, rs, rs + 1, 2 * rs, 2 * rs + 1, 3 * rs])):
                if n < 0: continue
                cases.append((d, rs, rbytes(rng, n)))
    for d, rs, p in cases:
        s, h = micelib.encode(p, rs, d)
        hh = hexs(h)
        yield f'mice.dec {d} 16384 {hh} {hexs(s)} {sizes(rng, rs)}'
        # every truncation
        for k in range(len(s)):
            yield f'mice.dec {d} 16384 {hh} {hexs(s[:k])} {sizes(rng, rs)}'
        # bit flips: all for small streams, sampled otherwise
        nbits = len(s) * 8
        bits = range(nbits) if (nbits <= (1200 if thorough else 400)) else sorted(rng.sample(range(nbits), 120 if thorough else 40))
        for b in bits:
            t = bytearray(s); t[b // 8] ^= 1 << (b % 8)
            yield f'mice.all {d} 16384 {hh} {hexs(bytes(t))}'
        # appended suffixes
        for suf in (b'\x00', b'x' * rs, b'y' * (rs + 31), b'z' * (rs + 32), b'w' * (rs + 33), rbytes(rng, 2 * rs + 70)):
            yield f'mice.dec {d} 16384 {hh} {hexs(s + suf)} {sizes(rng, rs)}'
        # record swaps / duplicated / dropped units
        unit = rs + 32
        body = s[8:]
        units = [body[i:i + unit] for i in range(0, len(body), unit)]
        if len(units) >= 2:
            for i in range(len(units) - 1):
                u = list(units); u[i], u[i + 1] = u[i + 1], u[i]
                yield f'mice.all {d} 16384 {hh} {hexs(s[:8] + b"".join(u))}'
                u = list(units); del u[i]
                yield f'mice.all {d} 16384 {hh} {hexs(s[:8] + b"".join(u))}'
                u = list(units); u.insert(i, u[i])
                yield f'mice.all {d} 16384 {hh} {hexs(s[:8] + b"".join(u))}'
        # record-size field edits and limits
        if len(s) >= 8:
            for nrs in (0, 1, rs - 1, rs + 1, rs + 32, 2 * rs, 16384, 16385, 2**32, 2**63 - 1, 2**63, 2**64 - 33, 2**64 - 32, 2**64 - 31, 2**64 - 16, 2**64 - 2, 2**64 - 1):
                if nrs < 0: continue
                yield f'mice.all {d} 16384 {hh} {hexs(nrs.to_bytes(8, "big") + s[8:])}'
            for mx in (0, rs - 1, rs, rs + 1):
                if mx < 0: continue
                yield f'mice.all {d} {mx} {hh} {hexs(s)}'
        # digest header edits
        for bad in (h[:-1], h + b'A', h.replace(b'=', b':', 1), b'mi-sha256=' + h.split(b'=', 1)[1], h.split(b'=', 1)[1], b'', h.upper(),
                    (b'mi-sha256-03=' if d == '02' else b'mi-sha256-draft2=') + h.split(b'=', 1)[1], h + b'\n', h[:20] + b'\r\n' + h[20:]):
            yield f'mice.all {d} 16384 {hexs(bad)} {hexs(s)}'
        # honest stream of another payload under this digest
        s2, h2 = micelib.encode(p + b'!', rs, d)
        yield f'mice.all {d} 16384 {hh} {hexs(s2)}'
    # arbitrary streams against arbitrary digests
    for _ in range(1500 if not thorough else 60000):
        d = rng.choice(['02', '03'])
        rs = rng.choice([1, 2, 3, 8])
        p = rbytes(rng, rng.randrange(0, 3 * rs + 2))
        s, h = micelib.encode(p, rs, d)
        t = bytearray(s)
        for _ in range(rng.randrange(0, 3)):
            k = rng.randrange(4)
            if k == 0 and t: t[rng.randrange(len(t))] = rng.getrandbits(8)
            elif k == 1 and t: del t[rng.randrange(len(t)):]
            elif k == 2: t += rbytes(rng, rng.randrange(1, 40))
            elif k == 3 and t: del t[rng.randrange(len(t))]
        yield f'mice.dec {d} {rng.choice([16384, rs, 1])} {hexs(h)} {hexs(bytes(t))} {sizes(rng, rs)}'
