from common import *
import itertools, base64

THEOREMS = ['C16.parse_serialize_pl', 'C16.parse_serialize_ll', 'C16.serialize_fails_iff', 'C16.params_order_irrelevant',
            'C16.parse_valid', 'C16.parser_grammar (per production)']
TRUSTED = ['Go stdlib: strconv.ParseInt/FormatInt/Quote, encoding/base64, sort.Strings, strings.TrimLeft/IndexByte (modelled, compared)']
ASSUMPTIONS = ['Go map-typed Parameters cannot hold duplicate keys: the model takes a key list with distinct keys']
RULE = ('sh.parse.pl / sh.parse.ll on ALL strings up to length 4 (quick) / 5 (thorough) over the 22-symbol grammar alphabet, plus generated valid values of every item type '
        '(int64 extremes, strings with quotes/backslashes, tokens with every punctuation, byte sequences of every length mod 3 and of every length 0..70, around powers of two 64..65536 and up to 100003) serialized and re-parsed, invalid values, '
        'random and mutated header strings; compared: value tree (parameters sorted by key) or error, String() output; non-trivial = op line distinct')
ALPHA = [b'a', b'A', b'1', b'-', b'"', b'\\', b'*', b';', b',', b'=', b' ', b'\t', b'_', b'/', b':', b'%', b'.', b'\x7f', b'\x1f', b'+', b'\n', b'\r']
EXHAUSTIVE = {'quick': 'all strings of length <= 4 over ' + repr(b''.join(ALPHA)) + ' for both entry points',
              'thorough': 'all strings of length <= 5 over the same 22-symbol alphabet for both entry points'}

agree = Base.agree; nontrivial = Base.nontrivial; signature = Base.signature; explain = Base.explain


def classify(op, m):
    return op.split(' ')[0] + ':' + m.split(' ')[0]


TOKCH = b'abcxyzABCXYZ0189_-.:%*/'


def rtoken(rng):
    return bytes([rng.choice(b'abzAZq')]) + bytes(rng.choice(TOKCH) for _ in range(rng.randrange(0, 6)))


def rkey(rng):
    return bytes([rng.choice(b'abkz')]) + bytes(rng.choice(b'abz019_-') for _ in range(rng.randrange(0, 5)))


def nonascii_lookalike(rng, base, allowed):
    """`base` plus a non-ASCII character whose code point has an allowed character as its low byte (U+0165 -> 'e'):
    a check on byte(rune) alone would let it through"""
    ch = chr(rng.choice([0x100, 0x200, 0x2100, 0x1f600, 0x300]) + rng.choice(allowed))
    i = rng.randrange(1, len(base) + 1)
    return base[:i] + ch.encode('utf-8') + base[i:]


def ritem(rng, valid=True):
    k = rng.randrange(4)
    if k == 0:
        return 'i%d' % rng.choice([0, 1, -1, 7, 42, 2**63 - 1, -2**63, 2**31, -999, rng.getrandbits(62)])
    if k == 1:
        s = bytes(rng.choice(b'ab "\\~!z09') for _ in range(rng.randrange(0, 8)))
        if not valid and rng.random() < 0.7:
            s += bytes([rng.choice([0x1f, 0x7f, 0x80, 0xff, 0x0a])])
        return 's' + hexs(s)
    if k == 2:
        t = rtoken(rng)
        if not valid and rng.random() < 0.7:
            t = rng.choice([b'', b'1a', b'a b', b'a"', b'\xc3\xa9', b'a,b', b'-a', nonascii_lookalike(rng, rtoken(rng), TOKCH)])
        return 't' + hexs(t)
    return 'b' + hexs(rbytes(rng, rng.randrange(0, 10)))


def rpi(rng, valid=True):
    label = rtoken(rng) if valid or rng.random() < 0.6 else rng.choice([b'', b'9x', b'a b'])
    keys = []
    for _ in range(rng.randrange(0, 5)):
        k = rkey(rng)
        if not valid and rng.random() < 0.2: k = rng.choice([b'', b'A', b'1a', b'a.b', b'a*', nonascii_lookalike(rng, rkey(rng), b'abz019_-')])
        if k not in keys: keys.append(k)
    rng.shuffle(keys)
    parts = [hexs(label)]
    for k in keys:
        r = rng.random()
        if r < 0.25: parts.append(hexs(k))
        elif not valid and r < 0.35: parts.append(hexs(k) + '=n')
        else: parts.append(hexs(k) + '=' + ritem(rng, valid))
    return ';'.join(parts)


def generate(tier, rng):
    thorough = tier == 'thorough'
    maxlen = 5 if thorough else 4
    for L in range(0, maxlen + 1):
        for t in itertools.product(ALPHA, repeat=L):
            s = hexs(b''.join(t))
            yield f'sh.parse.pl {s}'
            yield f'sh.parse.ll {s}'
    n = 3000 if not thorough else 60000
    # values: serialize; the python side also builds the expected string for valid values and parses it
    for _ in range(n):
        valid = rng.random() < 0.8
        pl = ','.join(rpi(rng, valid) for _ in range(rng.randrange(1, 4)))
        yield f'sh.ser.pl {pl}'
        ll = ','.join(';'.join(ritem(rng, valid) for _ in range(rng.randrange(1, 4))) for _ in range(rng.randrange(1, 4)))
        yield f'sh.ser.ll {ll}'
    yield 'sh.ser.pl .'
    yield 'sh.ser.ll .'
    yield 'sh.ser.ll .,i1'
    yield 'sh.ser.ll i1,n'
    # header strings: realistic + mutated
    seeds = [b'label;cert-sha256=*AAAA*;cert-url="https://example.com/cert";date=1511128380;expires=1511733180;integrity="digest/mi-sha256-03";sig=*MEUCIQ==*;validity-url="https://example.com/v"',
             b'sig1; sig=*MEUCIQ==*; integrity="mi-draft2", sig2;a=1;b', b'Accept-Encoding;gzip;br, Accept-Language;en;fr', b'gzip;fr, br;en', b'a;b=-123;c="x\\"y\\\\z";d=tok/en:%*;e=**',
             b'abc  ,\tdef;q', b'"str"; 12; tok; *YWJj*', b'-9223372036854775808;9223372036854775807', b'9223372036854775808', b'a;k=*YQ*', b'a;k=*YQ==*', b'a;k=*YQ=*', b'a;k=*Y\nQ*', b'a;k=*YQ\n==*', b'a;k=*YR*']
    for s in seeds:
        yield f'sh.parse.pl {hexs(s)}'
        yield f'sh.parse.ll {hexs(s)}'
        yield f'sh.parse.twice {hexs(s)}'      # parsed before in this process, the earlier result scribbled over
        for _ in range(60 if not thorough else 2000):
            t = bytearray(s)
            for _ in range(rng.randrange(1, 3)):
                k = rng.randrange(4)
                i = rng.randrange(len(t)) if t else 0
                if k == 0 and t: t[i] = rng.choice(b''.join(ALPHA) + b'0z9')
                elif k == 1 and t: del t[i]
                elif k == 2: t.insert(i, rng.choice(b''.join(ALPHA)))
                elif k == 3 and t: del t[i:]
            yield f'sh.parse.pl {hexs(bytes(t))}'
            yield f'sh.parse.ll {hexs(bytes(t))}'
            if rng.random() < 0.3: yield f'sh.parse.twice {hexs(bytes(t))}'
    # separators INSIDE quoted strings and byte sequences (a parser that splits the input at ',' or ';' first gets these wrong)
    for v in [b'label;note="a,b"', b'a;s="1, 2" , b', b'label;cert-url="https://example.com/cert?ids=1,2";x=1', b'label;note=","', b'a;s=";";t=1', b'a;s="x;y=1", b;z', b'"a,b";"c;d"', b'"a,b", "c"',
              b'a;s="\\",b"', b'a;s="\\\\", b', b'a;b=*YSxi*', b'x;s=" , ";t']:
        yield f'sh.parse.pl {hexs(v)}'
        yield f'sh.parse.ll {hexs(v)}'
    # repeated parameter names: with / without values, adjacent or not (must all be refused by the parser)
    for v in [b'label;n;n', b'label;n;n=5', b'label;n=5;n', b'label;n=1;n=2', b'a;x=1, b;k;y=2;k', b'l;n;m;n', b'l;n;m=1;n=2', b'a;k;k;k', b'a;k="";k', b'a;k=**;k=**', b'a, a', b'a;n, a;n']:
        yield f'sh.parse.pl {hexs(v)}'
        yield f'sh.parse.ll {hexs(v)}'
    for s in seeds:
        segs = s.split(b';')
        for _ in range(20 if not thorough else 200):
            if len(segs) < 2: break
            i = rng.randrange(1, len(segs))
            dup = segs[i] if rng.random() < 0.5 else segs[i].split(b'=')[0].split(b',')[0]
            j = rng.randrange(i, len(segs) + 1)
            yield f'sh.parse.pl {hexs(b";".join(segs[:j] + [dup] + segs[j:]))}'
    # non-ASCII look-alikes in tokens / keys / labels (serializer must refuse)
    for tok in ['caf\u0165', 'x\u212a', 'a\u012db', 'k\u0131', 'z\U0001f661']:
        t = tok.encode('utf-8')
        yield f'sh.ser.ll t{hexs(t)}'
        yield f'sh.ser.pl {hexs(t)}'
        yield f'sh.ser.pl {hexs(b"ok")};{hexs(t)}'
        yield f'sh.ser.pl {hexs(b"ok")};{hexs(t)}=i1'
        yield f'sh.ser.pl {hexs(b"ok")};{hexs(b"k")}=t{hexs(t)}'
    # the same look-alikes fed to the PARSERS, at every kind of position (a code point whose low byte is an allowed character is still not one)
    runes = ['\u0165', '\u212a', '\u012d', '\u0131', '\U0001f661', '\u0141', '\u0161', '\u0130', '\u00e9', '\u012a', '\u015f', '\u022d', '\u0125', '\u013a', '\uff41', '\u0430']
    runes += [chr(0x100 * k + c) for k in (1, 2, 0x21) for c in b'aZ0_-.:%*/']
    for r in runes:
        x = r.encode('utf-8')
        for tpl in (b'foo%s', b'%sfoo', b'fo%so', b'label;d%ste=1', b'label;%sk=1', b'label;k%s', b'la%sbel;a=1', b'label;a=to%sk', b'label;a="s%st"', b'en;fr%s', b'a, b%s', b'a;k=*YQ%s==*', b'a;k=1%s'):
            v = tpl.replace(b'%s', x)
            yield f'sh.parse.pl {hexs(v)}'
            yield f'sh.parse.ll {hexs(v)}'
    # long items (the draft obliges parsers to support at least 1024-character strings, 512-character tokens, 16384-octet byte
    # sequences; this parser has no upper limits): at and far beyond those sizes, in item and in parameter-value position
    longs = [b'"' + b'a' * n_ + b'"' for n_ in (1021, 1022, 1023, 1024, 1025, 5000)] + [b'"' + b'\\"' * 500 + b'x' * 100 + b'"', b'"' + b'\\\\' * 600 + b'"']
    longs += [b't' + b'o' * n_ for n_ in (510, 511, 512, 513, 3000)]
    longs += [b'*' + base64.b64encode(rbytes(rng, n_)) + b'*' for n_ in (12284, 12285, 12286, 12287, 16384, 16385, 20000)]
    longs += [b'1' * 18, b'9' * 19, b'-' + b'1' * 18]
    for it in longs:
        yield f'sh.parse.ll {hexs(it)}'
        yield f'sh.parse.ll {hexs(b"a;b, " + it + b";" + it)}'
        yield f'sh.parse.pl {hexs(b"label;k=" + it)}'
        yield f'sh.parse.pl {hexs(b"label;k=" + it + b";z=1, other")}'
    # numbers and byte sequences in depth
    for v in ['0', '-0', '00012', '-', '--1', '1-', '-1a', '18446744073709551616', '-9223372036854775809', '9' * 30, '1.5', '1e3', '+1']:
        yield f'sh.parse.ll {hexs(v.encode())}'
        yield f'sh.parse.pl {hexs(b"a;k=" + v.encode())}'
    for n_ in range(0, 8):
        raw = rbytes(rng, n_)
        for enc in (base64.b64encode(raw), base64.b64encode(raw).rstrip(b'='), base64.urlsafe_b64encode(raw)):
            yield f'sh.parse.ll {hexs(b"*" + enc + b"*")}'
            yield f'sh.parse.ll {hexs(b"*" + enc)}'
    # byte sequences by LENGTH, on the serializer side and back: every length 0..70 (all residues mod 3, one base64 line of 48 / 57
    # bytes), around every power of two from 64 to 65536 and other plausible buffer / chunk sizes (a writer that encodes in pieces must
    # not pad in the middle), up to 100000+; as list member, as parameter value, twice in one list; each also parsed back from the
    # canonical text built here (independent base64)
    lens = set(range(0, 71))
    for c in [2**j for j in range(6, 17)] + [76, 100, 1000, 1500, 3072, 10000, 12288, 49152, 100000]:
        lens.update([c - 1, c, c + 1, c + 2])
    lens.update([3 * 512, 3 * 512 + 1, 2 * 4096 + 1, 100003])
    for n_ in sorted(lens):
        raw = rbytes(rng, n_)
        b = 'b' + hexs(raw)
        txt = b'*' + base64.b64encode(raw) + b'*'
        yield f'sh.ser.ll {b}'
        yield f'sh.ser.pl {hexs(b"label")};{hexs(b"sig")}={b}'
        yield f'sh.parse.ll {hexs(txt)}'
        yield f'sh.parse.pl {hexs(b"label;sig=" + txt)}'
        if n_ % 7 == 0 or 400 < n_ <= 5000:
            yield f'sh.ser.ll {b};i1;{b},t{hexs(b"tok")};{b}'
            yield f'sh.ser.pl {hexs(b"a")};{hexs(b"k")}={b};{hexs(b"z")}=i1,{hexs(b"b")};{hexs(b"cert-sha256")}={b}'

