from common import *
import itertools
from sxglib import H, unhex, setup as sxg_setup
from bundlelib import burl_tables

THEOREMS = ['C17.read_write', 'C17.write_iff_validate', 'C17.write_canonical', 'C17.sct_roundtrip', 'C17.sct_fails_iff']
TRUSTED = ['crypto/x509.ParseCertificate is the parameter parseOk of the model (Raw = input is stdlib behaviour); answers supplied by oracle.cert']
ASSUMPTIONS = ['certificates handed to the writer are parsed x509 certificates (Cert.Raw is their DER)']
RULE = ('cert.write / cert.read / sct.ser: chains of 0..4 generated certificates (P-256/P-384/P-521) x OCSP / SCT blobs of lengths 0,1,23,24,255,256,65535,65536 x presence patterns (OCSP on leaf only / on non-leaf / missing), '
        'read of written chains, of mutated chains (every CBOR head x boundary values, truncations, key renames, duplicate keys, wrong magic), SCT lists of 0..n elements with sizes 0, 65533..65536 and totals around 65535; '
        'order of the list: well-formed v1 SCTs (version, log id, timestamp, extensions, signature) given in NON-ascending order of timestamp / log id / version / length / content: '
        'every ordered pair of timestamp edge values, all arrangements of 3 and 4, one differing timestamp byte, shape thresholds 40/41/42 bytes, one odd element at every position; distinct = op lines')
EXHAUSTIVE = {}

agree = Base.agree; nontrivial = Base.nontrivial; signature = Base.signature; explain = Base.explain


def classify(op, m):
    return op.split(' ')[0] + ':' + m.split(' ')[0]


def read_stage(ctx, files, op='cert.read'):
    needs = ctx.model([f'cert.read.needs {f}' for f in files])
    need_lists = [[q for q in (n or '').split(' ') if q.startswith('cert:')] for n in needs]
    tabs = burl_tables(ctx, need_lists)
    return ctx.both([f'{op} {f} {c}' for f, (u, c) in zip(files, tabs)])


def run(ctx):
    from c05 import walk, enc_head
    rng, thorough = ctx.rng, ctx.tier == 'thorough'
    w = sxg_setup(ctx)
    ders = [k['cert'] for k in w.keys]
    lens = [0, 1, 23, 24, 255, 256] + ([65535, 65536] if thorough else [1000])
    # every head-size boundary once, deterministically, for OCSP and SCT of a one-certificate chain (also SCT on a non-leaf element)
    specs = ['.']
    for bl in (22, 23, 24, 254, 255, 256, 65534, 65535, 65536):
        specs.append(f'{ders[0]}:{hexs(bytes(bl))}:nil')
        specs.append(f'{ders[0]}:{hexs(b"o")}:{hexs(bytes(bl))}')
    # SCT / OCSP presence patterns over 2- and 3-certificate chains (an SCT list on a non-leaf element is legal, an OCSP response is not)
    for n in (2, 3):
        for pat in itertools.product((None, b'sct'), repeat=n):
            specs.append(','.join(f'{ders[i % len(ders)]}:{hexs(b"ocsp") if i == 0 else "nil"}:{hexs(p_) if p_ else "nil"}' for i, p_ in enumerate(pat)))
        for pat in itertools.product((None, b'', b'o'), repeat=n):
            specs.append(','.join(f'{ders[i % len(ders)]}:{("nil" if p_ is None else hexs(p_))}:nil' for i, p_ in enumerate(pat)))
    for n in range(1, 5):
        for _ in range(12 if not thorough else 200):
            chain = []
            for i in range(n):
                r = rng.random()
                if i == 0: ocsp = hexs(rbytes(rng, rng.choice(lens))) if r < 0.85 else 'nil'
                else: ocsp = 'nil' if r < 0.85 else hexs(rbytes(rng, 3))
                sct = hexs(rbytes(rng, rng.choice(lens))) if rng.random() < 0.4 else 'nil'
                chain.append(f'{rng.choice(ders)}:{ocsp}:{sct}')
            specs.append(','.join(chain))
    specs.append(f'{ders[0]}:-:nil')          # empty but present OCSP
    specs.append(f'{ders[0]}:nil:nil')
    for o_, s_ in (('-', '-'), (hexs(b'o'), '-'), ('-', hexs(b's')), ('-', 'nil'), ('nil', '-'), (hexs(b'o'), 'nil')):
        specs.append(f'{ders[0]}:{o_}:{s_}'); specs.append(f'{ders[0]}:{o_}:{s_},{ders[1 % len(ders)]}:nil:nil')
    g, m = ctx.both([f'cert.write {s}' for s in specs])
    # object history: written once, blobs overwritten IN PLACE with others of the same length, written again
    ip = []
    for n_ in (1, 7, 24, 300):
        a_o, b_o, a_s, b_s = rbytes(rng, n_), rbytes(rng, n_), rbytes(rng, n_), rbytes(rng, n_)
        ip.append(f'cert.write.inplace {ders[0]}:{hexs(a_o)}:{hexs(a_s)} {ders[0]}:{hexs(b_o)}:{hexs(b_s)}')
        ip.append(f'cert.write.inplace {ders[0]}:{hexs(a_o)}:nil,{ders[1 % len(ders)]}:nil:{hexs(a_s)} {ders[0]}:{hexs(b_o)}:nil,{ders[1 % len(ders)]}:nil:{hexs(b_s)}')
    ctx.both(ip)
    # the same chains built by the library's constructor (NewCertChain) where the shape allows (blobs on the leaf only)
    fits = [s for s in specs if s and all(c.split(':')[1:] == ['nil', 'nil'] for c in s.split(',')[1:])]
    ctx.both([f'cert.write.new {s}' for s in dict.fromkeys(fits)])
    # Write to a destination that fails after k bytes, every k, for two chains: Write must not report success for a truncated document
    for spec in [sp for sp in specs if sp.count(',') == 1 and ':nil:nil' in sp][:1] + [sp for sp in specs if sp.count(',') == 0 and sp != '.'][:1]:
        ln = ctx.go([f'faultlen cert {spec}'])[0]
        if ln and ln.startswith('ok '):
            n_ = int(ln.split(' ')[1])
            ctx.both([f'fault cert {k_} {mode} {spec}' for k_ in range(0, n_ + 1) for mode in ('short', 'error')])
    files = [unhex(x.split(' ')[1]) for x in g if x and x.startswith('ok ')]
    muts = []
    for f in files[:: (1 if thorough else 4)]:
        muts.append(f)
        heads = []
        walk(f, 0, len(f), heads)
        for (pos, hl, mt, v) in heads[:40]:
            for nv in {0, max(v - 1, 0), v + 1, 2**32, 2**63, 2**64 - 1}:
                if nv != v: muts.append(f[:pos] + enc_head(mt, nv) + f[pos + hl:])
            muts.append(f[:pos] + enc_head((mt + 1) % 8, v) + f[pos + hl:])
        for k in sorted(rng.sample(range(len(f)), min(len(f), 40))): muts.append(f[:k])
        for a, b in ((b'dcert', b'dcerx'), (b'docsp', b'dcert'), (b'csct', b'cxyz'), (b'docsp', b'dOCSP'), (bytes.fromhex('f09f939ce29b93'), bytes.fromhex('f09f939ce29b94'))):
            if a in f: muts.append(f.replace(a, b, 1))
        for _ in range(20):
            t = bytearray(f); t[rng.randrange(len(t))] = rng.getrandbits(8); muts.append(bytes(t))
    seen, uniq = set(), []
    for x in muts:
        if x not in seen: seen.add(x); uniq.append(x)
    read_stage(ctx, [hexs(x) for x in uniq])
    # the same through a caller-owned *bytes.Buffer that is overwritten and reused before the result is looked at (no aliasing of the input)
    read_stage(ctx, [hexs(x) for x in files], op='cert.read.buffer')
    read_stage(ctx, [hexs(x) for x in uniq[::7]], op='cert.read.buffer')
    ops = []
    for spec in ([], [0], [0, 0], [1, 2, 3], [65535], [65536], [65533], [65534], [32766, 32765], [32766, 32766], [32767, 32767], [21843, 21843, 21843], [21844, 21843, 21843], [10] * 100, [0] * 32767, [0] * 32768):
        ops.append('sct.ser ' + (','.join(hexs(rbytes(rng, n)) if n else '-' for n in spec) or '.'))
    # one SCT whose own bytes happen to be a well-formed length-prefixed list (an earlier output, a tiny list, a real-looking one)
    for one in (bytes.fromhex('00030001ff'), bytes.fromhex('0004000161') + b'b', (7).to_bytes(2, 'big') + b'\x00\x05hello', bytes.fromhex('00020000'), bytes.fromhex('0000'),
                (40).to_bytes(2, 'big') + (38).to_bytes(2, 'big') + rbytes(rng, 38), b'\x00\x74\x00\x72' + rbytes(rng, 114)):
        ops.append('sct.ser ' + hexs(one))
        ops.append('sct.ser ' + hexs(one) + ',' + hexs(b'x'))
    logid = rbytes(rng, 32)
    for els in ([b'\x00' + logid + b'\x01\x02\x03', b'\x00' + logid + b'\x09\x09\x09\x09'], [b'\x00' + logid + b'a' * 40] * 2, [b'\x00' + logid + b'a' * 40, b'\x01' + logid + b'a' * 40],
                [b'\x00' + logid, b'\x00' + logid], [b'\x00' + logid + b'x', b'\x00' + rbytes(rng, 32) + b'x', b'\x00' + logid + b'y'], [b'same'] * 3, [b'', b''], [b'\x00' * 33, b'\x00' * 34]):
        ops.append('sct.ser ' + ','.join(hexs(e_) if e_ else '-' for e_ in els))
    for _ in range(100 if not thorough else 2000):
        ops.append('sct.ser ' + (','.join(hexs(rbytes(rng, rng.choice([0, 1, 5, 100, 300]))) for _ in range(rng.randrange(0, 6))) or '.'))
    ops += sct_v1_order_ops()
    ctx.both(ops)


def v1_sct(tag, ts, version=0, tail=None):
    """an element with the layout of an RFC 6962 v1 SCT: version, 32-byte log id, 8-byte timestamp, extensions, digitally-signed"""
    if tail is None:
        tail = b'\x00\x00' + b'\x04\x03' + b'\x00\x08' + bytes([0x30, 0x06, 0x02, 0x01, tag, 0x02, 0x01, tag])
    return bytes([version]) + bytes([tag]) * 32 + (ts % 2**64).to_bytes(8, 'big') + tail


def sct_v1_order_ops():
    """"exactly the given SCTs IN ORDER": lists of well-formed SCTs whose fields (timestamp, log id, version, extensions, length) are NOT
    in ascending order as given, so that any normalisation of the list (sorting by a field, grouping, reversing) shows. Deterministic."""
    ops = []
    def line(els): return 'sct.ser ' + ','.join(hexs(e_) for e_ in els)
    # (1) every ordered pair of timestamps from the edge values of a uint64 / int64 / millisecond clock (relation: later-first, equal, earlier-first)
    edge = [0, 1, 255, 256, 2**32 - 1, 2**32, 1600000000000, 1650000000000, 1700000000000, 2**63 - 1, 2**63, 2**64 - 1]
    for a in edge:
        for b_ in edge:
            ops.append(line([v1_sct(0xa1, a), v1_sct(0xb2, b_)]))
    # (2) every arrangement of three and four well-formed SCTs with distinct timestamps (log ids in the opposite order of the timestamps too)
    for n in (3, 4):
        ts = [1600000000000 + 50000000000 * i for i in range(n)]
        for p in itertools.permutations(range(n)):
            ops.append(line([v1_sct(0xa1 + 0x11 * j, ts[i]) for j, i in enumerate(p)]))
            ops.append(line([v1_sct(0xe1 - 0x11 * j, ts[i]) for j, i in enumerate(p)]))
    # (3) timestamps that differ in exactly one of the 8 bytes, later one first; and equal timestamps with descending log ids / versions / tails
    for byte in range(8):
        ops.append(line([v1_sct(0xa1, 2 << (8 * byte)), v1_sct(0xb2, 1 << (8 * byte))]))
    ops.append(line([v1_sct(0xb2, 5), v1_sct(0xa1, 5)]))
    ops.append(line([v1_sct(0xa1, 5, version=1), v1_sct(0xa1, 5, version=0)]))
    ops.append(line([v1_sct(0xa1, 5, tail=b'\x00\x01z' + b'\x04\x03\x00\x01q'), v1_sct(0xa1, 5, tail=b'\x00\x00' + b'\x04\x03\x00\x01q')]))
    # (4) the shape thresholds: exactly 41 bytes (no extensions / signature), 40 and 42, descending timestamps; one element of another shape
    # anywhere in an otherwise well-formed descending list (version 1, 40 bytes, empty, 3 bytes)
    for tl in (0, 1, 2, 6, 100, 1000):
        ops.append(line([v1_sct(0xa1, 9, tail=bytes(tl)), v1_sct(0xb2, 3, tail=bytes(tl))]))
        ops.append(line([v1_sct(0xa1, 9, tail=bytes(tl)), v1_sct(0xb2, 3)]))
    ops.append(line([v1_sct(0xa1, 9)[:40], v1_sct(0xb2, 3)[:40]]))
    ops.append(line([v1_sct(0xa1, 9)[:40], v1_sct(0xb2, 3)]))
    for odd in (v1_sct(0xc3, 1, version=1), v1_sct(0xc3, 1)[:40], b'abc', v1_sct(0xc3, 1, version=255)):
        for pos in range(3):
            els = [v1_sct(0xa1, 9), v1_sct(0xb2, 3)]
            els.insert(pos, odd)
            ops.append(line(els))
    # (5) descending by length, by first byte, by whole content (elements that are not SCT-shaped at all), and a long descending run
    ops.append(line([b'c' * 50, b'b' * 45, b'a' * 41]))
    ops.append(line([b'\x00' + b'z' * 49, b'\x00' + b'y' * 44, b'\x00' + b'x' * 40]))
    ops.append(line([b'zz', b'yy', b'xx', b'ww']))
    ops.append(line([b'long' * 20, b'mid' * 5, b's']))
    ops.append(line([v1_sct(i % 256, 2000 - i) for i in range(60)]))
    ops.append(line([v1_sct(i % 256, (i * 7919) % 101) for i in range(60)]))
    return ops
