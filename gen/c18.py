from common import *
from bundlelib import bundle, exch, sxg_setup, variants_group
from sxglib import ex, exs, hdrs
import itertools

THEOREMS = ['C18.encodeMap_order', 'C18.signature_header_order', 'C18.sxg_headers_order', 'C18.sxg_write_order', 'C18.sxg_signedMessage_order',
            'C18.bundle_response_order', 'C18.ib_attrs_order', 'C18.ib_dataToBeSigned_order', 'C18.bsig_subset_order']
TRUSTED = ['PARTIAL: data-race freedom and schedule independence of the Go runtime cannot be exhibited by the sequential Lean model; that half of the property is supported only by the race-detector histories below',
           'Go memory model / runtime, sort.Slice, sort.Strings']
ASSUMPTIONS = ['shared inputs are read-only (certificates, keys, version constants, parsed bundles/exchanges); one Signer value per goroutine (Signer lazily caches its Algorithm: DESIGN O9)',
               'MapEntryEncoders are single-use (EncodeMap drains their buffers): every in-tree caller regenerates them']
RULE = ('(a) permutations: for each serializer (signed exchange headers/file/signed message, bundle, integrity block attributes, structured-header parameters, signed-subset hashes) every insertion order of the map-typed component '
        '(all permutations up to 4 entries, sampled beyond) through both the real code and the model: all outputs must be byte-identical to each other and to the model; '
        '(b) histories/schedules: c18.conc ops in a -race build: N goroutines (8 quick / 64 thorough) x R repetitions over shared parsed inputs, randomised start order, every output compared with a reference run, race detector report = failure; '
        'c18.concsign: the same for SIGNING with real P-256 / P-384 keys and the signers\' default random source (signed exchange b1/b3, bundle signatures b1/b2, the signing algorithm itself): own Exchange / Bundle / Signer per call, every signature verified, no repeated signature; '
        'non-trivial = permuted or concurrent op')
EXHAUSTIVE = {}

agree = Base.agree; nontrivial = Base.nontrivial; signature = Base.signature; explain = Base.explain


def classify(op, m):
    t = op.split(' ')
    return f'{t[0]}:{m.split(" ")[0]}'


def perms(rng, items, cap=24):
    ps = list(itertools.permutations(items)) if len(items) <= 4 else [tuple(rng.sample(items, len(items))) for _ in range(cap)]
    return ps[:cap]


def conc_sign_ops(rng, w, G, R, H):
    """SIGNING at overlapping times on the default path: real ECDSA keys (P-256 and P-384), Signer.Algorithm nil (random source = the
    library's default), one Exchange / Bundle / Signer per call, only certificate, key and URLs shared. Results (signature bytes taken out)
    must equal the reference run's, every signature must verify, no signature may repeat; race detector report = failure."""
    ops = []
    ec = [k for k in w.keys if k['curve'] in ('p256', 'p384')]
    seen, keys = set(), []
    for k in ec:
        if k['curve'] not in seen:
            seen.add(k['curve']); keys.append(k)
    for k in keys:
        for ver in ('b3', 'b1'):
            e = ex(ver, b'https://example.com/', b'GET', [], 200, H[:3], b'', b'payload ' * 40)
            ops.append(f'c18.concsign {G} {R} {rng.randrange(10**6)} sxg {exs(e)} 16 {k["cert"]} {k["key"]} {hexs(b"https://example.com/cert.cbor")} {hexs(b"https://example.com/v")} 1517418800 1517422400')
        for bv in ('b2', 'b1'):
            bb = bundle(bv, b'https://example.com/', None, None, [exch(b'https://example.com/', 200, H[:2], b'body'), exch(b'https://example.com/2', 200, H[:1], b'two')])
            ops.append(f'c18.concsign {G} {R} {rng.randrange(10**6)} bsig {bb} 16 {k["cert"]}:{hexs(b"ocsp")}:nil {k["key"]} {hexs(b"https://example.com/validity")} 1517418800 3600')
        ops.append(f'c18.concsign {G} {R} {rng.randrange(10**6)} alg {k["key"]} {hexs(b"message to be signed")}')
        ops.append(f'c18.concsign {G} {R} {rng.randrange(10**6)} alg {k["key"]} -')
    return ops


def run(ctx):
    rng, thorough = ctx.rng, ctx.tier == 'thorough'
    w = sxg_setup(ctx)
    k = w.keys[0]
    groups = []      # list of lists of ops that must all give the same output
    H = [(b'Content-Type', [b'text/html']), (b'Foo', [b'Bar', b'Baz']), (b'X-A', [b'1']), (b'Etag', [b'"x"']), (b'Vary', [b'Accept'])]
    for n in (2, 3, 4, 5):
        hs = H[:n]
        for ver in ('b1', 'b2', 'b3'):
            g1, g2, g3 = [], [], []
            for p in perms(rng, hs):
                e = ex(ver, b'https://example.com/', b'GET', list(p) if ver != 'b3' else [], 200, list(p), b'sig', b'payload')
                g1.append(f'sxg.hdr {exs(e)}'); g2.append(f'sxg.write {exs(e)}')
                g3.append(f'sxg.msg {exs(e)} {"ab" * 32} {hexs(b"https://example.com/v")} 5 10')
            groups += [g1, g2, g3]
        gb = []
        for p in perms(rng, hs):
            gb.append(f'bundle.write {bundle("b2", b"https://example.com/", None, None, [exch(b"https://example.com/", 200, list(p), b"body")])}')
        groups.append(gb)
        # exchanges order in a bundle does change the bytes (responses are laid out in order): not a map; skipped by design
    attrs = [(b'ed25519PublicKey', b'\x01' * 32), (b'k1', b'a'), (b'k2', b''), (b'zz', b'q')]
    for n in (1, 2, 3, 4):
        gi = []
        for p in perms(rng, attrs[:n]):
            a = '&'.join(f'{hexs(x)}={hexs(y)}' for x, y in p)
            gi.append(f'ib.cbor f09f968bf09f93a6:31620000:{a}*{hexs(b"sig")}')
        groups.append(gi)
    params = ['6b31=i5', '6b32=s6162', '6b33', '61=t78', '7a=b0102']
    for n in (2, 3, 4, 5):
        gs = [f'sh.ser.pl 6c6162;{";".join(p)}' for p in perms(rng, params[:n])]
        groups.append(gs)
    subs = [hexs(u) + '^-^' + 'aa' * 32 + '~' + hexs(b'digest/mi-sha256-03') for u in (b'https://example.com/a', b'https://example.com/b', b'https://example.com/c', b'/d')]
    for n in (2, 3, 4):
        groups.append([f'bsig.subset {hexs(b"https://example.com/v")}|{"bb" * 32}|5|10|{",".join(p)}' for p in perms(rng, subs[:n])])
    # names that collide after case folding / canonicalisation: whatever the serializer does with them (refuse, merge) must not
    # depend on Go's randomised map iteration: every insertion order, and the same call repeated many times
    coll = [(b'X-Variant', [b'first']), (b'x-variant', [b'second']), (b'Content-Type', [b'text/html']), (b'X-VARIANT', [b'third'])]
    for n in (2, 3, 4):
        for ver in ('b1', 'b2', 'b3'):
            gc, gw = [], []
            for p in perms(rng, coll[:n]):
                e = ex(ver, b'https://example.com/', b'GET', [], 200, list(p), b'sig', b'payload')
                gc += [f'sxg.hdr {exs(e)}'] * 3; gw += [f'sxg.write {exs(e)}'] * 2
            groups += [gc, gw]
        gb = []
        for p in perms(rng, coll[:n]):
            for bv in ('b1', 'b2'):
                pass
            gb += [f'bundle.write {bundle("b2", b"https://example.com/", None, None, [exch(b"https://example.com/", 200, list(p), b"body")])}'] * 4
        groups.append(gb)
        gb1 = []
        for p in perms(rng, coll[:n]):
            gb1 += [f'bundle.write {bundle("b1", b"https://example.com/", None, None, [exch(b"https://example.com/", 200, list(p), b"body")])}'] * 4
        groups.append(gb1)
    # plain repetition of every first op of a group (purity under repetition)
    for g in list(groups):
        groups.append([g[0]] * 12)
    flat = [op for g in groups for op in g]
    gres, mres = ctx.both(flat)
    i = 0
    for g in groups:
        outs = set(gres[i:i + len(g)])
        if len(outs) > 1:
            ctx.records.append((f'permutation-invariance {g[0].split(" ")[0]} ({len(g)} insertion orders)', f'{len(outs)} different outputs', '1 output'))
        i += len(g)
    # repetition / interleaving in one process: the same ops again, interleaved with unrelated ones
    inter = []
    for g in groups[::3]:
        inter += [g[0], 'cbor.enc 1 u5', g[-1], g[0]]
    ctx.both(inter)
    # memory purity, deterministic: kept results are not clobbered by later calls, scribbling over a result does not change later
    # outputs, spare capacity behind an input slice is not written (pooled buffers, package-level slices, append on the input)
    rops = []
    for a in range(len(subs)):
        for b_ in range(len(subs)):
            if a != b_:
                rops.append(f'c18.retain subset {hexs(b"https://example.com/v")}|{"bb" * 32}|5|10|{subs[a]} {hexs(b"https://other.example/w")}|{"cc" * 32}|7|12|{",".join(subs[b_:] + subs[:b_])}')
    for ver in ('b1', 'b2'):
        rops.append(f'c18.retain magic {ver} {bundle(ver, b"https://example.com/", None, None, [exch(b"https://example.com/", 200, H[:2], b"body")])}')
    rops.append(f'c18.retain ib f09f968bf09f93a6:31620000:{"&".join(hexs(x) + "=" + hexs(y) for x, y in attrs)}*{hexs(b"sig")}')
    for d in ('02', '03'):
        for rs_, n in ((16, 0), (16, 1), (16, 16), (16, 40), (1, 3), (4096, 100), (7, 50)):
            rops.append(f'c18.retain mice {d} {rs_} {hexs(rbytes(rng, n))}')
    ctx.both(rops)
    # process history: every version-dispatched serializer, all versions interleaved in ONE process, once per starting version
    # (a value computed once per process and not keyed by the version makes the answer depend on which version came first)
    signedsub = hexs(rbytes(rng, 37))
    for first in (0, 1, 2):
        bv = ['b1', 'b2'] if first % 2 == 0 else ['b2', 'b1']
        sv = ['b1', 'b2', 'b3'][first:] + ['b1', 'b2', 'b3'][:first]
        md = ['02', '03'] if first % 2 == 0 else ['03', '02']
        hops = []
        for rnd in range(2):
            for v in bv:
                hops.append(f'bsig.msg {signedsub} {v}')
                hops.append(f'bundle.write {bundle(v, b"https://example.com/", None, None, [exch(b"https://example.com/", 200, H[:2], b"body")])}')
            for v in sv:
                ev = ex(v, b'https://example.com/', b'GET', [], 200, H[:3], b'sig', b'payload')
                hops.append(f'sxg.msg {exs(ev)} {"ab" * 32} {hexs(b"https://example.com/v")} 5 10')
                hops.append(f'sxg.write {exs(ev)}')
                hops.append(f'sxg.hdr {exs(ev)}')
            for d in md:
                hops.append(f'mice.enc {d} 16 {hexs(b"forty bytes of payload, more or less....")}')
        ctx.both(hops)
    # WriteTo observes: the bundle (incl. URL objects shared between the primary / manifest URL and an exchange) is the same afterwards,
    # and a second WriteTo gives the same bytes (both checked inside the harness op)
    fr = []
    for v, pu, mu in (('b2', b'https://example.com/#top', None), ('b2', b'https://example.com/p?q#f', None), ('b1', b'https://example.com/', b'https://example.com/m#frag'), ('b1', b'https://example.com/#top', None)):
        exs_ = [exch(pu, 200, H[:2], b'body'), exch(b'https://example.com/other', 200, H[:1], b'o')] + ([exch(mu, 200, [], b'm')] if mu else [])
        fr.append(f'bundle.write {bundle(v, pu, mu, None, exs_)}')
        fr.append(f'bundle.write.plain {bundle(v, pu, mu, None, exs_)}')
    ctx.both(fr)
    # object history: one Signer used first with certificate A, then (Certs replaced) with certificate B
    rot = []
    for v in ('b1', 'b2', 'b3'):
        ev = ex(v, b'https://example.com/', b'GET', [], 200, H[:3], b'', b'payload')
        for ka in w.keys[:3]:
            for kb in w.keys[:3]:
                rot.append(f'sxg.sign.mock.rotate {exs(ev)} {ka["cert"]} {kb["cert"]} {hexs(b"https://example.com/c")} {hexs(b"https://example.com/v")} 5 10')
    ctx.both(rot)
    # repetition on the same object: the bundle Signer asked twice for its vouched subset (bsig.sign checks the second answer inside the
    # harness), the web-bundle hash computed from a handle that has been read from before
    kS = w.keys[0]
    rep = []
    for v in ('b1', 'b2'):
        bb = bundle(v, b'https://example.com/', None, None, [exch(b'https://example.com/', 200, H[:2], b'body'), exch(b'https://example.com/2', 200, H[:1], b'two')])
        rep.append(f'bsig.sign {bb} 16 {kS["cert"]}:{hexs(b"ocsp")}:nil {kS["key"]} {hexs(b"https://example.com/validity")} 1517418800 3600')
    for op, r in zip(rep, ctx.go(rep)):
        ctx.records.append((f'c18.signer-asked-twice {op.split(" ")[1]}', (r or 'crash').split(' ')[0] + (' ' + ' '.join((r or '').split(' ')[1:3]) if r and r.startswith('err') else ''), 'ok'))
    hh = []
    for n_ in (0, 1, 10, 100, 1000):
        data = rbytes(rng, 300)
        hh += [f'ib.sha512.handle {hexs(data)} {n_}']
    ctx.both(hh)
    # concurrency under the race detector
    G, R = (64, 20) if thorough else (8, 10)
    e3 = ex('b3', b'https://example.com/', b'GET', [], 200, H[:4], b'sig', b'payload' * 50)
    e1 = ex('b1', b'https://example.com/', b'GET', H[:3], 200, H[:4], b'sig', b'payload')
    grp = variants_group(rng, b'https://example.com/v', [(b'Accept-Language', [b'en', b'fr'])])
    sigs = f'{k["cert"]}:{hexs(b"o")}:nil/0:{hexs(b"sig")}:{hexs(b"signed")}'
    conc = [f'bundle {bundle("b1", b"https://example.com/v", None, sigs, [e for e, c in grp] + [exch(b"https://example.com/", 200, H[:3], b"x" * 200)])}',
            f'bundle {bundle("b2", b"https://example.com/", None, None, [exch(b"https://example.com/%d" % i, 200, H[:2], b"y" * i) for i in range(6)])}',
            f'sxg {exs(e3)}', f'sxg {exs(e1)}', f'hdr {exs(e1)}',
            f'msg {exs(e3)} {k["cert"]} {hexs(b"https://example.com/c")} {hexs(b"https://example.com/v")} 5 10',
            f'msg {exs(e1)} {k["cert"]} {hexs(b"https://example.com/c")} {hexs(b"https://example.com/v")} 5 10',
            f'cert {k["cert"]}:{hexs(b"ocsp")}:{hexs(b"sct")},{w.keys[1]["cert"]}:nil:nil',
            f'ib f09f968bf09f93a6:31620000:{"&".join(hexs(x) + "=" + hexs(y) for x, y in attrs)}*{hexs(b"sig")}',
            f'sh 6c6162;{";".join(params)}', f'subset {hexs(b"https://example.com/v")}|{"bb" * 32}|5|10|{",".join(subs)}',
            f'mice 03 16 {hexs(rbytes(rng, 100))}', f'mice 02 7 {hexs(rbytes(rng, 50))}']
    ops = [f'c18.conc {G} {R} {rng.randrange(10**6)} {c}' for c in conc for _ in range(2 if not thorough else 6)]
    ops += conc_sign_ops(rng, w, G, R, H)
    res, race = ctx.go_race(ops)
    for op, r in zip(ops, res):
        ctx.records.append((op, (r or 'crash').split(' ')[0], 'same'))
    if race:
        ctx.records.append(('race-detector report on c18.conc histories: ' + race[:400].replace('\n', ' | '), 'DATA RACE', 'no race'))
