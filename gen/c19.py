from common import *
from bundlelib import bundle, exch, rand_bundle, sxg_setup, variants_group
from sxglib import ex, exs, rand_exchange

THEOREMS = ['C19.runChecked_spec', 'C19.checked_never_partial_success', 'C19.counted_le', 'C19.dropped_error_is_visible']
TRUSTED = ['that every destination-facing write of the real serializers is checked is NOT proved from the Go source: it is established per run by exhaustive fault enumeration (every failure position of every artifact, both fault modes) against the trace theorem\'s prediction',
           'Go stdlib bytes.Buffer.WriteTo / io.Copy error propagation']
ASSUMPTIONS = ['a failed destination keeps failing; empty writes never fail']
RULE = ('for each serializer (bundle incl. sections/variants/signatures, signed exchange b1/b2/b3, header dump, cert chain, MI encoder both drafts, CBOR encoder scripts) and representative artifacts: '
        'EVERY failure position k in [0, |out|] x {short write, error return}; compared: error vs success, accepted bytes are a prefix of the fault-free output, |accepted| <= k (= k for short writes), returned count = accepted (bundle); '
        'the same against destinations with optional capabilities (fault.dest: Flush() error non-sticky / sticky / void, Sync+Close, WriteString+WriteByte, ReadFrom, all, bufio.Writer 16 / 4096 flushed by the caller): every k; '
        'non-trivial = k < |out| (a fault is actually injected)')
EXHAUSTIVE = {'quick': 'every k in [0,|out|] for each of the artifacts listed in samples, both fault modes', 'thorough': 'every k in [0,|out|] for each artifact, both fault modes'}

agree = Base.agree; signature = Base.signature; explain = Base.explain


def nontrivial(op, m):
    return m.startswith('err')


def classify(op, m):
    t = op.split(' ')
    if t[0] == 'fault.dest':
        return f'fault.dest:{t[1]}:{t[2]}:{m.split(" ")[0]}'
    if t[0] != 'fault':
        return f'{t[0]}:{t[1]}:{m.split(" ")[0]}'
    return f'fault:{t[1]}:{t[3]}:{m.split(" ")[0]}'


def artifacts(rng, w, thorough):
    arts = []
    k = w.keys[0]
    sigs = f'{k["cert"]}:{hexs(b"o")}:nil/0:{hexs(b"sig")}:{hexs(b"signed")}'
    arts.append(('bundle', bundle('b2', b'https://example.com/', None, None, [exch(b'https://example.com/', 200, [(b'Content-Type', [b'text/html'])], b'hello')])))
    arts.append(('bundle', bundle('b1', b'https://example.com/', b'https://example.com/m', None, [exch(b'https://example.com/', 200, [(b'A', [b'1']), (b'B', [b'2', b'3'])], b'x' * 30), exch(b'https://example.com/2', 404, [], b'')])))
    arts.append(('bundle', bundle('b2', b'https://example.com/', None, sigs, [exch(b'https://example.com/', 200, [], b'x')])))
    grp = variants_group(rng, b'https://example.com/v', [(b'Accept-Language', [b'en', b'fr'])])
    arts.append(('bundle', bundle('b1', b'https://example.com/v', None, None, [e for e, c in grp])))
    arts.append(('bundle', bundle('b2', None, None, None, [])))
    for ver in ('b1', 'b2', 'b3'):
        e = ex(ver, b'https://example.com/', b'GET', [(b'Accept', [b'*/*'])] if ver != 'b3' else [], 200, [(b'Content-Type', [b'text/html']), (b'Foo', [b'Bar', b'Baz'])], b'label;sig=*AAAA*', b'payload bytes')
        arts.append(('sxg', exs(e)))
        arts.append(('hdr', exs(e)))
    arts.append(('cert', f'{k["cert"]}:{hexs(b"ocsp")}:{hexs(b"sct")}'))
    arts.append(('cert', f'{k["cert"]}:{hexs(b"ocsp")}:nil,{w.keys[1]["cert"]}:nil:nil'))
    for d in ('02', '03'):
        for rs, n in ((4, 0), (4, 9), (16, 16), (3, 1)):
            arts.append(('mice', f'{d} {rs} {hexs(rbytes(rng, n))}'))
    arts.append(('cbor', '3 u500 b0102 m2 k1 t62 v1 u1 k1 t61 v2 a1 o1'))
    arts.append(('cbor', '1 m0'))
    # every head width as the LAST thing written (a lost error can only hide in a serializer's final write): 1, 2, 3, 5, 9 byte heads
    for tok in ('u5', 'u200', 'u70000', 'u4294967296', 'u18446744073709551615', 'i-1099511627776', 'i-300', 'a8589934592', 'a70000', 'o1'):
        arts.append(('cbor', '1 ' + tok))
        arts.append(('cbor', '2 u1 ' + tok))
    if thorough:
        for _ in range(20):
            arts.append(('bundle', rand_bundle(rng, rng.choice(['b1', 'b2']), w, nex=rng.randrange(1, 4))))
            arts.append(('sxg', exs(rand_exchange(rng, rng.choice(['b1', 'b2', 'b3'])))))
    return arts


# what the destination can do besides Write (a serializer may type-assert for it): Flush() error that does NOT repeat an earlier write
# error / that does (bufio-like) / without a result (http.Flusher), Sync+Close, WriteString+WriteByte, ReadFrom, all of them, and real
# bufio.Writers (flushed by their owner after a successful return; that Flush error counts)
DEST_KINDS = ['flush', 'flushsticky', 'flushvoid', 'syncclose', 'string', 'readfrom', 'all', 'bufio16', 'bufio4096']


def dest_kind_ops(arts, lens):
    """fault positions of every artifact against every destination kind; same expectation as the plain `fault` op (the model side is an
    alias). Every k in both fault modes for the bundle serializer x the kinds with a Flush() error method and a real bufio.Writer; every k,
    modes alternating, for the bundle serializer x the other kinds and for every other serializer x flush / all; every 4th k and both
    ends for the rest."""
    ops = []
    for (kind, a), ln in zip(arts, lens):
        if not ln or not ln.startswith('ok '):
            continue
        n = int(ln.split(' ')[1])
        for dk in DEST_KINDS:
            both_modes = kind == 'bundle' and dk in ('flush', 'flushsticky', 'all', 'bufio16')
            every = kind == 'bundle' or dk in ('flush', 'all')
            for k in range(0, n + 1):
                if not every and k % 4 and k not in (1, n - 1, n):
                    continue
                for mode in (('short', 'error') if both_modes else (('short', 'error')[(k + len(dk)) % 2],)):
                    ops.append(f'fault.dest {dk} {kind} {k} {mode} {a}')
            ops.append(f'fault.dest {dk} {kind} {n + 5} short {a}')
    return ops


def run(ctx):
    rng, thorough = ctx.rng, ctx.tier == 'thorough'
    w = sxg_setup(ctx)
    arts = artifacts(rng, w, thorough)
    lens = ctx.go([f'faultlen {kind} {a}' for kind, a in arts])
    sites = ctx.go([f'faultsites {kind} {a}' for kind, a in arts])
    ctx.both([f'faultlen {kind} {a}' for kind, a in arts])
    ops = []
    cover = []
    for (kind, a), ln, st in zip(arts, lens, sites):
        if not ln or not ln.startswith('ok '):
            continue
        n = int(ln.split(' ')[1])
        cover.append(dict(kind=kind, out_len=n, write_calls=int(st.split(' ')[1]) if st and st.startswith('ok ') else None))
        for k in range(0, n + 1):
            for mode in ('short', 'error'):
                ops.append(f'fault {kind} {k} {mode} {a}')
        ops.append(f'fault {kind} {n + 5} short {a}')
        # object history: the faulted call is the FIRST use of the object, which is then serialised again fault-free (every 3rd position)
        if kind in ('sxg', 'hdr', 'cert', 'bundle'):
            for k in range(0, n + 1, 3):
                ops.append(f'fault.retry {kind} {k} {"short" if k % 2 else "error"} {a}')
    # a payload past 1 MiB (written in one piece or in several): fault positions sampled across it and exhaustively near its end
    for ver in ('b1', 'b2', 'b3'):
        e = list(ex(ver, b'https://example.com/', b'GET', [], 200, [(b'Content-Type', [b'text/html'])], b'label;sig=*AAAA*', b''))
        for n_ in (2**20 + 1, 2**20 + 70000):
            e[7] = f'rep:cd:{n_}'
            a = exs(e)
            total = ctx.go([f'faultlen sxg {a}'])[0]
            if not (total and total.startswith('ok ')): continue
            T_ = int(total.split(' ')[1])
            ks = sorted(set(list(range(0, T_, 65521)) + list(range(T_ - 40, T_ + 1)) + [T_ - n_ - 1, T_ - n_, T_ - n_ + 1, T_ - n_ + 2**20 - 1, T_ - n_ + 2**20, T_ - n_ + 2**20 + 1]))
            for k_ in ks:
                if 0 <= k_ <= T_:
                    ops.append(f'fault sxg {k_} {"short" if k_ % 2 else "error"} {a}')
    ctx.stats = dict(artifacts=cover)
    ctx.both(ops)
    ctx.both(dest_kind_ops(arts, lens))
    # byte accounting of the CountingWriter under faults delivered as short writes / plain errors (compared with Model/CountingWriter)
    import c04
    ctx.both([o for o in c04.cw_ops(rng, 100 if not thorough else 2000) if o.split(' ')[1] in ('short', 'hard')])
    # the destination is itself a CountingWriter that has already counted something: the count returned is this bundle's alone
    ctx.both([f'bundle.write.cw {a}' for kind, a in arts if kind == 'bundle'])

