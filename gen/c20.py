"""C20 — command-line tools compose. Builds the real binaries from /repo's working tree into a scratch
directory (removed afterwards), runs them on generated inputs, and compares what the downstream tool / library
reader finds with the model's prediction (URLs via the proved path→URL model, bodies = file bytes)."""
from common import *
from sxglib import H, unhex
from bundlelib import read_stage
import os, subprocess, tempfile, shutil, hashlib, json, base64

THEOREMS = ['C20Har.har_sublist / har_headers_clean / har_duplicates_have_variants / har_first_kept / har_bundle_read_back (gen-bundle -har)', 'C20.pathToURL_injective', 'C20.escapePath_safe', 'C20.unescape_escapePath', 'C03/C04/C05 (bundle round trip / well-formedness / reader)', 'C17.read_write', 'C02.honest_verifies', 'C07.output_layout', 'C06 (signatures section)']
TRUSTED = ['PARTIAL: flag parsing, PEM/PKCS#8 decoding (incl. encrypted keys), http.ServeFile (content sniffing, redirects, Last-Modified), filepath.Walk and the OS are exercised through the real binaries, not modelled',
           'OCSP fetching needs the network: always -ocsp <file>']
ASSUMPTIONS = ['base URL ends with "/" and file names are valid UTF-8 without NUL or "/"', 'HAR header values are ASCII (DESIGN O7)']
RULE = ('real binaries built from the working tree: gen-bundle -dir on generated trees (names with space # ? % : non-ASCII, nested directories, empty files, index.html) x b1/b2 -> dump-bundle exit status, library read of the bundle: '
        'exactly one exchange per regular file at base+percent-encoded path with the file bytes, directory slash URL serving index.html and index.html redirecting; gen-bundle -har; sign-bundle signatures-section (EC SEC1 / PKCS#8 keys) -> dump-bundle verifies; '
        'sign-bundle integrity-block (Ed25519 PKCS#8 plain and encrypted) -> output = block + original, dump-id = model ID; gen-certurl -> dump-certurl; gen-signedexchange (3 versions, record sizes, date/expire) -> dump-signedexchange -verify; '
        'non-trivial = a tool run')
EXHAUSTIVE = {}

agree = Base.agree; nontrivial = Base.nontrivial; signature = Base.signature; explain = Base.explain

GOENV = dict(os.environ, GOFLAGS='-mod=mod', GOPROXY='off', GOSUMDB='off', GOTOOLCHAIN='local')
REPO = os.environ.get('VERIF_REPO', '/repo')


def classify(op, m):
    return op.split(' ')[0] + ':' + m.split(' ')[0]


def sh(cmd, cwd=None, env=None, inp=None, stdin_path=None):
    if stdin_path is not None:      # stdin redirected from a regular file (tool < file), not a pipe
        with open(stdin_path, 'rb') as f:
            p = subprocess.run(cmd, cwd=cwd, env=env, stdin=f, stdout=subprocess.PIPE, stderr=subprocess.PIPE, timeout=120)
    else:
        p = subprocess.run(cmd, cwd=cwd, env=env, input=inp, stdout=subprocess.PIPE, stderr=subprocess.PIPE, timeout=120)
    return p.returncode, p.stdout, p.stderr


NAMES = ['plain.txt', 'sp ace.txt', 'h#frag.txt', 'a?b', 'p%41', 'c:d.txt', 'ü.txt', '日本.html', 'semi;colon', 'eq=x&y', 'plus+.js', "quote'.css", 'tilde~', 'at@sign', 'dollar$', 'excl!', 'paren(1)', 'star*', 'comma,', 'brackets[]',
         'pipe|', 'back\\slash', 'caret^', 'grave`', 'curly{}', 'percent%zz', 'dot.', '.hidden', 'UPPER.TXT', 'empty.bin', 'tab\tname', 'lt<gt>', 'dq"uote']


def make_tree(rng, root, nfiles):
    """returns dict rel path -> bytes (regular files)"""
    files = {}
    dirs = ['']
    for d in rng.sample(['sub', 'a b', 'deep/er', 'q?d', 'h#d', '.well-known'], rng.randrange(0, 3)):
        dirs.append(d)
    for _ in range(nfiles):
        d = rng.choice(dirs)
        n = rng.choice(NAMES)
        rel = (d + '/' if d else '') + n
        files[rel] = b'' if n == 'empty.bin' else rbytes(rng, rng.choice([1, 10, 300])) if rng.random() < 0.5 else ('content of ' + rel).encode()
    for d in dirs:
        if rng.random() < 0.5:
            files[(d + '/' if d else '') + 'index.html'] = ('<html>' + (d or 'root') + '</html>').encode()
    for rel, data in files.items():
        p = os.path.join(root, rel)
        os.makedirs(os.path.dirname(p), exist_ok=True)
        with open(p, 'wb') as f:
            f.write(data)
    return files


def tree_tokens(files):
    """preorder tokens of the directory tree for the model's c20.walk: f<hex> | d<n> (<name hex> <node>)*; children in the order
    filepath.Walk visits them (sorted by name, bytewise)"""
    root = {}
    for rel, data in files.items():
        parts = rel.encode().split(b'/')
        d = root
        for pth in parts[:-1]:
            d = d.setdefault(pth, {})
        d[parts[-1]] = data
    def enc(node):
        if isinstance(node, bytes):
            return ['f' + hexs(node)]
        out = ['d%d' % len(node)]
        for name in sorted(node):
            out += [hexs(name)] + enc(node[name])
        return out
    return ' '.join(enc(root))


def stale(path, n):
    """an output file left over from an earlier run (longer or shorter than what will be written)"""
    with open(path, 'wb') as f:
        f.write(b'\xaa' * n)


def ib_cli_stage(ctx, rng, nruns=6):
    """the integrity-block path of the real sign-bundle binary: output = block || untouched original bytes, whatever was at the
    output path before; compared with the model (Model/IntegrityBlock.signFile). Also used by the C07 check."""
    T = tempfile.mkdtemp(prefix='verif-ibcli-', dir=os.environ.get('TMPDIR', '/tmp'))
    try:
        bindir = os.path.join(T, 'bin'); os.makedirs(bindir)
        rc, out, err = sh(['go', 'build', '-o', bindir + '/', './go/bundle/cmd/sign-bundle'], cwd=REPO, env=GOENV)
        if rc != 0:
            ctx.infra.append('building sign-bundle failed: ' + err.decode()[-300:]); return
        r = ctx.go([f'setup.pem ed25519-pkcs8 {hexs(b"example.com")} {hexs(b"s3cret")}'])[0]
        if not (r and r.startswith('ok ')):
            ctx.infra.append('setup.pem failed'); return
        _, kp, cp, pp, raw = r.split(' ')
        keypem = os.path.join(T, 'k.pem'); open(keypem, 'wb').write(unhex(kp))
        for i in range(nruns):
            data = bytes([0x84, 0x48]) + rbytes(rng, [16, 300, 5000, 40][i % 4]) + (0).to_bytes(8, 'big')
            data = data[:-8] + len(data).to_bytes(8, 'big')           # trailing length = file size: "no integrity block yet"
            inp = os.path.join(T, f'in{i}.wbn'); open(inp, 'wb').write(data)
            outp = os.path.join(T, f'out{i % 2}.swbn')               # output paths are reused: run i+2 finds run i's file there
            pre = ['absent', 'longer', 'shorter', 'same-size'][i % 4] if i >= 2 else 'absent'
            if pre == 'longer': stale(outp, len(data) + 4000)
            elif pre == 'shorter': stale(outp, 7)
            elif pre == 'same-size': stale(outp, len(data) + 150)
            rc7, out7, err7 = sh([os.path.join(bindir, 'sign-bundle'), 'integrity-block', '-i', inp, '-o', outp, '-privateKey', keypem])
            ctx.records.append((f'ibcli.exit run={i} output-before={pre}', 'exit %d' % rc7, 'exit 0'))
            if rc7 != 0: continue
            sdata = open(outp, 'rb').read()
            blocklen = len(sdata) - len(data)
            sig = sdata[blocklen - 64:blocklen] if blocklen > 64 else b''
            dts = ctx.model([f'ib.dts {hashlib.sha512(data).hexdigest()} f09f968bf09f93a6:31620000:. {hexs(b"ed25519PublicKey")}={raw}'])[0]
            vd = ctx.go([f'oracle.edverify {raw} {dts.split(" ")[1]} {hexs(sig)}'])[0] if dts and dts.startswith('ok ') else '0'
            mo = ctx.model([f'ib.signfile {hexs(data)} {raw} {hexs(sig)} {vd}'])[0]
            ctx.records.append((f'ibcli.output run={i} output-before={pre} in={len(data)}B', 'ok ' + hexs(sdata), mo))
    finally:
        shutil.rmtree(T, ignore_errors=True)


def ib_strategy_stage(ctx, rng, nruns=8):
    """SignWithIntegrityBlock (package main of cmd/sign-bundle, so out of the harness's reach) driven with signing strategies the command
    line never builds: the sign-bundle package is compiled with one overlay-only file (harness/overlay/go/bundle/cmd/sign-bundle) that feeds
    the function a strategy whose GetPublicKey answers follow a list. The model (signFile) asks for the key once: what is verified, what
    is recorded in the attributes and what the ID is computed from are one value. Expected output comes from the model alone."""
    T = tempfile.mkdtemp(prefix='verif-ibhook-', dir=os.environ.get('TMPDIR', '/tmp'))
    try:
        hook = os.path.join(os.path.dirname(os.path.dirname(os.path.abspath(__file__))), 'harness', 'overlay', 'go', 'bundle', 'cmd', 'sign-bundle', 'zz_verif_hook.go')
        ov = os.path.join(T, 'overlay.json')
        json.dump({'Replace': {os.path.join(os.path.realpath(REPO), 'go/bundle/cmd/sign-bundle/zz_verif_hook.go'): hook}}, open(ov, 'w'))
        binp = os.path.join(T, 'sign-bundle-hooked')
        rc, out, err = sh(['go', 'build', '-overlay', ov, '-o', binp, './go/bundle/cmd/sign-bundle'], cwd=REPO, env=GOENV)
        if rc != 0:
            ctx.infra.append('building the hooked sign-bundle failed: ' + err.decode()[-300:]); return
        seeds = [hexs(bytes([i + 1]) * 32) for i in range(3)]
        pks = ctx.go([f'oracle.edkey {s}' for s in seeds])
        if not all(pks):
            ctx.infra.append('oracle.edkey failed'); return
        jobs, lines = [], []
        for i in range(nruns):
            data = bytes([0x84, 0x48]) + rbytes(rng, [16, 300, 2000, 40][i % 4]) + (0).to_bytes(8, 'big')
            data = data[:-8] + len(data).to_bytes(8, 'big')
            # answers of the key store, call by call: constant and right; right then different; constant and wrong; wrong then right;
            # right twice then different
            seq = [[pks[0]], [pks[0], pks[1]], [pks[1]], [pks[1], pks[0]], [pks[0], pks[0], pks[2]], [pks[0], pks[2], pks[0]]][i % 6]
            inp, outp = os.path.join(T, f'in{i}.wbn'), os.path.join(T, f'out{i}.swbn')
            open(inp, 'wb').write(data)
            jobs.append((i, data, seq, outp)); lines.append(f'{inp} {outp} {seeds[0]} {",".join(seq)}')
        rc, out, err = sh([binp], env=dict(os.environ, VERIF_IBCLI_HOOK='1'), inp=('\n'.join(lines) + '\n').encode())
        res, ids, cur = [], [], []
        for l in out.decode().splitlines():
            if l.startswith('VERIFHOOK '):
                res.append(l.split(' ', 1)[1]); ids.append(cur); cur = []
            elif l.startswith('Web Bundle ID: '):
                cur.append(l[len('Web Bundle ID: '):].strip())
        if rc != 0 or len(res) != len(jobs):
            ctx.infra.append(f'hooked sign-bundle: exit {rc}, {len(res)} answers for {len(jobs)} jobs: ' + err.decode()[-200:]); return
        for (i, data, seq, outp), r, idl in zip(jobs, res, ids):
            pk = seq[0]
            dts = ctx.model([f'ib.dts {hashlib.sha512(data).hexdigest()} f09f968bf09f93a6:31620000:. {hexs(b"ed25519PublicKey")}={pk}'])[0]
            if not (dts and dts.startswith('ok ')):
                ctx.infra.append('ib.dts failed in the model'); return
            sig = ctx.go([f'oracle.edsign {seeds[0]} {dts.split(" ")[1]}'])[0]
            vd = ctx.go([f'oracle.edverify {pk} {dts.split(" ")[1]} {sig}'])[0]
            mo = ctx.model([f'ib.signfile {hexs(data)} {pk} {sig} {vd}'])[0]
            got = r
            if r == 'ok':
                got = 'ok ' + hexs(open(outp, 'rb').read())
            if r == 'ok':          # the ID reported with a successful signing is the ID of the key recorded in the block
                mid = ctx.model([f'ib.id {pk}'])[0]
                ctx.records.append((f'ibhook.reported-id run={i} key-answers={"/".join(p[:8] for p in seq)}', ' '.join(hexs(x.encode()) for x in idl), (mid or 'err').replace('ok ', '')))
            ctx.records.append((f'ibhook.sign run={i} in={len(data)}B key-answers={"/".join(p[:8] for p in seq)} signing-key={pks[0][:8]}', got, mo))
    finally:
        shutil.rmtree(T, ignore_errors=True)


SXG_URIS = ['https://example.com/page%d.html', 'https://example.com/caf\u00e9-%d.html', 'https://example.com/hello world %d.html', 'HTTPS://example.com/index%d.html', 'https://example.com/a|b%d',
            'https://example.com/p%d#', 'https://EXAMPLE.com/p%d', 'https://example.com/%%7Euser/%d', 'https://example.com/x%d?', 'https://example.com:443/q%d']


def sxg_cli_core(ctx, rng, thorough, T, B, keys, wfile):
    """gen-certurl -> gen-signedexchange -> dump-signedexchange -verify over the real binaries: every accepted PEM form, versions,
    record sizes, output to a fresh file / over an existing longer file / to stdout, input through -i / stdin, defaulted and explicit
    content type, URL spellings that a parse / re-serialise step would change. Also used by the C08 and C02 checks."""
    ocsp = wfile('sxgo.der', b'dummy-ocsp')
    n = 6 if not thorough else 40
    for i in range(n):
        ver = rng.choice(['1b1', '1b2', '1b3'])
        kname = ['ec-sec1-params-p256', 'ec-sec1-p256', 'ec-pkcs8-p256', 'ec-pkcs8-p384'][i % 4]      # every accepted PEM form, in turn
        kk = keys[kname]
        certpem, keypem = wfile(f'sx{i}c.pem', kk['cert']), wfile(f'sx{i}k.pem', kk['key'])
        rc, chainbytes, _ = sh([B('gen-certurl'), '-pem', certpem, '-ocsp', ocsp])
        chain = wfile(f'sx{i}chain.cbor', chainbytes)
        content = wfile(f'content{i}.html', rbytes(rng, [5000, 100, 1, 0, 40000][i % 5]))
        outp = os.path.join(T, f'out{i}.sxg')
        rs = [16384, 16, 1, 4096][i % 4]
        uri = (SXG_URIS[i % len(SXG_URIS)] if i % 2 == 1 else SXG_URIS[0]) % i
        cmd = [B('gen-signedexchange'), '-version', ver, '-uri', uri, '-content', content, '-certificate', certpem, '-privateKey', keypem,
               '-certUrl', 'https://example.com/cert.cbor', '-validityUrl', 'https://example.com/validity', '-miRecordSize', str(rs), '-expire', rng.choice(['1h', '168h', '1m']), '-o', outp,
               '-responseHeader', 'X-Extra: v1', '-responseHeader', 'X-Extra: v2']
        # the output channel is an input dimension too: '-o -' sends the exchange to stdout (nothing else may be printed there), with
        # and without an explicit content-type response header (the default one is filled in by the tool); a file output lands on a path
        # that already holds a longer file (a previous, bigger version of the page)
        via_stdout = i % 3 != 0
        if i % 2 == 0: cmd += ['-responseHeader', 'Content-Type: text/html; charset=utf-8']
        if via_stdout:
            cmd[cmd.index('-o') + 1] = '-'
            if i % 4 == 1: cmd += ['-ignoreErrors']          # (only skips the tool's self-check; must not change what goes to stdout)
        else:
            stale(outp, 100000)
            hd, sm = os.path.join(T, f'hd{i}.cbor'), os.path.join(T, f'sm{i}.bin')
            stale(hd, 50000); stale(sm, 50000)
            cmd += ['-dumpHeadersCbor', hd, '-dumpSignatureMessage', sm]
        rc, so, err = sh(cmd)
        if via_stdout and rc == 0:
            open(outp, 'wb').write(so)
        rec(ctx, f'c20.gen-signedexchange {ver} key={kname} rs={rs} stdout={via_stdout} ct={i % 2 == 0} uri={uri}', 'exit %d %s' % (rc, err.decode()[-160:].strip() if rc else ''), 'exit 0 ')
        if rc == 0:
            if i % 2 == 1:      # the reader fed through stdin: a pipe, or (tool < file) a regular file
                if i % 4 == 1:
                    rc2, out2, err2 = sh([B('dump-signedexchange'), '-verify', '-cert', chain, '-payload=false'], stdin_path=outp)
                else:
                    rc2, out2, err2 = sh([B('dump-signedexchange'), '-verify', '-cert', chain, '-payload=false'], inp=open(outp, 'rb').read())
            else:
                rc2, out2, err2 = sh([B('dump-signedexchange'), '-i', outp, '-verify', '-cert', chain, '-payload=false'])
            ok = b'The exchange has a valid signature' in out2 or b'valid' in out2.lower()
            rec(ctx, f'c20.dump-signedexchange-verify {ver} i={i}', f'exit {rc2} valid={ok}', 'exit 0 valid=True')
            if not via_stdout:
                # the two dump files are exactly the header block / the signed message of the file just written: compare with the library
                # reading that file (header block = bytes of the file; message ends with the header block's hash resp. the block itself)
                data = open(outp, 'rb').read()
                hdb, smb = open(hd, 'rb').read(), open(sm, 'rb').read()
                rec(ctx, f'c20.dumpHeadersCbor-is-a-slice-of-the-file i={i}', str(len(hdb) > 0 and hdb in data), 'True')
                rec(ctx, f'c20.dumpSignatureMessage-has-no-stale-tail i={i}', str(len(smb) < 50000 and len(hdb) < 50000), 'True')
    return content, certpem, keypem


def sxg_cli_stage(ctx, rng, thorough=False):
    """stand-alone form for other checks (C08: file layout as emitted by the tool; C02: what the tool writes reads back and verifies)"""
    T = tempfile.mkdtemp(prefix='verif-sxgcli-', dir=os.environ.get('TMPDIR', '/tmp'))
    try:
        bindir = os.path.join(T, 'bin'); os.makedirs(bindir)
        rc, out, err = sh(['go', 'build', '-o', bindir + '/', './go/signedexchange/cmd/...'], cwd=REPO, env=GOENV)
        if rc != 0:
            ctx.infra.append('building the signedexchange tools failed: ' + err.decode()[-300:]); return
        kinds = ['ec-sec1-p256', 'ec-pkcs8-p256', 'ec-pkcs8-p384', 'ec-sec1-params-p256']
        res = ctx.go([f'setup.pem {k} {hexs(b"example.com,www.example.com")} {hexs(b"s3cret")}' for k in kinds])
        keys = {}
        for k, r in zip(kinds, res):
            if r and r.startswith('ok '):
                _, kp, cp, pp, raw = r.split(' ')
                keys[k] = dict(key=unhex(kp), cert=unhex(cp), pub=unhex(pp), raw=raw)
        if len(keys) < len(kinds):
            ctx.infra.append('setup.pem failed'); return
        def wfile(name, data):
            p = os.path.join(T, name)
            with open(p, 'wb') as f: f.write(data)
            return p
        sxg_cli_core(ctx, rng, thorough, T, lambda n: os.path.join(bindir, n), keys, wfile)
    finally:
        shutil.rmtree(T, ignore_errors=True)



def sign_bundle_variants_stage(ctx, rng):
    """the real sign-bundle binary on bundles the signer has special cases for (b1 with several representations per URL, bundles with
    an exchange that cannot be added): it either refuses, or what it writes verifies completely (dump-bundle). Used by the C06 check."""
    import bundlelib
    T = tempfile.mkdtemp(prefix='verif-sbv-', dir=os.environ.get('TMPDIR', '/tmp'))
    try:
        bindir = os.path.join(T, 'bin'); os.makedirs(bindir)
        rc, out, err = sh(['go', 'build', '-o', bindir + '/', './go/bundle/cmd/sign-bundle', './go/bundle/cmd/dump-bundle', './go/signedexchange/cmd/gen-certurl'], cwd=REPO, env=GOENV)
        if rc != 0:
            ctx.infra.append('building sign-bundle failed: ' + err.decode()[-300:]); return
        r = ctx.go([f'setup.pem ec-pkcs8-p256 {hexs(b"example.com")} {hexs(b"s3cret")}'])[0]
        if not (r and r.startswith('ok ')):
            ctx.infra.append('setup.pem failed'); return
        _, kp, cp, pp, raw = r.split(' ')
        def wf(n, d):
            p_ = os.path.join(T, n); open(p_, 'wb').write(d); return p_
        certpem, keypem, ocsp = wf('c.pem', unhex(cp)), wf('k.pem', unhex(kp)), wf('o.der', b'dummy-ocsp')
        rc, chainb, _ = sh([os.path.join(bindir, 'gen-certurl'), '-pem', certpem, '-ocsp', ocsp])
        chain = wf('chain.cbor', chainb)
        specs = []
        grp = bundlelib.variants_group(rng, b'https://example.com/v', [(b'Accept-Language', [b'en', b'fr'])])
        specs.append(('b1-variants', bundlelib.bundle('b1', b'https://example.com/v', None, None, [e for e, c in grp] + [bundlelib.exch(b'https://example.com/o', 200, [], b'other')])))
        specs.append(('b1-plain', bundlelib.bundle('b1', b'https://example.com/', None, None, [bundlelib.exch(b'https://example.com/', 200, [(b'Content-Type', [b'text/plain'])], b'body'), bundlelib.exch(b'https://example.com/e', 200, [], b'')])))
        specs.append(('b2-plain', bundlelib.bundle('b2', b'https://example.com/', None, None, [bundlelib.exch(b'https://example.com/', 200, [(b'Content-Type', [b'text/plain'])], b'body')])))
        # a response that already carries a Digest field (an origin server's "sha-256=..."; empty; an MI digest): refuse, or produce something that verifies
        for dn, dv in (('sha256', b'sha-256=I/gyE1D1pnqVZ3OTHLPTzsy8FCO0nlSI6a3ru2zmRUc='), ('empty', b''), ('mi', b'mi-sha256-03=JpaUCJeCCZVr6BXnLqsMnZxNNWoaMJHmmPvgnDGdxU8=')):
            for ver in ('b1', 'b2'):
                specs.append((f'{ver}-digest-{dn}', bundlelib.bundle(ver, b'https://example.com/' if ver == 'b1' else None, None, None, [bundlelib.exch(b'https://example.com/', 200, [(b'Content-Type', [b'text/plain'])], b'plain'),
                              bundlelib.exch(b'https://example.com/digest.html', 200, [(b'Content-Type', [b'text/html']), (b'Digest', [dv])], b'<html>has a digest</html>')])))
        wr = ctx.go([f'bundle.write {b}' for _, b in specs])
        for (name, _), w_ in zip(specs, wr):
            if not (w_ and w_.startswith('ok ')): continue
            inp, outp = wf(name + '.wbn', unhex(w_.split(' ')[1])), os.path.join(T, name + '.signed.wbn')
            rc5, _, err5 = sh([os.path.join(bindir, 'sign-bundle'), 'signatures-section', '-i', inp, '-o', outp, '-certificate', chain, '-privateKey', keypem, '-validityUrl', 'https://example.com/validity', '-miRecordSize', '16'])
            verdict = 'refused'
            if rc5 == 0:
                rc6, out6, _ = sh([os.path.join(bindir, 'dump-bundle'), '-i', outp])
                bad = out6.count(b'verification error')
                verdict = 'signed-and-verifies' if (rc6 == 0 and bad == 0) else f'signed-but-exit={rc6}-verification-errors={bad}'
            ctx.records.append((f'c06.sign-bundle-cli {name}', 'consistent' if verdict in ('refused', 'signed-and-verifies') else verdict, 'consistent'))
    finally:
        shutil.rmtree(T, ignore_errors=True)


def har_model_stage(ctx, rng, thorough, T, B, wfile):
    """gen-bundle -har against the model of fromhar.go + main (Model/HarWalk.lean `genBundle`, theorems C20Har.har_*): HAR files are built from
    abstract entry lists; the model is given the same entries (URL String() through net/url on the Go side, bodies as decoded) and predicts
    `failed` or the exact bytes of the output file; what dump-bundle makes of the file is compared with the reader (both sides)."""
    GET, POST = 'GET', 'POST'
    U = 'https://example.com/h/'
    def ent(url, method=GET, status=200, res=(), req=(('Accept', '*/*'),), body=b'x', b64=None, badb64=False):
        return dict(url=url, method=method, status=status, res=list(res), req=list(req), body=body, b64=(len(body) % 2 == 1 or any(c >= 0x7f or c < 0x20 for c in body)) if b64 is None else b64, badb64=badb64)
    CT = ('Content-Type', 'text/plain')
    V = ('Variants', 'Accept-Language;en;fr')
    VK1, VK2 = ('Variant-Key', 'en'), ('Variant-Key', 'fr')
    hars = []
    # 1. filters: method spellings, status edges, pseudo headers, every uncached / stateful name in three letter cases
    hars.append(('filters', [ent(U + 'a', res=[CT, (':status', '200'), ('Set-Cookie', 'a=b'), ('X-Ok', 'fine')], body=b'alpha'),
                             ent(U + 'post', method=POST), ent(U + 'lower', method='get'), ent(U + 'head', method='HEAD'), ent(U + 'empty', method=''),
                             ent(U + 's99', status=99), ent(U + 's100', status=100, body=b''), ent(U + 's999', status=999), ent(U + 's1000', status=1000),
                             ent(U + 's0', status=0), ent(U + 'sneg', status=-200), ent(U + 'b', res=[CT], body=b'beta!')], U + 'a'))
    unc = ['Connection', 'Keep-Alive', 'Proxy-Connection', 'Trailer', 'Transfer-Encoding', 'Upgrade', 'Authentication-Control', 'Authentication-Info', 'Clear-Site-Data',
           'Optional-WWW-Authenticate', 'Proxy-Authenticate', 'Proxy-Authentication-Info', 'Public-Key-Pins', 'Sec-WebSocket-Accept', 'Set-Cookie', 'Set-Cookie2', 'SetProfile',
           'Strict-Transport-Security', 'WWW-Authenticate', 'Public-Key-Pins-Report-Only']
    cased = []
    for i, n in enumerate(unc):
        cased += [(n, 'v%d' % i), (n.lower(), 'l%d' % i), (n.upper(), 'u%d' % i), (n + 'x', 'near%d' % i), ('X-' + n, 'pre%d' % i)]
    hars.append(('uncached-names', [ent(U + 'u', res=[CT] + cased, req=[('Cookie', 'c=1'), ('authorization', 'x'), ('Accept', 'a')], body=b'u-body')], U + 'u'))
    # 2. repeated header names (Add appends), mixed case of the same name, names that are not tokens, empty value, ':'-names in the middle
    hars.append(('repeats', [ent(U + 'r', res=[('x-a', '1'), ('X-A', '2'), ('X-a', ''), CT, ('content-type', 'text/html'), ('Has Space', 'v'), (':x', 'y'), ('trailing:', 'z'), ('', 'noname')], body=b'rr')], U + 'r'))
    # 3. the duplicate-URL rule: every pattern of (has Variants?) over two and three entries of one URL, other URLs interleaved; b1 and b2
    for pat in ('NN', 'VN', 'NV', 'VV', 'VVV', 'VVN', 'NVV', 'VNV'):
        es = []
        for i, c in enumerate(pat):
            es.append(ent(U + 'dup', res=[CT] + ([V, VK1 if i % 2 == 0 else VK2] if c == 'V' else []), body=('rep%d' % i).encode(), b64=False))
            es.append(ent(U + 'other%d' % i, res=[CT], body=b'o'))
        hars.append(('dup-' + pat, es, U + 'dup'))
    # the Variants name in other letter cases is the same header (Add canonicalises), a near-miss name is not
    hars.append(('dup-case', [ent(U + 'dup', res=[CT, ('variants', 'Accept-Language;en;fr'), VK1], body=b'r0'), ent(U + 'dup', res=[CT, ('VARIANTS', 'Accept-Language;en;fr'), VK2], body=b'r1'),
                              ent(U + 'dup', res=[CT, ('Variant', 'Accept-Language;en;fr'), VK2], body=b'r2')], U + 'dup'))
    # two spellings that url.Parse(...).String() maps to one key
    hars.append(('dup-spelling', [ent('https://example.com/h/sp ace', res=[CT], body=b'first'), ent('https://example.com/h/sp%20ace', res=[CT], body=b'second'), ent('HTTPS://example.com/h/sp%20ace', res=[CT], body=b'third')], 'https://example.com/h/sp%20ace'))
    # 4. errors abort the run whatever the entry's method / status: unparsable URL, undecodable base64
    hars.append(('bad-url-dropped-entry', [ent(U + 'ok', res=[CT]), ent('https://exa mple.com/%zz', method=POST)], U + 'ok'))
    hars.append(('bad-url', [ent(U + 'ok', res=[CT]), ent('http://[::1', res=[CT])], U + 'ok'))
    hars.append(('bad-base64-dropped-entry', [ent(U + 'ok', res=[CT]), ent(U + 'bad', status=1000, body=b'', b64=True, badb64=True)], U + 'ok'))
    hars.append(('empty-har', [], U + 'none'))
    hars.append(('all-dropped', [ent(U + 'p', method=POST)], U + 'p'))
    # 5. primary URL that is not among the exchanges (Validate), with and without -ignoreErrors; primary naming a dropped entry
    hars.append(('primary-missing', [ent(U + 'a', res=[CT]), ent(U + 'gone', method=POST)], U + 'gone'))
    # 6. -headerOverride (Header.Set of every exchange, in flag order): replacing an existing field in any letter case, adding one, value trimming,
    #    empty value, a second override of the same name, a pseudo-header name, a name that is not a token, no colon at all (index out of range)
    OV = [['X-Ok: replaced'], ['x-ok:  padded \t'], ['CONTENT-TYPE:text/html', 'Content-Type: image/png'], ['X-New:'], ['X-New: a: b'], [':status: 404'], ['Has Space: v'], ['Variants: Accept-Language;en'],
          ['nocolon'], ['X-Ok: fine', 'nocolon'], [': novalue']]
    for oi, ov in enumerate(OV):
        hars.append((f'override-{oi}', [ent(U + 'a', res=[CT, ('X-Ok', 'orig'), ('x-ok', 'orig2')], body=b'alpha'), ent(U + 'b', res=[CT], body=b'beta!')], U + 'a', ov))
    hars.append(('override-nocolon-empty', [ent(U + 'p', method=POST)], U + 'p', ['nocolon']))
    if thorough:
        for k in range(12):
            es = [ent(U + rng.choice('abc'), method=rng.choice([GET, GET, GET, POST]), status=rng.choice([200, 200, 404, 99, 301]),
                      res=[CT] + ([V, VK1] if rng.random() < 0.5 else []), body=rbytes(rng, rng.choice([0, 1, 5, 300]))) for _ in range(rng.randrange(1, 7))]
            hars.append((f'random-{k}', es, U + 'a'))
    def to_json(es):
        out = []
        for e in es:
            if e['badb64']: content = {'size': 3, 'mimeType': 'text/plain', 'text': '!!!not-base64', 'encoding': 'base64'}
            elif e['b64']: content = {'size': len(e['body']), 'mimeType': 'text/plain', 'text': base64.b64encode(e['body']).decode(), 'encoding': 'base64'}
            else: content = {'size': len(e['body']), 'mimeType': 'text/plain', 'text': e['body'].decode()}
            out.append({'startedDateTime': '2020-01-01T00:00:00.000Z', 'time': 1, 'cache': {}, 'timings': {'send': 0, 'wait': 0, 'receive': 0},
                        'request': {'method': e['method'], 'url': e['url'], 'httpVersion': 'HTTP/1.1', 'cookies': [], 'headers': [{'name': n, 'value': v} for n, v in e['req']], 'queryString': [], 'headersSize': -1, 'bodySize': -1},
                        'response': {'status': e['status'], 'statusText': 'x', 'httpVersion': 'HTTP/1.1', 'cookies': [], 'headers': [{'name': n, 'value': v} for n, v in e['res']],
                                     'content': content, 'redirectURL': '', 'headersSize': -1, 'bodySize': len(e['body'])}})
        return json.dumps({'log': {'version': '1.2', 'creator': {'name': 'verif', 'version': '1'}, 'entries': out}}).encode()
    def keyof(u):       # url.Parse(u).String() by the real net/url
        r = ctx.go([f'oracle.burl {hexs(u.encode())}'])[0]
        if not r or r == '0' or not r.startswith('1:'): return None
        return r.split(':')[4]
    def nv(l): return '.' if not l else ','.join(f'{hexs(n.encode())}={hexs(v.encode())}' for n, v in l)
    for hi, h4 in enumerate(hars):
        name, es, prim = h4[:3]
        ovs = h4[3] if len(h4) > 3 else []
        ovtok = '.' if not ovs else ','.join(hexs(o.encode()) for o in ovs)
        harp = wfile(f'm{hi}.har', to_json(es))
        toks = []
        for e in es:
            k = keyof(e['url'])
            toks.append('~'.join([k if k is not None else '!', hexs(e['method'].encode()), str(e['status']), nv(e['req']), nv(e['res']), '!' if e['badb64'] else hexs(e['body'])]))
        pk = keyof(prim)
        for ver in ('b1', 'b2'):
            for ig in ((0, 1) if name in ('primary-missing', 'all-dropped', 'empty-har', 'filters', 'override-nocolon-empty') else (0,)):
                for with_primary in ((True,) if ver == 'b1' else (True, False)):
                    outp = os.path.join(T, f'm{hi}-{ver}-{ig}-{int(with_primary)}.wbn')
                    cmd = [B('gen-bundle'), '-har', harp, '-version', ver, '-o', outp] + (['-primaryURL', prim] if with_primary else []) + (['-ignoreErrors'] if ig else []) + [x for o in ovs for x in ('-headerOverride', o)]
                    rc, _, err = sh(cmd)
                    mres = ctx.model([f"c20.har {ver} {pk if with_primary else 'nil'} nil {ig} {ovtok} {' '.join(toks)}".rstrip()])[0] or 'model-failed'
                    got = 'panic' if b'panic:' in err or b'goroutine ' in err else ('failed' if rc != 0 else 'wrote ' + hexs(open(outp, 'rb').read()) if os.path.exists(outp) else 'exit0-no-file')
                    exp = ' '.join(mres.split(' ')[:2]) if mres.startswith('wrote ') else mres
                    op = f'c20.har-model {name} {ver} ignoreErrors={ig} primary={int(with_primary)}'
                    rec(ctx, op, got if len(got) < 300 or got == exp else got[:120] + '...(' + hashlib.sha256(got.encode()).hexdigest()[:16] + ')',
                        exp if len(exp) < 300 or got == exp else exp[:120] + '...(' + hashlib.sha256(exp.encode()).hexdigest()[:16] + ')')
                    if rc == 0 and os.path.exists(outp):
                        g, m = read_stage(ctx, [hexs(open(outp, 'rb').read())])
                        rc2, _, _ = sh([B('dump-bundle'), '-i', outp])
                        rec(ctx, f'c20.har-model-dump-bundle {name} {ver} {ig} {int(with_primary)}', 'accepts' if rc2 == 0 else 'rejects', 'accepts' if (g and g[0] and g[0].startswith('ok ')) else 'rejects')



RULE += ('; output path = input path (same string, relative vs absolute, ./d/../x, symlink either way, hard link) for sign-bundle signatures-section (signed once and a second time in place) and gen-signedexchange -content/-o: '
         'exit 0, what is left at the path verifies completely, a refusal leaves the input untouched; gen-signedexchange x 3 versions with signed header blocks of exactly 16383 / 16384 / 16385 / 20000 / 65535 / 65536 / 100000 / '
         '524287 / 524288 bytes (measured from -dumpHeadersCbor, padding headers adjusted until exact) -> dump-signedexchange -verify accepts; 524289 / 600000: refused or accepted downstream; Signature header values of '
         '~16376 / 16384 / 16385 / 20000 bytes (long -validityUrl): within the limit accepted, otherwise refused or accepted downstream')


def inplace_stage(ctx, T, B, keys, wfile):
    """F. A tool whose -o names the file it reads (-i / -content). Only `sign-bundle integrity-block` documents that input and output must
    differ; for the others signing in place is an accepted flag combination and the property's clause applies to what is left at the path:
    the tool exits 0 and the downstream tool accepts the file (every exchange verified), or the tool refuses and the input is still what it
    was. `The same file' is a relation between two flag values, not a string: same spelling, relative vs absolute, a path through ./d/..,
    a symbolic link in either role, a hard link. Deterministic (no draws)."""
    D = os.path.join(T, 'inplace'); os.makedirs(os.path.join(D, 'site'))
    tree = {'index.html': b'<html>in place</html>', 'sp ace.txt': b'a file with a space in its name', 'big.bin': bytes(range(256)) * 20, 'empty': b''}
    for rel, data in tree.items():
        open(os.path.join(D, 'site', rel), 'wb').write(data)
    nex = len(tree) + 1             # one exchange per file, plus index.html's redirect
    kk = keys['ec-pkcs8-p256']
    certpem, keypem = wfile('inpl-c.pem', kk['cert']), wfile('inpl-k.pem', kk['key'])
    rc, chainb, _ = sh([B('gen-certurl'), '-pem', certpem, '-ocsp', wfile('inpl-o.der', b'dummy-ocsp')])
    chain = wfile('inpl-chain.cbor', chainb)
    unsigned = {}
    for ver in ('b1', 'b2'):
        p = os.path.join(D, f'unsigned-{ver}.wbn')
        rc, _, err = sh([B('gen-bundle'), '-dir', os.path.join(D, 'site'), '-baseURL', 'https://example.com/ip/', '-primaryURL', 'https://example.com/ip/', '-version', ver, '-o', p])
        if rc != 0:
            rec(ctx, f'c20.inplace gen-bundle {ver}', 'exit %d %s' % (rc, err.decode()[-100:].strip()), 'exit 0 '); continue
        unsigned[ver] = open(p, 'rb').read()
    # (name, -i spelling, -o spelling, set-up) ; cwd = D ; X = the bundle's file name
    def spellings(X):
        absX = os.path.join(D, X)
        return [('same-string-relative', X, X, None),
                ('same-string-absolute', absX, absX, None),
                ('relative-in-absolute-out', X, absX, None),
                ('absolute-in-relative-out', absX, X, None),
                ('out-through-dot-dot', X, './site/../' + X, None),
                ('in-through-dot-slash', './' + X, X, None),
                ('out-is-symlink-to-in', X, 'ln-' + X, lambda: os.symlink(X, os.path.join(D, 'ln-' + X))),
                ('in-is-symlink-to-out', 'ln-' + X, X, lambda: os.symlink(X, os.path.join(D, 'ln-' + X))),
                ('out-is-hard-link-of-in', X, 'hl-' + X, lambda: os.link(absX, os.path.join(D, 'hl-' + X)))]
    case = 0
    for ver, data in sorted(unsigned.items()):
        for idx in range(len(spellings('x'))):
            case += 1
            X = f'ip{case}.wbn'
            name, i_sp, o_sp, setup = spellings(X)[idx]
            open(os.path.join(D, X), 'wb').write(data)
            if setup: setup()
            cmd = [B('sign-bundle'), 'signatures-section', '-i', i_sp, '-o', o_sp, '-certificate', chain, '-privateKey', keypem, '-validityUrl', 'https://example.com/validity',
                   '-miRecordSize', str([4096, 16][case % 2])]
            for rnd in (1, 2):          # signed in place, then signed in place again (the bundle now has a signatures section)
                before = open(os.path.join(D, X), 'rb').read()
                rc5, _, err5 = sh(cmd, cwd=D)
                after = open(os.path.join(D, X), 'rb').read() if os.path.exists(os.path.join(D, X)) else None
                op = f'c20.sign-bundle-in-place {ver} {name} round={rnd} -i {i_sp.replace(D, "$D")} -o {o_sp.replace(D, "$D")}'
                if rc5 != 0 and rnd == 1:
                    rec(ctx, op, 'exit %d input-untouched=%s %s' % (rc5, after == before, err5.decode()[-100:].strip().split(' ', 2)[-1]), 'exit 0')
                    break
                if rc5 != 0:      # signing again with the same certificate is refused (the exchanges already carry a Digest header): a refusal must leave the file alone
                    rec(ctx, op, 'refused input-untouched=%s' % (after == before), 'refused input-untouched=True')
                    break
                rc6, out6, _ = sh([B('dump-bundle'), '-i', o_sp], cwd=D)
                rec(ctx, op, f'exit 0 dump-bundle: exit {rc6} signed={out6.count(b"[Signed with certificate #0]")} errors={out6.count(b"verification error")}', f'exit 0 dump-bundle: exit 0 signed={nex} errors=0')
    # integrity-block: the one sub-command that documents "input and output file cannot be the same" -- refused, and the bundle is still there
    # (only the literal same string: `-o ./x` for `-i x` passes the tool's string comparison and truncates x on the unchanged tree; reported
    # as an observation, not expected here)
    if 'b2' in unsigned:
        edk = wfile('inpl-ed.pem', keys['ed25519-pkcs8']['key'])
        for name, sp in (('same-string-relative', 'ib-ip.wbn'), ('same-string-absolute', os.path.join(D, 'ib-ip.wbn'))):
            open(os.path.join(D, 'ib-ip.wbn'), 'wb').write(unsigned['b2'])
            rc7, _, _ = sh([B('sign-bundle'), 'integrity-block', '-i', sp, '-o', sp, '-privateKey', edk], cwd=D)
            rec(ctx, f'c20.integrity-block-in-place {name}', ('refused' if rc7 else 'exit 0') + ' input-untouched=%s' % (open(os.path.join(D, 'ib-ip.wbn'), 'rb').read() == unsigned['b2']), 'refused input-untouched=True')
    # gen-signedexchange reads -content completely before it creates -o: turning a page into its signed exchange in place
    ck = keys['ec-sec1-p256']
    c2, k2 = wfile('inpl-sc.pem', ck['cert']), wfile('inpl-sk.pem', ck['key'])
    rc, chb, _ = sh([B('gen-certurl'), '-pem', c2, '-ocsp', wfile('inpl-so.der', b'dummy-ocsp')])
    ch2 = wfile('inpl-schain.cbor', chb)
    for j, (name, c_sp, o_sp) in enumerate([('same-string', 'pageJ.html', 'pageJ.html'), ('out-through-dot-dot', 'pageJ.html', './site/../pageJ.html'), ('relative-in-absolute-out', 'pageJ.html', os.path.join(D, 'pageJ.html'))]):
        c_sp, o_sp = c_sp.replace('J', str(j)), o_sp.replace('J', str(j))
        page = b'<html>' + bytes([65 + j]) * 5000 + b'</html>'
        open(os.path.join(D, f'page{j}.html'), 'wb').write(page)
        ver = ['1b3', '1b2', '1b1'][j]
        rc, _, err = sh([B('gen-signedexchange'), '-version', ver, '-uri', f'https://example.com/page{j}.html', '-content', c_sp, '-o', o_sp, '-certificate', c2, '-privateKey', k2,
                         '-certUrl', 'https://example.com/cert.cbor', '-validityUrl', 'https://example.com/validity', '-miRecordSize', '1000'], cwd=D)
        op = f'c20.gen-signedexchange-in-place {ver} {name}'
        if rc != 0:
            rec(ctx, op, 'exit %d input-untouched=%s' % (rc, open(os.path.join(D, f'page{j}.html'), 'rb').read() == page), 'exit 0'); continue
        rc2, out2, _ = sh([B('dump-signedexchange'), '-i', o_sp, '-verify', '-cert', ch2], cwd=D)
        rec(ctx, op, f'exit 0 dump: exit {rc2} valid={b"The exchange has a valid signature" in out2} payload-is-the-page={page in out2}', 'exit 0 dump: exit 0 valid=True payload-is-the-page=True')


def sxg_limits_stage(ctx, T, B, keys, wfile):
    """G. The two length fields of the application/signed-exchange prologue and their documented limits (sigLength <= 16384, headerLength <=
    524288, b2 and later; b1 leaves them open). gen-signedexchange checks them when it writes (after verifying the exchange in memory),
    dump-signedexchange when it reads: both tools are walked across BOTH limits with BOTH fields, per version. The header block's size is
    measured (-dumpHeadersCbor) and the padding adjusted until it is exactly the target, so that 16384 / 16385 / 524288 / 524289 are hit."""
    D = os.path.join(T, 'limits'); os.makedirs(D)
    kk = keys['ec-pkcs8-p256']
    certpem, keypem = wfile('lim-c.pem', kk['cert']), wfile('lim-k.pem', kk['key'])
    rc, chainb, _ = sh([B('gen-certurl'), '-pem', certpem, '-ocsp', wfile('lim-o.der', b'dummy-ocsp')])
    chain = wfile('lim-chain.cbor', chainb)
    content = wfile('lim-content.html', b'<html>limits</html>')
    outp, hd = os.path.join(D, 'o.sxg'), os.path.join(D, 'hd.cbor')

    def gen(ver, pad, vpad=0):
        # pad bytes of response-header values in chunks of at most 100000 (one argv string holds at most 128 KiB), Link first as a real site would
        nchunks = max(1, -(-pad // 100000))
        cmd = [B('gen-signedexchange'), '-version', ver, '-uri', 'https://example.com/limits.html', '-content', content, '-certificate', certpem, '-privateKey', keypem,
               '-certUrl', 'https://example.com/cert.cbor', '-validityUrl', 'https://example.com/validity' + ('?' + 'v' * (vpad - 1) if vpad else ''), '-o', outp, '-dumpHeadersCbor', hd]
        left = pad
        for c in range(nchunks):
            n = left // (nchunks - c); left -= n
            cmd += ['-responseHeader', ('Link: ' if c == 0 else 'X-Pad-%d: ' % c) + ('<https://example.com/a.css>;rel=preload;as=style,' * (n // 48 + 1))[:n]]
        for f_ in (outp, hd):
            if os.path.exists(f_): os.remove(f_)
        rc, _, err = sh(cmd)
        hlen = os.path.getsize(hd) if os.path.exists(hd) else -1
        return rc, hlen, err.decode(errors='replace')[-120:].strip()

    def dump_verdict():
        rc2, out2, err2 = sh([B('dump-signedexchange'), '-i', outp, '-verify', '-cert', chain, '-payload=false'])
        return 'accepted' if (rc2 == 0 and b'The exchange has a valid signature' in out2) else 'rejected-by-dump-signedexchange exit=%d %s' % (rc2, err2.decode(errors='replace')[-90:].strip().split(' ', 2)[-1])

    for ver in ('1b3', '1b2', '1b1'):
        for target in (16383, 16384, 16385, 20000, 65535, 65536, 100000, 524287, 524288, 524289, 600000):
            pad = target - 300
            rc = hlen = None
            for _ in range(6):           # the CBOR heads of the padding values change width with their size: converge on the exact block size
                rc, hlen, err = gen(ver, pad)
                if hlen == target or hlen < 0: break
                pad += target - hlen
            op = f'c20.sxg-header-block-size {ver} headerLength={target}'
            if hlen != target:
                ctx.infra.append(f'{op}: could not produce the size (got {hlen})'); continue
            verdict = 'refused' if rc != 0 else 'emitted-and-' + dump_verdict()
            if target <= 524288:          # the documented range: must be emitted, and accepted downstream
                rec(ctx, op, verdict, 'emitted-and-accepted')
            else:                         # beyond it: refused, or emitted and then also accepted downstream
                rec(ctx, op, 'consistent' if verdict in ('refused', 'emitted-and-accepted') else verdict, 'consistent')
        # the Signature header value: ~ 400 bytes + the validity URL. The ECDSA signature's DER length varies by a few bytes from run to run, so
        # only the target well inside the limit has a fixed expectation; at and beyond the limit the oracle is "refused or accepted downstream".
        rc, _, err = gen(ver, 10, 0)
        if rc != 0:
            ctx.infra.append(f'c20.sxg-signature-value-size {ver}: the plain exchange was not emitted: {err}'); continue
        d = open(outp, 'rb').read(); ul = -2 if ver == '1b1' else int.from_bytes(d[8:10], 'big'); base_sig = int.from_bytes(d[10 + ul:13 + ul], 'big')
        for target in (16376, 16384, 16385, 20000):
            vpad = target - base_sig
            rc, hlen, err = gen(ver, 10, vpad)
            verdict = 'refused' if rc != 0 else 'emitted-and-' + dump_verdict()
            op = f'c20.sxg-signature-value-size {ver} sigLength~{target}'
            if target <= 16376 and ver != '1b1':
                rec(ctx, op, verdict, 'emitted-and-accepted')
            else:
                rec(ctx, op, 'consistent' if verdict in ('refused', 'emitted-and-accepted') else verdict, 'consistent')


def run(ctx):
    rng, thorough = ctx.rng, ctx.tier == 'thorough'
    scratch = tempfile.mkdtemp(prefix='verif-c20-', dir=os.environ.get('TMPDIR', '/tmp'))
    try:
        _run(ctx, rng, thorough, scratch)
    finally:
        shutil.rmtree(scratch, ignore_errors=True)


def rec(ctx, op, go, model):
    ctx.records.append((op, go, model))


def _run(ctx, rng, thorough, T):
    bindir = os.path.join(T, 'bin')
    os.makedirs(bindir)
    rc, out, err = sh(['go', 'build', '-o', bindir + '/', './go/bundle/cmd/...', './go/signedexchange/cmd/...'], cwd=REPO, env=GOENV)
    if rc != 0:
        ctx.infra.append('building the command-line tools failed: ' + err.decode()[-300:])
        return
    B = lambda n: os.path.join(bindir, n)
    # ---------------------------------------------------------------- key material
    hosts = hexs(b'example.com,www.example.com')
    kinds = ['ec-sec1-p256', 'ec-pkcs8-p256', 'ec-pkcs8-p384', 'ed25519-pkcs8', 'ed25519-pkcs8-enc', 'ec-sec1-params-p256']
    res = ctx.go([f'setup.pem {k} {hosts} {hexs(b"s3cret")}' for k in kinds])
    keys = {}
    for k, r in zip(kinds, res):
        if r and r.startswith('ok '):
            _, kp, cp, pp, raw = r.split(' ')
            keys[k] = dict(key=unhex(kp), cert=unhex(cp), pub=unhex(pp), raw=raw)
    if len(keys) < len(kinds):
        ctx.infra.append('setup.pem failed')
        return

    def wfile(name, data):
        p = os.path.join(T, name)
        with open(p, 'wb') as f:
            f.write(data)
        return p

    # ---------------------------------------------------------------- A. gen-bundle -dir
    base = b'https://example.com/base/'
    ntrees = 6 if not thorough else 60
    for ti in range(ntrees):
        ver = rng.choice(['b1', 'b2'])
        other_host = (ti % 6 == 3)       # a bundle for a host the signing certificate does not cover
        base = b'https://static.example.net/base/' if other_host else b'https://example.com/base/'
        root = os.path.join(T, f'tree{ti}')
        os.makedirs(root)
        files = make_tree(rng, root, rng.randrange(1, 8))
        if ti % 6 == 0:      # the tree that gets signed below always has an empty file and index.html files at two levels (never left to the draw)
            for rel_, data_ in (('empty.bin', b''), ('index.html', b'<html>root</html>'), ('sub dir/index.html', b'<html>sub</html>'), ('sub dir/zero', b'')):
                p_ = os.path.join(root, rel_); os.makedirs(os.path.dirname(p_), exist_ok=True)
                open(p_, 'wb').write(data_); files[rel_] = data_
        outp = os.path.join(T, f'tree{ti}.wbn')
        if ti % 3 == 1: stale(outp, 200000)
        cwd = None
        cmd = [B('gen-bundle'), '-dir', root, '-baseURL', base.decode(), '-version', ver, '-o', outp]
        if ti % 3 == 2:            # relative spellings of the directory, run from inside it / next to it
            for extra in ('.htaccess', '.well-known/assetlinks.json'):
                pth = os.path.join(root, extra); os.makedirs(os.path.dirname(pth), exist_ok=True)
                open(pth, 'wb').write(('dotfile ' + extra).encode()); files[extra] = ('dotfile ' + extra).encode()
            cwd = root
            cmd[2] = ['.', './', '../' + os.path.basename(root) + '/.'][(ti // 3) % 3]
        # header fields added on the command line, with values that are legal in HTTP but unusual: a horizontal tab, a quoted string,
        # an empty value, a long one
        hov = [[], ['-headerOverride', 'X-Note: one\ttwo'], ['-headerOverride', 'X-Quoted: "a, b"', '-headerOverride', 'X-Empty:'], ['-headerOverride', 'X-Long: ' + 'v' * 300]][ti % 4]
        cmd += hov
        op = f'c20.gen-bundle-dir tree={ti} ver={ver} files={sorted(files)} override={hov[1:2]}'
        # expected: the model's directory walk (Model/DirWalk.lean; theorems C20.dir_walk_*) on the same tree
        mw = ctx.model([f'c20.walk {hexs(base)} {tree_tokens(files)}'])[0]
        expected, nexpected = {}, 0
        if mw and mw.startswith('ok '):
            for ent in ([] if mw[3:] == '.' else mw[3:].split(',')):
                u, kind = ent.split('~')
                nexpected += 1
                expected[unhex(u)] = 'redirect' if kind == 'r' else 'file:' + hashlib.sha256(unhex(kind[1:])).hexdigest()
        else:
            ctx.infra.append(f'model c20.walk failed: {mw}')
        if ver == 'b1' or rng.random() < 0.5:
            prim = sorted(u for u, kind in expected.items() if kind != 'redirect')[0]
            cmd += ['-primaryURL', prim.decode()]
        rc, out, err = sh(cmd, cwd=cwd)
        if rc != 0:
            rec(ctx, op, 'gen-bundle-failed ' + err.decode()[-120:].replace('\n', ' '), 'ok')
            continue
        rc2, out2, err2 = sh([B('dump-bundle'), '-i', outp])
        rec(ctx, 'c20.dump-bundle-accepts tree=%d' % ti, 'exit %d' % rc2, 'exit 0')
        if ti % 3 == 0:
            # flag values gen-bundle may refuse but must not turn into a bundle the reader rejects: a primary URL with a fragment,
            # with credentials, relative, empty
            goodp = sorted(u for u, kind in expected.items() if kind != 'redirect')[0].decode()
            for pv in (goodp + '#top', goodp.replace('https://', 'https://bob@', 1), goodp + '?', 'relative/path', goodp.upper()):
                outq = os.path.join(T, f'tree{ti}-p.wbn')
                cq = [x for x in cmd]
                if '-primaryURL' in cq: cq[cq.index('-primaryURL') + 1] = pv
                else: cq += ['-primaryURL', pv]
                cq[cq.index('-o') + 1] = outq
                if os.path.exists(outq): os.remove(outq)
                rcq, _, _ = sh(cq, cwd=cwd)
                verdict = 'refused'
                if rcq == 0:
                    rcd, _, _ = sh([B('dump-bundle'), '-i', outq])
                    verdict = 'emitted-and-accepted' if rcd == 0 else 'emitted-but-rejected-by-dump-bundle'
                rec(ctx, f'c20.gen-bundle-primaryURL tree={ti} ver={ver} value={pv[len(goodp):] or pv}', 'consistent' if verdict != 'emitted-but-rejected-by-dump-bundle' else verdict, 'consistent')
        data = open(outp, 'rb').read()
        g, m = read_stage(ctx, [hexs(data)])
        got, ngot = {}, 0
        if g and g[0] and g[0].startswith('ok '):
            exs = g[0].split(' ')[5]
            for e in ([] if exs == '.' else exs.split(',')):
                u, st, hs, body = e.split('~')
                ngot += 1
                if st == '301':
                    got[unhex(u)] = 'redirect'
                else:
                    got[unhex(u)] = 'file:' + hashlib.sha256(unhex(body)).hexdigest()
        rec(ctx, op, json.dumps([ngot] + sorted((k.decode('latin1'), v) for k, v in got.items())), json.dumps([nexpected] + sorted((k.decode('latin1'), v) for k, v in expected.items())))
        # ------------------------------------------------------------ B. sign-bundle signatures-section
        if ti % 2 == 0:
            kk = keys[['ec-sec1-params-p256', 'ec-pkcs8-p384', 'ec-sec1-p256', 'ec-pkcs8-p256'][(ti // 2) % 4]]
            certpem, keypem = wfile(f'c{ti}.pem', kk['cert']), wfile(f'k{ti}.pem', kk['key'])
            ocsp = wfile(f'o{ti}.der', b'dummy-ocsp')
            rc3, out3, err3 = sh([B('gen-certurl'), '-pem', certpem, '-ocsp', ocsp])
            chain = wfile(f'chain{ti}.cbor', out3)
            rec(ctx, 'c20.gen-certurl tree=%d' % ti, 'exit %d' % rc3, 'exit 0')
            rc4, _, err4 = sh([B('dump-certurl'), '-i', chain])
            rec(ctx, 'c20.dump-certurl-accepts tree=%d' % ti, 'exit %d' % rc4, 'exit 0')
            signed = os.path.join(T, f'signed{ti}.wbn')
            if ti % 2 == 0: stale(signed, 300000)
            rc5, _, err5 = sh([B('sign-bundle'), 'signatures-section', '-i', outp, '-o', signed, '-certificate', chain, '-privateKey', keypem,
                               '-validityUrl', 'https://example.com/validity', '-miRecordSize', str([16384, 16, 4096, 1][ti % 4])]
                              # the maximum lifetime (the signing instant is time.Now(): it has a sub-second part), the default, and an odd one
                              + [[], ['-expire', '168h'], ['-expire', '167h59m59.5s']][(ti // 2) % 3])
            rec(ctx, 'c20.sign-bundle-signatures tree=%d' % ti, 'exit %d %s' % (rc5, err5.decode()[-100:].strip() if rc5 else ''), 'exit 0 ')
            if rc5 == 0:
                rc6, out6, _ = sh([B('dump-bundle'), '-i', signed])
                nsigned = out6.count(b'[Signed with certificate #0]')
                bad = out6.count(b'verification error')
                rec(ctx, 'c20.dump-bundle-verifies-signed tree=%d' % ti, f'exit {rc6} signed={nsigned} errors={bad}', f'exit 0 signed={len(expected)} errors=0')
        if other_host:
            # signed by a certificate that covers none of the exchanges: the signature itself verifies, every exchange is reported unsigned
            kk = keys['ec-sec1-p256']
            certpem, keypem = wfile(f'oc{ti}.pem', kk['cert']), wfile(f'ok{ti}.pem', kk['key'])
            rc3, out3, _ = sh([B('gen-certurl'), '-pem', certpem, '-ocsp', wfile(f'oo{ti}.der', b'dummy-ocsp')])
            chain = wfile(f'ochain{ti}.cbor', out3)
            signed = os.path.join(T, f'osigned{ti}.wbn')
            rc5, _, err5 = sh([B('sign-bundle'), 'signatures-section', '-i', outp, '-o', signed, '-certificate', chain, '-privateKey', keypem, '-validityUrl', 'https://example.com/validity'])
            rec(ctx, 'c20.sign-bundle-covering-nothing tree=%d' % ti, 'exit %d' % rc5, 'exit 0')
            if rc5 == 0:
                rc6, out6, _ = sh([B('dump-bundle'), '-i', signed])
                rec(ctx, 'c20.dump-bundle-signed-covering-nothing tree=%d' % ti, f'exit {rc6} signed={out6.count(b"[Signed with certificate #0]")} errors={out6.count(b"verification error")}', 'exit 0 signed=0 errors=0')
        # ------------------------------------------------------------ C. integrity block
        if ti % 2 == 1:
            kname = rng.choice(['ed25519-pkcs8', 'ed25519-pkcs8-enc'])
            kk = keys[kname]
            keypem = wfile(f'ed{ti}.pem', kk['key'])
            signed = os.path.join(T, f'ib{ti}.swbn')
            env = dict(os.environ, WEB_BUNDLE_SIGNING_PASSPHRASE='s3cret')
            rc7, out7, err7 = sh([B('sign-bundle'), 'integrity-block', '-i', outp, '-o', signed, '-privateKey', keypem], env=env)
            rec(ctx, f'c20.sign-bundle-integrity-block tree={ti} key={kname}', 'exit %d' % rc7, 'exit 0')
            if rc7 == 0:
                sdata = open(signed, 'rb').read()
                # model: block || original; signature bytes are taken from the produced block (Ed25519 is deterministic but not modelled) and re-verified by the oracle
                blocklen = len(sdata) - len(data)
                rec(ctx, f'c20.integrity-block-keeps-original tree={ti}', str(sdata[blocklen:] == data), 'True')
                sig = sdata[blocklen - 64:blocklen] if blocklen > 64 else b''
                dts = ctx.model([f'ib.dts {hashlib.sha512(data).hexdigest()} f09f968bf09f93a6:31620000:. {hexs(b"ed25519PublicKey")}={kk["raw"]}'])[0]
                vd = ctx.go([f'oracle.edverify {kk["raw"]} {dts.split(" ")[1]} {hexs(sig)}'])[0] if dts and dts.startswith('ok ') else '0'
                mo = ctx.model([f'ib.signfile {hexs(data)} {kk["raw"]} {hexs(sig)} {vd}'])[0]
                rec(ctx, f'c20.integrity-block-output tree={ti}', 'ok ' + hexs(sdata), mo)
                idline = [l for l in out7.decode(errors='replace').splitlines() if 'Web Bundle ID' in l]
                mid = ctx.model([f'ib.id {kk["raw"]}'])[0]
                rec(ctx, f'c20.web-bundle-id tree={ti}', idline[0].split(': ')[1].strip() if idline else 'missing', unhex(mid.split(' ')[1]).decode())
                rc8, out8, _ = sh([B('sign-bundle'), 'dump-id', '-privateKey', keypem], env=env)
                rec(ctx, f'c20.dump-id tree={ti}', out8.decode(errors='replace').strip().split(': ')[-1], unhex(mid.split(' ')[1]).decode())
                pubpem = wfile(f'edpub{ti}.pem', kk['pub'])
                rc9, out9, _ = sh([B('sign-bundle'), 'dump-id', '-publicKey', pubpem], env=env)
                rec(ctx, f'c20.dump-id-public tree={ti}', out9.decode(errors='replace').strip().split(': ')[-1], unhex(mid.split(' ')[1]).decode())
                rc10, _, _ = sh([B('dump-bundle'), '-i', signed])
                rec(ctx, f'c20.dump-bundle-refuses-integrity-block tree={ti}', 'exit %d' % (1 if rc10 else 0), 'exit 1')
    ib_cli_stage(ctx, rng, 6 if not thorough else 24)
    # ---------------------------------------------------------------- D. HAR
    har = {'log': {'version': '1.2', 'creator': {'name': 'verif', 'version': '1'}, 'entries': []}}
    exp_urls = []
    for i in range(6):
        method = 'GET' if i != 2 else 'POST'
        url = f'https://example.com/har/{i}?q={i}'
        body = ('har body %d' % i).encode()
        content = {'size': len(body), 'mimeType': 'text/plain'}
        if i % 2:
            content['text'] = base64.b64encode(body).decode(); content['encoding'] = 'base64'
        else:
            content['text'] = body.decode()
        har['log']['entries'].append({'startedDateTime': '2020-01-01T00:00:00.000Z', 'time': 1, 'cache': {}, 'timings': {'send': 0, 'wait': 0, 'receive': 0},
            'request': {'method': method, 'url': url, 'httpVersion': 'HTTP/1.1', 'cookies': [], 'headers': [{'name': 'Accept', 'value': '*/*'}], 'queryString': [], 'headersSize': -1, 'bodySize': -1},
            'response': {'status': 200, 'statusText': 'OK', 'httpVersion': 'HTTP/1.1', 'cookies': [],
                         'headers': [{'name': 'Content-Type', 'value': 'text/plain'}, {'name': ':status', 'value': '200'}, {'name': 'Set-Cookie', 'value': 'a=b'}, {'name': 'X-Ok', 'value': 'fine'}]
                                    + ([{'name': 'Variants', 'value': 'Accept-Language;en;fr'}, {'name': 'Variant-Key', 'value': 'en'}] if i == 4 else []),
                         'content': content, 'redirectURL': '', 'headersSize': -1, 'bodySize': len(body)}})
        if method == 'GET':
            exp_urls.append((url, hashlib.sha256(body).hexdigest()))
    harp = wfile('in.har', json.dumps(har).encode())
    for ver in ('b1', 'b2'):
        outp = os.path.join(T, f'har-{ver}.wbn')
        rc, _, err = sh([B('gen-bundle'), '-har', harp, '-version', ver, '-primaryURL', 'https://example.com/har/0?q=0', '-o', outp])
        rec(ctx, f'c20.gen-bundle-har {ver}', 'exit %d %s' % (rc, err.decode()[-100:].strip() if rc else ''), 'exit 0 ')
        if rc == 0:
            rc2, _, _ = sh([B('dump-bundle'), '-i', outp])
            rec(ctx, f'c20.dump-bundle-accepts-har {ver}', 'exit %d' % rc2, 'exit 0')
            g, m = read_stage(ctx, [hexs(open(outp, 'rb').read())])
            got = []
            if g and g[0] and g[0].startswith('ok ') and g[0].split(' ')[5] != '.':
                for e in g[0].split(' ')[5].split(','):
                    u, st, hs, body = e.split('~')
                    got.append((unhex(u).decode(), hashlib.sha256(unhex(body)).hexdigest()))
            rec(ctx, f'c20.har-exchanges {ver}', json.dumps(sorted(got)), json.dumps(sorted(exp_urls)))
    har_model_stage(ctx, rng, thorough, T, B, wfile)
    # ---------------------------------------------------------------- D2. two signers, the first with a two-certificate chain
    r2 = ctx.go([f'setup.pem ec-pkcs8-p256 {hexs(b"other.example")}'])[0]
    if r2 and r2.startswith('ok '):
        _, kp2, cp2, _, _ = r2.split(' ')
        k1 = keys['ec-pkcs8-p256']
        har2 = {'log': {'version': '1.2', 'creator': {'name': 'verif', 'version': '1'}, 'entries': []}}
        for host in ('example.com', 'other.example'):
            for i in range(2):
                body = f'{host} body {i}'.encode()
                har2['log']['entries'].append({'startedDateTime': '2020-01-01T00:00:00.000Z', 'time': 1, 'cache': {}, 'timings': {'send': 0, 'wait': 0, 'receive': 0},
                    'request': {'method': 'GET', 'url': f'https://{host}/m/{i}', 'httpVersion': 'HTTP/1.1', 'cookies': [], 'headers': [], 'queryString': [], 'headersSize': -1, 'bodySize': -1},
                    'response': {'status': 200, 'statusText': 'OK', 'httpVersion': 'HTTP/1.1', 'cookies': [], 'headers': [{'name': 'Content-Type', 'value': 'text/plain'}],
                                 'content': {'size': len(body), 'mimeType': 'text/plain', 'text': body.decode()}, 'redirectURL': '', 'headersSize': -1, 'bodySize': len(body)}})
        harp2 = wfile('two.har', json.dumps(har2).encode())
        m0 = os.path.join(T, 'two.wbn')
        rc, _, err = sh([B('gen-bundle'), '-har', harp2, '-version', 'b1', '-primaryURL', 'https://example.com/m/0', '-o', m0])
        rec(ctx, 'c20.two-signers gen-bundle', 'exit %d %s' % (rc, err.decode()[-100:].strip() if rc else ''), 'exit 0 ')
        ocsp2 = wfile('two-o.der', b'dummy-ocsp')
        c1 = wfile('two-c1.pem', k1['cert'] + keys['ec-pkcs8-p384']['cert']); c2 = wfile('two-c2.pem', unhex(cp2))      # chain 1: leaf + an unrelated certificate in issuer position
        key1, key2 = wfile('two-k1.pem', k1['key']), wfile('two-k2.pem', unhex(kp2))
        ch = []
        for cpem in (c1, c2):
            rcc, outc, _ = sh([B('gen-certurl'), '-pem', cpem, '-ocsp', ocsp2]); ch.append(wfile(os.path.basename(cpem) + '.cbor', outc))
        s1, s2 = os.path.join(T, 'two-s1.wbn'), os.path.join(T, 'two-s2.wbn')
        rca, _, ea = sh([B('sign-bundle'), 'signatures-section', '-i', m0, '-o', s1, '-certificate', ch[0], '-privateKey', key1, '-validityUrl', 'https://example.com/validity'])
        rcb, _, eb = sh([B('sign-bundle'), 'signatures-section', '-i', s1, '-o', s2, '-certificate', ch[1], '-privateKey', key2, '-validityUrl', 'https://other.example/validity'])
        rec(ctx, 'c20.two-signers sign', 'exit %d %d %s' % (rca, rcb, (ea + eb).decode()[-120:].strip() if rca or rcb else ''), 'exit 0 0 ')
        if rca == 0 and rcb == 0:
            rcd, outd, _ = sh([B('dump-bundle'), '-i', s2])
            rec(ctx, 'c20.two-signers dump-bundle-verifies', f'exit {rcd} section-error={outd.count(b"Signature verification error")} signed={outd.count(b"[Signed with certificate #")} errors={outd.count(b"verification error]")}',
                'exit 0 section-error=0 signed=4 errors=0')
    # ---------------------------------------------------------------- E. gen-signedexchange -> dump-signedexchange -verify
    content, certpem, keypem = sxg_cli_core(ctx, rng, thorough, T, B, keys, wfile)
    # ---------------------------------------------------------------- F. output path = input path ; G. both prologue length limits
    inplace_stage(ctx, T, B, keys, wfile)
    sxg_limits_stage(ctx, T, B, keys, wfile)
    # a b3 response that is not cacheable must be refused by gen-signedexchange (self-verification), not emitted
    outp = os.path.join(T, 'noncache.sxg')
    rc, _, err = sh([B('gen-signedexchange'), '-version', '1b3', '-status', '201', '-uri', 'https://example.com/x', '-content', content, '-certificate', certpem, '-privateKey', keypem,
                     '-certUrl', 'https://example.com/cert.cbor', '-validityUrl', 'https://example.com/validity', '-o', outp])
    rec(ctx, 'c20.gen-signedexchange-refuses-noncacheable', 'refused' if rc != 0 else 'emitted', 'refused')
