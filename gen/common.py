"""Shared generator helpers. Every random choice comes from the rng passed in (seeded by VERIF_SEED)."""
import itertools

BOUNDARIES = [0, 23, 24, 255, 256, 65535, 65536, 2**32 - 1, 2**32, 2**63 - 1, 2**63, 2**64 - 1]


def hexs(b):
    return b.hex() if b else '-'


def rbytes(rng, n):
    return bytes(rng.getrandbits(8) for _ in range(n))


def near(vals, d, lo, hi):
    s = set()
    for v in vals:
        for k in range(-d, d + 1):
            if lo <= v + k <= hi:
                s.add(v + k)
    return sorted(s)


UTF8_GOOD = ['\ufffd', 'a\ufffdb', '\ufffe', '\ufeff', '', 'a', 'héllo', '日本語', '🌐📦', '\u0080', '߿', 'ࠀ', '￿', '\U00010000', '\U0010ffff', 'a\x00b', '퟿', '']
UTF8_BAD = [b'\xff', b'\xc0\x80', b'\xc1\xbf', b'\xe0\x80\x80', b'\xe0\x9f\xbf', b'\xed\xa0\x80', b'\xed\xbf\xbf', b'\xf0\x80\x80\x80',
            b'\xf0\x8f\xbf\xbf', b'\xf4\x90\x80\x80', b'\xf5\x80\x80\x80', b'\xc2', b'\xe1\x80', b'\xf1\x80\x80', b'a\x80', b'\x80',
            b'\xc2\x7f', b'\xc2\xc0', b'\xe1\x80\x7f', b'\xf1\x80\x80\xc0', b'\xf8\x88\x80\x80\x80', b'ok\xfe']


def rutf8(rng, maxchars=6):
    """random valid UTF-8 with characters from every length class"""
    out = ''
    for _ in range(rng.randrange(maxchars + 1)):
        c = rng.choice([rng.randrange(0, 0x80), rng.randrange(0x80, 0x800), rng.randrange(0x800, 0xd800),
                        rng.randrange(0xe000, 0x10000), rng.randrange(0x10000, 0x110000),
                        rng.choice([0xfffd, 0xfffe, 0xffff, 0xfeff, 0xd7ff, 0xe000, 0x7f, 0x80, 0x7ff, 0x800, 0x10ffff])])
        out += chr(c)
    return out.encode('utf-8')


class Base:
    """default comparison: exact equality of the canonical result lines"""
    THEOREMS = []
    TRUSTED = []
    ASSUMPTIONS = []
    RULE = ''

    @staticmethod
    def agree(op, g, m):
        return g == m

    @staticmethod
    def classify(op, m):
        return op.split(' ', 1)[0] + ':' + m.split(' ', 1)[0] + (':' + m.split(' ')[1] if m.startswith('err ') and len(m.split(' ')) > 1 else '')

    @staticmethod
    def nontrivial(op, m):
        return True

    @staticmethod
    def signature(op, g, m):
        return (op.split(' ', 1)[0], g.split(' ', 1)[0], m.split(' ', 1)[0])

    @staticmethod
    def explain(op, g, m):
        return f'real code returned [{g[:200]}] where the model (proved to satisfy the property) returns [{m[:200]}]'
