"""Reference MI-SHA256 encoder written from the draft's recursive definition (used only to build inputs)."""
import hashlib, base64


def records(payload, rs, draft):
    if not payload:
        return [b''] if draft == '02' else []
    return [payload[i:i + rs] for i in range(0, len(payload), rs)]


def proofs(recs):
    out = [None] * len(recs)
    nxt = None
    for i in range(len(recs) - 1, -1, -1):
        if nxt is None:
            out[i] = hashlib.sha256(recs[i] + b'\x00').digest()
        else:
            out[i] = hashlib.sha256(recs[i] + nxt + b'\x01').digest()
        nxt = out[i]
    return out


def encode(payload, rs, draft):
    """returns (stream, digest header value bytes)"""
    recs = records(payload, rs, draft)
    if not recs:
        top = hashlib.sha256(b'\x00').digest()
        return b'', header(top, draft)
    ps = proofs(recs)
    s = rs.to_bytes(8, 'big')
    for i, r in enumerate(recs):
        if i: s += ps[i]
        s += r
    return s, header(ps[0], draft)


def header(top, draft):
    if draft == '02':
        return b'mi-sha256-draft2=' + base64.urlsafe_b64encode(top).rstrip(b'=')
    return b'mi-sha256-03=' + base64.b64encode(top)
