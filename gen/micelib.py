"""Reference MI-SHA256 encoder written from the draft's recursive definition (used only to build inputs)."""
import hashlib, base64


def records(payload, rs, draft):
    if not payload:
        return [b''] if draft == '02' else []
    return [payload[i:i + rs] for i in range(0, len(payload), rs)]


def proofs(recs):
    out = [None] * len(recs)
    nxt = None
    for i in range(len(recs) - 1, -1, -1):
        if nxt is None:
            out[i] = hashlib.sha256(recs[i] + b'\x00').digest()
        else:
            out[i] = hashlib.sha256(recs[i] + nxt + b'\x01').digest()
        nxt = out[i]
    return out


def encode(payload, rs, draft):
    """returns (stream, digest header value bytes)"""
    recs = records(payload, rs, draft)
    if not recs:
        top = hashlib.sha256(b'\x00').digest()
        return b'', header(top, draft)
    ps = proofs(recs)
    s = rs.to_bytes(8, 'big')
    for i, r in enumerate(recs):
        if i: s += ps[i]
        s += r
    return s, header(ps[0], draft)


def header(top, draft):
    if draft == '02':
        return b'mi-sha256-draft2=' + base64.urlsafe_b64encode(top).rstrip(b'=')
    return b'mi-sha256-03=' + base64.b64encode(top)


# ---- the source reader handed to NewDecoder is an input of its own (op mice.dec.src <kind>[:<prefix>] ...; model side: alias of mice.dec)
SRC_SIZED = ['reader', 'reader.read', 'strings', 'section']            # have Size(): total length of the underlying data, not what is unread
SRC_OTHER = ['section.off', 'buffer', 'plain', 'onebyte', 'limit', 'multi', 'file']
SRC_KINDS = SRC_SIZED + SRC_OTHER


def _hx(b):
    return b.hex() if b else '-'


def src_positions(rng):
    """honest streams that do not start at offset 0 of their reader: every prefix length modulo the unit size rs+32 (and one past a
    whole unit), through every reader kind that knows its total size and the other kinds in rotation; every stream must decode"""
    k = 0
    for d in ('02', '03'):
        for rs, n in ((1, 3), (3, 7), (16, 41), (16, 48), (100, 250)):
            p = bytes(rng.getrandbits(8) for _ in range(n))
            s, h = encode(p, rs, d)
            prefixes = list(range(0, rs + 34)) if rs <= 16 else [0, 1, 7, 8, 9, 31, 32, 33, 40, 99, 100, 101, 124, 131, 132, 133, 4096]
            for P in prefixes:
                k += 1
                for kind in SRC_SIZED[(0 if k % 2 else 1)::2] + ['section' if k % 2 else 'strings'] + [SRC_OTHER[k % len(SRC_OTHER)]]:
                    yield f'mice.dec.src {kind}:{P} {d} 16384 {_hx(h)} {_hx(s)} {("-", f"1,0,{rs}", "4096", f"{rs + 1},{rs}")[k % 4]}'
        # the empty payload of each draft and a one-record payload behind a prefix
        for n in (0, 1):
            s, h = encode(b'x' * n, 16, d)
            for P in (0, 1, 8, 17, 40, 47, 48):
                for kind in SRC_KINDS:
                    yield f'mice.dec.src {kind}:{P} {d} 16384 {_hx(h)} {_hx(s)} -'


def src_refusals(rng):
    """streams NewDecoder must refuse (record size 0 / above the caller's limit) or cannot start (shorter than the 8-byte field), with
    0, 1, 300, 5000 bytes of data behind the field, through every reader kind: refused with at most the 8-byte field consumed from
    the caller's reader; plus honest streams (short, multi-record, long final record) through every kind"""
    for d in ('02', '03'):
        p = bytes(rng.getrandbits(8) for _ in range(40))
        s, h = encode(p, 16, d)
        for tail in (b'', b'\x00', (s[8:] * 6)[:300], bytes(rng.getrandbits(8) for _ in range(5000))):
            for mx, nrs in ((16384, 0), (16384, 16385), (16, 17), (16384, 2**32), (16384, 2**63), (16384, 2**64 - 1), (2**63, 2**63 + 1)):
                for kind in SRC_KINDS:
                    for P in ((0, 5) if len(tail) == 300 else (0,)):
                        yield f'mice.dec.src {kind}:{P} {d} {mx} {_hx(h)} {_hx(nrs.to_bytes(8, "big") + tail)} -'
        for cut in (0, 1, 7):
            for kind in SRC_KINDS:
                yield f'mice.dec.src {kind}:0 {d} 16384 {_hx(h)} {_hx(s[:cut])} -'
                yield f'mice.dec.src {kind}:3 {d} 16384 {_hx(h)} {_hx(s[:cut])} 1'
        for rs, n in ((16, 40), (100, 513), (4096, 9000)):
            p = bytes(rng.getrandbits(8) for _ in range(n))
            s2, h2 = encode(p, rs, d)
            for kind in SRC_KINDS:
                yield f'mice.dec.src {kind}:0 {d} 16384 {_hx(h2)} {_hx(s2)} {rs - 1},1,4096'
                if rs == 16:
                    yield f'mice.dec.src {kind}:0 {d} 16384 {_hx(h2)} {_hx(s2[:-1])} -'
                    yield f'mice.dec.src {kind}:0 {d} 16384 {_hx(h2)} {_hx(s2[:8 + 16 + 20])} -'      # cut inside a proof
                    yield f'mice.dec.src {kind}:11 {d} 16384 {_hx(h2)} {_hx(s2 + b"!")} 7,7,7'
