"""Helpers for the signed-exchange properties (C01, C02, C08, C09): exchanges in op-line form,
keys/certs created by the harness, staged verify/read pipelines (model queries -> oracle answers)."""
import hashlib
from common import *

VERS = ['b1', 'b2', 'b3']


def H(hexs_):
    return hashlib.sha256(b'' if hexs_ in ('-', '') else bytes.fromhex(hexs_)).hexdigest()


def unhex(h):
    return b'' if h in ('-', '') else bytes.fromhex(h)


TOKEN_OK = set(b"!#$%&'*+-.^_`|~0123456789abcdefghijklmnopqrstuvwxyzABCDEFGHIJKLMNOPQRSTUVWXYZ")


def canon(name):
    """python mirror of textproto.CanonicalMIMEHeaderKey, used only to build inputs the way Header.Add does"""
    if not all(c in TOKEN_OK for c in name):
        return name
    out, upper = bytearray(), True
    for c in name:
        ch = bytes([c])
        out += ch.upper() if upper else ch.lower()
        upper = c == 0x2d
    return bytes(out)


def hdrs(d):
    """d: list of (name bytes, [values bytes]) -> op string"""
    if not d:
        return '.'
    return ';'.join(hexs(n) + '=' + '|'.join(hexs(v) for v in vs) for n, vs in d)


def add(d, name, value):
    k = canon(name)
    for i, (n, vs) in enumerate(d):
        if n == k:
            d[i] = (n, vs + [value])
            return d
    d.append((k, [value]))
    return d


def ex(ver, uri, method, rq, status, rs, sig=b'', payload=b''):
    return [ver, hexs(uri), hexs(method), hdrs(rq), str(status), hdrs(rs), hexs(sig), hexs(payload)]


def exs(e):
    return ' '.join(e)


def parse_ex(result):
    """'ok <8 fields>' -> list of 8 strings or None"""
    t = result.split(' ')
    if t[0] != 'ok' or len(t) != 9:
        return None
    return t[1:]


class World:
    pass


def setup(ctx):
    w = World()
    specs = [('p256', b'example.com,www.example.com'), ('p384', b'example.com'), ('p256', b'other.example'), ('p521', b'example.com'),
             ('p256', b'example.com')]      # the last one shares its serial number (and curve, and host) with the first: distinct certificates that coincide in an attribute
    res = ctx.go([f'setup.key {c} {hexs(h)} {[1, 2, 3, 4, 1][i]}' for i, (c, h) in enumerate(specs)])
    w.keys = []
    for (c, h), r in zip(specs, res):
        if r and r.startswith('ok '):
            _, cert, key = r.split(' ')
            w.keys.append(dict(curve=c, hosts=h, cert=cert, key=key))
    # cert chains (cert-chain+cbor) for each key
    res = ctx.go([f'cert.write {k["cert"]}:{hexs(b"ocsp-" + k["hosts"])}:nil' for k in w.keys])
    for k, r in zip(w.keys, res):
        k['chain'] = r.split(' ')[1] if r and r.startswith('ok ') else None
    return w


HARMLESS = [b'content-type', b'foo', b'x-custom', b'etag', b'vary', b'link', b'content-language', b'accept', b'user-agent']


def rand_headers(rng, n=None, multi=True):
    d = []
    for _ in range(rng.randrange(0, 4) if n is None else n):
        name = rng.choice(HARMLESS)
        name = bytes(c ^ 0x20 if (65 <= (c & ~0x20) <= 90 and rng.random() < 0.3) else c for c in name)
        add(d, name, bytes(rng.choice(b'abc xyz-;=/,"') for _ in range(rng.randrange(0, 12))))
        if multi and rng.random() < 0.3:
            add(d, name, b'second')
    return d


ODD_URLS = [b'https://example.com/page#', b'https://example.com/caf\xc3\xa9', b'https://example.com/a b.html', b'https://example.com/a|b', b'HTTPS://example.com/',
            b'https://EXAMPLE.com/x', b'https://example.com', b'https://example.com?q', b'https://example.com/?', b'https://example.com/%7euser', b'https://example.com/a%2fb',
            b'https://example.com:/x', b'https://example.com/a/../b', b'https://example.com/./', b'https://example.com/"q"', b'https://example.com/[x]', b'https://example.com/a^b`c{d}']


_odd_counter = [0]


def rand_exchange(rng, ver, payload=None):
    uri = rng.choice([b'https://example.com/', b'https://example.com/a/b?q=1', b'https://example.com:443/x', b'https://www.example.com/p%20q',
                      b'https://example.com/' + b'a' * rng.randrange(0, 60)])
    # spellings that url.Parse(..).String() does not reproduce byte for byte: every fifth exchange takes the next one in turn (each
    # spelling is certain to occur once 5 x 17 exchanges have been drawn; nothing is left to the random draw)
    _odd_counter[0] += 1
    if _odd_counter[0] % 5 == 0:
        uri = ODD_URLS[(_odd_counter[0] // 5) % len(ODD_URLS)]
    method = b'GET'
    rq = rand_headers(rng) if ver != 'b3' else []
    rs = rand_headers(rng)
    add(rs, b'content-type', b'text/html')
    status = rng.choice([200, 200, 200, 404, 301, 203])
    if payload is None:
        payload = rbytes(rng, rng.choice([0, 1, 15, 16, 17, 100]))
    return ex(ver, uri, method, rq, status, rs, b'', payload)


def oracle_tables(ctx, need_lists, fetch):
    """need_lists: list (per item) of query strings 'url:hex' / 'fetch:hex' / 'cert:hex' / 'sig:c:m:s'. Returns per-item table strings."""
    urlq, certq, sigq = set(), set(), set()
    for needs in need_lists:
        for q in needs:
            p = q.split(':')
            if p[0] == 'url': urlq.add(p[1])
            elif p[0] == 'cert': certq.add(p[1])
            elif p[0] == 'sig': sigq.add((p[1], p[2], p[3]))
    urlq, certq, sigq = sorted(urlq), sorted(certq), sorted(sigq)
    ures = ctx.go([f'oracle.url {u}' for u in urlq])
    cres = ctx.go([f'oracle.cert {c}' for c in certq])
    sres = ctx.go([f'oracle.sig {c} {m} {s}' for c, m, s in sigq])
    umap = {u: (f'{u}:{r}' if r and r != '0' else f'{u}:0') for u, r in zip(urlq, ures)}
    cmap = {c: f'{H(c)}:{r}' for c, r in zip(certq, cres)}
    smap = {k: f'{H(k[0])}:{H(k[1])}:{H(k[2])}:{r}' for k, r in zip(sigq, sres)}
    out = []
    for needs in need_lists:
        us, cs, ss = [], [], []
        for q in needs:
            p = q.split(':')
            if p[0] == 'url' and umap[p[1]] not in us: us.append(umap[p[1]])
            elif p[0] == 'cert' and cmap[p[1]] not in cs: cs.append(cmap[p[1]])
            elif p[0] == 'sig' and smap[(p[1], p[2], p[3])] not in ss: ss.append(smap[(p[1], p[2], p[3])])
        out.append((','.join(us) or '.', ','.join(cs) or '.', ','.join(ss) or '.'))
    return out


STATUS_TABLE = None


def status_table(ctx):
    global STATUS_TABLE
    if STATUS_TABLE is None:
        codes = list(range(90, 620)) + [0, -1, 999, 1000]
        res = ctx.go([f'oracle.status {c}' for c in codes])
        STATUS_TABLE = ','.join(f'{c}:{r}' for c, r in zip(codes, res))
    return STATUS_TABLE


def fetch_str(fetch):
    return ','.join(f'{hexs(u)}:{b}' for u, b in fetch.items()) or '.'


def verify_stage(ctx, items, reread=None, tz=None):
    """items: list of (exchange(list of 8), (sec, nsec), fetch dict url(bytes)->chain hex or 'err'). Compared op: sxg.verify.
    tz: {item index: [zone names]} -> additionally sxg.verify.tz (the harness process's local zone set to each of them).
    reread: {item index: file hex} -> additionally sxg.verify.reread (object read from that file, edited into the item's exchange)."""
    if not items:
        return [], []
    needs = ctx.model([f'sxg.verify.needs {exs(e)} {fetch_str(f)}' for e, t, f in items])
    need_lists = [(n or '').split(' ') if n and n != 'bad-op' else [] for n in needs]
    need_lists = [[q for q in nl if q] for nl in need_lists]
    tabs = oracle_tables(ctx, need_lists, None)
    st = status_table(ctx)
    ops = [f'sxg.verify {exs(e)} {t[0]} {t[1]} {u} {fetch_str(f)} {c} {s} {st}' for (e, t, f), (u, c, s) in zip(items, tabs)]
    # provenance variants: the same verification on an object obtained from ReadExchange(file) and then edited in place into `e`
    extra = []
    if reread:
        extra += [f'sxg.verify.reread {reread[i]} {ops[i][len("sxg.verify "):]}' for i in sorted(reread) if i < len(ops)]
    if tz:
        extra += [f'sxg.verify.tz {z} {ops[i][len("sxg.verify "):]}' for i in sorted(tz) if i < len(ops) for z in tz[i]]
    return ctx.both(ops + extra)


def read_stage(ctx, files, op='sxg.read'):
    """files: list of hex strings. Compared op: sxg.read (or sxg.read.buffer: caller-owned *bytes.Buffer, overwritten afterwards)."""
    if not files:
        return [], []
    needs = ctx.model([f'sxg.read.needs {f}' for f in files])
    need_lists = [[n] if n and n.startswith('url:') else [] for n in needs]
    tabs = oracle_tables(ctx, need_lists, None)
    return ctx.both([f'{op} {f} {u}' for f, (u, c, s) in zip(files, tabs)])


def signed_checks(ctx, signed, certurl, vurl, date, expires, tag):
    """signed: [(exchange as signed by the real code, key dict)]. The signing step against the model: the Signature header the library
    produced is the model's header for the signature bytes it contains, and those bytes verify (independent oracle: crypto/ecdsa on the
    certificate's key) over the MODEL's signed message. Half of the sxg.sign calls of a process use a Signer that signed before."""
    import re as _re, base64 as _b64, hashlib as _hl
    chk = []
    for e, k in signed:
        hdr = unhex(e[6])
        mm = _re.search(rb'sig=\*([^*]*)\*', hdr)
        if not mm: continue
        sigb = _b64.b64decode(mm.group(1) + b'=' * (-len(mm.group(1)) % 4))
        certsha = _hl.sha256(unhex(k['cert'])).hexdigest()
        chk.append((e, k, sigb, certsha))
    hres = ctx.model([f'sxg.sigheader {e[0]} {hexs(sigb)} {hexs(vurl)} {hexs(certurl)} {cs} {date} {expires}' for e, k, sigb, cs in chk])
    mres = ctx.model([f'sxg.msg {exs(e)} {cs} {hexs(vurl)} {date} {expires}' for e, k, sigb, cs in chk])
    ores = ctx.go([f'oracle.sig {k["cert"]} {m_.split(" ")[1]} {hexs(sigb)}' if m_ and m_.startswith('ok ') else 'oracle.status 0' for (e, k, sigb, cs), m_ in zip(chk, mres)])
    for (e, k, sigb, cs), h_, o_ in zip(chk, hres, ores):
        ctx.records.append((f'{tag}.sign-header {" ".join(e[:6])}', 'ok ' + e[6], h_))
        ctx.records.append((f'{tag}.sign-signature-verifies-over-model-message {" ".join(e[:3])} {e[6][:40]}', o_, '1'))
