#!/bin/bash
# Build the correspondence harness from /repo's current working tree (no edits to /repo).
# usage: build.sh <outbin> [extra go build flags]
set -e
export GOFLAGS=-mod=mod GOPROXY=off GOSUMDB=off GOTOOLCHAIN=local
REPO=${VERIF_REPO:-/repo}
OUT=$(realpath -m "$1"); shift
H=${VERIF_HARNESS:-$(cd "$(dirname "$0")" && pwd)}
OV=$(mktemp /tmp/verif-overlay.XXXXXX.json)
trap 'rm -f $OV' EXIT
python3 - "$REPO" "$H" > $OV <<'PY'
import json,sys,glob,os
repo,h=sys.argv[1],sys.argv[2]
rep={}
for f in glob.glob(h+'/*.go'):
    rep[repo+'/go/signedexchange/internal/verifharness/'+os.path.basename(f)]=f
# overlay-only export files: harness/overlay/<path relative to the repository root>
for dp,dn,fn in os.walk(h+'/overlay'):
    for f in fn:
        full=os.path.join(dp,f)
        rel=os.path.relpath(full,h+'/overlay')
        rep[os.path.join(repo,rel)]=full
print(json.dumps({"Replace":rep}))
PY
cd $REPO
go build -overlay $OV "$@" -o $OUT ./go/signedexchange/internal/verifharness
