// Correspondence harness: runs the real WICG/webpackage code on one operation per input line and
// prints one canonical result line per operation. Compiled from /repo's working tree with
// `go build -overlay` (this file is mapped into go/signedexchange/internal/verifharness).
package main

import (
	"bufio"
	"encoding/hex"
	"fmt"
	"os"
	"strconv"
	"strings"
	"time"
)

type handler func(args []string) string

var handlers = map[string]handler{}

func register(op string, h handler) { handlers[op] = h }

func toHex(b []byte) string {
	if len(b) == 0 {
		return "-"
	}
	return hex.EncodeToString(b)
}

func ofHex(s string) []byte {
	if s == "-" || s == "" {
		return []byte{}
	}
	if strings.HasPrefix(s, "rep:") {
		parts := strings.Split(s[4:], ":")
		b, err := hex.DecodeString(parts[0])
		if err != nil {
			panic("bad-op")
		}
		n, err := strconv.Atoi(parts[1])
		if err != nil {
			panic("bad-op")
		}
		return []byte(strings.Repeat(string(b), n))
	}
	b, err := hex.DecodeString(s)
	if err != nil {
		panic("bad-op")
	}
	return b
}

type badOp struct{}

// runOne runs one op with panic recovery and a watchdog.
func runOne(op string, args []string, timeout time.Duration) (res string) {
	h, ok := handlers[op]
	if !ok {
		return "bad-op"
	}
	done := make(chan string, 1)
	go func() {
		defer func() {
			if r := recover(); r != nil {
				if s, ok := r.(string); ok && s == "bad-op" {
					done <- "bad-op"
					return
				}
				done <- "panic"
			}
		}()
		done <- h(args)
	}()
	select {
	case r := <-done:
		return r
	case <-time.After(timeout):
		return "timeout"
	}
}

func main() {
	timeout := 5 * time.Second
	if v := os.Getenv("VERIF_OP_TIMEOUT_MS"); v != "" {
		if ms, err := strconv.Atoi(v); err == nil {
			timeout = time.Duration(ms) * time.Millisecond
		}
	}
	in := bufio.NewReaderSize(os.Stdin, 1<<20)
	out := bufio.NewWriterSize(os.Stdout, 1<<20)
	defer out.Flush()
	for {
		line, err := in.ReadString('\n')
		line = strings.TrimSpace(line)
		if line != "" {
			toks := strings.Fields(line)
			if len(toks) >= 2 {
				r := runOne(toks[1], toks[2:], timeout)
				fmt.Fprintf(out, "%s %s\n", toks[0], r)
				if r == "timeout" {
					// a goroutine is stuck; flush and keep going (it only burns one core)
					out.Flush()
				}
			}
		}
		if err != nil {
			break
		}
	}
}
