package main

import (
	"github.com/WICG/webpackage/go/internal/signingalgorithm"
	"crypto/sha512"
	"crypto/elliptic"
	"crypto/ecdsa"
	"bytes"
	"crypto/sha256"
	"crypto/x509"
	"fmt"
	"net/url"
	"strconv"
	"strings"
	"time"

	"github.com/WICG/webpackage/go/bundle/signature"
	"github.com/WICG/webpackage/go/signedexchange/certurl"
)

func parseSubset(s string) *signature.SignedSubset {
	p := strings.Split(s, "|")
	if len(p) != 5 {
		panic("bad-op")
	}
	d, err1 := strconv.ParseInt(p[2], 10, 64)
	x, err2 := strconv.ParseInt(p[3], 10, 64)
	if err1 != nil || err2 != nil {
		panic("bad-op")
	}
	ss := &signature.SignedSubset{ValidityUrl: rawURL(p[0]), AuthSha256: ofHex(p[1]), Date: time.Unix(d, 0), Expires: time.Unix(x, 0),
		SubsetHashes: map[string]*signature.ResponseHashes{}}
	if p[4] != "." {
		for _, e := range strings.Split(p[4], ",") {
			q := strings.Split(e, "^")
			if len(q) < 2 {
				panic("bad-op")
			}
			rh := &signature.ResponseHashes{VariantsValue: ofHex(q[1])}
			for _, h := range q[2:] {
				ab := strings.Split(h, "~")
				rh.Hashes = append(rh.Hashes, &signature.ResourceIntegrity{HeaderSha256: ofHex(ab[0]), PayloadIntegrityHeader: string(ofHex(ab[1]))})
			}
			ss.SubsetHashes[string(ofHex(q[0]))] = rh
		}
	}
	return ss
}

func init() {
	register("bsig.subset", func(args []string) string {
		b, err := parseSubset(args[0]).Encode()
		if err != nil {
			return "err"
		}
		return "ok " + toHex(b)
	})
	register("bsig.msg", func(args []string) string {
		return "ok " + toHex(signature.VerifGenerateSignedMessage(ofHex(args[0]), bundleVersion(args[1])))
	})
	register("oracle.cansign", func(args []string) string {
		cert, err := x509.ParseCertificate(ofHex(args[0]))
		if err != nil {
			return "0"
		}
		u := rawURL(args[1])
		if cert.VerifyHostname(u.Hostname()) == nil {
			return "1"
		}
		return "0"
	})
	// go-only: the loop of cmd/sign-bundle addSignature, with a real key
	register("bsig.sign", func(args []string) string {
		b, rest := parseBundle(args)
		rs, _ := strconv.Atoi(rest[0])
		chain := certurlChain(rest[1])
		key, err := x509.ParsePKCS8PrivateKey(ofHex(rest[2]))
		if err != nil {
			panic("bad-op")
		}
		vurl := rawURL(rest[3])
		dur, _ := strconv.ParseInt(rest[5], 10, 64)
		signer, err := signature.NewSigner(b.Version, chain, key, vurl, parseTimeArg(rest[4]), time.Duration(dur)*time.Second)
		if err != nil {
			return "err newsigner"
		}
		for _, e := range b.Exchanges {
			if !signer.CanSignForURL(e.Request.URL) {
				continue
			}
			pih, err := e.AddPayloadIntegrity(b.Version, rs)
			if err != nil {
				return "err integrity"
			}
			if err := signer.AddExchange(e, pih); err != nil {
				return "err addexchange"
			}
		}
		ns, err := signer.UpdateSignatures(b.Signatures)
		if err != nil {
			return "err update"
		}
		// the same Signer asked again (nothing added in between) must vouch for the same subset, and that second signature must
		// verify under the signer's certificate over the message the library defines for it
		ns2, err := signer.UpdateSignatures(nil)
		if err != nil {
			return "err second update"
		}
		v1, v2 := ns.VouchedSubsets[len(ns.VouchedSubsets)-1], ns2.VouchedSubsets[len(ns2.VouchedSubsets)-1]
		if !bytes.Equal(v1.Signed, v2.Signed) {
			return "err second-signing-differs"
		}
		ver, err := signingalgorithm.VerifierForPublicKey(chain[0].Cert.PublicKey)
		if err == nil {
			if ok, _ := ver.Verify(signature.VerifGenerateSignedMessage(v2.Signed, b.Version), v2.Sig); !ok {
				// independent check with the stdlib (the library's own verifier may share a defect with its signer)
				return "err second-signature-invalid"
			}
			if pk, isEC := chain[0].Cert.PublicKey.(*ecdsa.PublicKey); isEC {
				msg := signature.VerifGenerateSignedMessage(v2.Signed, b.Version)
				var digest []byte
				if pk.Curve == elliptic.P384() {
					d := sha512.Sum384(msg)
					digest = d[:]
				} else {
					d := sha256.Sum256(msg)
					digest = d[:]
				}
				if !ecdsa.VerifyASN1(pk, digest, v2.Sig) {
					return "err second-signature-invalid(stdlib)"
				}
			}
		}
		b.Signatures = ns
		return "ok " + showBundle(b)
	})
	register("bsig.verify", func(args []string) string {
		b, rest := parseBundle(args)
		sec, _ := strconv.ParseInt(rest[0], 10, 64)
		nsec, _ := strconv.ParseInt(rest[1], 10, 64)
		if b.Signatures == nil {
			return "nosigs"
		}
		v, err := signature.NewVerifier(b.Signatures, time.Unix(sec, nsec), b.Version)
		if err != nil {
			return "nverr"
		}
		out := []string{}
		for _, e := range b.Exchanges {
			r, err := v.VerifyExchange(e)
			switch {
			case err != nil:
				out = append(out, "e")
			case r == nil:
				out = append(out, "u")
			default:
				h := sha256.Sum256(r.Authority.Cert.Raw)
				out = append(out, fmt.Sprintf("v:%s:%s", toHex(r.VerifiedPayload), toHex(h[:])))
			}
		}
		if len(out) == 0 {
			return "ok ."
		}
		return "ok " + strings.Join(out, ";")
	})
}

var _ = url.Parse
var _ certurl.CertChain
