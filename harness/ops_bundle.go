package main

import (
	"bytes"
	"crypto/x509"
	"fmt"
	"io"
	"net/url"
	"strconv"
	"strings"

	"github.com/WICG/webpackage/go/bundle"
	bversion "github.com/WICG/webpackage/go/bundle/version"
	"github.com/WICG/webpackage/go/signedexchange/certurl"
)

func bundleVersion(s string) bversion.Version {
	v, ok := bversion.Parse(s)
	if !ok {
		panic("bad-op")
	}
	return v
}

// rawURL builds a *url.URL whose String() is exactly s (s is what the model sees as URL.String()).
func rawURL(h string) *url.URL {
	s := string(ofHex(h))
	u, err := url.Parse(s)
	if err == nil && u.String() == s {
		return u
	}
	// not reproducible through Parse: Opaque URLs print verbatim after "scheme:"; use a scheme-less opaque form
	return &url.URL{Opaque: s}
}

func optURL(h string) *url.URL {
	if h == "nil" {
		return nil
	}
	return rawURL(h)
}

func parseAug(c string) *certurl.AugmentedCertificate {
	p := strings.Split(c, ":")
	if len(p) != 3 {
		panic("bad-op")
	}
	cert, err := x509.ParseCertificate(ofHex(p[0]))
	if err != nil {
		panic("bad-op")
	}
	a := &certurl.AugmentedCertificate{Cert: cert}
	if p[1] != "nil" {
		a.OCSPResponse = ofHex(p[1])
	}
	if p[2] != "nil" {
		a.SCTList = ofHex(p[2])
	}
	return a
}

func showAug(a *certurl.AugmentedCertificate) string {
	o, s := "nil", "nil"
	if a.OCSPResponse != nil {
		o = toHex(a.OCSPResponse)
	}
	if a.SCTList != nil {
		s = toHex(a.SCTList)
	}
	return toHex(a.Cert.Raw) + ":" + o + ":" + s
}

func parseSigs(s string) *bundle.Signatures {
	if s == "nil" {
		return nil
	}
	parts := strings.Split(s, "/")
	if len(parts) != 2 {
		panic("bad-op")
	}
	sigs := &bundle.Signatures{}
	if parts[0] != "." {
		for _, a := range strings.Split(parts[0], "+") {
			sigs.Authorities = append(sigs.Authorities, parseAug(a))
		}
	}
	if parts[1] != "." {
		for _, v := range strings.Split(parts[1], "+") {
			p := strings.Split(v, ":")
			if len(p) != 3 {
				panic("bad-op")
			}
			idx, err := strconv.ParseUint(p[0], 10, 64)
			if err != nil {
				panic("bad-op")
			}
			sigs.VouchedSubsets = append(sigs.VouchedSubsets, &bundle.VouchedSubset{Authority: idx, Sig: ofHex(p[1]), Signed: ofHex(p[2])})
		}
	}
	return sigs
}

func showSigs(s *bundle.Signatures) string {
	if s == nil {
		return "nil"
	}
	a, v := ".", "."
	if len(s.Authorities) > 0 {
		as := []string{}
		for _, x := range s.Authorities {
			as = append(as, showAug(x))
		}
		a = strings.Join(as, "+")
	}
	if len(s.VouchedSubsets) > 0 {
		vs := []string{}
		for _, x := range s.VouchedSubsets {
			vs = append(vs, fmt.Sprintf("%d:%s:%s", x.Authority, toHex(x.Sig), toHex(x.Signed)))
		}
		v = strings.Join(vs, "+")
	}
	return a + "/" + v
}

// parseBundle consumes 5 args
func parseBundle(a []string) (*bundle.Bundle, []string) {
	if len(a) < 5 {
		panic("bad-op")
	}
	b := &bundle.Bundle{Version: bundleVersion(a[0]), PrimaryURL: optURL(a[1]), ManifestURL: optURL(a[2]), Signatures: parseSigs(a[3])}
	if a[4] != "." {
		for _, e := range strings.Split(a[4], ",") {
			p := strings.Split(e, "~")
			if len(p) != 4 {
				panic("bad-op")
			}
			st, err := strconv.Atoi(p[1])
			if err != nil {
				panic("bad-op")
			}
			b.Exchanges = append(b.Exchanges, &bundle.Exchange{
				Request:  bundle.Request{URL: rawURL(p[0])},
				Response: bundle.Response{Status: st, Header: parseHeaders(p[2]), Body: ofHex(p[3])},
			})
		}
	}
	return b, a[5:]
}

func showURL(u *url.URL) string {
	if u == nil {
		return "nil"
	}
	return toHex([]byte(u.String()))
}

func showBundle(b *bundle.Bundle) string {
	ex := "."
	if len(b.Exchanges) > 0 {
		es := []string{}
		for _, e := range b.Exchanges {
			es = append(es, fmt.Sprintf("%s~%d~%s~%s", toHex([]byte(e.Request.URL.String())), e.Response.Status, showHeaders(e.Response.Header), toHex(e.Response.Body)))
		}
		ex = strings.Join(es, ",")
	}
	return fmt.Sprintf("%s %s %s %s %s", string(b.Version), showURL(b.PrimaryURL), showURL(b.ManifestURL), showSigs(b.Signatures), ex)
}

// plainWriter hides ReaderFrom of the underlying buffer
type plainWriter struct{ w io.Writer }

func (p plainWriter) Write(b []byte) (int, error) { return p.w.Write(b) }

func init() {
	register("oracle.burl", func(args []string) string {
		u, err := url.Parse(string(ofHex(args[0])))
		if err != nil {
			return "0"
		}
		b := func(x bool) string {
			if x {
				return "1"
			}
			return "0"
		}
		return fmt.Sprintf("1:%s:%s:%s:%s", b(u.Fragment != ""), b(u.User != nil), b(u.IsAbs()), toHex([]byte(u.String())))
	})
	write := func(args []string, plain bool) string {
		b, _ := parseBundle(args)
		var buf bytes.Buffer
		var w io.Writer = &buf
		if plain {
			w = plainWriter{&buf}
		}
		// one URL OBJECT for the primary (resp. manifest) URL and for the exchange that has the same URL, as callers naturally build it
		for _, e := range b.Exchanges {
			if b.PrimaryURL != nil && e.Request.URL != nil && e.Request.URL.String() == b.PrimaryURL.String() {
				b.PrimaryURL = e.Request.URL
			}
			if b.ManifestURL != nil && e.Request.URL != nil && e.Request.URL.String() == b.ManifestURL.String() {
				b.ManifestURL = e.Request.URL
			}
		}
		before := showBundle(b)
		n, err := b.WriteTo(w)
		if err != nil {
			return "err"
		}
		if n != int64(buf.Len()) {
			return fmt.Sprintf("count-mismatch %d %d", n, buf.Len())
		}
		// WriteTo is an observer of the bundle, and writing the same bundle again gives the same bytes
		if after := showBundle(b); after != before {
			return "input-modified-by-write"
		}
		var again bytes.Buffer
		if _, err := b.WriteTo(&again); err != nil || !bytes.Equal(again.Bytes(), buf.Bytes()) {
			return "second-write-differs"
		}
		return "ok " + toHex(buf.Bytes())
	}
	register("bundle.write", func(args []string) string { return write(args, false) })
	// destination that is itself a *bundle.CountingWriter which has already counted a prefix; the bundle is written twice
	// through it: both times the returned count and the trailing length must describe this bundle alone
	register("bundle.write.cw", func(args []string) string {
		b, _ := parseBundle(args)
		var buf bytes.Buffer
		cw := bundle.NewCountingWriter(plainWriter{&buf})
		cw.Write([]byte("0123456789abcdef"))
		n1, err := b.WriteTo(cw)
		if err != nil {
			return "err"
		}
		first := append([]byte{}, buf.Bytes()[16:]...)
		if n1 != int64(len(first)) {
			return fmt.Sprintf("count-mismatch %d %d", n1, len(first))
		}
		n2, err := b.WriteTo(cw)
		if err != nil {
			return "err-second"
		}
		second := buf.Bytes()[16+len(first):]
		if n2 != int64(len(second)) {
			return fmt.Sprintf("count-mismatch-second %d %d", n2, len(second))
		}
		if !bytes.Equal(first, second) {
			return "second-write-differs " + toHex(second)
		}
		return "ok " + toHex(first)
	})
	register("bundle.write.plain", func(args []string) string { return write(args, true) })
	register("bundle.read", func(args []string) string {
		b, err := bundle.Read(bytes.NewReader(ofHex(args[0])))
		if err != nil {
			return "err"
		}
		return "ok " + showBundle(b)
	})
}
