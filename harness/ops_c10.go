package main

// C10: every parser entry point under recover / watchdog (main.go) with the bytes it allocates measured.
// Results: "<class> <TotalAlloc delta> <Mallocs delta>", class = ok | err.

import (
	"bytes"
	"crypto/ecdsa"
	"crypto/rand"
	"crypto/x509"
	"fmt"
	"io/ioutil"
	"log"
	"os"
	"runtime"
	"strconv"
	"time"

	"github.com/WICG/webpackage/go/bundle"
	"github.com/WICG/webpackage/go/bundle/signature"
	"github.com/WICG/webpackage/go/integrityblock"
	"github.com/WICG/webpackage/go/internal/cbor"
	"github.com/WICG/webpackage/go/internal/signingalgorithm"
	sxg "github.com/WICG/webpackage/go/signedexchange"
	"github.com/WICG/webpackage/go/signedexchange/certurl"
	sh "github.com/WICG/webpackage/go/signedexchange/structuredheader"
)

func measure(f func() bool) string {
	var m0, m1 runtime.MemStats
	runtime.ReadMemStats(&m0)
	ok := f()
	runtime.ReadMemStats(&m1)
	cls := "err"
	if ok {
		cls = "ok"
	}
	return fmt.Sprintf("%s %d %d", cls, m1.TotalAlloc-m0.TotalAlloc, m1.Mallocs-m0.Mallocs)
}

func init() {
	register("c10.cbor", func(args []string) string {
		in := ofHex(args[1])
		return measure(func() bool {
			d := cbor.NewDecoder(bytes.NewReader(in))
			var err error
			switch args[0] {
			case "uint":
				_, err = d.DecodeUint()
			case "array":
				_, err = d.DecodeArrayHeader()
			case "map":
				_, err = d.DecodeMapHeader()
			case "bytes":
				_, err = d.DecodeByteString()
			case "text":
				_, err = d.DecodeTextString()
			default:
				panic("bad-op")
			}
			return err == nil
		})
	})
	register("c10.cert", func(args []string) string {
		in := ofHex(args[0])
		return measure(func() bool {
			_, err := certurl.ReadCertChain(bytes.NewReader(in))
			return err == nil
		})
	})
	register("c10.sxg", func(args []string) string {
		in := ofHex(args[0])
		return measure(func() bool {
			_, err := sxg.ReadExchange(bytes.NewReader(in))
			return err == nil
		})
	})
	register("c10.bundle", func(args []string) string {
		in := ofHex(args[0])
		return measure(func() bool {
			_, err := bundle.Read(bytes.NewReader(in))
			return err == nil
		})
	})
	// bundle reader followed by the bundle-signature verifier on whatever signatures section was read
	register("c10.bundleverify", func(args []string) string {
		in := ofHex(args[0])
		sec, _ := strconv.ParseInt(args[1], 10, 64)
		return measure(func() bool {
			b, err := bundle.Read(bytes.NewReader(in))
			if err != nil {
				return false
			}
			if b.Signatures != nil {
				v, err := signature.NewVerifier(b.Signatures, time.Unix(sec, 0), b.Version)
				if err == nil {
					for _, e := range b.Exchanges {
						v.VerifyExchange(e)
					}
				}
			}
			return true
		})
	})
	register("c10.sh", func(args []string) string {
		in := string(ofHex(args[1]))
		return measure(func() bool {
			var err error
			if args[0] == "pl" {
				_, err = sh.ParseParameterisedList(in)
			} else {
				_, err = sh.ParseListOfLists(in)
			}
			return err == nil
		})
	})
	register("c10.mice", func(args []string) string {
		enc := miceEnc(args[0])
		mx, err := strconv.ParseUint(args[1], 10, 64)
		if err != nil {
			panic("bad-op")
		}
		digest := string(ofHex(args[2]))
		in := ofHex(args[3])
		return measure(func() bool {
			r, err := enc.NewDecoder(bytes.NewReader(in), digest, mx)
			if err != nil {
				return false
			}
			_, err = ioutil.ReadAll(r)
			return err == nil
		})
	})
	register("c10.ib", func(args []string) string {
		f, err := ioutil.TempFile("", "verif-ib-*")
		if err != nil {
			panic("bad-op")
		}
		defer os.Remove(f.Name())
		defer f.Close()
		f.Write(ofHex(args[0]))
		return measure(func() bool {
			has, err := integrityblock.WebBundleHasIntegrityBlock(f)
			if err != nil {
				return false
			}
			_ = has
			_, _, err = integrityblock.ObtainIntegrityBlock(f)
			return err == nil
		})
	})
	// the bundle-signature verifier on attacker-chosen `signed` bytes: they are really signed with the given key so that
	// verifyVouchedSubset reaches decodeSignedSubset. args: version, chain spec, pkcs8 key, signed bytes, unix time
	register("c10.subset", func(args []string) string {
		ver := bundleVersion(args[0])
		chain := certurlChain(args[1])
		key, err := x509.ParsePKCS8PrivateKey(ofHex(args[2]))
		if err != nil {
			panic("bad-op")
		}
		signed := ofHex(args[3])
		sec, _ := strconv.ParseInt(args[4], 10, 64)
		alg, err := signingalgorithm.SigningAlgorithmForPrivateKey(key.(*ecdsa.PrivateKey), rand.Reader)
		if err != nil {
			panic("bad-op")
		}
		sig, err := alg.Sign(signature.VerifGenerateSignedMessage(signed, ver))
		if err != nil {
			panic("bad-op")
		}
		sigs := &bundle.Signatures{Authorities: chain, VouchedSubsets: []*bundle.VouchedSubset{{Authority: 0, Sig: sig, Signed: signed}}}
		return measure(func() bool {
			_, err := signature.NewVerifier(sigs, time.Unix(sec, 0), ver)
			return err == nil
		})
	})
	// signed-exchange verifier: Signature header parse, cert chain from the fetcher, MI decoding of the payload
	register("c10.verify", func(args []string) string {
		e, rest := parseExchange(args)
		certBytes := ofHex(rest[0])
		sec, _ := strconv.ParseInt(rest[1], 10, 64)
		fetcher := func(u string) ([]byte, error) { return certBytes, nil }
		return measure(func() bool {
			_, ok := e.Verify(time.Unix(sec, 0), fetcher, log.New(ioutil.Discard, "", 0))
			return ok
		})
	})
}
