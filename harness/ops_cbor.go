package main

import (
	"bytes"
	"fmt"
	"io"
	"strconv"
	"strings"

	"github.com/WICG/webpackage/go/internal/cbor"
	"github.com/WICG/webpackage/go/signedexchange/internal/bigendian"
)

// script interpreter: prefix notation, see DESIGN 3.1
type scriptState struct {
	toks []string
	err  error
}

func (s *scriptState) next() string {
	if len(s.toks) == 0 {
		panic("bad-op")
	}
	t := s.toks[0]
	s.toks = s.toks[1:]
	return t
}

func (s *scriptState) note(err error) {
	if err != nil && s.err == nil {
		s.err = err
	}
}

func (s *scriptState) runCalls(n int, enc *cbor.Encoder) {
	for i := 0; i < n; i++ {
		t := s.next()
		tag, arg := t[:1], t[1:]
		switch tag {
		case "u":
			v, err := strconv.ParseUint(arg, 10, 64)
			if err != nil {
				panic("bad-op")
			}
			s.note(enc.EncodeUint(v))
		case "i":
			v, err := strconv.ParseInt(arg, 10, 64)
			if err != nil {
				panic("bad-op")
			}
			s.note(enc.EncodeInt(v))
		case "b":
			s.note(enc.EncodeByteString(ofHex(arg)))
		case "t":
			s.note(enc.EncodeTextString(string(ofHex(arg))))
		case "a":
			v, err := strconv.ParseUint(arg, 10, 63)
			if err != nil {
				panic("bad-op")
			}
			s.note(enc.EncodeArrayHeader(int(v)))
		case "o":
			s.note(enc.EncodeBool(arg == "1"))
		case "m":
			cnt, err := strconv.Atoi(arg)
			if err != nil {
				panic("bad-op")
			}
			mes := []*cbor.MapEntryEncoder{}
			for j := 0; j < cnt; j++ {
				k := s.next()
				if k[:1] != "k" {
					panic("bad-op")
				}
				kn, _ := strconv.Atoi(k[1:])
				me := cbor.GenerateMapEntry(func(keyE *cbor.Encoder, valueE *cbor.Encoder) {
					s.runCalls(kn, keyE)
					v := s.next()
					if v[:1] != "v" {
						panic("bad-op")
					}
					vn, _ := strconv.Atoi(v[1:])
					s.runCalls(vn, valueE)
				})
				mes = append(mes, me)
			}
			s.note(enc.EncodeMap(mes))
		default:
			panic("bad-op")
		}
	}
}

func errClass(err error) string {
	switch err {
	case cbor.ErrInvalidUTF8:
		return "utf8"
	case cbor.ErrDuplicatedKey:
		return "dup"
	}
	return "other"
}

func init() {
	register("cbor.enc", func(args []string) string {
		n, err := strconv.Atoi(args[0])
		if err != nil {
			panic("bad-op")
		}
		var buf bytes.Buffer
		s := &scriptState{toks: args[1:]}
		s.runCalls(n, cbor.NewEncoder(&buf))
		if len(s.toks) != 0 {
			panic("bad-op")
		}
		if s.err != nil {
			return "err " + errClass(s.err)
		}
		return "ok " + toHex(buf.Bytes())
	})
	// the calls of a script one after another on ONE encoder, refused calls included: what the stream holds afterwards (a refused
	// call must not leave anything behind, or whatever is encoded afterwards is no longer what a decoder reads back)
	register("cbor.enc.cont", func(args []string) string {
		n, err := strconv.Atoi(args[0])
		if err != nil {
			panic("bad-op")
		}
		var buf bytes.Buffer
		s := &scriptState{toks: args[1:]}
		s.runCalls(n, cbor.NewEncoder(&buf))
		if len(s.toks) != 0 {
			panic("bad-op")
		}
		e := "noerr"
		if s.err != nil {
			e = "first-err-" + errClass(s.err)
		}
		return "ok " + toHex(buf.Bytes()) + " " + e
	})
	// encoder output fed to the deterministic-CBOR check: everything the encoder emits must be accepted
	register("cbor.encdet", func(args []string) (res string) {
		n, err := strconv.Atoi(args[0])
		if err != nil {
			panic("bad-op")
		}
		var buf bytes.Buffer
		s := &scriptState{toks: args[1:]}
		s.runCalls(n, cbor.NewEncoder(&buf))
		if len(s.toks) != 0 {
			panic("bad-op")
		}
		if s.err != nil {
			return "err " + errClass(s.err)
		}
		defer func() {
			if r := recover(); r != nil {
				res = "reject " + toHex(buf.Bytes())
			}
		}()
		if err := cbor.Deterministic(buf.Bytes()); err != nil {
			return "reject " + toHex(buf.Bytes())
		}
		return "accept " + toHex(buf.Bytes())
	})
	decN := func(f func(d *cbor.Decoder) (uint64, error)) handler {
		return func(args []string) string {
			bs := ofHex(args[0])
			r := bytes.NewReader(bs)
			v, err := f(cbor.NewDecoder(r))
			if err != nil {
				return "err"
			}
			return fmt.Sprintf("ok %d %d", v, len(bs)-r.Len())
		}
	}
	register("cbor.dec.uint", decN(func(d *cbor.Decoder) (uint64, error) { return d.DecodeUint() }))
	register("cbor.dec.arr", decN(func(d *cbor.Decoder) (uint64, error) { return d.DecodeArrayHeader() }))
	register("cbor.dec.map", decN(func(d *cbor.Decoder) (uint64, error) { return d.DecodeMapHeader() }))
	register("cbor.dec.bytes", func(args []string) string {
		bs := ofHex(args[0])
		r := bytes.NewReader(bs)
		v, err := cbor.NewDecoder(r).DecodeByteString()
		if err != nil {
			return "err"
		}
		return fmt.Sprintf("ok %s %d", toHex(v), len(bs)-r.Len())
	})
	register("cbor.dec.text", func(args []string) string {
		bs := ofHex(args[0])
		r := bytes.NewReader(bs)
		v, err := cbor.NewDecoder(r).DecodeTextString()
		if err != nil {
			return "err"
		}
		return fmt.Sprintf("ok %s %d", toHex([]byte(v)), len(bs)-r.Len())
	})
	// several decode calls on ONE decoder over different kinds of io.Reader; after the last call the number of bytes taken from
	// the underlying reader must be exactly the bytes of the decoded items (no read-ahead, no short-read confusion)
	register("cbor.dec.seq", func(args []string) string {
		bs := ofHex(args[2])
		cr := &countingReader{r: bytes.NewReader(bs)}
		var r io.Reader
		switch args[0] {
		case "bytes":
			r = bytes.NewReader(bs) // has ReadByte; consumption measured through Len below
		case "buffer":
			r = bytes.NewBuffer(append([]byte{}, bs...)) // *bytes.Buffer: ReadByte, Next, ReadFrom ... fast paths must behave like the generic path
		case "plain":
			r = struct{ io.Reader }{cr}
		case "one":
			r = struct{ io.Reader }{&oneByteReader{cr}}
		case "limited":
			r = &io.LimitedReader{R: cr, N: int64(len(bs))}
		default:
			panic("bad-op")
		}
		d := cbor.NewDecoder(r)
		out := []string{}
		for i, c := range args[1] {
			var err error
			var v string
			switch c {
			case 'u':
				var n uint64
				n, err = d.DecodeUint()
				v = fmt.Sprintf("%d", n)
			case 'a':
				var n uint64
				n, err = d.DecodeArrayHeader()
				v = fmt.Sprintf("%d", n)
			case 'm':
				var n uint64
				n, err = d.DecodeMapHeader()
				v = fmt.Sprintf("%d", n)
			case 'b':
				var b []byte
				b, err = d.DecodeByteString()
				v = toHex(b)
			case 't':
				var t string
				t, err = d.DecodeTextString()
				v = toHex([]byte(t))
			default:
				panic("bad-op")
			}
			if err != nil {
				return fmt.Sprintf("err %d %s", i, strings.Join(out, ","))
			}
			out = append(out, v)
		}
		used := cr.n
		if br, ok := r.(*bytes.Reader); ok {
			used = len(bs) - br.Len()
		}
		if bb, ok := r.(*bytes.Buffer); ok {
			used = len(bs) - bb.Len()
		}
		return fmt.Sprintf("ok %d %s", used, strings.Join(out, ","))
	})
	register("cbor.det", func(args []string) (res string) {
		// a panic is a legal way of not accepting (the repository's tests require it)
		defer func() {
			if r := recover(); r != nil {
				res = "reject"
			}
		}()
		if err := cbor.Deterministic(ofHex(args[0])); err != nil {
			return "reject"
		}
		return "ok"
	})
	// the same check on a slice with SPARE CAPACITY (a prefix of a larger buffer, as bytes.Buffer.Bytes(), io.ReadAll or full[:n] give):
	// what lies behind len(input) is not input
	register("cbor.det.cap", func(args []string) (res string) {
		defer func() {
			if r := recover(); r != nil {
				res = "reject"
			}
		}()
		in := ofHex(args[0])
		back := make([]byte, len(in)+96)
		copy(back, in)
		for i := len(in); i < len(back); i++ {
			back[i] = []byte{0x61, 0x00, 0x01, 0x41, 0x18, 0x60}[i%6]
		}
		if err := cbor.Deterministic(back[:len(in)]); err != nil {
			return "reject"
		}
		return "ok"
	})
	register("be.enc", func(args []string) string {
		n, err := strconv.ParseInt(args[0], 10, 64)
		if err != nil {
			panic("bad-op")
		}
		size, _ := strconv.Atoi(args[1])
		bs, err := bigendian.EncodeBytesUint(n, size)
		if err != nil {
			return "err"
		}
		return "ok " + toHex(bs)
	})
	register("be.dec3", func(args []string) string {
		bs := ofHex(args[0])
		if len(bs) != 3 {
			panic("bad-op")
		}
		return fmt.Sprintf("ok %d", bigendian.Decode3BytesUint([3]byte{bs[0], bs[1], bs[2]}))
	})
}

type countingReader struct {
	r io.Reader
	n int
}

func (c *countingReader) Read(p []byte) (int, error) {
	n, err := c.r.Read(p)
	c.n += n
	return n, err
}

// hands out one byte per Read call (short reads are legal for an io.Reader)
type oneByteReader struct{ r io.Reader }

func (o *oneByteReader) Read(p []byte) (int, error) {
	if len(p) == 0 {
		return 0, nil
	}
	return o.r.Read(p[:1])
}

