package main

import (
	"crypto/ecdsa"
	"crypto/ed25519"
	"crypto/elliptic"
	"crypto/rand"
	"crypto/x509"
	"crypto/x509/pkix"
	"encoding/pem"
	"math/big"
	"strings"
	"time"

	"github.com/youmark/pkcs8"
)

// setup.pem <kind> <hosts-hex> [<passphrase-hex>]: key material for the CLI runs (C20)
//   kinds: ec-sec1-p256, ec-pkcs8-p256, ec-pkcs8-p384, ed25519-pkcs8, ed25519-pkcs8-enc
// returns: ok <private key PEM hex> <certificate PEM hex or -> <public key PEM hex or -> <raw public key hex or ->
func init() {
	register("setup.pem", func(args []string) string {
		kind := args[0]
		hosts := strings.Split(string(ofHex(args[1])), ",")
		pemOf := func(t string, b []byte) []byte { return pem.EncodeToMemory(&pem.Block{Type: t, Bytes: b}) }
		switch {
		case strings.HasPrefix(kind, "ec-"):
			curve := elliptic.P256()
			if strings.HasSuffix(kind, "p384") {
				curve = elliptic.P384()
			}
			key, err := ecdsa.GenerateKey(curve, rand.Reader)
			if err != nil {
				return "err"
			}
			var keyPem []byte
			if strings.HasPrefix(kind, "ec-sec1") {
				b, _ := x509.MarshalECPrivateKey(key)
				keyPem = pemOf("EC PRIVATE KEY", b)
				if strings.HasPrefix(kind, "ec-sec1-params") {
					// what `openssl ecparam -genkey` writes: an EC PARAMETERS block (the curve OID) in front of the key
					keyPem = append(pemOf("EC PARAMETERS", []byte{0x06, 0x08, 0x2a, 0x86, 0x48, 0xce, 0x3d, 0x03, 0x01, 0x07}), keyPem...)
				}
			} else {
				b, _ := x509.MarshalPKCS8PrivateKey(key)
				keyPem = pemOf("PRIVATE KEY", b)
			}
			tmpl := &x509.Certificate{SerialNumber: big.NewInt(7), Subject: pkix.Name{CommonName: hosts[0]},
				NotBefore: time.Now().Add(-time.Hour), NotAfter: time.Now().Add(80 * 24 * time.Hour), DNSNames: hosts}
			der, err := x509.CreateCertificate(rand.Reader, tmpl, tmpl, &key.PublicKey, key)
			if err != nil {
				return "err"
			}
			return "ok " + toHex(keyPem) + " " + toHex(pemOf("CERTIFICATE", der)) + " - -"
		case strings.HasPrefix(kind, "ed25519"):
			pub, priv, err := ed25519.GenerateKey(rand.Reader)
			if err != nil {
				return "err"
			}
			var keyPem []byte
			if strings.HasSuffix(kind, "-enc") {
				b, err := pkcs8.MarshalPrivateKey(priv, ofHex(args[2]), nil)
				if err != nil {
					return "err"
				}
				keyPem = pemOf("ENCRYPTED PRIVATE KEY", b)
			} else {
				b, _ := x509.MarshalPKCS8PrivateKey(priv)
				keyPem = pemOf("PRIVATE KEY", b)
			}
			pb, _ := x509.MarshalPKIXPublicKey(pub)
			return "ok " + toHex(keyPem) + " - " + toHex(pemOf("PUBLIC KEY", pb)) + " " + toHex(pub)
		}
		panic("bad-op")
	})
}
