package main

import (
	"bytes"
	"crypto/sha256"
	"fmt"
	"io"
	"math/rand"
	"strconv"
	"sync"
)

// c18.conc <goroutines> <reps> <seed> <kind> <args...>: parse the input once, then run the serializer
// `reps` times in each of `goroutines` goroutines started in random order, all sharing the parsed,
// read-only input; every output must be byte-identical to a reference run. (Built with -race for C18.)
func init() {
	register("c18.conc", func(args []string) string {
		g, _ := strconv.Atoi(args[0])
		reps, _ := strconv.Atoi(args[1])
		seed, _ := strconv.ParseInt(args[2], 10, 64)
		kind := args[3]
		var ser func(w io.Writer) error
		switch kind {
		case "bundle":
			b, _ := parseBundle(args[4:])
			ser = func(w io.Writer) error { _, err := b.WriteTo(w); return err }
		case "sxg":
			e, _ := parseExchange(args[4:])
			ser = func(w io.Writer) error { return e.Write(w) }
		case "hdr":
			e, _ := parseExchange(args[4:])
			ser = func(w io.Writer) error { return e.DumpExchangeHeaders(w) }
		case "msg":
			e, rest := parseExchange(args[4:])
			s := mkSignerForConc(rest)
			ser = func(w io.Writer) error { return e.DumpSignedMessage(w, s) }
		case "cert":
			chain := certurlChain(args[4])
			ser = func(w io.Writer) error { return chain.Write(w) }
		case "ib":
			blk := parseBlock(args[4])
			ser = func(w io.Writer) error {
				b, err := blk.CborBytes()
				if err != nil {
					return err
				}
				_, err = w.Write(b)
				return err
			}
		case "sh":
			pl := shParamList(args[4])
			ser = func(w io.Writer) error {
				s, err := pl.String()
				if err != nil {
					return err
				}
				_, err = w.Write([]byte(s))
				return err
			}
		case "subset":
			ss := parseSubset(args[4])
			ser = func(w io.Writer) error {
				b, err := ss.Encode()
				if err != nil {
					return err
				}
				_, err = w.Write(b)
				return err
			}
		case "mice":
			enc := miceEnc(args[4])
			rs, _ := strconv.Atoi(args[5])
			payload := ofHex(args[6])
			ser = func(w io.Writer) error {
				d, err := enc.Encode(w, payload, rs)
				if err != nil {
					return err
				}
				_, err = w.Write([]byte(d))
				return err
			}
		default:
			panic("bad-op")
		}
		var ref bytes.Buffer
		if err := ser(&ref); err != nil {
			return "inputerr"
		}
		want := ref.Bytes()
		order := rand.New(rand.NewSource(seed)).Perm(g)
		var wg sync.WaitGroup
		var mu sync.Mutex
		bad := 0
		start := make(chan struct{})
		for _, id := range order {
			wg.Add(1)
			go func(id int) {
				defer wg.Done()
				<-start
				for r := 0; r < reps; r++ {
					var buf bytes.Buffer
					err := ser(&buf)
					if err != nil || !bytes.Equal(buf.Bytes(), want) {
						mu.Lock()
						bad++
						mu.Unlock()
					}
				}
			}(id)
		}
		close(start)
		wg.Wait()
		if bad > 0 {
			return fmt.Sprintf("diff %d", bad)
		}
		h := sha256.Sum256(want)
		return "same " + toHex(h[:8])
	})
}
