package main

import (
	"bytes"
	"crypto/sha256"
	"fmt"
	"io"
	"math/rand"
	"strconv"
	"sync"
)

// c18.conc <goroutines> <reps> <seed> <kind> <args...>: parse the input once, then run the serializer
// `reps` times in each of `goroutines` goroutines started in random order, all sharing the parsed,
// read-only input; every output must be byte-identical to a reference run. (Built with -race for C18.)
func init() {
	register("c18.conc", func(args []string) string {
		g, _ := strconv.Atoi(args[0])
		reps, _ := strconv.Atoi(args[1])
		seed, _ := strconv.ParseInt(args[2], 10, 64)
		kind := args[3]
		var ser func(w io.Writer) error
		switch kind {
		case "bundle":
			b, _ := parseBundle(args[4:])
			ser = func(w io.Writer) error { _, err := b.WriteTo(w); return err }
		case "sxg":
			e, _ := parseExchange(args[4:])
			ser = func(w io.Writer) error { return e.Write(w) }
		case "hdr":
			e, _ := parseExchange(args[4:])
			ser = func(w io.Writer) error { return e.DumpExchangeHeaders(w) }
		case "msg":
			e, rest := parseExchange(args[4:])
			s := mkSignerForConc(rest)
			ser = func(w io.Writer) error { return e.DumpSignedMessage(w, s) }
		case "cert":
			chain := certurlChain(args[4])
			ser = func(w io.Writer) error { return chain.Write(w) }
		case "ib":
			blk := parseBlock(args[4])
			ser = func(w io.Writer) error {
				b, err := blk.CborBytes()
				if err != nil {
					return err
				}
				_, err = w.Write(b)
				return err
			}
		case "sh":
			pl := shParamList(args[4])
			ser = func(w io.Writer) error {
				s, err := pl.String()
				if err != nil {
					return err
				}
				_, err = w.Write([]byte(s))
				return err
			}
		case "subset":
			ss := parseSubset(args[4])
			ser = func(w io.Writer) error {
				b, err := ss.Encode()
				if err != nil {
					return err
				}
				_, err = w.Write(b)
				return err
			}
		case "mice":
			enc := miceEnc(args[4])
			rs, _ := strconv.Atoi(args[5])
			payload := ofHex(args[6])
			ser = func(w io.Writer) error {
				d, err := enc.Encode(w, payload, rs)
				if err != nil {
					return err
				}
				_, err = w.Write([]byte(d))
				return err
			}
		default:
			panic("bad-op")
		}
		var ref bytes.Buffer
		if err := ser(&ref); err != nil {
			return "inputerr"
		}
		want := ref.Bytes()
		order := rand.New(rand.NewSource(seed)).Perm(g)
		var wg sync.WaitGroup
		var mu sync.Mutex
		bad := 0
		start := make(chan struct{})
		for _, id := range order {
			wg.Add(1)
			go func(id int) {
				defer wg.Done()
				<-start
				for r := 0; r < reps; r++ {
					var buf bytes.Buffer
					err := ser(&buf)
					if err != nil || !bytes.Equal(buf.Bytes(), want) {
						mu.Lock()
						bad++
						mu.Unlock()
					}
				}
			}(id)
		}
		close(start)
		wg.Wait()
		if bad > 0 {
			return fmt.Sprintf("diff %d", bad)
		}
		h := sha256.Sum256(want)
		return "same " + toHex(h[:8])
	})
}

// c18.retain <kind> ...: purity of serializers with respect to memory they hand out or are handed:
//   a result kept by the caller is not changed by later calls (no pooled / package-level buffer escapes),
//   a result scribbled over by the caller does not change later outputs,
//   bytes of the caller's input beyond len(input) (spare capacity) are not written.
// Deterministic, single goroutine. Prints "same" or a description of what changed.
func init() {
	scribble := func(b []byte) {
		for i := range b {
			b[i] = 0xEE
		}
	}
	clone := func(b []byte) []byte { return append([]byte{}, b...) }
	register("c18.retain", func(args []string) string {
		switch args[0] {
		case "subset":
			s1, s2 := parseSubset(args[1]), parseSubset(args[2])
			r1, err := s1.Encode()
			if err != nil {
				return "inputerr"
			}
			c1 := clone(r1)
			r2, err := s2.Encode()
			if err != nil {
				return "inputerr"
			}
			if !bytes.Equal(r1, c1) {
				return "first-result-changed-by-second-call"
			}
			scribble(r2)
			r3, _ := s1.Encode()
			if !bytes.Equal(r3, c1) {
				return "output-changed-after-caller-modified-earlier-result"
			}
			if !bytes.Equal(r1, c1) {
				return "first-result-changed-by-third-call"
			}
			return "same"
		case "magic":
			v := bundleVersion(args[1])
			r1 := v.HeaderMagicBytes()
			c1 := clone(r1)
			r2 := v.HeaderMagicBytes()
			scribble(r2)
			if !bytes.Equal(r1, c1) {
				return "first-result-aliases-second"
			}
			scribble(r1)
			r3 := v.HeaderMagicBytes()
			if !bytes.Equal(r3, c1) {
				return "magic-bytes-changed-after-caller-modified-a-result"
			}
			b, _ := parseBundle(args[2:])
			var buf bytes.Buffer
			if _, err := b.WriteTo(&buf); err != nil {
				return "inputerr"
			}
			if !bytes.HasPrefix(buf.Bytes(), c1) {
				return "bundle-does-not-start-with-the-magic-bytes"
			}
			return "same"
		case "ib":
			blk := parseBlock(args[1])
			r1, err := blk.CborBytes()
			if err != nil {
				return "inputerr"
			}
			c1 := clone(r1)
			r2, _ := blk.CborBytes()
			scribble(r2)
			r3, _ := blk.CborBytes()
			if !bytes.Equal(r1, c1) || !bytes.Equal(r3, c1) {
				return "integrity-block-bytes-alias"
			}
			return "same"
		case "mice":
			enc := miceEnc(args[1])
			rs, _ := strconv.Atoi(args[2])
			payload := ofHex(args[3])
			// the payload is a prefix of a larger buffer: bytes behind it belong to somebody else
			back := make([]byte, len(payload)+64)
			copy(back, payload)
			for i := len(payload); i < len(back); i++ {
				back[i] = 0x5A
			}
			in := back[:len(payload)]
			var w1, w2 bytes.Buffer
			d1, err := enc.Encode(&w1, in, rs)
			if err != nil {
				return "inputerr"
			}
			for i := len(payload); i < len(back); i++ {
				if back[i] != 0x5A {
					return fmt.Sprintf("encoder-wrote-behind-its-input at +%d", i-len(payload))
				}
			}
			if !bytes.Equal(in, payload) {
				return "encoder-modified-its-input"
			}
			d2, _ := enc.Encode(&w2, payload, rs)
			if d1 != d2 || !bytes.Equal(w1.Bytes(), w2.Bytes()) {
				return "output-depends-on-spare-capacity"
			}
			return "same"
		}
		panic("bad-op")
	})
}
