package main

import (
	"bytes"
	"errors"
	"fmt"
	"io"
	"strconv"

	"github.com/WICG/webpackage/go/internal/cbor"
)

// failingWriter accepts `budget` bytes in total. A write that does not fit fails: in short mode it takes
// the bytes that still fit and returns (n < len(p), err); in error mode it takes nothing and returns (0, err).
// Every later write fails as well. It deliberately does not implement io.ReaderFrom.
type failingWriter struct {
	buf    bytes.Buffer
	budget int
	short  bool
	broken bool
	writes int
	failAt int // index of the Write call that failed first (-1 = none)
}

var errInjected = errors.New("injected write failure")

func (w *failingWriter) Write(p []byte) (int, error) {
	idx := w.writes
	w.writes++
	if w.broken {
		return 0, errInjected
	}
	if len(p) <= w.budget {
		w.budget -= len(p)
		w.buf.Write(p)
		return len(p), nil
	}
	w.broken = true
	w.failAt = idx
	if w.short {
		n := w.budget
		w.buf.Write(p[:n])
		w.budget = 0
		return n, errInjected
	}
	return 0, errInjected
}

type serializer func(w io.Writer) (count int64, hasCount bool, err error)

func makeSerializer(kind string, args []string) serializer {
	switch kind {
	case "bundle":
		b, _ := parseBundle(args)
		return func(w io.Writer) (int64, bool, error) {
			// WriteTo mutates nothing of b that matters between runs except Go-internal buffers
			n, err := b.WriteTo(w)
			return n, true, err
		}
	case "sxg":
		return func(w io.Writer) (int64, bool, error) {
			e, _ := parseExchange(args)
			return 0, false, e.Write(w)
		}
	case "hdr":
		return func(w io.Writer) (int64, bool, error) {
			e, _ := parseExchange(args)
			return 0, false, e.DumpExchangeHeaders(w)
		}
	case "cert":
		return func(w io.Writer) (int64, bool, error) {
			return 0, false, certurlChain(args[0]).Write(w)
		}
	case "mice":
		return func(w io.Writer) (int64, bool, error) {
			rs, _ := strconv.Atoi(args[1])
			_, err := miceEnc(args[0]).Encode(w, ofHex(args[2]), rs)
			return 0, false, err
		}
	case "cbor":
		return func(w io.Writer) (int64, bool, error) {
			n, err := strconv.Atoi(args[0])
			if err != nil {
				panic("bad-op")
			}
			s := &scriptState{toks: args[1:]}
			s.runCalls(n, cbor.NewEncoder(w))
			return 0, false, s.err
		}
	}
	panic("bad-op")
}

func init() {
	register("fault", func(args []string) string {
		kind := args[0]
		k, err := strconv.Atoi(args[1])
		if err != nil {
			panic("bad-op")
		}
		short := args[2] == "short"
		ser := makeSerializer(kind, args[3:])
		var ref bytes.Buffer
		if _, _, err := ser(&ref); err != nil {
			return "inputerr"
		}
		out := ref.Bytes()
		fw := &failingWriter{budget: k, short: short, failAt: -1}
		cnt, hasCount, err := ser(fw)
		acc := fw.buf.Bytes()
		good := bytes.HasPrefix(out, acc) && len(acc) <= k
		if short && err != nil && len(acc) != k && k < len(out) {
			good = false
		}
		if hasCount && cnt != int64(len(acc)) {
			good = false
		}
		if err == nil && !bytes.Equal(acc, out) {
			good = false // success reported for a partial output
		}
		st := "ok"
		if err != nil {
			st = "err"
		}
		g := "good"
		if !good {
			g = fmt.Sprintf("bad(acc=%d,out=%d,count=%d,failAt=%d)", len(acc), len(out), cnt, fw.failAt)
		}
		return st + " " + g
	})
	register("faultlen", func(args []string) string {
		ser := makeSerializer(args[0], args[1:])
		var ref bytes.Buffer
		if _, _, err := ser(&ref); err != nil {
			return "inputerr"
		}
		return fmt.Sprintf("ok %d", ref.Len())
	})
	// number of distinct Write calls that reach the destination in a fault-free run (coverage measure)
	register("faultsites", func(args []string) string {
		ser := makeSerializer(args[0], args[1:])
		fw := &failingWriter{budget: 1 << 40, failAt: -1}
		if _, _, err := ser(fw); err != nil {
			return "inputerr"
		}
		return fmt.Sprintf("ok %d", fw.writes)
	})
}
