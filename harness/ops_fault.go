package main

import (
	"bytes"
	"errors"
	"fmt"
	"io"
	"strconv"
	"strings"

	"github.com/WICG/webpackage/go/bundle"
	"github.com/WICG/webpackage/go/internal/cbor"
)

// failingWriter accepts `budget` bytes in total. A write that does not fit fails: in short mode it takes
// the bytes that still fit and returns (n < len(p), err); in error mode it takes nothing and returns (0, err).
// Every later write fails as well. It deliberately does not implement io.ReaderFrom.
type failingWriter struct {
	buf    bytes.Buffer
	budget int
	short  bool
	broken bool
	writes int
	failAt int // index of the Write call that failed first (-1 = none)
}

var errInjected = errors.New("injected write failure")

func (w *failingWriter) Write(p []byte) (int, error) {
	idx := w.writes
	w.writes++
	if w.broken {
		return 0, errInjected
	}
	if len(p) <= w.budget {
		w.budget -= len(p)
		w.buf.Write(p)
		return len(p), nil
	}
	w.broken = true
	w.failAt = idx
	if w.short {
		n := w.budget
		w.buf.Write(p[:n])
		w.budget = 0
		return n, errInjected
	}
	return 0, errInjected
}

type serializer func(w io.Writer) (count int64, hasCount bool, err error)

func makeSerializer(kind string, args []string) serializer {
	switch kind {
	case "bundle":
		b, _ := parseBundle(args)
		return func(w io.Writer) (int64, bool, error) {
			// WriteTo mutates nothing of b that matters between runs except Go-internal buffers
			n, err := b.WriteTo(w)
			return n, true, err
		}
	case "sxg":
		return func(w io.Writer) (int64, bool, error) {
			e, _ := parseExchange(args)
			return 0, false, e.Write(w)
		}
	case "hdr":
		return func(w io.Writer) (int64, bool, error) {
			e, _ := parseExchange(args)
			return 0, false, e.DumpExchangeHeaders(w)
		}
	case "cert":
		return func(w io.Writer) (int64, bool, error) {
			return 0, false, certurlChain(args[0]).Write(w)
		}
	case "mice":
		return func(w io.Writer) (int64, bool, error) {
			rs, _ := strconv.Atoi(args[1])
			_, err := miceEnc(args[0]).Encode(w, ofHex(args[2]), rs)
			return 0, false, err
		}
	case "cbor":
		return func(w io.Writer) (int64, bool, error) {
			n, err := strconv.Atoi(args[0])
			if err != nil {
				panic("bad-op")
			}
			s := &scriptState{toks: args[1:]}
			s.runCalls(n, cbor.NewEncoder(w))
			return 0, false, s.err
		}
	}
	panic("bad-op")
}

// serializers bound to ONE object for all calls (the plain ones build a fresh object per call where the format allows)
func makeSharedSerializers(kind string, args []string) (first serializer, again []serializer) {
	switch kind {
	case "sxg", "hdr":
		e, _ := parseExchange(args)
		wr := func(w io.Writer) (int64, bool, error) { return 0, false, e.Write(w) }
		hd := func(w io.Writer) (int64, bool, error) { return 0, false, e.DumpExchangeHeaders(w) }
		if kind == "sxg" {
			return wr, []serializer{wr, hd}
		}
		return hd, []serializer{hd, wr}
	case "cert":
		c := certurlChain(args[0])
		f := func(w io.Writer) (int64, bool, error) { return 0, false, c.Write(w) }
		return f, []serializer{f}
	case "bundle":
		b, _ := parseBundle(args)
		f := func(w io.Writer) (int64, bool, error) { n, err := b.WriteTo(w); return n, true, err }
		return f, []serializer{f}
	}
	f := makeSerializer(kind, args)
	return f, []serializer{f}
}

func init() {
	// the faulted call comes FIRST on a fresh object; afterwards the same object is serialised again, fault-free, through every
	// serializer it has: each retry must succeed with exactly the bytes a never-faulted object gives (no truncated memo, no half state)
	register("fault.retry", func(args []string) string {
		kind := args[0]
		k, err := strconv.Atoi(args[1])
		if err != nil {
			panic("bad-op")
		}
		short := args[2] == "short"
		_, freshAgain := makeSharedSerializers(kind, args[3:])
		refs := [][]byte{}
		for _, f := range freshAgain {
			var ref bytes.Buffer
			if _, _, err := f(&ref); err != nil {
				return "inputerr"
			}
			refs = append(refs, append([]byte{}, ref.Bytes()...))
		}
		first, again := makeSharedSerializers(kind, args[3:])
		out := refs[0]
		fw := &failingWriter{budget: k, short: short, failAt: -1}
		cnt, hasCount, err := first(fw)
		acc := fw.buf.Bytes()
		good := bytes.HasPrefix(out, acc) && len(acc) <= k
		if hasCount && cnt != int64(len(acc)) {
			good = false
		}
		if err == nil && !bytes.Equal(acc, out) {
			good = false
		}
		why := ""
		for i, f := range again {
			var buf bytes.Buffer
			if _, _, e2 := f(&buf); e2 != nil || !bytes.Equal(buf.Bytes(), refs[i]) {
				good = false
				why = fmt.Sprintf(",retry%d=%d/%d,err=%v", i, buf.Len(), len(refs[i]), e2 != nil)
			}
		}
		st := "ok"
		if err != nil {
			st = "err"
		}
		g := "good"
		if !good {
			g = fmt.Sprintf("bad(acc=%d,out=%d,count=%d%s)", len(acc), len(out), cnt, why)
		}
		return st + " " + g
	})
	register("fault", func(args []string) string {
		kind := args[0]
		k, err := strconv.Atoi(args[1])
		if err != nil {
			panic("bad-op")
		}
		short := args[2] == "short"
		ser := makeSerializer(kind, args[3:])
		var ref bytes.Buffer
		if _, _, err := ser(&ref); err != nil {
			return "inputerr"
		}
		out := ref.Bytes()
		fw := &failingWriter{budget: k, short: short, failAt: -1}
		cnt, hasCount, err := ser(fw)
		acc := fw.buf.Bytes()
		good := bytes.HasPrefix(out, acc) && len(acc) <= k
		if short && err != nil && len(acc) != k && k < len(out) {
			good = false
		}
		if hasCount && cnt != int64(len(acc)) {
			good = false
		}
		if err == nil && !bytes.Equal(acc, out) {
			good = false // success reported for a partial output
		}
		st := "ok"
		if err != nil {
			st = "err"
		}
		g := "good"
		if !good {
			g = fmt.Sprintf("bad(acc=%d,out=%d,count=%d,failAt=%d)", len(acc), len(out), cnt, fw.failAt)
		}
		return st + " " + g
	})
	register("faultlen", func(args []string) string {
		ser := makeSerializer(args[0], args[1:])
		var ref bytes.Buffer
		if _, _, err := ser(&ref); err != nil {
			return "inputerr"
		}
		return fmt.Sprintf("ok %d", ref.Len())
	})
	// number of distinct Write calls that reach the destination in a fault-free run (coverage measure)
	register("faultsites", func(args []string) string {
		ser := makeSerializer(args[0], args[1:])
		fw := &failingWriter{budget: 1 << 40, failAt: -1}
		if _, _, err := ser(fw); err != nil {
			return "inputerr"
		}
		return fmt.Sprintf("ok %d", fw.writes)
	})
}

// --- CountingWriter accounting (C04 / C19): sequences of Write / ReadFrom against three kinds of destination
type cwPlain struct{ got int64 }

func (p *cwPlain) Write(b []byte) (int, error) { p.got += int64(len(b)); return len(b), nil }

type cwFailing struct {
	room  int64
	short bool
	got   int64
}

func (f *cwFailing) Write(b []byte) (int, error) {
	if int64(len(b)) <= f.room {
		f.room -= int64(len(b))
		f.got += int64(len(b))
		return len(b), nil
	}
	if f.short {
		n := f.room
		f.room = 0
		f.got += n
		return int(n), errors.New("injected fault")
	}
	return 0, errors.New("injected fault")
}

// a source without WriteTo that hands out `chunk` bytes per Read
// (eofWithData: the last bytes come together with io.EOF in one Read, as gzip.Reader / iotest.DataErrReader do)
type cwSource struct {
	remaining, chunk int
	eofWithData      bool
}

func (s *cwSource) Read(p []byte) (int, error) {
	if s.remaining == 0 {
		return 0, io.EOF
	}
	n := s.chunk
	if n > len(p) {
		n = len(p)
	}
	if n > s.remaining {
		n = s.remaining
	}
	s.remaining -= n
	if s.eofWithData && s.remaining == 0 {
		return n, io.EOF
	}
	return n, nil
}

func init() {
	register("cw.seq", func(args []string) string {
		room, _ := strconv.ParseInt(args[1], 10, 64)
		var dest io.Writer
		var got func() int64
		switch args[0] {
		case "buf":
			b := &bytes.Buffer{}
			dest, got = b, func() int64 { return int64(b.Len()) }
		case "plain":
			p := &cwPlain{}
			dest, got = p, func() int64 { return p.got }
		case "short", "hard":
			f := &cwFailing{room: room, short: args[0] == "short"}
			dest, got = f, func() int64 { return f.got }
		default:
			panic("bad-op")
		}
		cw := bundle.NewCountingWriter(dest)
		rets := []string{}
		for _, o := range strings.Split(args[2], ",") {
			var n int64
			var err error
			if o[0] == 'w' {
				k, _ := strconv.Atoi(o[1:])
				var m int
				m, err = cw.Write(make([]byte, k))
				n = int64(m)
			} else {
				p := strings.Split(o[1:], "/")
				t, _ := strconv.Atoi(p[0])
				c, _ := strconv.Atoi(p[1])
				n, err = cw.ReadFrom(&cwSource{remaining: t, chunk: c, eofWithData: o[0] == 'R'})
			}
			e := "0"
			if err != nil {
				e = "1"
			}
			rets = append(rets, fmt.Sprintf("%d:%s", n, e))
		}
		return fmt.Sprintf("%d %d %s", cw.Written, got(), strings.Join(rets, ","))
	})
}
