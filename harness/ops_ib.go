package main

import (
	"strconv"
	"io"
	"bytes"
	"crypto/ed25519"
	"crypto/sha512"
	"errors"
	"fmt"
	"io/ioutil"
	"os"
	"strings"

	"github.com/WICG/webpackage/go/integrityblock"
	"github.com/WICG/webpackage/go/integrityblock/webbundleid"
)

func parseAttrs(s string) integrityblock.SignatureAttributesMap {
	m := integrityblock.SignatureAttributesMap{}
	if s == "." {
		return m
	}
	for _, kv := range strings.Split(s, "&") {
		p := strings.Split(kv, "=")
		if len(p) != 2 {
			panic("bad-op")
		}
		m[string(ofHex(p[0]))] = ofHex(p[1])
	}
	return m
}

func parseBlock(s string) *integrityblock.IntegrityBlock {
	p := strings.Split(s, ":")
	if len(p) != 3 {
		panic("bad-op")
	}
	b := &integrityblock.IntegrityBlock{Magic: ofHex(p[0]), Version: ofHex(p[1])}
	if p[2] != "." {
		for _, e := range strings.Split(p[2], "+") {
			q := strings.Split(e, "*")
			if len(q) != 2 {
				panic("bad-op")
			}
			b.SignatureStack = append(b.SignatureStack, &integrityblock.IntegritySignature{SignatureAttributes: parseAttrs(q[0]), Signature: ofHex(q[1])})
		}
	}
	return b
}

func showAttrsSorted(m integrityblock.SignatureAttributesMap, order []string) string {
	if len(m) == 0 {
		return "."
	}
	out := []string{}
	for _, k := range order {
		if v, ok := m[k]; ok {
			out = append(out, toHex([]byte(k))+"="+toHex(v))
		}
	}
	return strings.Join(out, "&")
}

type presetStrategy struct {
	sig []byte
	pk  ed25519.PublicKey
	err bool
}

func (p presetStrategy) Sign(data []byte) ([]byte, error) {
	if p.err {
		return nil, errors.New("strategy failure")
	}
	return p.sig, nil
}
func (p presetStrategy) GetPublicKey() (ed25519.PublicKey, error) { return p.pk, nil }

// attribute order as given on the op line (Go maps have no order; the model keeps the list order)
func attrOrder(s string) []string {
	order := []string{}
	if s == "." {
		return order
	}
	for _, kv := range strings.Split(s, "&") {
		order = append(order, string(ofHex(strings.Split(kv, "=")[0])))
	}
	return order
}

func init() {
	register("sha512", func(args []string) string {
		s := sha512.Sum512(ofHex(args[0]))
		return "ok " + toHex(s[:])
	})
	// ComputeWebBundleSha512(handle, 0) on a handle something has already read from (as sign-bundle does after ObtainIntegrityBlock)
	register("ib.sha512.handle", func(args []string) string {
		r := bytes.NewReader(ofHex(args[0]))
		n, err := strconv.Atoi(args[1])
		if err != nil {
			panic("bad-op")
		}
		io.CopyN(io.Discard, r, int64(n))
		h, err := integrityblock.ComputeWebBundleSha512(r, 0)
		if err != nil {
			return "err"
		}
		return "ok " + toHex(h)
	})
	register("oracle.edkey", func(args []string) string {
		k := ed25519.NewKeyFromSeed(ofHex(args[0]))
		return toHex(k.Public().(ed25519.PublicKey))
	})
	register("oracle.edsign", func(args []string) string {
		k := ed25519.NewKeyFromSeed(ofHex(args[0]))
		return toHex(ed25519.Sign(k, ofHex(args[1])))
	})
	register("oracle.edverify", func(args []string) string {
		pk := ofHex(args[0])
		if len(pk) != ed25519.PublicKeySize {
			return "0"
		}
		if ed25519.Verify(ed25519.PublicKey(pk), ofHex(args[1]), ofHex(args[2])) {
			return "1"
		}
		return "0"
	})
	register("ib.cbor", func(args []string) string {
		b, err := parseBlock(args[0]).CborBytes()
		if err != nil {
			return "err"
		}
		return "ok " + toHex(b)
	})
	register("ib.dts", func(args []string) string {
		bb, err := parseBlock(args[1]).CborBytes()
		if err != nil {
			return "err"
		}
		d, err := integrityblock.GenerateDataToBeSigned(ofHex(args[0]), bb, parseAttrs(args[2]))
		if err != nil {
			return "err"
		}
		return "ok " + toHex(d)
	})
	register("ib.signadd", func(args []string) string {
		block := parseBlock(args[1])
		pk := ed25519.PublicKey(ofHex(args[2]))
		if len(pk) != ed25519.PublicKeySize {
			panic("bad-op")
		}
		st := presetStrategy{pk: pk}
		if args[4] == "fail" {
			st.err = true
		} else {
			st.sig = ofHex(args[4])
		}
		ibs := &integrityblock.IntegrityBlockSigner{SigningStrategy: st, WebBundleHash: ofHex(args[0]), IntegrityBlock: block}
		// remember the per-entry attribute order of the op line for printing
		orders := [][]string{attrOrder(args[3])}
		if p := strings.Split(args[1], ":"); p[2] != "." {
			for _, e := range strings.Split(p[2], "+") {
				orders = append(orders, attrOrder(strings.Split(e, "*")[0]))
			}
		}
		nBefore := len(block.SignatureStack)
		serr := ibs.SignAndAddNewSignature(pk, parseAttrs(args[3]))
		if serr != nil && len(block.SignatureStack) == nBefore {
			orders = orders[1:] // nothing was added: the entries are the original ones
		}
		ents := []string{}
		for i, s := range block.SignatureStack {
			var ord []string
			if i < len(orders) {
				ord = orders[i]
			}
			ents = append(ents, showAttrsSorted(s.SignatureAttributes, ord)+"*"+toHex(s.Signature))
		}
		st2 := "."
		if len(ents) > 0 {
			st2 = strings.Join(ents, "+")
		}
		if serr != nil {
			// the state the caller is left with after the error (must be the state before the call)
			return fmt.Sprintf("err %s:%s:%s", toHex(block.Magic), toHex(block.Version), st2)
		}
		cb, err := block.CborBytes()
		if err != nil {
			return "ok-nocbor"
		}
		return fmt.Sprintf("ok %s:%s:%s %s", toHex(block.Magic), toHex(block.Version), st2, toHex(cb))
	})
	register("ib.obtain", func(args []string) string {
		f, err := ioutil.TempFile("", "verif-ib-*")
		if err != nil {
			panic("bad-op")
		}
		defer os.Remove(f.Name())
		defer f.Close()
		f.Write(ofHex(args[0]))
		_, off, err := integrityblock.ObtainIntegrityBlock(f)
		if err != nil {
			return "err"
		}
		return fmt.Sprintf("ok %d", off)
	})
	register("ib.id", func(args []string) string {
		return "ok " + toHex([]byte(webbundleid.GetWebBundleId(ed25519.PublicKey(ofHex(args[0])))))
	})
}
