package main

import (
	"bytes"
	"crypto/sha256"
	"encoding/base64"
	"fmt"
	"io"
	"strconv"
	"strings"

	"github.com/WICG/webpackage/go/signedexchange/mice"
)

func miceEnc(s string) mice.Encoding {
	switch s {
	case "02":
		return mice.Draft02Encoding
	case "03":
		return mice.Draft03Encoding
	}
	panic("bad-op")
}

func miceStatus(err error) string {
	switch {
	case err == nil:
		return "ok"
	case err == io.EOF:
		return "eof"
	case err == mice.ErrValidationFailure:
		return "errval"
	}
	return "errother"
}

func b64enc(url, pad string) *base64.Encoding {
	switch {
	case url == "1" && pad == "1":
		return base64.URLEncoding
	case url == "1":
		return base64.RawURLEncoding
	case pad == "1":
		return base64.StdEncoding
	}
	return base64.RawStdEncoding
}

var miceAll func(args []string) string

func init() {
	register("sha256", func(args []string) string {
		s := sha256.Sum256(ofHex(args[0]))
		return "ok " + toHex(s[:])
	})
	register("b64.enc", func(args []string) string {
		return "ok " + toHex([]byte(b64enc(args[0], args[1]).EncodeToString(ofHex(args[2]))))
	})
	register("b64.dec", func(args []string) string {
		r, err := b64enc(args[0], args[1]).DecodeString(string(ofHex(args[2])))
		if err != nil {
			return "err"
		}
		return "ok " + toHex(r)
	})
	register("mice.enc", func(args []string) string {
		enc := miceEnc(args[0])
		rs, _ := strconv.Atoi(args[1])
		var buf bytes.Buffer
		digest, err := enc.Encode(&buf, ofHex(args[2]), rs)
		if err != nil {
			return "err"
		}
		return "ok " + toHex(buf.Bytes()) + " " + toHex([]byte(digest))
	})
	dec := func(args []string, sizes []int, withCounts bool, copyRest bool, more int) string {
		enc := miceEnc(args[0])
		mx, err := strconv.ParseUint(args[1], 10, 64)
		if err != nil {
			panic("bad-op")
		}
		r, err := enc.NewDecoder(bytes.NewReader(ofHex(args[3])), string(ofHex(args[2])), mx)
		if err != nil {
			if !withCounts {
				return "- " + miceStatus(err)
			}
			return "nderr " + miceStatus(err)
		}
		var out []byte
		counts := []string{}
		var final error
		for i := 0; ; i++ {
			n := 4096
			if i < len(sizes) {
				n = sizes[i]
			} else if copyRest {
				// drain what is left the way most callers do: io.Copy (which prefers the source's WriteTo, if it has one)
				var rest bytes.Buffer
				_, err := io.Copy(struct{ io.Writer }{&rest}, r)
				out = append(out, rest.Bytes()...)
				final = err
				if err == nil {
					final = io.EOF
				}
				break
			}
			buf := make([]byte, n)
			k, err := r.Read(buf)
			if err != nil {
				if k != 0 {
					return "bytes-with-error"
				}
				final = err
				break
			}
			out = append(out, buf[:k]...)
			if i < len(sizes) {
				counts = append(counts, strconv.Itoa(k))
			}
		}
		if more > 0 {
			// further Reads after the first non-ok status (the model continues from the same state)
			rs := []string{}
			for i := 0; i < more; i++ {
				buf := make([]byte, 4096)
				k, err := r.Read(buf)
				st := "ok"
				if err != nil {
					st = miceStatus(err)
				}
				rs = append(rs, toHex(buf[:k])+":"+st)
			}
			return fmt.Sprintf("%s %s %s %s", toHex(out), strings.Join(counts, ","), miceStatus(final), strings.Join(rs, ","))
		}
		if final == io.EOF {
			// after a clean end the decoder stays finished: two more Reads hand out nothing
			for i := 0; i < 2; i++ {
				if k, err := r.Read(make([]byte, 4096)); k != 0 || err != io.EOF {
					return fmt.Sprintf("bytes-after-eof %d", k)
				}
			}
		}
		if withCounts {
			return fmt.Sprintf("%s %s %s", toHex(out), strings.Join(counts, ","), miceStatus(final))
		}
		return fmt.Sprintf("%s %s", toHex(out), miceStatus(final))
	}
	miceAll = func(args []string) string { return dec(args, nil, false, false, 0) }
	register("mice.all", miceAll)
	register("mice.dec", func(args []string) string {
		sizes := []int{}
		if args[4] != "-" {
			for _, s := range strings.Split(args[4], ",") {
				n, err := strconv.Atoi(s)
				if err != nil {
					panic("bad-op")
				}
				sizes = append(sizes, n)
			}
		}
		return dec(args, sizes, true, false, 0)
	})
	// mice.dec.more <read|copy> <draft> <max> <digest> <stream> <sizes> <k>: as mice.dec / mice.dec.copy, then k further Reads
	register("mice.dec.more", func(args []string) string {
		sizes := []int{}
		if args[5] != "-" {
			for _, s := range strings.Split(args[5], ",") {
				n, err := strconv.Atoi(s)
				if err != nil {
					panic("bad-op")
				}
				sizes = append(sizes, n)
			}
		}
		k, err := strconv.Atoi(args[6])
		if err != nil || k < 1 {
			panic("bad-op")
		}
		return dec(args[1:], sizes, true, args[0] == "copy", k)
	})
	register("mice.dec.copy", func(args []string) string {
		sizes := []int{}
		if args[4] != "-" {
			for _, s := range strings.Split(args[4], ",") {
				n, err := strconv.Atoi(s)
				if err != nil {
					panic("bad-op")
				}
				sizes = append(sizes, n)
			}
		}
		return dec(args, sizes, true, true, 0)
	})
}
