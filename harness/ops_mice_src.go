package main

import (
	"bytes"
	"fmt"
	"io"
	"io/ioutil"
	"os"
	"strconv"
	"strings"
)

// The KIND and POSITION of the source handed to Encoding.NewDecoder are inputs of their own: with / without ReadByte, with / without
// Size(), one byte per Read, limited, concatenated, a real file; positioned at its start or behind an already consumed prefix (an MI
// stream that follows other data in the same reader). The model is a function of the bytes that are still unread, so every variant
// is an alias of mice.dec on the model side.

type miceCounting struct {
	r io.Reader
	n int
}

func (c *miceCounting) Read(p []byte) (int, error) {
	k, err := c.r.Read(p)
	c.n += k
	return k, err
}

type miceOneByte struct{ r io.Reader }

func (o miceOneByte) Read(p []byte) (int, error) {
	if len(p) == 0 {
		return 0, nil
	}
	return o.r.Read(p[:1])
}

// miceSource builds a reader of the given kind whose unread part is exactly `stream`, preceded by `prefix` already consumed bytes.
// consumed() tells how many bytes of `stream` have been taken from it so far; cleanup() releases it.
func miceSource(kind string, prefix int, stream []byte) (r io.Reader, consumed func() int, cleanup func()) {
	pre := make([]byte, prefix)
	for i := range pre {
		pre[i] = byte(0xa5 ^ i)
	}
	all := append(append([]byte{}, pre...), stream...)
	cleanup = func() {}
	skip := func(rd io.Reader) {
		if _, err := io.ReadFull(rd, make([]byte, prefix)); err != nil {
			panic("bad-op")
		}
	}
	switch kind {
	case "reader": // *bytes.Reader, prefix skipped with Seek
		br := bytes.NewReader(all)
		if _, err := br.Seek(int64(prefix), io.SeekStart); err != nil {
			panic("bad-op")
		}
		return br, func() int { return len(stream) - br.Len() }, cleanup
	case "reader.read": // *bytes.Reader, prefix consumed with Read
		br := bytes.NewReader(all)
		skip(br)
		return br, func() int { return len(stream) - br.Len() }, cleanup
	case "strings": // *strings.Reader
		sr := strings.NewReader(string(all))
		skip(sr)
		return sr, func() int { return len(stream) - sr.Len() }, cleanup
	case "section": // *io.SectionReader over the whole data, prefix consumed
		sec := io.NewSectionReader(bytes.NewReader(all), 0, int64(len(all)))
		skip(sec)
		return sec, func() int {
			pos, _ := sec.Seek(0, io.SeekCurrent)
			return int(pos) - prefix
		}, cleanup
	case "section.off": // *io.SectionReader that starts behind the prefix (Size() is the section's length)
		sec := io.NewSectionReader(bytes.NewReader(all), int64(prefix), int64(len(stream)))
		return sec, func() int {
			pos, _ := sec.Seek(0, io.SeekCurrent)
			return int(pos)
		}, cleanup
	case "buffer": // *bytes.Buffer
		bb := bytes.NewBuffer(all)
		bb.Next(prefix)
		return bb, func() int { return len(stream) - bb.Len() }, cleanup
	case "plain": // io.Reader only (no ReadByte, no Size, no Seek)
		c := &miceCounting{r: bytes.NewReader(all)}
		skip(c)
		c.n = 0
		return c, func() int { return c.n }, cleanup
	case "onebyte": // one byte per Read
		c := &miceCounting{r: bytes.NewReader(all)}
		skip(c)
		c.n = 0
		return miceOneByte{c}, func() int { return c.n }, cleanup
	case "limit": // io.LimitReader ending exactly at the end of the stream
		c := &miceCounting{r: bytes.NewReader(all)}
		skip(c)
		c.n = 0
		return io.LimitReader(c, int64(len(stream))), func() int { return c.n }, cleanup
	case "multi": // io.MultiReader: the 8-byte field and the rest come from different readers
		cut := 8
		if cut > len(stream) {
			cut = len(stream) / 2
		}
		c := &miceCounting{r: io.MultiReader(bytes.NewReader(pre), bytes.NewReader(stream[:cut]), bytes.NewReader(stream[cut:]))}
		skip(c)
		c.n = 0
		return c, func() int { return c.n }, cleanup
	case "file": // *os.File
		f, err := ioutil.TempFile("", "verif-mice-*")
		if err != nil {
			panic("bad-op")
		}
		cleanup = func() { f.Close(); os.Remove(f.Name()) }
		if _, err := f.Write(all); err != nil {
			cleanup()
			panic("bad-op")
		}
		if _, err := f.Seek(int64(prefix), io.SeekStart); err != nil {
			cleanup()
			panic("bad-op")
		}
		return f, func() int {
			pos, _ := f.Seek(0, io.SeekCurrent)
			return int(pos) - prefix
		}, cleanup
	}
	panic("bad-op")
}

func init() {
	// mice.dec.src <kind>[:<prefix>] <draft> <max> <digest> <stream> <sizes>: mice.dec with the source built by miceSource.
	// Result as mice.dec. In addition (the property's last sentence, "refused before any data is read"): when NewDecoder refuses the
	// stream, nothing beyond the 8-byte record size field may have been taken from the caller's reader.
	register("mice.dec.src", func(args []string) string {
		kind, prefix := args[0], 0
		if i := strings.IndexByte(kind, ':'); i >= 0 {
			p, err := strconv.Atoi(kind[i+1:])
			if err != nil || p < 0 {
				panic("bad-op")
			}
			kind, prefix = kind[:i], p
		}
		enc := miceEnc(args[1])
		mx, err := strconv.ParseUint(args[2], 10, 64)
		if err != nil {
			panic("bad-op")
		}
		stream := ofHex(args[4])
		sizes := []int{}
		if args[5] != "-" {
			for _, s := range strings.Split(args[5], ",") {
				n, err := strconv.Atoi(s)
				if err != nil {
					panic("bad-op")
				}
				sizes = append(sizes, n)
			}
		}
		src, consumed, cleanup := miceSource(kind, prefix, stream)
		defer cleanup()
		r, err := enc.NewDecoder(src, string(ofHex(args[3])), mx)
		if err != nil {
			if c := consumed(); c > 8 {
				return fmt.Sprintf("refused-after-reading-data consumed=%d status=%s", c, miceStatus(err))
			}
			return "nderr " + miceStatus(err)
		}
		var out []byte
		counts := []string{}
		var final error
		for i := 0; ; i++ {
			n := 4096
			if i < len(sizes) {
				n = sizes[i]
			}
			buf := make([]byte, n)
			k, err := r.Read(buf)
			if err != nil {
				if k != 0 {
					return "bytes-with-error"
				}
				final = err
				break
			}
			out = append(out, buf[:k]...)
			if i < len(sizes) {
				counts = append(counts, strconv.Itoa(k))
			}
		}
		if final == io.EOF {
			for i := 0; i < 2; i++ {
				if k, err := r.Read(make([]byte, 4096)); k != 0 || err != io.EOF {
					return fmt.Sprintf("bytes-after-eof %d", k)
				}
			}
		}
		return fmt.Sprintf("%s %s %s", toHex(out), strings.Join(counts, ","), miceStatus(final))
	})
}
