package main

// Round-10 additions (C08): signers whose certificate list has several certificates of several KINDS (CA / not CA, in any order).

import (
	"bytes"
	"crypto/ecdsa"
	"crypto/elliptic"
	"crypto/rand"
	"crypto/x509"
	"crypto/x509/pkix"
	"math/big"
	"strings"
	"time"

	"github.com/WICG/webpackage/go/internal/signingalgorithm"
	sxg "github.com/WICG/webpackage/go/signedexchange"
)

func init() {
	// a real three-level hierarchy plus the other kinds of certificate a chain file may contain:
	//   root (self-signed, CA:TRUE), inter (issued by root, CA:TRUE pathlen 0), leaf (issued by inter, no basicConstraints),
	//   leafbc (issued by inter, basicConstraints CA:FALSE), selfca (a second self-signed CA, unrelated), leaf2 (self-signed, no basicConstraints)
	// args: <hosts hex>; result: ok root inter leaf leafbc selfca leaf2 (DER, hex)
	register("setup.chain", func(args []string) string {
		hosts := strings.Split(string(ofHex(args[0])), ",")
		nb, na := time.Unix(1500000000, 0), time.Unix(1900000000, 0)
		mk := func(serial int64, cn string, tweak func(t *x509.Certificate), parent *x509.Certificate, parentKey *ecdsa.PrivateKey) (*x509.Certificate, *ecdsa.PrivateKey) {
			key, err := ecdsa.GenerateKey(elliptic.P256(), rand.Reader)
			if err != nil {
				panic("keygen")
			}
			t := &x509.Certificate{SerialNumber: big.NewInt(serial), Subject: pkix.Name{CommonName: cn}, NotBefore: nb, NotAfter: na}
			tweak(t)
			p, pk := parent, parentKey
			if p == nil {
				p, pk = t, key
			}
			der, err := x509.CreateCertificate(rand.Reader, t, p, &key.PublicKey, pk)
			if err != nil {
				panic("create")
			}
			c, err := x509.ParseCertificate(der)
			if err != nil {
				panic("parse")
			}
			return c, key
		}
		ca := func(t *x509.Certificate) {
			t.IsCA, t.BasicConstraintsValid, t.KeyUsage = true, true, x509.KeyUsageCertSign|x509.KeyUsageCRLSign
		}
		ca0 := func(t *x509.Certificate) {
			ca(t)
			t.MaxPathLen, t.MaxPathLenZero = 0, true
		}
		ee := func(t *x509.Certificate) { t.DNSNames, t.KeyUsage = hosts, x509.KeyUsageDigitalSignature }
		eebc := func(t *x509.Certificate) {
			ee(t)
			t.BasicConstraintsValid, t.IsCA = true, false
		}
		root, rootKey := mk(101, "Verif Root", ca, nil, nil)
		inter, interKey := mk(102, "Verif Intermediate", ca0, root, rootKey)
		leaf, _ := mk(103, hosts[0], ee, inter, interKey)
		leafbc, _ := mk(104, hosts[0], eebc, inter, interKey)
		selfca, _ := mk(105, "Verif Other Root", ca, nil, nil)
		leaf2, _ := mk(106, hosts[0], ee, nil, nil)
		out := []string{"ok"}
		for _, c := range []*x509.Certificate{root, inter, leaf, leafbc, selfca, leaf2} {
			out = append(out, toHex(c.Raw))
		}
		return strings.Join(out, " ")
	})
	chainSigner := func(rest []string) *sxg.Signer {
		certs := []*x509.Certificate{}
		for _, h := range strings.Split(rest[0], ",") {
			c, err := x509.ParseCertificate(ofHex(h))
			if err != nil {
				panic("bad-op")
			}
			certs = append(certs, c)
		}
		return &sxg.Signer{Certs: certs, Algorithm: &signingalgorithm.MockSigningAlgorithm{}, CertUrl: mustURL(rest[1]), ValidityUrl: mustURL(rest[2]),
			Date: parseTimeArg(rest[3]), Expires: parseTimeArg(rest[4])}
	}
	// sxg.sign.mock with a certificate LIST: <exchange> <cert,cert,...> <certUrl> <validityUrl> <date> <expires>. cert-sha256 (in the
	// header and in the signed message, which the mock signature is the hash of) is that of the first certificate of the list.
	register("sxg.sign.mock.chain", func(args []string) string {
		e, rest := parseExchange(args)
		if err := e.AddSignatureHeader(chainSigner(rest)); err != nil {
			return "err"
		}
		return "ok " + toHex([]byte(e.SignatureHeaderValue))
	})
	// go-only: Exchange.DumpSignedMessage for a signer with a certificate list (same arguments)
	register("sxg.dumpmsg.chain", func(args []string) string {
		e, rest := parseExchange(args)
		var buf bytes.Buffer
		if err := e.DumpSignedMessage(&buf, chainSigner(rest)); err != nil {
			return "err"
		}
		return "ok " + toHex(buf.Bytes())
	})
}
