package main

// Round-10 additions (C07: public keys that are not Ed25519 keys at all; C06: nothing here, generator only).

import (
	"crypto/ed25519"
	"fmt"
	"strings"

	"github.com/WICG/webpackage/go/integrityblock"
)

func init() {
	// ib.signadd with a public key of ANY length (ib.signadd refuses such op lines as bad-op). crypto/ed25519.Verify panics on a key
	// that is not 32 bytes long; a panic that leaves the block as it was counts as a refusal (the property: "returns an error and adds
	// nothing when the signature does not verify under the public key it is about to record"), so a panic and an error both print
	// `err <state after the call>`. On the model side this is ib.signadd with the oracle's verdict (0 for every such key).
	register("ib.signadd.anykey", func(args []string) string {
		block := parseBlock(args[1])
		pk := ed25519.PublicKey(ofHex(args[2]))
		st := presetStrategy{pk: pk}
		if args[4] == "fail" {
			st.err = true
		} else {
			st.sig = ofHex(args[4])
		}
		ibs := &integrityblock.IntegrityBlockSigner{SigningStrategy: st, WebBundleHash: ofHex(args[0]), IntegrityBlock: block}
		orders := [][]string{attrOrder(args[3])}
		if p := strings.Split(args[1], ":"); p[2] != "." {
			for _, e := range strings.Split(p[2], "+") {
				orders = append(orders, attrOrder(strings.Split(e, "*")[0]))
			}
		}
		nBefore := len(block.SignatureStack)
		attrs := parseAttrs(args[3])
		refused := false
		func() {
			defer func() {
				if r := recover(); r != nil {
					refused = true
				}
			}()
			if err := ibs.SignAndAddNewSignature(pk, attrs); err != nil {
				refused = true
			}
		}()
		if refused && len(block.SignatureStack) == nBefore {
			orders = orders[1:]
		}
		ents := []string{}
		for i, s := range block.SignatureStack {
			var ord []string
			if i < len(orders) {
				ord = orders[i]
			}
			ents = append(ents, showAttrsSorted(s.SignatureAttributes, ord)+"*"+toHex(s.Signature))
		}
		st2 := "."
		if len(ents) > 0 {
			st2 = strings.Join(ents, "+")
		}
		if refused {
			return fmt.Sprintf("err %s:%s:%s", toHex(block.Magic), toHex(block.Version), st2)
		}
		cb, err := block.CborBytes()
		if err != nil {
			return "ok-nocbor"
		}
		return fmt.Sprintf("ok %s:%s:%s %s", toHex(block.Magic), toHex(block.Version), st2, toHex(cb))
	})
	// go-only: the exported VerifyEd25519Signature(pk, sig, msg) judged against the stdlib verdict the generator obtained from
	// oracle.edverify. Its two results must agree with each other: (true, nil) = "1"; (false, error) or a panic = "0"; anything
	// else (false without an error, true with one) is printed as it is.
	register("ib.libverify", func(args []string) string {
		res := "0"
		func() {
			defer func() {
				if r := recover(); r != nil {
					res = "0"
				}
			}()
			ok, err := integrityblock.VerifyEd25519Signature(ed25519.PublicKey(ofHex(args[0])), ofHex(args[2]), ofHex(args[1]))
			switch {
			case ok && err == nil:
				res = "1"
			case !ok && err != nil:
				res = "0"
			default:
				res = fmt.Sprintf("inconsistent ok=%v err-is-nil=%v", ok, err == nil)
			}
		}()
		return res
	})
}
