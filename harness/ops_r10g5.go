package main

// Round 10 (group 5) additions:
//   cbor.dec.grow   one Decoder over a reader that RECEIVES MORE DATA between decode calls (a failed call, then further input)
//   cbor.rt.big     the encoder -> decoder round trip of C12's first clause for strings of many MiB (real code only)
//   c10.ib.obtain / c10.ib.has   each integrity-block entry point ALONE (c10.ib stops at the first one that reports an error),
//                   with the file handle left at a chosen position

import (
	"bytes"
	"fmt"
	"io"
	"io/ioutil"
	"os"
	"strconv"
	"strings"

	"github.com/WICG/webpackage/go/integrityblock"
	"github.com/WICG/webpackage/go/internal/cbor"
)

// a reader that is appended to while a Decoder holds it: at the end of what has arrived so far it reports io.EOF (as a
// bytes.Buffer being filled by a producer does), and delivers again once more has arrived
type growReader struct {
	buf  []byte
	used int
}

func (g *growReader) Read(p []byte) (int, error) {
	if len(g.buf) == 0 {
		return 0, io.EOF
	}
	n := copy(p, g.buf)
	g.buf = g.buf[n:]
	g.used += n
	return n, nil
}

func init() {
	// args: reader kind, then pairs (script, hex): for each pair the bytes are appended to the reader and the calls of the script
	// are made on the ONE decoder until the first error; whatever the phase left unread is then discarded, so that the next phase
	// starts at an item boundary. Result: the phases' results (format of cbor.dec.seq) joined by "|". Whatever happened before,
	// each phase must decode like a fresh decoder over that phase's bytes.
	register("cbor.dec.grow", func(args []string) string {
		if len(args) < 3 || len(args)%2 != 1 {
			panic("bad-op")
		}
		g := &growReader{}
		var bb *bytes.Buffer
		var r io.Reader
		switch args[0] {
		case "buffer":
			bb = new(bytes.Buffer)
			r = bb
		case "plain":
			r = struct{ io.Reader }{g}
		case "one":
			r = struct{ io.Reader }{&oneByteReader{g}}
		default:
			panic("bad-op")
		}
		d := cbor.NewDecoder(r)
		res := []string{}
		for p := 1; p < len(args); p += 2 {
			bs := ofHex(args[p+1])
			if bb != nil {
				bb.Write(bs)
			} else {
				g.buf = append([]byte{}, bs...)
				g.used = 0
			}
			out := []string{}
			failed := -1
			for i, c := range args[p] {
				var err error
				var v string
				switch c {
				case 'u':
					var n uint64
					n, err = d.DecodeUint()
					v = fmt.Sprintf("%d", n)
				case 'a':
					var n uint64
					n, err = d.DecodeArrayHeader()
					v = fmt.Sprintf("%d", n)
				case 'm':
					var n uint64
					n, err = d.DecodeMapHeader()
					v = fmt.Sprintf("%d", n)
				case 'b':
					var b []byte
					b, err = d.DecodeByteString()
					v = toHex(b)
				case 't':
					var t string
					t, err = d.DecodeTextString()
					v = toHex([]byte(t))
				default:
					panic("bad-op")
				}
				if err != nil {
					failed = i
					break
				}
				out = append(out, v)
			}
			if failed >= 0 {
				res = append(res, fmt.Sprintf("err %d %s", failed, strings.Join(out, ",")))
			} else {
				used := g.used
				if bb != nil {
					used = len(bs) - bb.Len()
				}
				res = append(res, fmt.Sprintf("ok %d %s", used, strings.Join(out, ",")))
			}
			if bb != nil {
				bb.Reset()
			} else {
				g.buf = nil
			}
		}
		return strings.Join(res, "|")
	})

	// args: b|t, length n, reader kind (bytes|buffer|plain). A string of n bytes through the real encoder, then (a) what the encoder
	// produced, followed by one more item, through the real decoder, (b) the same content behind a non-shortest 8-byte head.
	// "same" when both decodes return the original value, consume exactly the item and the next item is still there.
	register("cbor.rt.big", func(args []string) string {
		n, err := strconv.Atoi(args[1])
		if err != nil || n < 0 {
			panic("bad-op")
		}
		val := make([]byte, n)
		for i := range val {
			val[i] = byte('a' + i%23)
		}
		var enc bytes.Buffer
		e := cbor.NewEncoder(&enc)
		major := byte(0x40)
		if args[0] == "t" {
			major = 0x60
			err = e.EncodeTextString(string(val))
		} else if args[0] == "b" {
			err = e.EncodeByteString(val)
		} else {
			panic("bad-op")
		}
		if err != nil {
			return "encoder-refused"
		}
		itemLen := enc.Len()
		if itemLen < n {
			return "encoder-output-shorter-than-the-value"
		}
		wide := append([]byte{major | 27, byte(uint64(n) >> 56), byte(uint64(n) >> 48), byte(uint64(n) >> 40), byte(uint64(n) >> 32),
			byte(uint64(n) >> 24), byte(uint64(n) >> 16), byte(uint64(n) >> 8), byte(uint64(n))}, val...)
		for vi, stream := range [][]byte{append(append([]byte{}, enc.Bytes()...), 0x07), append(wide, 0x07)} {
			which := []string{"encoder-output", "8-byte-head"}[vi]
			var r io.Reader
			remaining := func() int { return -1 }
			switch args[2] {
			case "bytes":
				br := bytes.NewReader(stream)
				r, remaining = br, br.Len
			case "buffer":
				b2 := bytes.NewBuffer(stream)
				r, remaining = b2, b2.Len
			case "plain":
				br := bytes.NewReader(stream)
				r, remaining = struct{ io.Reader }{br}, br.Len
			default:
				panic("bad-op")
			}
			d := cbor.NewDecoder(r)
			var got []byte
			if args[0] == "t" {
				var s string
				s, err = d.DecodeTextString()
				got = []byte(s)
			} else {
				got, err = d.DecodeByteString()
			}
			if err != nil {
				return which + "-refused-by-decoder"
			}
			if !bytes.Equal(got, val) {
				return fmt.Sprintf("%s-decoded-differently(len=%d)", which, len(got))
			}
			if remaining() != 1 {
				return fmt.Sprintf("%s-consumed-wrong(left=%d)", which, remaining())
			}
			if v, err := d.DecodeUint(); err != nil || v != 7 {
				return which + "-next-item-lost"
			}
		}
		return "same"
	})

	ibFile := func(content []byte, pos string) *os.File {
		f, err := ioutil.TempFile("", "verif-ib-*")
		if err != nil {
			panic("bad-op")
		}
		f.Write(content)
		switch pos {
		case "start":
			f.Seek(0, io.SeekStart)
		case "mid":
			f.Seek(int64(len(content)/2), io.SeekStart)
		case "end":
			f.Seek(0, io.SeekEnd)
		default:
			f.Close()
			os.Remove(f.Name())
			panic("bad-op")
		}
		return f
	}
	// args: file content, where the handle stands (start|mid|end)
	register("c10.ib.obtain", func(args []string) string {
		f := ibFile(ofHex(args[0]), args[1])
		defer os.Remove(f.Name())
		defer f.Close()
		return measure(func() bool {
			_, _, err := integrityblock.ObtainIntegrityBlock(f)
			return err == nil
		})
	})
	register("c10.ib.has", func(args []string) string {
		f := ibFile(ofHex(args[0]), args[1])
		defer os.Remove(f.Name())
		defer f.Close()
		return measure(func() bool {
			_, err := integrityblock.WebBundleHasIntegrityBlock(f)
			return err == nil
		})
	})
}
