package main

// Round-10 additions (C18: concurrent signing on the default, production path; C19: destinations with optional capabilities).

import (
	"bufio"
	"bytes"
	"crypto/ecdsa"
	"crypto/elliptic"
	cryptorand "crypto/rand"
	"crypto/sha256"
	"crypto/sha512"
	"crypto/x509"
	"encoding/base64"
	"fmt"
	"io"
	"math/rand"
	"regexp"
	"strconv"
	"sync"
	"time"

	"github.com/WICG/webpackage/go/bundle/signature"
	"github.com/WICG/webpackage/go/internal/signingalgorithm"
	sxg "github.com/WICG/webpackage/go/signedexchange"
)

var r10SigParam = regexp.MustCompile(`sig=\*[^*]*\*`)

func r10ecdsaOK(pub interface{}, msg, sig []byte) bool {
	pk, ok := pub.(*ecdsa.PublicKey)
	if !ok {
		return false
	}
	var digest []byte
	if pk.Curve == elliptic.P384() {
		d := sha512.Sum384(msg)
		digest = d[:]
	} else {
		d := sha256.Sum256(msg)
		digest = d[:]
	}
	return ecdsa.VerifyASN1(pk, digest, sig)
}

// c18.concsign <goroutines> <reps> <seed> <kind> <args...>: SIGNING with a real ECDSA key and the signer's default random source
// (Signer.Algorithm left nil, as every tool of the repository does), many calls at overlapping times. Only read-only inputs are shared
// (certificate, private key, URLs, the op's argument strings); every call has its own Exchange / Bundle and its own Signer.
//   sxg    <exchange(8)> <rs> <cert> <pkcs8 key> <certurl> <validityurl> <date> <expires>   Exchange.AddSignatureHeader
//   bsig   <bundle...> <rs> <chain> <pkcs8 key> <validityurl> <date> <duration s>           signature.Signer ... UpdateSignatures
//   alg    <pkcs8 key> <message>                                                            SigningAlgorithmForPrivateKey(key, crypto/rand.Reader).Sign
// Each result, with the signature bytes taken out, must equal the reference run's; each signature must verify (stdlib ECDSA) over the
// message the library defines; no two of the signatures may be equal (each call draws fresh randomness). Built with -race for C18.
func init() {
	register("c18.concsign", func(args []string) string {
		g, _ := strconv.Atoi(args[0])
		reps, _ := strconv.Atoi(args[1])
		seed, _ := strconv.ParseInt(args[2], 10, 64)
		kind := args[3]
		// one returns (result without the signature, signature, signature-valid)
		var one func() (string, []byte, bool)
		switch kind {
		case "sxg":
			_, rest := parseExchange(args[4:])
			rs, _ := strconv.Atoi(rest[0])
			cert, err := x509.ParseCertificate(ofHex(rest[1]))
			if err != nil {
				panic("bad-op")
			}
			key, err := x509.ParsePKCS8PrivateKey(ofHex(rest[2]))
			if err != nil {
				panic("bad-op")
			}
			certs := []*x509.Certificate{cert}
			cu, vu := mustURL(rest[3]), mustURL(rest[4])
			date, exp := parseTimeArg(rest[5]), parseTimeArg(rest[6])
			one = func() (string, []byte, bool) {
				e, _ := parseExchange(args[4:])
				if rs > 0 {
					if err := e.MiEncodePayload(rs); err != nil {
						return "err mi", nil, false
					}
				}
				s := &sxg.Signer{Date: date, Expires: exp, Certs: certs, CertUrl: cu, ValidityUrl: vu, PrivKey: key}
				if err := e.AddSignatureHeader(s); err != nil {
					return "err sign", nil, false
				}
				m := r10SigParam.FindString(e.SignatureHeaderValue)
				if len(m) < 6 {
					return "err nosig", nil, false
				}
				sig, err := base64.StdEncoding.DecodeString(m[5 : len(m)-1])
				if err != nil {
					return "err sigb64", nil, false
				}
				var msg bytes.Buffer
				if err := e.DumpSignedMessage(&msg, s); err != nil {
					return "err msg", nil, false
				}
				e.SignatureHeaderValue = r10SigParam.ReplaceAllString(e.SignatureHeaderValue, "sig=**")
				return showExchange(e), sig, r10ecdsaOK(cert.PublicKey, msg.Bytes(), sig)
			}
		case "bsig":
			b0, rest := parseBundle(args[4:])
			rs, _ := strconv.Atoi(rest[0])
			chain := certurlChain(rest[1])
			key, err := x509.ParsePKCS8PrivateKey(ofHex(rest[2]))
			if err != nil {
				panic("bad-op")
			}
			vurl := rawURL(rest[3])
			date := parseTimeArg(rest[4])
			dur, _ := strconv.ParseInt(rest[5], 10, 64)
			ver := b0.Version
			one = func() (string, []byte, bool) {
				b, _ := parseBundle(args[4:])
				signer, err := signature.NewSigner(ver, chain, key, vurl, date, time.Duration(dur)*time.Second)
				if err != nil {
					return "err newsigner", nil, false
				}
				for _, e := range b.Exchanges {
					if !signer.CanSignForURL(e.Request.URL) {
						continue
					}
					pih, err := e.AddPayloadIntegrity(ver, rs)
					if err != nil {
						return "err integrity", nil, false
					}
					if err := signer.AddExchange(e, pih); err != nil {
						return "err addexchange", nil, false
					}
				}
				ns, err := signer.UpdateSignatures(b.Signatures)
				if err != nil || len(ns.VouchedSubsets) == 0 {
					return "err update", nil, false
				}
				vs := ns.VouchedSubsets[len(ns.VouchedSubsets)-1]
				sig := vs.Sig
				ok := r10ecdsaOK(chain[0].Cert.PublicKey, signature.VerifGenerateSignedMessage(vs.Signed, ver), sig)
				vs.Sig = []byte{}
				b.Signatures = ns
				return showBundle(b), sig, ok
			}
		case "alg":
			key, err := x509.ParsePKCS8PrivateKey(ofHex(args[4]))
			if err != nil {
				panic("bad-op")
			}
			msg := ofHex(args[5])
			pub := key.(*ecdsa.PrivateKey).Public()
			one = func() (string, []byte, bool) {
				alg, err := signingalgorithm.SigningAlgorithmForPrivateKey(key, cryptorand.Reader)
				if err != nil {
					return "err alg", nil, false
				}
				sig, err := alg.Sign(msg)
				if err != nil {
					return "err sign", nil, false
				}
				return "signed", sig, r10ecdsaOK(pub, msg, sig)
			}
		default:
			panic("bad-op")
		}
		want, sig0, ok0 := one()
		if !ok0 {
			if len(want) >= 3 && want[:3] == "err" {
				return "inputerr " + want
			}
			return "invalid-signature(reference run)"
		}
		order := rand.New(rand.NewSource(seed)).Perm(g)
		var wg sync.WaitGroup
		var mu sync.Mutex
		differ, invalid, panics := 0, 0, 0
		sigs := map[string]int{string(sig0): 1}
		start := make(chan struct{})
		for _, id := range order {
			wg.Add(1)
			go func(id int) {
				defer wg.Done()
				defer func() {
					// a panic in here would take the whole process (and the results of every other op) with it
					if r := recover(); r != nil {
						mu.Lock()
						panics++
						mu.Unlock()
					}
				}()
				<-start
				for r := 0; r < reps; r++ {
					got, sig, ok := one()
					mu.Lock()
					if got != want {
						differ++
					}
					if !ok {
						invalid++
					}
					sigs[string(sig)]++
					mu.Unlock()
				}
			}(id)
		}
		close(start)
		wg.Wait()
		if panics > 0 {
			return fmt.Sprintf("panic-in-%d-goroutines", panics)
		}
		if differ > 0 {
			return fmt.Sprintf("diff %d", differ)
		}
		if invalid > 0 {
			return fmt.Sprintf("invalid-signature %d", invalid)
		}
		if len(sigs) != g*reps+1 {
			return fmt.Sprintf("repeated-signature %d-distinct-of-%d", len(sigs), g*reps+1)
		}
		h := sha256.Sum256([]byte(want))
		return "same " + toHex(h[:8])
	})
}

// --- C19: destinations that have more than Write. A serializer may look for optional capabilities of its destination (Flush, Sync,
// Close, WriteString, WriteByte, ReadFrom) and treat it differently; whatever it does, a fault must surface and the bytes accepted
// must be a prefix. All kinds sit on the same failingWriter, so the fault positions mean the same as for the plain `fault` op.

// Flush() error that reports on the flush itself only (an unbuffered file wrapper whose Flush is fsync, text/tabwriter, a metrics wrapper)
type r10FlushNil struct{ *failingWriter }

func (w r10FlushNil) Flush() error { return nil }

// Flush() error that repeats the earlier write error, as bufio.Writer / gzip.Writer do (but unbuffered)
type r10FlushSticky struct{ *failingWriter }

func (w r10FlushSticky) Flush() error {
	if w.broken {
		return errInjected
	}
	return nil
}

// Flush() without a result (http.Flusher)
type r10FlushVoid struct{ *failingWriter }

func (w r10FlushVoid) Flush() {}

// Sync() / Close() that succeed (a file whose writes failed can still be synced and closed)
type r10SyncClose struct{ *failingWriter }

func (w r10SyncClose) Sync() error  { return nil }
func (w r10SyncClose) Close() error { return nil }

// io.StringWriter + io.ByteWriter, faithful (same fault logic as Write)
type r10String struct{ *failingWriter }

func (w r10String) WriteString(s string) (int, error) { return w.Write([]byte(s)) }
func (w r10String) WriteByte(c byte) error            { _, err := w.Write([]byte{c}); return err }

// io.ReaderFrom, faithful: copies in pieces, stops at and returns the first write error
type r10ReaderFrom struct{ *failingWriter }

func (w r10ReaderFrom) ReadFrom(r io.Reader) (int64, error) {
	var total int64
	buf := make([]byte, 7)
	for {
		n, rerr := r.Read(buf)
		if n > 0 {
			m, werr := w.Write(buf[:n])
			total += int64(m)
			if werr != nil {
				return total, werr
			}
		}
		if rerr == io.EOF {
			return total, nil
		}
		if rerr != nil {
			return total, rerr
		}
	}
}

// everything at once
type r10All struct{ *failingWriter }

func (w r10All) Flush() error                      { return nil }
func (w r10All) Sync() error                       { return nil }
func (w r10All) Close() error                      { return nil }
func (w r10All) WriteString(s string) (int, error) { return w.Write([]byte(s)) }
func (w r10All) WriteByte(c byte) error            { _, err := w.Write([]byte{c}); return err }
func (w r10All) ReadFrom(r io.Reader) (int64, error) {
	return r10ReaderFrom{w.failingWriter}.ReadFrom(r)
}

// r10Dest returns the destination handed to the serializer and what the caller does after the serializer returned nil
// (a bufio.Writer must be flushed by its owner; its Flush error counts as the operation's error).
func r10Dest(kind string, fw *failingWriter) (io.Writer, func() error, bool) {
	none := func() error { return nil }
	switch kind {
	case "flush":
		return r10FlushNil{fw}, none, true
	case "flushsticky":
		return r10FlushSticky{fw}, none, true
	case "flushvoid":
		return r10FlushVoid{fw}, none, true
	case "syncclose":
		return r10SyncClose{fw}, none, true
	case "string":
		return r10String{fw}, none, true
	case "readfrom":
		return r10ReaderFrom{fw}, none, true
	case "all":
		return r10All{fw}, none, true
	case "bufio16", "bufio4096":
		n := 16
		if kind == "bufio4096" {
			n = 4096
		}
		bw := bufio.NewWriterSize(fw, n)
		return bw, bw.Flush, false // the count WriteTo returns is what the bufio.Writer took, not what reached the destination
	}
	panic("bad-op")
}

func init() {
	// fault.dest <destkind> <kind> <k> <short|error> <artifact...>: the `fault` op with a destination of the given kind
	register("fault.dest", func(args []string) string {
		dk, kind := args[0], args[1]
		k, err := strconv.Atoi(args[2])
		if err != nil {
			panic("bad-op")
		}
		short := args[3] == "short"
		ser := makeSerializer(kind, args[4:])
		var ref bytes.Buffer
		if _, _, err := ser(&ref); err != nil {
			return "inputerr"
		}
		out := ref.Bytes()
		fw := &failingWriter{budget: k, short: short, failAt: -1}
		dest, finish, countIsAccepted := r10Dest(dk, fw)
		cnt, hasCount, err := ser(dest)
		if err == nil {
			err = finish()
		}
		acc := fw.buf.Bytes()
		good := bytes.HasPrefix(out, acc) && len(acc) <= k
		if short && err != nil && len(acc) != k && k < len(out) {
			good = false
		}
		if hasCount && countIsAccepted && cnt != int64(len(acc)) {
			good = false
		}
		if hasCount && err == nil && cnt != int64(len(out)) {
			good = false
		}
		if err == nil && !bytes.Equal(acc, out) {
			good = false // success reported for a partial output
		}
		st := "ok"
		if err != nil {
			st = "err"
		}
		gs := "good"
		if !good {
			gs = fmt.Sprintf("bad(acc=%d,out=%d,count=%d,failAt=%d)", len(acc), len(out), cnt, fw.failAt)
		}
		return st + " " + gs
	})
}
