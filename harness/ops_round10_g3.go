package main

// Ops added after the tenth round of seeded changes (C04 / C05): HOW a destination fails and WHERE a source stands when the
// library gets it are input dimensions of their own. On the model side both ops are aliases of the plain ops (fault, bundle.read).

import (
	"bufio"
	"bytes"
	"fmt"
	"io"
	"os"
	"strconv"
	"strings"

	"github.com/WICG/webpackage/go/bundle"
)

// failing destinations that additionally offer the optional interfaces a serializer may test for (io.ByteWriter, io.StringWriter,
// io.ReaderFrom): every path ends in failingWriter.Write, so budget, prefix and count rules are those of the plain destination.
type fwByte struct{ *failingWriter }

func (w fwByte) WriteByte(c byte) error { _, err := w.Write([]byte{c}); return err }

type fwString struct{ *failingWriter }

func (w fwString) WriteString(s string) (int, error) { return w.Write([]byte(s)) }

func fwReadFrom(w *failingWriter, r io.Reader) (int64, error) {
	var total int64
	buf := make([]byte, 1000)
	for {
		n, rerr := r.Read(buf)
		if n > 0 {
			m, werr := w.Write(buf[:n])
			total += int64(m)
			if werr != nil {
				return total, werr
			}
		}
		if rerr == io.EOF {
			return total, nil
		}
		if rerr != nil {
			return total, rerr
		}
	}
}

type fwReaderFrom struct{ *failingWriter }

func (w fwReaderFrom) ReadFrom(r io.Reader) (int64, error) { return fwReadFrom(w.failingWriter, r) }

type fwAll struct{ *failingWriter }

func (w fwAll) WriteByte(c byte) error              { _, err := w.Write([]byte{c}); return err }
func (w fwAll) WriteString(s string) (int, error)   { return w.Write([]byte(s)) }
func (w fwAll) ReadFrom(r io.Reader) (int64, error) { return fwReadFrom(w.failingWriter, r) }

func init() {
	// fault.dest <destination kind> <serializer kind> <k> <mode> <artifact...>: the `fault` op with a destination of another kind.
	// plain: only io.Writer; bw / sw / rf / all: + WriteByte / WriteString / ReadFrom / all three; bufio: a caller's bufio.Writer
	// (size 16) in front of the failing destination, flushed by the caller afterwards: whatever the caller is told, the bytes that
	// arrived are a prefix, the count never exceeds what the serializer handed over, and success means everything arrived after the flush;
	// devfull: the real device /dev/full as *os.File (k must be 0: it accepts nothing).
	register("fault.destio", func(args []string) string {
		if len(args) < 4 {
			panic("bad-op")
		}
		dk, kind := args[0], args[1]
		k, err := strconv.Atoi(args[2])
		if err != nil {
			panic("bad-op")
		}
		short := args[3] == "short"
		ser := makeSerializer(kind, args[4:])
		var ref bytes.Buffer
		if _, _, err := ser(&ref); err != nil {
			return "inputerr"
		}
		out := ref.Bytes()
		fw := &failingWriter{budget: k, short: short, failAt: -1}
		var dest io.Writer
		var flush func() error
		switch dk {
		case "plain":
			dest = fw
		case "bw":
			dest = fwByte{fw}
		case "sw":
			dest = fwString{fw}
		case "rf":
			dest = fwReaderFrom{fw}
		case "all":
			dest = fwAll{fw}
		case "bufio":
			b := bufio.NewWriterSize(fw, 16)
			dest, flush = b, b.Flush
		case "devfull":
			if k != 0 {
				panic("bad-op")
			}
			f, err := os.OpenFile("/dev/full", os.O_WRONLY, 0)
			if err != nil {
				dest = fw // no such device here: the plain destination with no room behaves the same
			} else {
				defer f.Close()
				dest = f
			}
		default:
			panic("bad-op")
		}
		cnt, hasCount, err := ser(dest)
		if flush != nil {
			if ferr := flush(); err == nil {
				err = ferr
			}
		}
		acc := fw.buf.Bytes()
		good := bytes.HasPrefix(out, acc) && len(acc) <= k
		if flush == nil {
			if short && err != nil && len(acc) != k && k < len(out) {
				good = false
			}
			if hasCount && cnt != int64(len(acc)) {
				good = false
			}
		} else if hasCount && (cnt < int64(len(acc)) || cnt > int64(len(out))) {
			good = false // the caller's buffer may still hold bytes the serializer has handed over, never the other way round
		}
		if err == nil && !bytes.Equal(acc, out) {
			good = false // success reported for a partial output
		}
		st := "ok"
		if err != nil {
			st = "err"
		}
		g := "good"
		if !good {
			g = fmt.Sprintf("bad(dest=%s,acc=%d,out=%d,count=%d,failAt=%d)", dk, len(acc), len(out), cnt, fw.failAt)
		}
		return st + " " + g
	})

	// bundle.read.at <reader kind> <k> <file> ...: the file stands behind k bytes of something else (a container header) in the
	// caller's source; the caller has consumed those k bytes (or positioned the source behind them) and hands the source to
	// bundle.Read. The input of Read is what the source still delivers: exactly the file.
	register("bundle.read.at", func(args []string) string {
		if len(args) < 3 {
			panic("bad-op")
		}
		k, err := strconv.Atoi(args[1])
		if err != nil || k < 0 {
			panic("bad-op")
		}
		file := ofHex(args[2])
		pre := bytes.Repeat([]byte{0xA5}, k)
		all := append(append([]byte{}, pre...), file...)
		consume := func(r io.Reader) {
			got := make([]byte, k)
			if _, err := io.ReadFull(r, got); err != nil || !bytes.Equal(got, pre) {
				panic("bad-op")
			}
		}
		var r io.Reader
		switch args[0] {
		case "bytes": // *bytes.Reader, prefix read
			br := bytes.NewReader(all)
			consume(br)
			r = br
		case "seek": // *bytes.Reader, positioned with Seek
			br := bytes.NewReader(all)
			if _, err := br.Seek(int64(k), io.SeekStart); err != nil {
				panic("bad-op")
			}
			r = br
		case "strings": // *strings.Reader, prefix read
			sr := strings.NewReader(string(all))
			consume(sr)
			r = sr
		case "section": // *io.SectionReader over prefix + file, prefix read
			sr := io.NewSectionReader(bytes.NewReader(all), 0, int64(len(all)))
			consume(sr)
			r = sr
		case "window": // fresh *io.SectionReader: the file is a window of a larger container (k bytes before, k bytes after)
			r = io.NewSectionReader(bytes.NewReader(append(append([]byte{}, all...), pre...)), int64(k), int64(len(file)))
		case "buffer": // *bytes.Buffer, prefix taken with Next
			bb := bytes.NewBuffer(all)
			bb.Next(k)
			r = bb
		case "bufio": // *bufio.Reader (it has a Size method of its own: the buffer size), prefix discarded
			br := bufio.NewReaderSize(bytes.NewReader(all), 16)
			if n, err := br.Discard(k); err != nil || n != k {
				panic("bad-op")
			}
			r = br
		case "limit": // io.LimitReader: the file is followed by k further bytes that are not part of it
			br := bytes.NewReader(append(append([]byte{}, all...), pre...))
			consume(br)
			r = io.LimitReader(br, int64(len(file)))
		case "file": // *os.File positioned behind the prefix
			f, err := os.CreateTemp("", "verif-readat-*")
			if err != nil {
				panic("bad-op")
			}
			defer os.Remove(f.Name())
			defer f.Close()
			if _, err := f.Write(all); err != nil {
				panic("bad-op")
			}
			if _, err := f.Seek(int64(k), io.SeekStart); err != nil {
				panic("bad-op")
			}
			r = f
		default:
			panic("bad-op")
		}
		b, err := bundle.Read(r)
		if err != nil {
			return "err"
		}
		return "ok " + showBundle(b)
	})
}
