package main

// Ops added after the fourth round of seeded changes: parsing through reader/writer kinds the plain ops do not use,
// state carried by parsed objects and by the process (two decodes in one call), results that must not alias their input.

import (
	"crypto/x509"
	"bytes"
	"fmt"
	"io"
	"strconv"

	"github.com/WICG/webpackage/go/bundle"
	"github.com/WICG/webpackage/go/internal/cbor"
	sxg "github.com/WICG/webpackage/go/signedexchange"
	"github.com/WICG/webpackage/go/signedexchange/certurl"
)

func scribbleBytes(b []byte) {
	for i := range b {
		b[i] = 0xEE
	}
}

func init() {
	// cbor.enc through a destination that is only an io.Writer (no WriteString / ReadFrom fast paths)
	register("cbor.enc.plain", func(args []string) string {
		n, err := strconv.Atoi(args[0])
		if err != nil {
			panic("bad-op")
		}
		var buf bytes.Buffer
		s := &scriptState{toks: args[1:]}
		s.runCalls(n, cbor.NewEncoder(struct{ io.Writer }{&buf}))
		if len(s.toks) != 0 {
			panic("bad-op")
		}
		if s.err != nil {
			return "err " + errClass(s.err)
		}
		return "ok " + toHex(buf.Bytes())
	})
	// parse from a *bytes.Buffer owned by the caller, then overwrite and reuse that buffer before looking at the result:
	// what a parser returns must not alias its input
	register("cert.read.buffer", func(args []string) string {
		in := append([]byte{}, ofHex(args[0])...)
		buf := bytes.NewBuffer(in)
		chain, err := certurl.ReadCertChain(buf)
		scribbleBytes(in)
		buf.Reset()
		buf.WriteString("another chain written into the same buffer, longer than before ................................")
		if err != nil {
			return "err"
		}
		return "ok " + showChain(chain)
	})
	register("bundle.read.buffer", func(args []string) string {
		in := append([]byte{}, ofHex(args[0])...)
		buf := bytes.NewBuffer(in)
		b, err := bundle.Read(buf)
		scribbleBytes(in)
		if err != nil {
			return "err"
		}
		return "ok " + showBundle(b)
	})
	register("sxg.read.buffer", func(args []string) string {
		in := append([]byte{}, ofHex(args[0])...)
		buf := bytes.NewBuffer(in)
		e, err := sxg.ReadExchange(buf)
		scribbleBytes(in)
		if err != nil {
			return "err"
		}
		return "ok " + showExchange(e)
	})
	// an exchange obtained from ReadExchange, edited in place into B, then serialised: every output must be B's
	register("sxg.reread", func(args []string) string {
		what := args[0]
		e, err := sxg.ReadExchange(bytes.NewReader(ofHex(args[1])))
		if err != nil {
			return "inputerr"
		}
		b, _ := parseExchange(args[2:])
		e.Version, e.RequestURI, e.RequestMethod, e.ResponseStatus = b.Version, b.RequestURI, b.RequestMethod, b.ResponseStatus
		e.SignatureHeaderValue, e.Payload = b.SignatureHeaderValue, b.Payload
		for k := range e.RequestHeaders {
			delete(e.RequestHeaders, k)
		}
		for k, v := range b.RequestHeaders {
			e.RequestHeaders[k] = v
		}
		for k := range e.ResponseHeaders {
			delete(e.ResponseHeaders, k)
		}
		for k, v := range b.ResponseHeaders {
			e.ResponseHeaders[k] = v
		}
		var buf bytes.Buffer
		switch what {
		case "write":
			if err := e.Write(&buf); err != nil {
				return "err"
			}
			return "ok " + toHex(buf.Bytes())
		case "hdr":
			if err := e.DumpExchangeHeaders(&buf); err != nil {
				return "err " + errClass(err)
			}
			return "ok " + toHex(buf.Bytes())
		case "hdrint":
			s, err := e.ComputeHeaderIntegrity()
			if err != nil {
				return "err"
			}
			return "ok " + toHex([]byte(s))
		}
		panic("bad-op")
	})
	// the chain built by the library's own constructor NewCertChain(certs, ocsp, sct) instead of by hand (same logical value)
	register("cert.write.new", func(args []string) string {
		manual := certurlChain(args[0])
		if len(manual) == 0 {
			if _, err := certurl.NewCertChain(nil, nil, nil); err != nil {
				return "err"
			}
			return "ok-empty"
		}
		certs := []*x509.Certificate{}
		for i, a := range manual {
			if i > 0 && (a.OCSPResponse != nil || a.SCTList != nil) {
				return "skip"
			}
			certs = append(certs, a.Cert)
		}
		chain, err := certurl.NewCertChain(certs, manual[0].OCSPResponse, manual[0].SCTList)
		if err != nil {
			return "err"
		}
		var buf bytes.Buffer
		if err := chain.Write(&buf); err != nil {
			return "err"
		}
		return "ok " + toHex(buf.Bytes())
	})
	// object history for cert chains: Write, then the OCSP / SCT bytes of the SAME objects are overwritten in place with the blobs of the
	// second spec (same lengths), then Write again: the second output is that of the second spec. args: <specA> <specB>
	register("cert.write.inplace", func(args []string) string {
		a, b := certurlChain(args[0]), certurlChain(args[1])
		var first bytes.Buffer
		if err := a.Write(&first); err != nil {
			return "err-first"
		}
		if len(a) != len(b) {
			panic("bad-op")
		}
		for i := range a {
			if len(a[i].OCSPResponse) != len(b[i].OCSPResponse) || len(a[i].SCTList) != len(b[i].SCTList) || (a[i].OCSPResponse == nil) != (b[i].OCSPResponse == nil) || (a[i].SCTList == nil) != (b[i].SCTList == nil) {
				panic("bad-op")
			}
			copy(a[i].OCSPResponse, b[i].OCSPResponse)
			copy(a[i].SCTList, b[i].SCTList)
		}
		var second bytes.Buffer
		if err := a.Write(&second); err != nil {
			return "err"
		}
		return "ok " + toHex(second.Bytes())
	})
	// two MI decodes in ONE process, the second result is reported: nothing learnt from the first stream may help the second
	register("mice.twice", func(args []string) string {
		first := append([]string{}, args[:3]...)
		first = append(first, args[3])
		miceAll(first)
		second := append([]string{}, args[:3]...)
		second = append(second, args[4])
		return miceAll(second)
	})
}

func showChain(chain certurl.CertChain) string {
	out := ""
	for i, a := range chain {
		if i > 0 {
			out += ","
		}
		o, s := "nil", "nil"
		if a.OCSPResponse != nil {
			o = toHex(a.OCSPResponse)
		}
		if a.SCTList != nil {
			s = toHex(a.SCTList)
		}
		out += fmt.Sprintf("%s:%s:%s", toHex(a.Cert.Raw), o, s)
	}
	return out
}
