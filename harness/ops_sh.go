package main

import (
	"sort"
	"strconv"
	"strings"

	sh "github.com/WICG/webpackage/go/signedexchange/structuredheader"
)

func showItem(i sh.Item) string {
	switch v := i.(type) {
	case int64:
		return "i" + strconv.FormatInt(v, 10)
	case string:
		return "s" + toHex([]byte(v))
	case sh.Token:
		return "t" + toHex([]byte(v))
	case []byte:
		return "b" + toHex(v)
	}
	return "n"
}

func readItem(s string) sh.Item {
	tag, arg := s[:1], s[1:]
	switch tag {
	case "i":
		v, err := strconv.ParseInt(arg, 10, 64)
		if err != nil {
			panic("bad-op")
		}
		return v
	case "s":
		return string(ofHex(arg))
	case "t":
		return sh.Token(ofHex(arg))
	case "b":
		return ofHex(arg)
	case "n":
		return 3.5 // an unsupported dynamic type
	}
	panic("bad-op")
}

func showPI(pi sh.ParameterisedIdentifier) string {
	keys := []string{}
	for k := range pi.Params {
		keys = append(keys, string(k))
	}
	sort.Strings(keys)
	s := toHex([]byte(pi.Label))
	for _, k := range keys {
		s += ";" + toHex([]byte(k))
		if v := pi.Params[sh.Key(k)]; v != nil {
			s += "=" + showItem(v)
		}
	}
	return s
}

func readPI(s string) sh.ParameterisedIdentifier {
	parts := strings.Split(s, ";")
	pi := sh.ParameterisedIdentifier{Label: sh.Token(ofHex(parts[0])), Params: sh.Parameters{}}
	for _, p := range parts[1:] {
		kv := strings.Split(p, "=")
		if len(kv) == 1 {
			pi.Params[sh.Key(ofHex(kv[0]))] = nil
		} else {
			pi.Params[sh.Key(ofHex(kv[0]))] = readItem(kv[1])
		}
	}
	return pi
}

func init() {
	register("sh.parse.pl", func(args []string) string {
		pl, err := sh.ParseParameterisedList(string(ofHex(args[0])))
		if err != nil {
			return "err"
		}
		out := []string{}
		for _, pi := range pl {
			out = append(out, showPI(pi))
		}
		return "ok " + strings.Join(out, ",")
	})
	// the same string parsed twice; the first result is scribbled over in between (parameter maps emptied and refilled, byte
	// sequences overwritten, labels replaced): the second result is that of a first parse
	register("sh.parse.twice", func(args []string) string {
		in := string(ofHex(args[0]))
		first, err := sh.ParseParameterisedList(in)
		if err == nil {
			for i := range first {
				for k, v := range first[i].Params {
					if b, ok := v.([]byte); ok {
						for j := range b {
							b[j] ^= 0xff
						}
					}
					delete(first[i].Params, k)
				}
				first[i].Params["injected"] = int64(1)
				first[i].Label = "scribbled"
			}
		}
		pl, err := sh.ParseParameterisedList(in)
		if err != nil {
			return "err"
		}
		out := []string{}
		for _, pi := range pl {
			out = append(out, showPI(pi))
		}
		return "ok " + strings.Join(out, ",")
	})
	register("sh.parse.ll", func(args []string) string {
		ll, err := sh.ParseListOfLists(string(ofHex(args[0])))
		if err != nil {
			return "err"
		}
		out := []string{}
		for _, inner := range ll {
			is := []string{}
			for _, i := range inner {
				is = append(is, showItem(i))
			}
			out = append(out, strings.Join(is, ";"))
		}
		return "ok " + strings.Join(out, ",")
	})
	register("sh.ser.pl", func(args []string) string {
		pl := sh.ParameterisedList{}
		if args[0] != "." {
			for _, p := range strings.Split(args[0], ",") {
				pl = append(pl, readPI(p))
			}
		}
		s, err := pl.String()
		if err != nil {
			return "err"
		}
		return "ok " + toHex([]byte(s))
	})
	register("sh.ser.ll", func(args []string) string {
		ll := sh.ListOfLists{}
		if args[0] != "." {
			for _, inner := range strings.Split(args[0], ",") {
				il := []sh.Item{}
				if inner != "." {
					for _, i := range strings.Split(inner, ";") {
						il = append(il, readItem(i))
					}
				}
				ll = append(ll, il)
			}
		}
		s, err := ll.String()
		if err != nil {
			return "err"
		}
		return "ok " + toHex([]byte(s))
	})
}

func shParamList(s string) sh.ParameterisedList {
	pl := sh.ParameterisedList{}
	if s != "." {
		for _, p := range strings.Split(s, ",") {
			pl = append(pl, readPI(p))
		}
	}
	return pl
}
