package main

import (
	"reflect"
	_ "time/tzdata"
	"bytes"
	"crypto/ecdsa"
	"crypto/elliptic"
	"crypto/rand"
	"crypto/sha256"
	"crypto/sha512"
	"crypto/x509"
	"crypto/x509/pkix"
	"errors"
	"fmt"
	"io/ioutil"
	"log"
	"math/big"
	"net/http"
	"net/url"
	"sort"
	"strconv"
	"strings"
	"time"

	"github.com/WICG/webpackage/go/internal/signingalgorithm"
	sxg "github.com/WICG/webpackage/go/signedexchange"
	"github.com/WICG/webpackage/go/signedexchange/certurl"
	"github.com/WICG/webpackage/go/signedexchange/version"
)

func parseHeaders(s string) http.Header {
	h := http.Header{}
	if s == "." {
		return h
	}
	for _, ent := range strings.Split(s, ";") {
		kv := strings.Split(ent, "=")
		if len(kv) != 2 {
			panic("bad-op")
		}
		vals := []string{}
		for _, v := range strings.Split(kv[1], "|") {
			vals = append(vals, string(ofHex(v)))
		}
		h[string(ofHex(kv[0]))] = vals
	}
	return h
}

func showHeaders(h http.Header) string {
	if len(h) == 0 {
		return "."
	}
	names := []string{}
	for n := range h {
		names = append(names, n)
	}
	sort.Strings(names)
	out := []string{}
	for _, n := range names {
		vs := []string{}
		for _, v := range h[n] {
			vs = append(vs, toHex([]byte(v)))
		}
		out = append(out, toHex([]byte(n))+"="+strings.Join(vs, "|"))
	}
	return strings.Join(out, ";")
}

func sxgVersion(s string) version.Version {
	v, ok := version.Parse("1" + s)
	if !ok {
		panic("bad-op")
	}
	return v
}

// parseExchange consumes 8 args
func parseExchange(a []string) (*sxg.Exchange, []string) {
	if len(a) < 8 {
		panic("bad-op")
	}
	st, err := strconv.Atoi(a[4])
	if err != nil {
		panic("bad-op")
	}
	e := sxg.NewExchange(sxgVersion(a[0]), string(ofHex(a[1])), string(ofHex(a[2])), parseHeaders(a[3]), st, parseHeaders(a[5]), ofHex(a[7]))
	e.SignatureHeaderValue = string(ofHex(a[6]))
	return e, a[8:]
}

func showExchange(e *sxg.Exchange) string {
	return fmt.Sprintf("%s %s %s %s %d %s %s %s", string(e.Version)[1:], toHex([]byte(e.RequestURI)), toHex([]byte(e.RequestMethod)),
		showHeaders(e.RequestHeaders), e.ResponseStatus, showHeaders(e.ResponseHeaders), toHex([]byte(e.SignatureHeaderValue)), toHex(e.Payload))
}

func parseTable(s string) [][]string {
	out := [][]string{}
	if s == "." || s == "" {
		return out
	}
	for _, r := range strings.Split(s, ",") {
		out = append(out, strings.Split(r, ":"))
	}
	return out
}

func mustURL(h string) *url.URL {
	s := string(ofHex(h))
	u, err := url.Parse(s)
	if err != nil || u.String() != s {
		panic("bad-op")
	}
	return u
}

// strict DER SEQUENCE{INTEGER r, INTEGER s} parser, independent of encoding/asn1
func parseDERSig(sig []byte) (r, s *big.Int, err error) {
	bad := errors.New("bad der")
	if len(sig) < 2 || sig[0] != 0x30 {
		return nil, nil, bad
	}
	readLen := func(b []byte) (int, []byte, error) {
		if len(b) == 0 {
			return 0, nil, bad
		}
		if b[0] < 0x80 {
			return int(b[0]), b[1:], nil
		}
		n := int(b[0] & 0x7f)
		if n == 0 || n > 2 || len(b) < 1+n {
			return 0, nil, bad
		}
		l := 0
		for _, c := range b[1 : 1+n] {
			l = l<<8 | int(c)
		}
		if l < 0x80 || (n == 2 && l < 0x100) {
			return 0, nil, bad // non-minimal length
		}
		return l, b[1+n:], nil
	}
	l, rest, err := readLen(sig[1:])
	if err != nil || l != len(rest) {
		return nil, nil, bad
	}
	readInt := func(b []byte) (*big.Int, []byte, error) {
		if len(b) < 2 || b[0] != 0x02 {
			return nil, nil, bad
		}
		l, rest, err := readLen(b[1:])
		if err != nil || l == 0 || l > len(rest) {
			return nil, nil, bad
		}
		v := rest[:l]
		if l > 1 && ((v[0] == 0 && v[1]&0x80 == 0) || (v[0] == 0xff && v[1]&0x80 != 0)) {
			return nil, nil, bad // non-minimal integer
		}
		n := new(big.Int).SetBytes(v)
		if v[0]&0x80 != 0 {
			n.Sub(n, new(big.Int).Lsh(big.NewInt(1), uint(8*l)))
		}
		return n, rest[l:], nil
	}
	r, rest, err = readInt(rest)
	if err != nil {
		return nil, nil, bad
	}
	s, _, err = readInt(rest)
	if err != nil {
		return nil, nil, bad
	}
	// Bytes after the two INTEGERs but still inside the SEQUENCE are tolerated: encoding/asn1 deliberately accepts extra
	// elements at the end of a SEQUENCE when unmarshalling into a struct, and the repository's verifier inherits that.
	// (Bytes after the SEQUENCE are refused above, as signingalgorithm.Verify refuses them.) Such a re-encoding of the
	// signature leaves everything the signature covers unchanged, so it is outside what property C01 forbids; demanding
	// strictness here was a false alarm of this oracle (DESIGN.md, "false alarms").
	return r, s, nil
}

func oracleVerify(certDer, msg, sig []byte) bool {
	cert, err := x509.ParseCertificate(certDer)
	if err != nil {
		return false
	}
	pk, ok := cert.PublicKey.(*ecdsa.PublicKey)
	if !ok {
		return false
	}
	var digest []byte
	switch pk.Curve.Params().Name {
	case "P-256":
		d := sha256.Sum256(msg)
		digest = d[:]
	case "P-384":
		d := sha512.Sum384(msg)
		digest = d[:]
	default:
		return false
	}
	r, s, err := parseDERSig(sig)
	if err != nil {
		return false
	}
	return ecdsa.Verify(pk, digest, r, s)
}

func init() {
	register("setup.key", func(args []string) string {
		var curve elliptic.Curve
		switch args[0] {
		case "p256":
			curve = elliptic.P256()
		case "p384":
			curve = elliptic.P384()
		case "p521":
			curve = elliptic.P521()
		default:
			panic("bad-op")
		}
		key, err := ecdsa.GenerateKey(curve, rand.Reader)
		if err != nil {
			return "err"
		}
		hosts := strings.Split(string(ofHex(args[1])), ",")
		serial, _ := strconv.Atoi(args[2])
		tmpl := &x509.Certificate{
			SerialNumber: big.NewInt(int64(serial)),
			Subject:      pkix.Name{CommonName: hosts[0]},
			NotBefore:    time.Unix(1500000000, 0),
			NotAfter:     time.Unix(1900000000, 0),
			DNSNames:     hosts,
		}
		der, err := x509.CreateCertificate(rand.Reader, tmpl, tmpl, &key.PublicKey, key)
		if err != nil {
			return "err"
		}
		kb, err := x509.MarshalPKCS8PrivateKey(key)
		if err != nil {
			return "err"
		}
		return "ok " + toHex(der) + " " + toHex(kb)
	})
	register("oracle.url", func(args []string) string {
		u, err := url.Parse(string(ofHex(args[0])))
		if err != nil {
			return "0"
		}
		return fmt.Sprintf("1:%s:%s:%s", toHex([]byte(u.Scheme)), toHex([]byte(u.Hostname())), toHex([]byte(u.Port())))
	})
	register("oracle.cert", func(args []string) string {
		cert, err := x509.ParseCertificate(ofHex(args[0]))
		if err != nil {
			return "0:0"
		}
		if pk, ok := cert.PublicKey.(*ecdsa.PublicKey); ok {
			n := pk.Curve.Params().Name
			if n == "P-256" || n == "P-384" {
				return "1:1"
			}
		}
		return "1:0"
	})
	register("oracle.sig", func(args []string) string {
		if oracleVerify(ofHex(args[0]), ofHex(args[1]), ofHex(args[2])) {
			return "1"
		}
		return "0"
	})
	register("oracle.status", func(args []string) string {
		n, _ := strconv.Atoi(args[0])
		if http.StatusText(n) != "" {
			return "1"
		}
		return "0"
	})
	register("http.canon", func(args []string) string {
		return "ok " + toHex([]byte(http.CanonicalHeaderKey(string(ofHex(args[0])))))
	})
	register("sxg.hdr", func(args []string) string {
		e, _ := parseExchange(args)
		var buf bytes.Buffer
		if err := e.DumpExchangeHeaders(&buf); err != nil {
			return "err " + errClass(err)
		}
		return "ok " + toHex(buf.Bytes())
	})
	// state carried by one *Exchange between calls: the exchange is first used as A (header block serialised, header integrity
	// computed, written, signed message built), then every field is set to B's in place, and the requested output must be B's
	register("sxg.reuse", func(args []string) string {
		what := args[0]
		e, rest := parseExchange(args[1:])
		b, rest2 := parseExchange(rest)
		var sink bytes.Buffer
		e.DumpExchangeHeaders(&sink)
		e.ComputeHeaderIntegrity()
		e.Write(&sink)
		e.Version, e.RequestURI, e.RequestMethod, e.ResponseStatus = b.Version, b.RequestURI, b.RequestMethod, b.ResponseStatus
		e.SignatureHeaderValue, e.Payload = b.SignatureHeaderValue, b.Payload
		for k := range e.RequestHeaders {
			delete(e.RequestHeaders, k)
		}
		for k, v := range b.RequestHeaders {
			e.RequestHeaders[k] = v
		}
		for k := range e.ResponseHeaders {
			delete(e.ResponseHeaders, k)
		}
		for k, v := range b.ResponseHeaders {
			e.ResponseHeaders[k] = v
		}
		var buf bytes.Buffer
		switch what {
		case "write":
			if err := e.Write(&buf); err != nil {
				return "err"
			}
			return "ok " + toHex(buf.Bytes())
		case "hdr":
			if err := e.DumpExchangeHeaders(&buf); err != nil {
				return "err " + errClass(err)
			}
			return "ok " + toHex(buf.Bytes())
		case "hdrint":
			s, err := e.ComputeHeaderIntegrity()
			if err != nil {
				return "err"
			}
			return "ok " + toHex([]byte(s))
		case "mi":
			rs, _ := strconv.Atoi(rest2[0])
			if err := e.MiEncodePayload(rs); err != nil {
				return "err"
			}
			return "ok " + showExchange(e)
		}
		panic("bad-op")
	})
	register("sxg.hdrint", func(args []string) string {
		e, _ := parseExchange(args)
		s, err := e.ComputeHeaderIntegrity()
		if err != nil {
			return "err"
		}
		return "ok " + toHex([]byte(s))
	})
	register("sxg.write", func(args []string) string {
		e, _ := parseExchange(args)
		var buf bytes.Buffer
		if err := e.Write(&buf); err != nil {
			return "err"
		}
		return "ok " + toHex(buf.Bytes())
	})
	register("sxg.msg", func(args []string) string {
		e, rest := parseExchange(args)
		var certSha []byte
		if rest[0] != "nil" {
			certSha = ofHex(rest[0])
		}
		d, err1 := strconv.ParseInt(rest[2], 10, 64)
		x, err2 := strconv.ParseInt(rest[3], 10, 64)
		if err1 != nil || err2 != nil {
			panic("bad-op")
		}
		m, err := sxg.VerifSerializeSignedMessage(e, certSha, string(ofHex(rest[1])), d, x)
		if err != nil {
			return "err"
		}
		return "ok " + toHex(m)
	})
	mkSigner := func(rest []string, mock bool) *sxg.Signer {
		cert, err := x509.ParseCertificate(ofHex(rest[0]))
		if err != nil {
			panic("bad-op")
		}
		i := 1
		s := &sxg.Signer{Certs: []*x509.Certificate{cert}}
		if mock {
			s.Algorithm = &signingalgorithm.MockSigningAlgorithm{}
		} else {
			k, err := x509.ParsePKCS8PrivateKey(ofHex(rest[1]))
			if err != nil {
				panic("bad-op")
			}
			s.PrivKey = k
			i = 2
		}
		s.CertUrl = mustURL(rest[i])
		s.ValidityUrl = mustURL(rest[i+1])
		s.Date = parseTimeArg(rest[i+2])
		s.Expires = parseTimeArg(rest[i+3])
		return s
	}
	register("sxg.mi", func(args []string) string {
		e, rest := parseExchange(args)
		rs, err := strconv.Atoi(rest[0])
		if err != nil || rs <= 0 {
			panic("bad-op")
		}
		if err := e.MiEncodePayload(rs); err != nil {
			return "err"
		}
		return "ok " + showExchange(e)
	})
	register("sxg.sign.mock", func(args []string) string {
		e, rest := parseExchange(args)
		s := mkSigner(rest, true)
		if err := e.AddSignatureHeader(s); err != nil {
			return "err"
		}
		return "ok " + toHex([]byte(e.SignatureHeaderValue))
	})
	// one *Signer object used twice: first with certificate A (result discarded), then, after its Certs / dates were replaced
	// (certificate rotation), for the exchange whose header is reported. args: <exchange> <certA> <certB> <certUrl> <validityUrl> <date> <expires>
	register("sxg.sign.mock.rotate", func(args []string) string {
		e, rest := parseExchange(args)
		s := mkSigner(append([]string{rest[0]}, rest[2:]...), true)
		first := *e
		first.RequestHeaders, first.ResponseHeaders = e.RequestHeaders.Clone(), e.ResponseHeaders.Clone()
		if err := first.AddSignatureHeader(s); err != nil {
			return "err-first"
		}
		var sink bytes.Buffer
		first.DumpSignedMessage(&sink, s)
		certB, err := x509.ParseCertificate(ofHex(rest[1]))
		if err != nil {
			panic("bad-op")
		}
		s.Certs = []*x509.Certificate{certB}
		if err := e.AddSignatureHeader(s); err != nil {
			return "err"
		}
		return "ok " + toHex([]byte(e.SignatureHeaderValue))
	})
	// go-only: MI-encode (rs > 0) and sign with a real key; prints the resulting exchange
	signCalls := 0
	register("sxg.sign", func(args []string) string {
		e, rest := parseExchange(args)
		rs, _ := strconv.Atoi(rest[0])
		if rs > 0 {
			if err := e.MiEncodePayload(rs); err != nil {
				return "err mi"
			}
		}
		s := mkSigner(rest[1:], false)
		// object history: every second call in a process hands AddSignatureHeader a Signer that has already signed something else
		// (a Signer is meant to be reused; nothing of the first signature may leak into the second)
		signCalls++
		if signCalls%2 == 0 {
			prior, _ := parseExchange(args)
			prior.Payload = append([]byte("earlier use of this signer: "), prior.Payload...)
			prior.AddSignatureHeader(s)
		}
		if err := e.AddSignatureHeader(s); err != nil {
			return "err sign"
		}
		return "ok " + showExchange(e)
	})
	// an exchange that already carries a Signature header; a further AddSignatureHeader that FAILS (signer without key / with an
	// unusable cert-url or validity-url) must leave that header alone. args: <exchange> <cert> <mode>
	register("sxg.resign.fail", func(args []string) string {
		e, rest := parseExchange(args)
		before := e.SignatureHeaderValue
		cert, err := x509.ParseCertificate(ofHex(rest[0]))
		if err != nil {
			panic("bad-op")
		}
		s := &sxg.Signer{Certs: []*x509.Certificate{cert}, CertUrl: mustURL(hexOf("https://example.com/cert.cbor")), ValidityUrl: mustURL(hexOf("https://example.com/v")),
			Date: time.Unix(1517418800, 0), Expires: time.Unix(1517418800+3600, 0)}
		switch rest[1] {
		case "nokey":
		case "httpcert":
			s.Algorithm = &signingalgorithm.MockSigningAlgorithm{}
			s.CertUrl = mustURL(hexOf("http://example.com/cert.cbor"))
		case "badvalidity":
			s.Algorithm = &signingalgorithm.MockSigningAlgorithm{}
			s.ValidityUrl = mustURL(hexOf("https://example.com/v?v=\u00e4"))
		case "nocerts":
			s.Algorithm = &signingalgorithm.MockSigningAlgorithm{}
			s.Certs = nil
		default:
			panic("bad-op")
		}
		err2 := func() (err error) {
			defer func() {
				if r := recover(); r != nil {
					err = fmt.Errorf("panic: %v", r)
				}
			}()
			return e.AddSignatureHeader(s)
		}()
		if err2 == nil {
			return "resigned"
		}
		if e.SignatureHeaderValue != before {
			return "changed " + toHex([]byte(e.SignatureHeaderValue))
		}
		return "same"
	})
	// independent producer: ECDSA signature (ASN.1 DER) over SHA-256/384 of <msg> with the PKCS#8 key; no library code involved
	register("oracle.ecsign", func(args []string) string {
		k, err := x509.ParsePKCS8PrivateKey(ofHex(args[0]))
		if err != nil {
			panic("bad-op")
		}
		ek, ok := k.(*ecdsa.PrivateKey)
		if !ok {
			panic("bad-op")
		}
		msg := ofHex(args[1])
		var digest []byte
		if ek.Curve == elliptic.P384() {
			d := sha512.Sum384(msg)
			digest = d[:]
		} else {
			d := sha256.Sum256(msg)
			digest = d[:]
		}
		sig, err := ecdsa.SignASN1(rand.Reader, ek, digest)
		if err != nil {
			return "err"
		}
		return "ok " + toHex(sig)
	})
	register("sxg.read", func(args []string) string {
		e, err := sxg.ReadExchange(bytes.NewReader(ofHex(args[0])))
		if err != nil {
			return "err"
		}
		return "ok " + showExchange(e)
	})
	verifyWith := func(e *sxg.Exchange, rest []string) string {
		sec, err1 := strconv.ParseInt(rest[0], 10, 64)
		nsec, err2 := strconv.ParseInt(rest[1], 10, 64)
		if err1 != nil || err2 != nil {
			panic("bad-op")
		}
		fetch := map[string][]byte{}
		for _, r := range parseTable(rest[3]) {
			if r[1] != "err" {
				fetch[string(ofHex(r[0]))] = ofHex(r[1])
			}
		}
		fetcher := func(u string) ([]byte, error) {
			if b, ok := fetch[u]; ok {
				return b, nil
			}
			return nil, errors.New("not found")
		}
		// Verify is an observer: the exchange it was given is the same afterwards (fields, header maps), and asking again gives the
		// same answer
		rqB, rsB := e.RequestHeaders.Clone(), e.ResponseHeaders.Clone()
		uriB, mB, stB, sigB, plB := e.RequestURI, e.RequestMethod, e.ResponseStatus, e.SignatureHeaderValue, append([]byte{}, e.Payload...)
		p, ok := e.Verify(time.Unix(sec, nsec), fetcher, log.New(ioutil.Discard, "", 0))
		if !reflect.DeepEqual(rqB, e.RequestHeaders) || !reflect.DeepEqual(rsB, e.ResponseHeaders) || uriB != e.RequestURI || mB != e.RequestMethod ||
			stB != e.ResponseStatus || sigB != e.SignatureHeaderValue || !bytes.Equal(plB, e.Payload) {
			return fmt.Sprintf("exchange-modified-by-verify(valid=%v)", ok)
		}
		p2, ok2 := e.Verify(time.Unix(sec, nsec), fetcher, log.New(ioutil.Discard, "", 0))
		if ok2 != ok || !bytes.Equal(p, p2) {
			return fmt.Sprintf("verify-not-repeatable(%v,%v)", ok, ok2)
		}
		if !ok {
			return "invalid"
		}
		return "valid " + toHex(p)
	}
	register("sxg.verify", func(args []string) string {
		e, rest := parseExchange(args)
		return verifyWith(e, rest)
	})
	// provenance: the *Exchange object comes from ReadExchange(file), is then edited in place into the exchange given by the
	// remaining arguments, and verified. Nothing remembered from the read may stand in for the edited fields.
	register("sxg.verify.reread", func(args []string) string {
		e, err := sxg.ReadExchange(bytes.NewReader(ofHex(args[0])))
		if err != nil {
			return "inputerr"
		}
		b, rest := parseExchange(args[1:])
		e.Version, e.RequestURI, e.RequestMethod, e.ResponseStatus = b.Version, b.RequestURI, b.RequestMethod, b.ResponseStatus
		e.SignatureHeaderValue, e.Payload = b.SignatureHeaderValue, b.Payload
		for k := range e.RequestHeaders {
			delete(e.RequestHeaders, k)
		}
		for k, v := range b.RequestHeaders {
			e.RequestHeaders[k] = v
		}
		for k := range e.ResponseHeaders {
			delete(e.ResponseHeaders, k)
		}
		for k, v := range b.ResponseHeaders {
			e.ResponseHeaders[k] = v
		}
		return verifyWith(e, rest)
	})
	// the property's own round trip, with no model in between (used for inputs outside the model's domain, e.g. header names with
	// non-ASCII letters): sign, verify, write, read back, compare every field, verify again. args: <exchange> <rs> <cert> <key> <certurl> <validityurl> <date> <expires> <chain> <verification time>
	register("sxg.rt.sign", func(args []string) string {
		e, rest := parseExchange(args)
		original := append([]byte{}, e.Payload...)
		rs, _ := strconv.Atoi(rest[0])
		if rs > 0 {
			if err := e.MiEncodePayload(rs); err != nil {
				return "refused mi"
			}
		}
		sg := mkSigner(rest[1:], false)
		if err := e.AddSignatureHeader(sg); err != nil {
			return "refused sign"
		}
		chain := ofHex(rest[7])
		at := parseTimeArg(rest[8])
		fetcher := func(u string) ([]byte, error) { return chain, nil }
		p1, ok1 := e.Verify(at, fetcher, log.New(ioutil.Discard, "", 0))
		if ok1 && rs > 0 && !bytes.Equal(p1, original) {
			return fmt.Sprintf("differs: verified-payload(%d bytes of %d)", len(p1), len(original))
		}
		var buf bytes.Buffer
		if err := e.Write(&buf); err != nil {
			return "refused write"
		}
		e2, err := sxg.ReadExchange(bytes.NewReader(buf.Bytes()))
		if err != nil {
			return "written-but-not-readable: " + strings.ReplaceAll(err.Error(), " ", "_")
		}
		diffs := []string{}
		if e2.Version != e.Version || e2.RequestURI != e.RequestURI || e2.RequestMethod != e.RequestMethod || e2.ResponseStatus != e.ResponseStatus {
			diffs = append(diffs, "prologue")
		}
		if e2.SignatureHeaderValue != e.SignatureHeaderValue {
			diffs = append(diffs, "signature")
		}
		if !bytes.Equal(e2.Payload, e.Payload) {
			diffs = append(diffs, "payload")
		}
		fold := func(h http.Header) map[string]string {
			m := map[string]string{}
			for k, v := range h {
				m[strings.ToLower(k)] = strings.Join(v, ",")
			}
			return m
		}
		if !reflect.DeepEqual(fold(e.RequestHeaders), fold(e2.RequestHeaders)) {
			diffs = append(diffs, "request-headers")
		}
		if !reflect.DeepEqual(fold(e.ResponseHeaders), fold(e2.ResponseHeaders)) {
			diffs = append(diffs, "response-headers")
		}
		p2, ok2 := e2.Verify(at, fetcher, log.New(ioutil.Discard, "", 0))
		if ok1 != ok2 || !bytes.Equal(p1, p2) {
			diffs = append(diffs, fmt.Sprintf("verdict(before=%v,after=%v)", ok1, ok2))
		}
		if len(diffs) > 0 {
			return "differs: " + strings.Join(diffs, ",")
		}
		return "same"
	})
	// the process's local time zone is an input too (time.Unix yields local times; calendar arithmetic depends on the zone)
	register("sxg.verify.tz", func(args []string) string {
		loc, err := time.LoadLocation(args[0])
		if err != nil {
			return "notz"
		}
		old := time.Local
		time.Local = loc
		defer func() { time.Local = old }()
		e, rest := parseExchange(args[1:])
		return verifyWith(e, rest)
	})
	register("sxg.cacheable", func(args []string) string {
		e, _ := parseExchange(args)
		return strconv.FormatBool(e.IsCacheable(log.New(ioutil.Discard, "", 0)))
	})
	register("gotime.sub", func(args []string) string {
		a, _ := strconv.ParseInt(args[0], 10, 64)
		b, _ := strconv.ParseInt(args[1], 10, 64)
		return strconv.FormatInt(int64(time.Unix(a, 0).Sub(time.Unix(b, 0))), 10)
	})
	register("gotime.cmp", func(args []string) string {
		s1, _ := strconv.ParseInt(args[0], 10, 64)
		n1, _ := strconv.ParseInt(args[1], 10, 64)
		s2, _ := strconv.ParseInt(args[2], 10, 64)
		n2, _ := strconv.ParseInt(args[3], 10, 64)
		a, b := time.Unix(s1, n1), time.Unix(s2, n2)
		return fmt.Sprintf("%v %v", a.Before(b), a.After(b))
	})
}

func init() {
	register("cert.write", func(args []string) string {
		chain := certurlChain(args[0])
		var buf bytes.Buffer
		if err := chain.Write(&buf); err != nil {
			return "err"
		}
		return "ok " + toHex(buf.Bytes())
	})
	register("cert.read", func(args []string) string {
		chain, err := certurl.ReadCertChain(bytes.NewReader(ofHex(args[0])))
		if err != nil {
			return "err"
		}
		out := []string{}
		for _, a := range chain {
			o, s := "nil", "nil"
			if a.OCSPResponse != nil {
				o = toHex(a.OCSPResponse)
			}
			if a.SCTList != nil {
				s = toHex(a.SCTList)
			}
			out = append(out, toHex(a.Cert.Raw)+":"+o+":"+s)
		}
		return "ok " + strings.Join(out, ",")
	})
	register("sct.ser", func(args []string) string {
		scts := [][]byte{}
		if args[0] != "." {
			for _, s := range strings.Split(args[0], ",") {
				scts = append(scts, ofHex(s))
			}
		}
		b, err := certurl.SerializeSCTList(scts)
		if err != nil {
			return "err"
		}
		return "ok " + toHex(b)
	})
}

func certurlChain(spec string) certurl.CertChain {
	chain := certurl.CertChain{}
	if spec == "." {
		return chain
	}
	for _, c := range strings.Split(spec, ",") {
		p := strings.Split(c, ":")
		if len(p) != 3 {
			panic("bad-op")
		}
		cert, err := x509.ParseCertificate(ofHex(p[0]))
		if err != nil {
			panic("bad-op")
		}
		a := &certurl.AugmentedCertificate{Cert: cert}
		if p[1] != "nil" {
			a.OCSPResponse = ofHex(p[1])
		}
		if p[2] != "nil" {
			a.SCTList = ofHex(p[2])
		}
		chain = append(chain, a)
	}
	return chain
}

// signer for the concurrency op: <certder> <certurl> <validityurl> <date> <expires>, mock algorithm (deterministic)
// "sec" or "sec:nsec"
func parseTimeArg(a string) time.Time {
	p := strings.SplitN(a, ":", 2)
	sec, err := strconv.ParseInt(p[0], 10, 64)
	if err != nil {
		panic("bad-op")
	}
	var nsec int64
	if len(p) == 2 {
		nsec, err = strconv.ParseInt(p[1], 10, 64)
		if err != nil {
			panic("bad-op")
		}
	}
	return time.Unix(sec, nsec)
}

func mkSignerForConc(rest []string) *sxg.Signer {
	cert, err := x509.ParseCertificate(ofHex(rest[0]))
	if err != nil {
		panic("bad-op")
	}
	d, _ := strconv.ParseInt(rest[3], 10, 64)
	x, _ := strconv.ParseInt(rest[4], 10, 64)
	return &sxg.Signer{Certs: []*x509.Certificate{cert}, CertUrl: mustURL(rest[1]), ValidityUrl: mustURL(rest[2]),
		Date: time.Unix(d, 0), Expires: time.Unix(x, 0), Algorithm: &signingalgorithm.MockSigningAlgorithm{}}
}

func hexOf(x string) string { return toHex([]byte(x)) }
