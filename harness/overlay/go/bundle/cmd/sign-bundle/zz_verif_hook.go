// Overlay-only file (never written into the repository): lets the C07 check drive SignWithIntegrityBlock -- which lives in package
// main and can therefore not be imported by the harness -- with signing strategies other than the one the command line builds.
// Active only when VERIF_IBCLI_HOOK is set; jobs come one per line on stdin: <in> <out> <seed hex> <pk hex>[,<pk hex>...]
// The strategy signs with the Ed25519 key of the seed and answers the i-th GetPublicKey call with the i-th listed key (the last one
// from then on): a key store whose answer is not the same on every call.
package main

import (
	"bufio"
	"crypto/ed25519"
	"encoding/hex"
	"fmt"
	"os"
	"strings"
)

type verifSeqStrategy struct {
	priv  ed25519.PrivateKey
	pks   []ed25519.PublicKey
	calls *int
}

func (s verifSeqStrategy) Sign(data []byte) ([]byte, error) { return ed25519.Sign(s.priv, data), nil }
func (s verifSeqStrategy) GetPublicKey() (ed25519.PublicKey, error) {
	i := *s.calls
	*s.calls++
	if i >= len(s.pks) {
		i = len(s.pks) - 1
	}
	return append(ed25519.PublicKey{}, s.pks[i]...), nil
}

func verifHookJob(line string) (res string) {
	defer func() {
		if r := recover(); r != nil {
			res = "panic"
		}
	}()
	f := strings.Fields(line)
	if len(f) != 4 {
		return "bad-op"
	}
	seed, err := hex.DecodeString(f[2])
	if err != nil || len(seed) != ed25519.SeedSize {
		return "bad-op"
	}
	st := verifSeqStrategy{priv: ed25519.NewKeyFromSeed(seed), calls: new(int)}
	for _, p := range strings.Split(f[3], ",") {
		b, err := hex.DecodeString(p)
		if err != nil || len(b) != ed25519.PublicKeySize {
			return "bad-op"
		}
		st.pks = append(st.pks, ed25519.PublicKey(b))
	}
	in, err := os.Open(f[0])
	if err != nil {
		return "bad-op"
	}
	defer in.Close()
	out, err := os.Create(f[1])
	if err != nil {
		return "bad-op"
	}
	defer out.Close()
	if err := SignWithIntegrityBlock(in, out, st); err != nil {
		return "err"
	}
	return "ok"
}

func init() {
	if os.Getenv("VERIF_IBCLI_HOOK") == "" {
		return
	}
	sc := bufio.NewScanner(os.Stdin)
	sc.Buffer(make([]byte, 1<<20), 1<<20)
	for sc.Scan() {
		fmt.Println("VERIFHOOK " + verifHookJob(sc.Text()))
	}
	os.Exit(0)
}
