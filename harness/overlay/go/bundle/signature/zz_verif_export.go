package signature

import "github.com/WICG/webpackage/go/bundle/version"

// Overlay-only export used by the /verif correspondence harness (never committed to the repository).
func VerifGenerateSignedMessage(signed []byte, ver version.Version) []byte {
	return generateSignedMessage(signed, ver)
}
