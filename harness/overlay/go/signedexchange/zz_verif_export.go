package signedexchange

// Overlay-only export used by the /verif correspondence harness (never committed to the repository).
func VerifSerializeSignedMessage(e *Exchange, certSha256 []byte, validityUrl string, date, expires int64) ([]byte, error) {
	return serializeSignedMessage(e, certSha256, validityUrl, date, expires)
}
