import WebPkg.Model.Basic
import WebPkg.Model.Utf8
import WebPkg.Model.Cbor
