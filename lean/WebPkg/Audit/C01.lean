import WebPkg.Properties.C01
open WebPkg.C01
#print axioms verify_checked
#print axioms verified_payload_committed
#print axioms verified_policy
#print axioms signedMessage_injective
#print axioms headers_determined_b3
#print axioms verify_sound_euf
