import WebPkg.Properties.C01
open WebPkg.C01
#print axioms verify_checked
#print axioms verified_payload_committed
#print axioms verified_policy
