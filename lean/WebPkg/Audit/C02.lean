import WebPkg.Properties.C02
open WebPkg.C02
#print axioms read_write
#print axioms write_fails_iff
#print axioms encodeBytesUint_ok_iff
#print axioms decode3_encode3
#print axioms verify_invariant
#print axioms honest_verifies
