import WebPkg.Properties.C03
open WebPkg.C03
#print axioms index_is_row_major
#print axioms possibleKeyAt_index
#print axioms index_possibleKeyAt
#print axioms numberOfPossibleKeys_is_product
#print axioms index_injective
#print axioms offsets_accounting
#print axioms read_write
#print axioms read_write_b2
#print axioms read_normal
#print axioms read_write_normal
#print axioms write_read_fixpoint
#print axioms read_write_b1_variants
#print axioms write_refuses_overlapping_variants
#print axioms write_refuses_incomplete_variants
