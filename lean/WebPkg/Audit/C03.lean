import WebPkg.Properties.C03
open WebPkg.C03
#print axioms index_is_row_major
#print axioms possibleKeyAt_index
#print axioms index_possibleKeyAt
#print axioms numberOfPossibleKeys_is_product
#print axioms index_injective
#print axioms offsets_accounting
#print axioms read_write
#print axioms read_write_b2
