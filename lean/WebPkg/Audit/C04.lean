import WebPkg.Properties.C04
open WebPkg.C04
#print axioms write_wellFormed
#print axioms write_count
#print axioms response_wellFormed
#print axioms variants_index_complete
#print axioms countingWriter_written_eq_received
#print axioms countingWriter_readFrom_complete
