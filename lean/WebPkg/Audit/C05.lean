import WebPkg.Properties.C05
open WebPkg.C05
#print axioms read_no_panic
#print axioms read_in_bounds
#print axioms response_depends_on_range
#print axioms response_shape
#print axioms index_entries_in_responses
#print axioms unknown_section_skipped
#print axioms sections_fit_sum
