import WebPkg.Properties.C06
open WebPkg.C06
#print axioms authority_invariant
#print axioms authority_points_to_own_leaf
#print axioms honest_verifies
#print axioms verify_sound
#print axioms subset_checked_before_trusted
#print axioms signedMessage_injective
#print axioms honest_verifies_all
#print axioms signerMsg_is_signed_message
#print axioms honest_verifies_after_roundtrip
