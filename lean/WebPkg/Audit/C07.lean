import WebPkg.Properties.C07
open WebPkg.C07
#print axioms output_layout
#print axioms block_is_deterministic_cbor
#print axioms stack_newest_first_and_verifies
#print axioms earlier_signatures_untouched
#print axioms signAndAdd_iff
#print axioms mismatching_key_refused
#print axioms obtain_iff
#print axioms dataToBeSigned_injective
#print axioms webBundleId_shape
#print axioms webBundleId_determines_key
