import WebPkg.Properties.C08
open WebPkg.C08
#print axioms headers_eq_spec
#print axioms headers_fail_iff
#print axioms signedMessage_b23_eq_spec
#print axioms signedMessage_b23_exists_iff
#print axioms signedMessage_b1_eq_spec
#print axioms file_eq_spec
#print axioms signature_header_eq_spec
#print axioms header_integrity
