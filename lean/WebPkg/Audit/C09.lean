import WebPkg.Properties.C09
open WebPkg.C09
#print axioms verify_iff_acceptable
#print axioms verifyOne_iff_acceptable
#print axioms isUncached_iff
#print axioms isStateful_iff
#print axioms headersOk_iff
#print axioms lowerAscii_idem
#print axioms isUncached_case_insensitive
#print axioms timestamps_iff
#print axioms sameOrigin_reflexive
#print axioms sameOrigin_symmetric
