import WebPkg.Properties.C10
open WebPkg.C10
#print axioms declared_counts_do_not_matter
#print axioms cbor_linear
#print axioms certChain_linear
#print axioms sxgRead_linear
#print axioms signedSubset_linear
#print axioms mice_linear
#print axioms sh_linear
#print axioms ib_const
#print axioms verify_linear
#print axioms bundle_entries
#print axioms bundle_general
#print axioms bundle_quadratic
#print axioms bundle_linear_partial
#print axioms bundle_not_linear
#print axioms bundle_read_no_panic
#print axioms skeleton_cbor_exact
#print axioms skeleton_accepts_certChain
#print axioms skeleton_accepts_signedSubset
#print axioms skeleton_accepts_sxg
#print axioms skeleton_accepts_mice
#print axioms skeleton_accepts_bundle
