import WebPkg.Properties.C11
open WebPkg.C11
#print axioms encodeHead_decode
#print axioms encodeHead_shortest_unique
#print axioms encodeInt_value
#print axioms encodeBytes_item
#print axioms encodeText_iff
#print axioms encodeMap_layout
#print axioms encodeMap_dup_iff
#print axioms encodeMap_perm
#print axioms encodeMap_sort_independent
#print axioms encodeBool_value
