import WebPkg.Properties.C11
open WebPkg.C11
#print axioms encodeHead_decode
#print axioms encodeHead_shortest_unique
#print axioms encodeInt_value
#print axioms encodeBytes_item
#print axioms encodeText_iff
#print axioms encodeMap_layout
#print axioms encodeMap_dup_iff
#print axioms encodeMap_perm
#print axioms encodeMap_sort_independent
#print axioms encodeBool_value
open WebPkg.CborSeq
#print axioms run_tokens
#print axioms run_shortest
#print axioms run_refuses_iff
#print axioms run_refused_no_trace
#print axioms run_map_perm
#print axioms run_text_valid
#print axioms tokens_encodeTokens
#print axioms map_accepted_of_distinct
