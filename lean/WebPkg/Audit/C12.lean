import WebPkg.Properties.C12
open WebPkg.C12
#print axioms decodeOfType_sound
#print axioms decodeBytes_sound
#print axioms decodeText_sound
#print axioms decodeOfType_complete
#print axioms decodeBytes_complete
#print axioms decodeText_complete
#print axioms reserved_rejected
#print axioms wrong_type_rejected
#print axioms truncated_rejected
#print axioms invalid_utf8_rejected
#print axioms roundtrip_uint
#print axioms roundtrip_arrayHeader
#print axioms roundtrip_mapHeader
#print axioms roundtrip_bytes
#print axioms roundtrip_text
