import WebPkg.Properties.C13
open WebPkg.C13
#print axioms deterministic_iff
#print axioms detItem_prefix_free
#print axioms truncated_rejected
#print axioms encoder_uint_accepted
#print axioms encoder_bytes_accepted
#print axioms encoder_text_accepted
#print axioms encoder_array_accepted
#print axioms encoder_map_accepted
#print axioms always_advances
