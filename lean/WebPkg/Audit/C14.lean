import WebPkg.Properties.C14
open WebPkg.C14
#print axioms encode_eq_spec
#print axioms decode_encode
#print axioms read_encode
#print axioms digest_header_roundtrip
#print axioms base64_roundtrip
#print axioms records_partition
