import WebPkg.Properties.C15
open WebPkg.C15
#print axioms decodeAll_sound
#print axioms read_sound
#print axioms digest_unique
#print axioms recordsize_refused
#print axioms record_buffer_bounded
#print axioms read_step
