import WebPkg.Properties.C15
open WebPkg.C15
#print axioms decodeAll_sound
#print axioms read_sound
#print axioms digest_unique
#print axioms recordsize_refused
#print axioms record_buffer_bounded
#print axioms read_step
#print axioms read_every_sound
#print axioms eof_complete_across_errors
#print axioms stays_finished_after_eof
