import WebPkg.Properties.C16
open WebPkg.C16
#print axioms parse_serialize_ll
#print axioms parse_serialize_pl
#print axioms parse_serialize_item
#print axioms serializePL_fails_iff
#print axioms serializeLL_fails_iff
#print axioms serializeItem_fails_iff
#print axioms params_order_irrelevant
#print axioms parse_pl_valid
#print axioms parse_ll_valid
#print axioms parse_serialize_parse_pl
#print axioms parse_serialize_parse_ll
#print axioms int_roundtrip
#print axioms parser_grammar_pl
#print axioms parser_grammar_ll
#print axioms parser_grammar_item
