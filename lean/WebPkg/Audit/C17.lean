import WebPkg.Properties.C17
open WebPkg.C17
#print axioms read_write
#print axioms write_iff_validate
#print axioms read_validates
#print axioms write_canonical
#print axioms element_closed_form
#print axioms sct_roundtrip
#print axioms sct_fails_iff
#print axioms sct_strict_iff
