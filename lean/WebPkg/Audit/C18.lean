import WebPkg.Properties.C18
open WebPkg.C18
#print axioms encodeMap_order
#print axioms signature_header_order
#print axioms sxg_headers_order
#print axioms sxg_write_order
#print axioms sxg_signedMessage_order
#print axioms bundle_response_order
#print axioms ib_attrs_order
#print axioms ib_dataToBeSigned_order
#print axioms bsig_subset_order
