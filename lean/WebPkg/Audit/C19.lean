import WebPkg.Properties.C19
open WebPkg.C19
#print axioms fault_spec
#print axioms never_partial_success
#print axioms count_le
#print axioms chunking_irrelevant
#print axioms unchecked_write_breaks_it
#print axioms countingWriter_written_eq_received
#print axioms countingWriter_readFrom_complete
