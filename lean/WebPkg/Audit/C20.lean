import WebPkg.Properties.C20
open WebPkg.C20
#print axioms url_has_no_fragment_or_query
#print axioms url_injective
#print axioms url_decodes_to_path
#print axioms url_keeps_directories
#print axioms gen_bundle_output_wellFormed
#print axioms gen_certurl_accepted
#print axioms integrity_block_keeps_bundle
#print axioms dir_walk_characterisation
#print axioms dir_walk_each_file_exactly_once
#print axioms dir_walk_index_html
#print axioms dir_walk_urls_distinct
#print axioms dir_walk_length
open WebPkg.C20Compose
#print axioms gen_bundle_read_back
#print axioms gen_bundle_dir_accepted
#print axioms gen_signedexchange_verifies
#print axioms gen_signedexchange_verifies_window
#print axioms gen_certurl_signedexchange_verifies
#print axioms sign_bundle_output_verifies
#print axioms dir_bundle_signed_verifies
#print axioms dir_bundle_integrity_block
open WebPkg.C20Har
#print axioms har_error_iff
#print axioms har_sublist
#print axioms har_status
#print axioms har_headers_clean
#print axioms har_duplicates_have_variants
#print axioms har_urls_distinct
#print axioms har_first_kept
#print axioms har_validated_primary
#print axioms har_bundle_read_back
#print axioms har_override_replaces
#print axioms har_override_no_colon
