import WebPkg.Driver.OpsCbor
import WebPkg.Driver.OpsMice
import WebPkg.Driver.OpsSH
import WebPkg.Driver.OpsSxg
import WebPkg.Driver.OpsBundle
import WebPkg.Driver.OpsIB
import WebPkg.Driver.OpsBSig
import WebPkg.Driver.OpsFault
import WebPkg.Driver.OpsRes
open WebPkg.Driver

def handlers : List (String → List String → Option String) := [handleCbor, handleMice, handleSH, handleSxg, handleBundle, handleIB, handleBSig, handleFault, handleRes]

def dispatch (op : String) (args : List String) : String :=
  match handlers.findSome? (fun h => h op args) with
  | some r => r
  | none => "bad-op"

partial def loop (h : IO.FS.Stream) (out : IO.FS.Stream) : IO Unit := do
  let line ← h.getLine
  if line.isEmpty then return ()
  let toks := (line.trimAscii.toString.splitOn " ").filter (· ≠ "")
  match toks with
  | id :: op :: args =>
    out.putStrLn s!"{id} {dispatch op args}"
  | _ => pure ()
  loop h out

def main : IO Unit := do
  let out ← IO.getStdout
  loop (← IO.getStdin) out
  out.flush
