import WebPkg.Driver.OpsCbor
import WebPkg.Driver.OpsMice
import WebPkg.Driver.OpsSH
import WebPkg.Driver.OpsSxg
import WebPkg.Driver.OpsBundle
import WebPkg.Driver.OpsIB
import WebPkg.Driver.OpsBSig
import WebPkg.Driver.OpsFault
import WebPkg.Driver.OpsRes
import WebPkg.Driver.OpsDirWalk
import WebPkg.Driver.OpsHar
open WebPkg.Driver

def handlers : List (String → List String → Option String) := [handleCbor, handleMice, handleSH, handleSxg, handleBundle, handleIB, handleBSig, handleFault, handleRes, handleDirWalk, handleHar, handleCborGrow]

/-- ops that differ from a plain op only in HOW the real code is driven (reader / writer kind, object reuse, a preceding
    call in the same process): the model is a pure function of the data, so they are the plain op on the relevant arguments -/
def alias (op : String) (args : List String) : String × List String :=
  match op, args with
  | "cbor.enc.plain", _ => ("cbor.enc", args)
  | "cert.read.buffer", _ => ("cert.read", args)
  | "cert.write.new", _ => ("cert.write", args)
  | "cert.write.inplace", [_, b] => ("cert.write", [b])      -- the objects' earlier contents (already written once) leave no trace
  | "bundle.read.buffer", _ => ("bundle.read", args)
  | "bundle.read.at", _ :: _ :: rest => ("bundle.read", rest)   -- what the caller's source held BEFORE the position it is handed over at is not input
  | "fault.destio", _ :: rest => ("fault", rest)    -- which optional interfaces the failing destination offers does not matter
  | "sxg.read.buffer", _ => ("sxg.read", args)
  | "mice.dec.copy", _ => ("mice.dec", args)
  | "cbor.det.cap", _ => ("cbor.det", args)      -- what lies behind the slice's length (spare capacity) is not input
  | "sh.parse.twice", _ => ("sh.parse.pl", args)      -- an earlier parse of the same string (result scribbled over) changes nothing
  | "ib.sha512.handle", [f, _] => ("sha512", [f])     -- where the handle's read position was does not matter
  | "ib.signadd.anykey", _ => ("ib.signadd", args)     -- public keys of any length (the harness counts ed25519's panic on a non-32-byte key as a refusal)
  | "fault.retry", _ => ("fault", args)      -- plus: the same object serialised again afterwards gives the fault-free bytes
  | "fault.dest", _ :: rest => ("fault", rest)      -- which optional methods (Flush, Sync, Close, WriteString, ReadFrom) the destination has besides Write is not input
  | "cw.seq", [k, room, seq] => ("cw.seq", [k, room, seq.replace "R" "r"])   -- R: the source reports io.EOF together with its last bytes
  | "mice.twice", [d, mx, dg, _, b] => ("mice.all", [d, mx, dg, b])
  | "mice.dec.src", _ :: rest => ("mice.dec", rest)      -- kind of the source reader and what was consumed from it before: only the unread bytes are input
  | "sxg.reread", what :: _ :: rest => ("sxg." ++ what, rest)
  | "sxg.verify.reread", _ :: rest => ("sxg.verify", rest)
  | "sxg.verify.tz", _ :: rest => ("sxg.verify", rest)      -- the verdict does not depend on the process's local time zone
  | "sxg.sign.mock.rotate", _ => ("sxg.sign.mock", args.take 8 ++ args.drop 9)   -- the signer's earlier use with certificate A leaves no trace
  | "sxg.sign.mock.chain", _ => ("sxg.sign.mock", args.take 8 ++ [((args.getD 8 "").splitOn ",").headD ""] ++ args.drop 9)   -- cert-sha256 is that of the FIRST certificate of the signer's list, whatever kind it is and whatever follows
  | _, _ => (op, args)

def dispatch (op : String) (args : List String) : String :=
  let (op, args) := alias op args
  match handlers.findSome? (fun h => h op args) with
  | some r => r
  | none => "bad-op"

partial def loop (h : IO.FS.Stream) (out : IO.FS.Stream) : IO Unit := do
  let line ← h.getLine
  if line.isEmpty then return ()
  let toks := (line.trimAscii.toString.splitOn " ").filter (· ≠ "")
  match toks with
  | id :: op :: args =>
    out.putStrLn s!"{id} {dispatch op args}"
  | _ => pure ()
  loop h out

def main : IO Unit := do
  let out ← IO.getStdout
  loop (← IO.getStdin) out
  out.flush
