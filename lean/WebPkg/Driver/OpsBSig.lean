import WebPkg.Driver.OpsIB
import WebPkg.Model.BSig
namespace WebPkg.Driver
open WebPkg.BSig WebPkg.Bundle

def readRH (s : String) : Option (Bytes × ResponseHashes) :=
  match s.splitOn "^" with
  | u :: vv :: hs => do
    let hashes ← hs.mapM fun h =>
      match h.splitOn "~" with
      | [a, b] => do pure ({ headerSha256 := (← ofHex a), payloadIntegrityHeader := (← ofHex b) } : ResourceIntegrity)
      | _ => none
    pure ((← ofHex u), { variantsValue := (← ofHex vv), hashes := hashes })
  | _ => none

def parseSubset (s : String) : Option SignedSubset :=
  match s.splitOn "|" with
  | [vu, au, d, x, hs] => do
    let hashes ← if hs == "." then some [] else (hs.splitOn ",").mapM readRH
    pure { validityUrl := (← ofHex vu), authSha256 := (← ofHex au), date := (← parseInt d), expires := (← parseInt x), subsetHashes := hashes }
  | _ => none

def cansignTable (s : String) : Bytes → Bool :=
  let t := parseTable s
  fun u => match t.find? (fun r => r.head? == some (toHex u)) with
    | some [_, v] => v == "1"
    | _ => false

def bsigNeeds (b : Bundle) : List String :=
  match b.signatures with
  | none => []
  | some sigs =>
    sigs.authorities.map (fun a => s!"cert:{toHex a.cert}") ++
    sigs.subsets.flatMap fun vs =>
      if vs.authority < sigs.authorities.length then
        let c := (sigs.authorities.getD vs.authority default).cert
        [s!"sig:{toHex c}:{toHex (signedMessage vs.signed b.version)}:{toHex vs.sig}"] ++
        (match decodeSignedSubset (fun _ => true) vs.signed with
         | some ss => [s!"url:{toHex ss.validityUrl}"]
         | none => [])
      else []

def handleBSig (op : String) (args : List String) : Option String :=
  match op with
  | "bsig.subset" => match args with
    | [s] => do
      match encodeSignedSubset (← parseSubset s) with
      | .ok b => pure s!"ok {toHex b}"
      | .error _ => pure "err"
    | _ => none
  | "bsig.msg" => match args with
    | [h, v] => do pure s!"ok {toHex (signedMessage (← ofHex h) (← parseBVer v))}"
    | _ => none
  | "bsig.signstep" => do
    let (b, rest) ← parseBundle args
    match rest with
    | [rs, chain, vu, d, x, cs, sg] =>
      let certs ← if chain == "." then some [] else (chain.splitOn ",").mapM readAugCert
      match addSignature sha (cansignTable cs) (← rs.toNat?) b certs (← ofHex vu) (← parseInt d) (← parseInt x) (← ofHex sg) with
      | some (b', _) => pure s!"ok {showBundle b'}"
      | none => pure "err"
    | _ => none
  | "bsig.signmsg" => do
    let (b, rest) ← parseBundle args
    match rest with
    | [rs, chain, vu, d, x, cs] =>
      let certs ← if chain == "." then some [] else (chain.splitOn ",").mapM readAugCert
      match addSignature sha (cansignTable cs) (← rs.toNat?) b certs (← ofHex vu) (← parseInt d) (← parseInt x) [] with
      | some (_, msg) => pure s!"ok {toHex msg}"
      | none => pure "err"
    | _ => none
  | "bsig.verify.needs" => do
    let (b, _) ← parseBundle args
    let qs := bsigNeeds b
    pure (if qs.isEmpty then "-" else " ".intercalate qs)
  | "bsig.verify" => do
    let (b, rest) ← parseBundle args
    match rest with
    | [sec, nsec, urls, certs, sigs] =>
      let t : Tables := { urls := parseTable urls, fetch := [], certs := parseTable certs, sigs := parseTable sigs, status := [] }
      let env := mkEnv t
      let venv : VEnv := { H := sha, urlOk := fun u => (env.url u).isSome, keyOk := env.keyOk, sigVerify := env.sigVerify }
      let tm := GoTime.ofUnix (← parseInt sec) (← parseInt nsec)
      match b.signatures with
      | none => pure "nosigs"
      | some s =>
        match newVerifier venv s tm b.version with
        | none => pure "nverr"
        | some vss =>
          let rs := b.exchanges.map fun e =>
            match verifyExchange venv b.version vss e with
            | .unsigned => "u"
            | .error => "e"
            | .verified p a => s!"v:{toHex p}:{toHex (sha a)}"
          pure ("ok " ++ (if rs.isEmpty then "." else ";".intercalate rs))
    | _ => none
  | _ => none

end WebPkg.Driver
