import WebPkg.Driver.OpsSxg
import WebPkg.Model.Bundle
namespace WebPkg.Driver
open WebPkg.Bundle

def parseBVer (s : String) : Option BVer := if s == "b1" then some .b1 else if s == "b2" then some .b2 else none
def showBVer : BVer → String | .b1 => "b1" | .b2 => "b2"

def optHex (s : String) : Option (Option Bytes) := if s == "nil" then some none else (ofHex s).map some
def showOpt : Option Bytes → String | none => "nil" | some b => toHex b

def parseExch (s : String) : Option Exch :=
  match s.splitOn "~" with
  | [u, st, h, b] => do
    let url ← ofHex u
    let status ← parseInt st
    let hs ← parseHeaders h
    let body ← ofHex b
    pure { url := url, resp := { status := status, headers := hs, body := body } }
  | _ => none

def showExch (e : Exch) : String := s!"{toHex e.url}~{e.resp.status}~{showHeaders e.resp.headers}~{toHex e.resp.body}"

def showAug (a : CertChain.AugCert) : String :=
  toHex a.cert ++ ":" ++ (match a.ocsp with | some o => toHex o | none => "nil") ++ ":" ++
    (match a.sct with | some o => toHex o | none => "nil")

def readVouched (x : String) : Option VouchedSubset :=
  match x.splitOn ":" with
  | [i, sg, sd] => do
    let idx ← i.toNat?
    let sig ← ofHex sg
    let signed ← ofHex sd
    pure { authority := idx, sig := sig, signed := signed }
  | _ => none

def parseSigs (s : String) : Option (Option Sigs) :=
  if s == "nil" then some none else
  match s.splitOn "/" with
  | [a, v] => do
    let auths ← if a == "." then some [] else (a.splitOn "+").mapM readAugCert
    let subs ← if v == "." then some [] else (v.splitOn "+").mapM readVouched
    pure (some { authorities := auths, subsets := subs })
  | _ => none

def showSigs : Option Sigs → String
  | none => "nil"
  | some s =>
    (if s.authorities.isEmpty then "." else "+".intercalate (s.authorities.map showAug)) ++ "/" ++
    (if s.subsets.isEmpty then "." else "+".intercalate (s.subsets.map fun v => s!"{v.authority}:{toHex v.sig}:{toHex v.signed}"))

def parseBundle (a : List String) : Option (Bundle × List String) :=
  match a with
  | v :: p :: m :: sg :: ex :: rest => do
    let ver ← parseBVer v
    let prim ← optHex p
    let man ← optHex m
    let sigs ← parseSigs sg
    let exs ← if ex == "." then some [] else (ex.splitOn ",").mapM parseExch
    pure ({ version := ver, primaryURL := prim, exchanges := exs, manifestURL := man, signatures := sigs }, rest)
  | _ => none

def showBundle (b : Bundle) : String :=
  s!"{showBVer b.version} {showOpt b.primaryURL} {showOpt b.manifestURL} {showSigs b.signatures} " ++
    (if b.exchanges.isEmpty then "." else ",".intercalate (b.exchanges.map showExch))

/-- url facts table for the bundle reader: `raw:1:<hasFrag>:<hasUser>:<isAbs>:<string>` / `raw:0` -/
def mkBUrl (t : List (List String)) : BUrlFacts := fun u =>
  match t.find? (fun r => r.head? == some (toHex u)) with
  | some [_, "1", f, us, ab, st] => (ofHex st).map fun s => (f == "1", us == "1", ab == "1", s)
  | _ => none

def permissiveB : BUrlFacts := fun u => some (false, false, true, u)

def handleBundle (op : String) (args : List String) : Option String :=
  match op with
  | "bundle.write" => do
    let (b, _) ← parseBundle args
    match write b with
    | .ok (.ok bs) => pure s!"ok {toHex bs}"
    | .ok (.error _) => pure "err"
    | .error => pure "err"
    | .panic => pure "panic"
  | "bundle.write.cw" => do            -- destination already wrapped in a CountingWriter with a counted prefix: same bytes, same count
    let (b, _) ← parseBundle args
    match write b with
    | .ok (.ok bs) => pure s!"ok {toHex bs}"
    | .ok (.error _) => pure "err"
    | .error => pure "err"
    | .panic => pure "panic"
  | "bundle.write.plain" => do
    let (b, _) ← parseBundle args
    match write b with
    | .ok (.ok bs) => pure s!"ok {toHex bs}"
    | .ok (.error _) => pure "err"
    | .error => pure "err"
    | .panic => pure "panic"
  | "bundle.read.needs" => match args with
    | [h] => do
      let bs ← ofHex h
      match read permissiveB (fun _ => true) bs with
      | .ok b =>
        let urls := (b.primaryURL.toList ++ b.manifestURL.toList ++ b.exchanges.map (·.url)).eraseDups
        let certs : List Bytes := match b.signatures with | some s => s.authorities.map (fun a => a.cert) | none => []
        let qs := urls.map (fun u => s!"burl:{toHex u}") ++ certs.map (fun c => s!"cert:{toHex c}")
        pure (if qs.isEmpty then "-" else " ".intercalate qs)
      | _ => pure "-"
    | _ => none
  | "bundle.read" => match args with
    | [h, urls, certs] => do
      let bs ← ofHex h
      let t : Tables := { urls := [], fetch := [], certs := parseTable certs, sigs := [], status := [] }
      match read (mkBUrl (parseTable urls)) (mkEnv t).parseOk bs with
      | .ok b => pure s!"ok {showBundle b}"
      | .error => pure "err"
      | .panic => pure "panic"
    | _ => none
  | _ => none

end WebPkg.Driver
