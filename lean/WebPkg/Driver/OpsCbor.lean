import WebPkg.Driver.Util
import WebPkg.Model.CborSeq
import WebPkg.Model.Cbor
import WebPkg.Model.Deterministic
import WebPkg.Model.BigEndian
namespace WebPkg.Driver
open WebPkg.Cbor

/-- Run an encoder-call script (prefix notation, see harness/README). Returns the bytes written
    and the remaining tokens; the first error is sticky (class only is compared). -/
partial def runCalls (n : Nat) (toks : List String) (acc : Bytes) (err : Option EncErr) :
    Option (Bytes × Option EncErr × List String) :=
  if n = 0 then some (acc, err, toks) else
  match toks with
  | [] => none
  | t :: rest =>
    let tag := t.take 1 |>.toString
    let arg := t.drop 1 |>.toString
    let orErr (e : Option EncErr) (e' : EncErr) : Option EncErr := match e with | some x => some x | none => some e'
    if tag == "u" then do
      let v ← arg.toNat?
      runCalls (n - 1) rest (acc ++ encodeUint v) err
    else if tag == "i" then do
      let v ← parseInt arg
      runCalls (n - 1) rest (acc ++ encodeInt v) err
    else if tag == "b" then do
      let v ← ofHex arg
      runCalls (n - 1) rest (acc ++ encodeBytes v) err
    else if tag == "t" then do
      let v ← ofHex arg
      match encodeText v with
      | .ok bs => runCalls (n - 1) rest (acc ++ bs) err
      | .error e => runCalls (n - 1) rest acc (orErr err e)
    else if tag == "a" then do
      let v ← arg.toNat?
      runCalls (n - 1) rest (acc ++ encodeArrayHeader v) err
    else if tag == "o" then
      runCalls (n - 1) rest (acc ++ encodeBool (arg == "1")) err
    else if tag == "m" then do
      let cnt ← arg.toNat?
      let (entries, err', rest') ← runEntries cnt rest [] err
      match encodeMap entries with
      | .ok bs => runCalls (n - 1) rest' (acc ++ bs) err'
      | .error e => runCalls (n - 1) rest' acc (orErr err' e)
    else none
where
  runEntries (cnt : Nat) (toks : List String) (acc : List Entry) (err : Option EncErr) :
      Option (List Entry × Option EncErr × List String) :=
    if cnt = 0 then some (acc.reverse, err, toks) else
    match toks with
    | k :: rest =>
      if (k.take 1).toString != "k" then none else do
      let kn ← (k.drop 1).toString.toNat?
      let (kb, e1, rest1) ← runCalls kn rest [] err
      match rest1 with
      | v :: rest2 =>
        if (v.take 1).toString != "v" then none else do
        let vn ← (v.drop 1).toString.toNat?
        let (vb, e2, rest3) ← runCalls vn rest2 [] e1
        runEntries (cnt - 1) rest3 ((kb, vb) :: acc) e2
      | [] => none
    | [] => none

def errName : EncErr → String
  | .invalidUtf8 => "utf8"
  | .duplicatedKey => "dup"

def showDec (r : Option (Nat × Bytes)) (total : Nat) : String :=
  match r with
  | some (n, rest) => s!"ok {n} {total - rest.length}"
  | none => "err"

def showDecB (r : Option (Bytes × Bytes)) (total : Nat) : String :=
  match r with
  | some (v, rest) => s!"ok {toHex v} {total - rest.length}"
  | none => "err"

/-- the call script of the line protocol as `CborSeq.Call`s (the type the sequence theorems of C11 are about): `n` calls from the
    front of the token list; `fuel` bounds the nesting -/
def parseCalls : Nat → Nat → List String → Option (List CborSeq.Call × List String)
  | _, 0, toks => some ([], toks)
  | 0, _, _ => none
  | fuel + 1, n + 1, t :: rest => do
    let tag := (t.take 1).toString
    let arg := (t.drop 1).toString
    let one (c : CborSeq.Call) (rest' : List String) : Option (List CborSeq.Call × List String) := do
      let (cs, r) ← parseCalls fuel n rest'
      pure (c :: cs, r)
    if tag == "u" then one (.uint (← arg.toNat?)) rest
    else if tag == "i" then one (.int (← parseInt arg)) rest
    else if tag == "b" then one (.bytes (← ofHex arg)) rest
    else if tag == "t" then one (.text (← ofHex arg)) rest
    else if tag == "a" then one (.arrayHeader (← arg.toNat?)) rest
    else if tag == "o" then one (.bool (arg == "1")) rest
    else if tag == "m" then do
      let cnt ← arg.toNat?
      let rec entries : Nat → List String → Option (List (List CborSeq.Call × List CborSeq.Call) × List String)
        | 0, ts => some ([], ts)
        | k + 1, kt :: ts => do
          if (kt.take 1).toString != "k" then none else
          let (kc, ts1) ← parseCalls fuel (← (kt.drop 1).toString.toNat?) ts
          match ts1 with
          | vt :: ts2 =>
            if (vt.take 1).toString != "v" then none else do
            let (vc, ts3) ← parseCalls fuel (← (vt.drop 1).toString.toNat?) ts2
            let (more, ts4) ← entries k ts3
            pure ((kc, vc) :: more, ts4)
          | [] => none
        | _ + 1, [] => none
      let (es, rest') ← entries cnt rest
      one (.map es) rest'
    else none
  | _, _ + 1, [] => none

def handleCbor (op : String) (args : List String) : Option String :=
  match op, args with
  | "cbor.enc", cnt :: toks => do
    let n ← cnt.toNat?
    let (bs, err, rest) ← runCalls n toks [] none
    if !rest.isEmpty then none else
    match err with
    | some e => some s!"err {errName e}"
    | none => some s!"ok {toHex bs}"
  | "cbor.enc.cont", cnt :: toks => do
    -- all calls on one encoder, refused calls included: a refused call contributes nothing to the stream
    let n ← cnt.toNat?
    let (_, err, rest) ← runCalls n toks [] none
    if !rest.isEmpty then none else
    -- the stream is computed by `CborSeq.run`, the function of the sequence theorems (C11.run_tokens, run_shortest, run_refused_no_trace)
    let (calls, rest2) ← parseCalls (toks.length + 1) n toks
    if !rest2.isEmpty then none else
    some s!"ok {toHex (CborSeq.run calls)} {match err with | some e => "first-err-" ++ errName e | none => "noerr"}"
  | "cbor.encdet", cnt :: toks => do
    let n ← cnt.toNat?
    let (bs, err, rest) ← runCalls n toks [] none
    if !rest.isEmpty then none else
    match err with
    | some e => some s!"err {errName e}"
    | none =>
      match Det.deterministic bs with
      | .ok _ => some s!"accept {toHex bs}"
      | _ => some s!"reject {toHex bs}"
  | "cbor.dec.uint", [h] => do let bs ← ofHex h; pure (showDec (decodeUint bs) bs.length)
  | "cbor.dec.arr", [h] => do let bs ← ofHex h; pure (showDec (decodeArrayHeader bs) bs.length)
  | "cbor.dec.map", [h] => do let bs ← ofHex h; pure (showDec (decodeMapHeader bs) bs.length)
  | "cbor.dec.bytes", [h] => do let bs ← ofHex h; pure (showDecB (decodeByteString bs) bs.length)
  | "cbor.dec.text", [h] => do let bs ← ofHex h; pure (showDecB (decodeTextString bs) bs.length)
  | "cbor.dec.seq", [_, script, h] => do
    let bs ← ofHex h
    let step (c : Char) (b : Bytes) : Option (Option (String × Bytes)) :=
      match c with
      | 'u' => some ((decodeUint b).map fun (n, r) => (toString n, r))
      | 'a' => some ((decodeArrayHeader b).map fun (n, r) => (toString n, r))
      | 'm' => some ((decodeMapHeader b).map fun (n, r) => (toString n, r))
      | 'b' => some ((decodeByteString b).map fun (v, r) => (toHex v, r))
      | 't' => some ((decodeTextString b).map fun (v, r) => (toHex v, r))
      | _ => none
    let rec go (cs : List Char) (i : Nat) (b : Bytes) (acc : List String) : Option String :=
      match cs with
      | [] => some s!"ok {bs.length - b.length} {",".intercalate acc}"
      | c :: rest =>
        match step c b with
        | none => none
        | some none => some s!"err {i} {",".intercalate acc}"
        | some (some (v, r)) => go rest (i + 1) r (acc ++ [v])
    go script.toList 0 bs []
  | "cbor.det", [h] => do
    let bs ← ofHex h
    match Det.deterministic bs with
    | .ok _ => pure "ok"
    | _ => pure "reject"
  | "be.enc", [n, size] => do
    let v ← parseInt n
    let s ← size.toNat?
    match BigEndian.encodeBytesUint v s with
    | some bs => pure s!"ok {toHex bs}"
    | none => pure "err"
  | "be.dec3", [h] => do
    let bs ← ofHex h
    match bs with
    | [a, b, c] => pure s!"ok {BigEndian.decode3BytesUint a b c}"
    | _ => none
  | _, _ => none

/-- `cbor.dec.grow kind (script hex)+`: ONE decoder over a reader that receives the phases' bytes one after the other; each phase runs
    its script up to the first error and what it left unread is discarded. The model has no decoder object: every phase is
    `cbor.dec.seq` on that phase's bytes alone (whatever an earlier call read or failed on leaves no trace). -/
def handleCborGrow (op : String) (args : List String) : Option String :=
  match op, args with
  | "cbor.dec.grow", _ :: rest =>
    let rec phases (fuel : Nat) (l : List String) (acc : List String) : Option String :=
      match fuel, l with
      | _, [] => if acc.isEmpty then none else some ("|".intercalate acc)
      | fuel + 1, script :: h :: more => do
        let r ← handleCbor "cbor.dec.seq" ["bytes", script, h]
        phases fuel more (acc ++ [r])
      | _, _ => none
    phases rest.length rest []
  -- real-code-only round trip of a long string (encoder, then decoder): by `C12.roundtrip_*` the answer is "the same value"
  | "cbor.rt.big", [k, n, _] => if (k == "b" || k == "t") && n.toNat?.isSome then some "same" else none
  | _, _ => none

end WebPkg.Driver
