import WebPkg.Driver.Util
import WebPkg.Model.DirWalk
namespace WebPkg.Driver
open WebPkg.DirWalk

/-- tree spec, preorder over the remaining tokens: `f<hex>` = regular file, `d<n>` = directory followed by n (name hex, node) pairs;
    `fuel` bounds the recursion (the token count is enough) -/
def parseNode : Nat → List String → Option (Node × List String)
  | 0, _ => none
  | fuel + 1, tok :: rest =>
    if tok.startsWith "f" then do
      let c ← ofHex (tok.drop 1).toString
      pure (.file c, rest)
    else if tok.startsWith "d" then do
      let n ← (tok.drop 1).toString.toNat?
      let rec kids : Nat → List String → Option (List (Bytes × Node) × List String)
        | 0, ts => some ([], ts)
        | k + 1, nm :: ts => do
          let name ← ofHex nm
          let (t, ts') ← parseNode fuel ts
          let (more, ts'') ← kids k ts'
          pure ((name, t) :: more, ts'')
        | _ + 1, [] => none
      let (cs, rest') ← kids n rest
      pure (.dir cs, rest')
    else none
  | _ + 1, [] => none

/-- `c20.walk <base> <tree tokens...>`: the exchanges gen-bundle -dir creates, in walk order: url~r (redirect) or url~b<body hex> -/
def handleDirWalk (op : String) (args : List String) : Option String :=
  match op, args with
  | "c20.walk", b :: toks => do
    let base ← ofHex b
    let (t, rest) ← parseNode (toks.length + 1) toks
    if !rest.isEmpty then none else
    let es := walk base [46] t
    pure ("ok " ++ (if es.isEmpty then "." else ",".intercalate (es.map fun e =>
      toHex e.url ++ "~" ++ (match e.kind with | .redirect => "r" | .body c => "b" ++ toHex c))))
  | _, _ => none

end WebPkg.Driver
