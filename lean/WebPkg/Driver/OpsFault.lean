import WebPkg.Driver.OpsBSig
import WebPkg.Driver.OpsCbor
import WebPkg.Model.Trace
import WebPkg.Model.PathUrl
import WebPkg.Model.CountingWriter
namespace WebPkg.Driver
open WebPkg.Trace

/-- fault-free output of the named serializer, `none` = the serializer refuses the input -/
def faultFreeOutput (kind : String) (args : List String) : Option (Option Bytes) :=
  match kind with
  | "bundle" => do
    let (b, _) ← Driver.parseBundle args
    match Bundle.write b with
    | .ok (.ok bs) => pure (some bs)
    | _ => pure none
  | "sxg" => do
    let (e, _) ← parseExchange args
    match Sxg.write e with
    | .ok bs => pure (some bs)
    | .error _ => pure none
  | "hdr" => do
    let (e, _) ← parseExchange args
    match Sxg.encodeExchangeHeaders e with
    | .ok bs => pure (some bs)
    | .error _ => pure none
  | "cert" => match args with
    | [spec] => do
      let chain ← if spec == "." then some [] else (spec.splitOn ",").mapM readAugCert
      pure (CertChain.write chain)
    | _ => none
  | "mice" => match args with
    | [d, rs, h] => do
      let enc ← parseEnc d
      let r ← rs.toNat?
      let bs ← ofHex h
      pure (some (Mice.encode sha enc bs r).1)
    | _ => none
  | "cbor" => match args with
    | cnt :: toks => do
      let n ← cnt.toNat?
      let (bs, err, rest) ← Driver.runCalls n toks [] none
      if !rest.isEmpty then none else
      match err with
      | some _ => pure none
      | none => pure (some bs)
    | _ => none
  | _ => none

def handleFault (op : String) (args : List String) : Option String :=
  match op, args with
  | "fault", kind :: k :: mode :: rest => do
    let kk ← k.toNat?
    let m ← if mode == "short" then some Mode.shortWrite else if mode == "error" then some Mode.errorReturn else none
    match ← faultFreeOutput kind rest with
    | none => pure "inputerr"
    | some out =>
      let r := runChecked m [out] kk
      pure (if r.failed then "err good" else "ok good")
  | "path.url", [b, r] => do pure s!"ok {toHex (PathUrl.pathToURL (← ofHex b) (← ofHex r))}"
  | "cw.seq", [kind, room, ops] => do
    let k ← match kind with
      | "buf" => some CW.DestKind.readerFrom | "plain" => some .plain
      | "short" => some (.failing true) | "hard" => some (.failing false) | _ => none
    let parsed ← (ops.splitOn ",").mapM fun o =>
      if o.startsWith "w" then (o.drop 1).toString.toNat?.map CW.Op.write
      else match (o.drop 1).toString.splitOn "/" with
        | [t, c] => do pure (CW.Op.readFrom (← t.toNat?) (← c.toNat?))
        | _ => none
    let (s, rets) := parsed.foldl (fun (acc : CW.State × List String) op =>
      let r := match op with
        | .write n => CW.write acc.1 n
        | .readFrom t c => CW.readFrom acc.1 t c
      (r.2.2, acc.2 ++ [s!"{r.1}:{if r.2.1 then "1" else "0"}"])) (CW.init k (← room.toNat?), [])
    pure s!"{s.written} {s.received} {",".intercalate rets}"
  | "c18.retain", _ :: _ => pure "same"     -- the model's serializers are pure functions: results are values, inputs are never written
  | "faultlen", kind :: rest => do
    match ← faultFreeOutput kind rest with
    | none => pure "inputerr"
    | some out => pure s!"ok {out.length}"
  | _, _ => none

end WebPkg.Driver
