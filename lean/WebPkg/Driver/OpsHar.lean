import WebPkg.Driver.Util
import WebPkg.Driver.OpsBundle
import WebPkg.Model.HarWalk
namespace WebPkg.Driver
open WebPkg.HarWalk

/-- `n=v,n=v` (hex) or `.` -/
def parseNvps (s : String) : Option (List (Bytes × Bytes)) :=
  if s == "." then some [] else
  (s.splitOn ",").mapM fun p => match p.splitOn "=" with
    | [n, v] => do pure ((← ofHex n), (← ofHex v))
    | _ => none

/-- entry token: `<key hex | !>~<method hex>~<status>~<req nvps>~<res nvps>~<body hex | !>` -/
def parseEntry (tok : String) : Option Entry :=
  match tok.splitOn "~" with
  | [k, m, st, rq, rs, b] => do
    let key ← if k == "!" then some none else (ofHex k).map some
    let method ← ofHex m
    let status ← parseInt st
    let reqH ← parseNvps rq
    let resH ← parseNvps rs
    let body ← if b == "!" then some none else (ofHex b).map some
    pure { key := key, method := method, status := status, reqH := reqH, resH := resH, body := body }
  | _ => none

def optArg (s : String) : Option (Option Bytes) := if s == "nil" then some none else (ofHex s).map some

/-- `c20.har <b1|b2> <primary hex|nil> <manifest hex|nil> <ignoreErrors 0|1> <overrides: hex,hex | .> <entry>*`:
    `failed` | `panic` | `wrote <bundle hex> <exchanges as bundle.read prints them>` -/
def handleHar (op : String) (args : List String) : Option String :=
  match op, args with
  | "c20.har", v :: p :: m :: ig :: ov :: toks => do
    let ver ← if v == "b1" then some Bundle.BVer.b1 else if v == "b2" then some Bundle.BVer.b2 else none
    let primary ← optArg p
    let manifest ← optArg m
    let entries ← toks.mapM parseEntry
    let overrides ← if ov == "." then some [] else (ov.splitOn ",").mapM ofHex
    match genBundle ver primary manifest (ig == "1") overrides entries with
    | .failed => pure "failed"
    | .panic => pure "panic"
    | .wrote out =>
      let es := ((fromHar entries).bind (applyOverrides overrides)).getD []
      pure s!"wrote {toHex out} {if es.isEmpty then "." else ",".intercalate (es.map showExch)}"
  | _, _ => none

end WebPkg.Driver
