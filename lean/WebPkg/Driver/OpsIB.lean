import WebPkg.Driver.OpsBundle
import WebPkg.Model.IntegrityBlock
import WebPkg.Model.Sha512
namespace WebPkg.Driver
open WebPkg.IB

def parseAttrs (s : String) : Option (List (Bytes × Bytes)) :=
  if s == "." then some [] else
  (s.splitOn "&").mapM fun kv =>
    match kv.splitOn "=" with
    | [k, v] => do pure ((← ofHex k), (← ofHex v))
    | _ => none

def showAttrs (a : List (Bytes × Bytes)) : String :=
  if a.isEmpty then "." else "&".intercalate (a.map fun (k, v) => toHex k ++ "=" ++ toHex v)

def readIntSig (s : String) : Option IntegritySignature :=
  match s.splitOn "*" with
  | [a, sg] => do pure { attrs := (← parseAttrs a), signature := (← ofHex sg) }
  | _ => none

def parseBlock (s : String) : Option Block :=
  match s.splitOn ":" with
  | [m, v, st] => do
    let stack ← if st == "." then some [] else (st.splitOn "+").mapM readIntSig
    pure { magic := (← ofHex m), version := (← ofHex v), stack := stack }
  | _ => none

def showBlock (b : Block) : String :=
  toHex b.magic ++ ":" ++ toHex b.version ++ ":" ++
    (if b.stack.isEmpty then "." else "+".intercalate (b.stack.map fun s => showAttrs s.attrs ++ "*" ++ toHex s.signature))

def handleIB (op : String) (args : List String) : Option String :=
  match op, args with
  | "sha512", [h] => do pure s!"ok {toHex (Sha512.sha512 (← ofHex h))}"
  | "ib.cbor", [b] => do
    match blockCbor (← parseBlock b) with
    | .ok bs => pure s!"ok {toHex bs}"
    | .error _ => pure "err"
  | "ib.dts", [h, b, a] => do
    let block ← parseBlock b
    match blockCbor block with
    | .error _ => pure "err"
    | .ok bb =>
      match dataToBeSigned (← ofHex h) bb (← parseAttrs a) with
      | .ok d => pure s!"ok {toHex d}"
      | .error _ => pure "err"
  | "ib.signadd", [h, b, pk, a, sg, verdict] => do
    let block ← parseBlock b
    let sig ← if sg == "fail" then some none else (ofHex sg).map some
    match signAndAdd (fun _ => sig) (fun _ _ _ => verdict == "1") (← ofHex h) block (← ofHex pk) (← parseAttrs a) with
    | .ok (.ok b') =>
      match blockCbor b' with
      | .ok bs => pure s!"ok {showBlock b'} {toHex bs}"
      | .error _ => pure "ok-nocbor"
    | .ok (.error _) => pure s!"err {showBlock block}"
    | .error => pure s!"err {showBlock block}"
    | .panic => pure "panic"
  | "ib.obtain", [f] => do
    match obtain (← ofHex f) with
    | some (_, off) => pure s!"ok {off}"
    | none => pure "err"
  | "ib.signfile", [f, pk, sg, verdict] => do
    let sig ← ofHex sg
    match signFile Sha512.sha512 (fun _ => some sig) (fun _ _ _ => verdict == "1") (← ofHex pk) (← ofHex f) with
    | .ok (some out) => pure s!"ok {toHex out}"
    | .ok none => pure "err"
    | .error => pure "err"
    | .panic => pure "panic"
  | "ib.id", [pk] => do pure s!"ok {toHex (webBundleId (← ofHex pk))}"
  -- the library's VerifyEd25519Signature against the model's parameter edVerify, whose value for these arguments is the oracle's verdict
  | "ib.libverify", [_, _, _, verdict] => pure (if verdict == "1" then "1" else "0")
  | _, _ => none

end WebPkg.Driver
