import WebPkg.Driver.Util
import WebPkg.Model.Mice
import WebPkg.Model.Sha256
namespace WebPkg.Driver
open WebPkg.Mice

def parseEnc (s : String) : Option Enc :=
  if s == "02" then some .draft02 else if s == "03" then some .draft03 else none

def statusName : RecStatus → String
  | .ok => "ok" | .eof => "eof" | .errValidation => "errval" | .errOther => "errother"

def sha := WebPkg.Sha256.sha256

/-- run explicit read sizes, then keep reading with 4096-byte buffers until a non-ok status -/
partial def runReads (st : State) (sizes : List Nat) (acc : Bytes) (counts : List Nat) : State × Bytes × List Nat × RecStatus :=
  match sizes with
  | n :: rest =>
    let (st', bs, s) := read sha st n
    if s == .ok then runReads st' rest (acc ++ bs) (bs.length :: counts) else (st', acc, counts.reverse, s)
  | [] =>
    let (st', bs, s) := read sha st 4096
    if s == .ok then runReads st' [] (acc ++ bs) counts else (st', acc, counts.reverse, s)

/-- `k` further Reads after the decoder reported its first non-ok status: what each hands out, and its status -/
def moreReads (st : State) : Nat → List String
  | 0 => []
  | k + 1 =>
    let (st', bs, s) := read sha st 4096
    s!"{toHex bs}:{statusName s}" :: moreReads st' k

def handleMice (op : String) (args : List String) : Option String :=
  match op, args with
  | "sha256", [h] => do let bs ← ofHex h; pure s!"ok {toHex (sha bs)}"
  | "b64.enc", [url, pad, h] => do
    let bs ← ofHex h
    pure s!"ok {toHex (Base64.encode (url == "1") (pad == "1") bs)}"
  | "b64.dec", [url, pad, h] => do
    let bs ← ofHex h
    match Base64.decode (url == "1") (pad == "1") bs with
    | some r => pure s!"ok {toHex r}"
    | none => pure "err"
  | "mice.enc", [d, rs, h] => do
    let enc ← parseEnc d
    let r ← rs.toNat?
    let bs ← ofHex h
    let (stream, digest) := encode sha enc bs r
    pure s!"ok {toHex stream} {toHex digest}"
  | "mice.all", [d, mx, dg, st] => do
    let enc ← parseEnc d
    let m ← mx.toNat?
    let digest ← ofHex dg
    let stream ← ofHex st
    let (out, s) := decodeAll sha enc stream digest m
    pure s!"{toHex out} {statusName s}"
  | "mice.dec", [d, mx, dg, st, sizes] => do
    let enc ← parseEnc d
    let m ← mx.toNat?
    let digest ← ofHex dg
    let stream ← ofHex st
    let szs ← if sizes == "-" then some [] else (sizes.splitOn ",").mapM (·.toNat?)
    match newDecoder sha enc stream digest m with
    | .error .validation => pure "nderr errval"
    | .error .other => pure "nderr errother"
    | .ok s0 =>
      let (_, out, counts, s) := runReads s0 szs [] []
      pure s!"{toHex out} {",".intercalate (counts.map toString)} {statusName s}"
  | "mice.dec.more", [_, d, mx, dg, st, sizes, k] => do
    let enc ← parseEnc d
    let m ← mx.toNat?
    let digest ← ofHex dg
    let stream ← ofHex st
    let kk ← k.toNat?
    let szs ← if sizes == "-" then some [] else (sizes.splitOn ",").mapM (·.toNat?)
    match newDecoder sha enc stream digest m with
    | .error .validation => pure "nderr errval"
    | .error .other => pure "nderr errother"
    | .ok s0 =>
      let (st1, out, counts, s) := runReads s0 szs [] []
      pure s!"{toHex out} {",".intercalate (counts.map toString)} {statusName s} {",".intercalate (moreReads st1 kk)}"
  | _, _ => none

end WebPkg.Driver
