import WebPkg.Driver.Util
import WebPkg.Driver.OpsMice
import WebPkg.Driver.OpsSxg
import WebPkg.Model.ResParsers
import WebPkg.Model.IntegrityBlock
namespace WebPkg.Driver
open WebPkg.Res

def showCost (ok : Bool) (c : Cost) : String := s!"{if ok then "ok" else "err"} {c.alloc} {c.steps}"

def runRes (p : RM Unit) (bs : Bytes) : String :=
  match RM.run p bs with
  | (some _, c) => showCost true c
  | (none, c) => showCost false c

/-- cost skeleton ops (C10): `<class> <alloc> <steps> [extras]`; same argument lists as the harness ops -/
def handleRes (op : String) (args : List String) : Option String :=
  match op with
  | "c10.cbor" => match args with
    | [k, h] => do
      let e ← match k with
        | "uint" => some CborEntry.uint | "array" => some .arrayHeader | "map" => some .mapHeader
        | "bytes" => some .bytes | "text" => some .text | _ => none
      pure (runRes (cborEntry e) (← ofHex h))
    | _ => none
  | "c10.cert" => match args with
    | [h] => do pure (runRes certChain (← ofHex h))
    | _ => none
  | "c10.sxg" => match args with
    | [h] => do pure (runRes sxgRead (← ofHex h))
    | _ => none
  | "c10.subset" => match args with
    | [_, _, _, h, _] => do pure (runRes signedSubset (← ofHex h))
    | _ => none
  | "c10.mice" => match args with
    | [d, mx, _, h] => do
      let enc ← parseEnc d
      pure (runRes (miceDecode (enc == .draft02) (← mx.toNat?)) (← ofHex h))
    | _ => none
  | "c10.bundle" => match args with
    | [h] => do
      let bs ← ofHex h
      let (r, c, entries) := bundleRead bs
      let tot := (entries.map (·.2)).sum
      pure s!"{showCost r.isSome c} {entries.length} {tot}"
    | _ => none
  | "c10.bundleverify" => match args with
    | [h, _] => do
      let bs ← ofHex h
      let (r, c, entries) := bundleRead bs
      -- NewVerifier / VerifyExchange work on what was read: signed-subset decoding and MI decoding of bodies already charged
      -- per byte by the reader skeleton; charge them once more
      let tot := (entries.map (·.2)).sum
      pure s!"{showCost r.isSome { alloc := 2 * c.alloc, steps := 2 * c.steps }} {entries.length} {tot}"
    | _ => none
  | "c10.sh" => match args with
    | [k, h] => do
      let bs ← ofHex h
      let ok := if k == "pl" then (SH.parseParameterisedList bs).isSome else (SH.parseListOfLists bs).isSome
      pure (showCost ok (shCost bs))
    | _ => none
  | "c10.ib" => match args with
    | [h] => do
      let bs ← ofHex h
      pure (showCost (decide (10 ≤ bs.length) && (IB.obtain bs).isSome) ibCost)
    | _ => none
  -- each integrity-block entry point alone; where the file handle stood before the call does not matter (both seek absolutely)
  | "c10.ib.obtain" => match args with
    | [h, _] => do pure (showCost (IB.obtain (← ofHex h)).isSome ibCost)
    | _ => none
  | "c10.ib.has" => match args with
    | [h, _] => do pure (showCost (decide (10 ≤ (← ofHex h).length)) ibCost)
    | _ => none
  | "c10.verify" => do
    let (e, rest) ← parseExchange args
    match rest with
    | [cert, _] => pure (showCost true (verifyCost e.sigHeader (← ofHex cert) e.payload (e.version == .b1)))
    | _ => none
  | _ => none

end WebPkg.Driver
