import WebPkg.Driver.Util
import WebPkg.Model.StructuredHeader
namespace WebPkg.Driver
open WebPkg.SH

def showItem : Item → String
  | .int z => s!"i{z}"
  | .str s => "s" ++ toHex s
  | .token t => "t" ++ toHex t
  | .bytes b => "b" ++ toHex b
  | .other => "n"

def readItem (s : String) : Option Item :=
  let tag := (s.take 1).toString
  let arg := (s.drop 1).toString
  if tag == "i" then (parseInt arg).map .int
  else if tag == "s" then (ofHex arg).map .str
  else if tag == "t" then (ofHex arg).map .token
  else if tag == "b" then (ofHex arg).map .bytes
  else if tag == "n" then some .other
  else none

def showParams (ps : Params) : String :=
  String.join ((ps.mergeSort keyLe).map fun (k, v) =>
    ";" ++ toHex k ++ (match v with | some i => "=" ++ showItem i | none => ""))

def showPI (pi : PI) : String := toHex pi.label ++ showParams pi.params

def readPI (s : String) : Option PI :=
  match s.splitOn ";" with
  | [] => none
  | l :: ps => do
    let label ← ofHex l
    let params ← ps.mapM fun p =>
      match p.splitOn "=" with
      | [k] => do let kb ← ofHex k; pure (kb, (none : Option Item))
      | [k, v] => do let kb ← ofHex k; let it ← readItem v; pure (kb, some it)
      | _ => none
    pure { label := label, params := params }

def handleSH (op : String) (args : List String) : Option String :=
  match op, args with
  | "sh.parse.pl", [h] => do
    let bs ← ofHex h
    match parseParameterisedList bs with
    | some pl => pure ("ok " ++ ",".intercalate (pl.map showPI))
    | none => pure "err"
  | "sh.parse.ll", [h] => do
    let bs ← ofHex h
    match parseListOfLists bs with
    | some ll => pure ("ok " ++ ",".intercalate (ll.map fun inner => ";".intercalate (inner.map showItem)))
    | none => pure "err"
  | "sh.ser.pl", [v] => do
    let pl ← if v == "." then some [] else (v.splitOn ",").mapM readPI
    match serializePL pl with
    | some bs => pure ("ok " ++ toHex bs)
    | none => pure "err"
  | "sh.ser.ll", [v] => do
    let ll ← if v == "." then some [] else (v.splitOn ",").mapM (fun inner =>
      if inner == "." then (some [] : Option (List Item)) else (inner.splitOn ";").mapM readItem)
    match serializeLL ll with
    | some bs => pure ("ok " ++ toHex bs)
    | none => pure "err"
  | _, _ => none

end WebPkg.Driver
