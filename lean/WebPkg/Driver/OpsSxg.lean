import WebPkg.Driver.Util
import WebPkg.Driver.OpsSH
import WebPkg.Driver.OpsMice
import WebPkg.Model.SxgVerify
namespace WebPkg.Driver
open WebPkg.Sxg WebPkg.Http

def parseVer (s : String) : Option Ver :=
  if s == "b1" then some .b1 else if s == "b2" then some .b2 else if s == "b3" then some .b3 else none

def showVer : Ver → String
  | .b1 => "b1" | .b2 => "b2" | .b3 => "b3"

/-- headers: `name=v1|v2;name2=v` (hex), `.` = none -/
def parseHeaders (s : String) : Option Headers :=
  if s == "." then some [] else
  (s.splitOn ";").mapM fun ent =>
    match ent.splitOn "=" with
    | [n, vs] => do
      let nb ← ofHex n
      let vals ← (vs.splitOn "|").mapM ofHex
      pure (nb, vals)
    | _ => none

/-- canonical print: sorted by name -/
def showHeaders (h : Headers) : String :=
  if h.isEmpty then "." else
  ";".intercalate ((h.mergeSort fun a b => ble a.1 b.1).map fun (n, vs) => toHex n ++ "=" ++ "|".intercalate (vs.map toHex))

def parseExchange (a : List String) : Option (Exchange × List String) :=
  match a with
  | v :: uri :: m :: rq :: st :: rs :: sg :: pl :: rest => do
    let ver ← parseVer v
    let uri2 ← ofHex uri
    let m2 ← ofHex m
    let rq2 ← parseHeaders rq
    let st2 ← parseInt st
    let rs2 ← parseHeaders rs
    let sg2 ← ofHex sg
    let pl2 ← ofHex pl
    let e : Exchange := Exchange.mk ver uri2 m2 rq2 st2 rs2 sg2 pl2
    pure (e, rest)
  | _ => none

def showExchange (e : Exchange) : String :=
  s!"{showVer e.version} {toHex e.uri} {toHex e.method} {showHeaders e.reqHeaders} {e.status} {showHeaders e.respHeaders} {toHex e.sigHeader} {toHex e.payload}"

/-- tables: `key:field:field,...` with `.` = empty table -/
def parseTable (s : String) : List (List String) :=
  if s == "." || s == "" then [] else (s.splitOn ",").map (·.splitOn ":")

def hexKey (bs : Bytes) : String := toHex (sha bs)

structure Tables where
  urls : List (List String)
  fetch : List (List String)
  certs : List (List String)
  sigs : List (List String)
  status : List (List String)

def Tables.url (t : Tables) (u : Bytes) : Option (Option (Bytes × Bytes × Bytes)) :=
  match t.urls.find? (fun r => r.head? == some (toHex u)) with
  | some [_, "1", sc, ho, po] => do pure (some (← ofHex sc, ← ofHex ho, ← ofHex po))
  | some (_ :: "0" :: _) => some none
  | _ => none

def mkEnv (t : Tables) : Env := {
  H := sha
  url := fun u => (t.url u).getD none
  fetch := fun u => match t.fetch.find? (fun r => r.head? == some (toHex u)) with
    | some [_, b] => if b == "err" then none else ofHex b
    | _ => none
  parseOk := fun d => match t.certs.find? (fun r => r.head? == some (hexKey d)) with
    | some (_ :: p :: _) => p == "1"
    | _ => false
  keyOk := fun d => match t.certs.find? (fun r => r.head? == some (hexKey d)) with
    | some [_, _, k] => k == "1"
    | _ => false
  sigVerify := fun c m s => match t.sigs.find? (fun r => r.take 3 == [hexKey c, hexKey m, hexKey s]) with
    | some [_, _, _, v] => v == "1"
    | _ => false
  statusText := fun st => match t.status.find? (fun r => r.head? == some (toString st)) with
    | some [_, v] => v == "1"
    | _ => false }

/-- all byte strings under a "cert" key that `ReadCertChain` may hand to x509.ParseCertificate
    (walks the maps like the reader does, assuming every parse succeeds) -/
partial def candidateCerts (bs : Bytes) : List Bytes :=
  match Cbor.decodeArrayHeader bs with
  | none => []
  | some (n, bs1) =>
    if n < 2 then []
    else match Cbor.decodeTextString bs1 with
      | none => []
      | some (_, bs2) => certs (n - 1) bs2 []
where
  entries (m : Nat) (b : Bytes) (acc : List Bytes) : List Bytes × Option Bytes :=
    if m = 0 then (acc, some b) else
    match Cbor.decodeTextString b with
    | none => (acc, none)
    | some (key, b1) =>
      match Cbor.decodeByteString b1 with
      | none => (acc, none)
      | some (value, b2) => entries (m - 1) b2 (if key = CertChain.kCert then acc ++ [value] else acc)
  certs (k : Nat) (b : Bytes) (acc : List Bytes) : List Bytes :=
    if k = 0 then acc else
    match Cbor.decodeMapHeader b with
    | none => acc
    | some (m, b1) =>
      match entries m b1 acc with
      | (acc', some rest) => certs (k - 1) rest acc'
      | (acc', none) => acc'

def readAugCert (c : String) : Option CertChain.AugCert :=
  match c.splitOn ":" with
  | [d, o, sc] => do
    let der ← ofHex d
    let ocsp ← if o == "nil" then some none else (ofHex o).map some
    let sct ← if sc == "nil" then some none else (ofHex sc).map some
    pure { cert := der, ocsp := ocsp, sct := sct }
  | _ => none

def permissive : UrlFacts := fun _ => some (https, [], [])

/-- queries `sxg.verify` may make, discovered with permissive answers -/
def verifyNeeds (e : Exchange) (t : Tables) : List String :=
  let urlq := [s!"url:{toHex e.uri}"]
  match SH.parseParameterisedList e.sigHeader with
  | none => urlq
  | some sigs =>
    urlq ++ (sigs.filterMap extractSignature).flatMap fun s =>
      let env := mkEnv t
      [s!"url:{toHex s.validityUrl}", s!"fetch:{toHex s.certUrl}"] ++
      (match env.fetch s.certUrl with
       | none => []
       | some cb =>
         (candidateCerts cb).map (fun d => s!"cert:{toHex d}") ++
         (match CertChain.read (fun _ => true) cb with
          | some (main :: _) =>
            match signedMessage e (some (sha main.cert)) s.validityUrl s.date s.expires with
            | some msg => [s!"sig:{toHex main.cert}:{toHex msg}:{toHex s.sig}"]
            | none => []
          | _ => []))

def handleSxgCore (handleSxgPure : String → List String → Option String) (op : String) (args : List String) : Option String :=
  match op with
  | "http.canon" => match args with
    | [h] => do pure s!"ok {toHex (canonicalKey (← ofHex h))}"
    | _ => none
  | "sxg.hdr" => do
    let (e, _) ← parseExchange args
    match encodeExchangeHeaders e with
    | .ok bs => pure s!"ok {toHex bs}"
    | .error .duplicatedKey => pure "err dup"
    | .error .invalidUtf8 => pure "err utf8"
  | "sxg.hdrint" => do
    let (e, _) ← parseExchange args
    match headerIntegrity sha e with
    | some bs => pure s!"ok {toHex bs}"
    | none => pure "err"
  | "sxg.write" => do
    let (e, _) ← parseExchange args
    match write e with
    | .ok bs => pure s!"ok {toHex bs}"
    | .error _ => pure "err"
  | "sxg.msg" => do
    let (e, rest) ← parseExchange args
    match rest with
    | [cs, vu, d, x] =>
      let certSha ← if cs == "nil" then some none else (ofHex cs).map some
      match signedMessage e certSha (← ofHex vu) (← parseInt d) (← parseInt x) with
      | some m => pure s!"ok {toHex m}"
      | none => pure "err"
    | _ => none
  | "sxg.reuse" => match args with     -- the same *Exchange object used for A first, then holding B: the output is B's (no hidden state)
    | what :: rest => do
      let (_, rest1) ← parseExchange rest
      match what with
      | "write" => handleSxgPure "sxg.write" rest1
      | "hdr" => handleSxgPure "sxg.hdr" rest1
      | "hdrint" => handleSxgPure "sxg.hdrint" rest1
      | "mi" => handleSxgPure "sxg.mi" rest1
      | _ => none
    | _ => none
  | "sxg.sigheader" => match args with        -- the Signature header for given signature bytes
    | [v, sg, vu, cu, cs, d, x] => do
      match signatureHeaderValue (← parseVer v) (← ofHex sg) (← ofHex vu) (← ofHex cu) (← ofHex cs) (← parseInt d) (← parseInt x) with
      | some h => pure s!"ok {toHex h}"
      | none => pure "err"
    | _ => none
  | "sxg.mi" => do
    let (e, rest) ← parseExchange args
    match rest with
    | [rs] =>
      match miEncodePayload sha e (← rs.toNat?) with
      | some e' => pure s!"ok {showExchange e'}"
      | none => pure "err"
    | _ => none
  | "sxg.sign.mock" => do
    let (e, rest) ← parseExchange args
    match rest with
    | [cert, cu, vu, d, x] =>
      let certDer ← ofHex cert
      let certSha := sha certDer
      let vurl ← ofHex vu
      -- "sec" or "sec:nsec": `Time.Unix()` of `time.Unix(sec, nsec)` with 0 ≤ nsec < 10^9 is `sec`
      let date ← parseInt ((d.splitOn ":").headD "")
      let exp ← parseInt ((x.splitOn ":").headD "")
      match signedMessage e (some certSha) vurl date exp with
      | none => pure "err"
      | some msg =>
        match signatureHeaderValue e.version (sha msg) vurl (← ofHex cu) certSha date exp with
        | some h => pure s!"ok {toHex h}"
        | none => pure "err"
    | _ => none
  | "sxg.read.needs" => match args with
    | [h] => do
      let bs ← ofHex h
      match read permissive bs with
      | .ok e => pure s!"url:{toHex e.uri}"
      | _ =>
        -- b2/b3 fallback URL even if the rest fails
        if bs.length ≥ 10 then
          let ul := beVal ((bs.drop 8).take 2)
          pure s!"url:{toHex ((bs.drop 10).take ul)}"
        else pure "-"
    | _ => none
  | "sxg.read" => match args with
    | [h, urls] => do
      let bs ← ofHex h
      let t : Tables := { urls := parseTable urls, fetch := [], certs := [], sigs := [], status := [] }
      match read (mkEnv t).url bs with
      | .ok e => pure s!"ok {showExchange e}"
      | .err => pure "err"
      | .ood => pure "ood"
    | _ => none
  | "sxg.verify.needs" => do
    let (e, rest) ← parseExchange args
    match rest with
    | [fetch] =>
      let t : Tables := { urls := [], fetch := parseTable fetch, certs := [], sigs := [], status := [] }
      pure (" ".intercalate (verifyNeeds e t))
    | _ => none
  | "sxg.verify" => do
    let (e, rest) ← parseExchange args
    match rest with
    | [sec, nsec, urls, fetch, certs, sigs, status] =>
      let t : Tables := { urls := parseTable urls, fetch := parseTable fetch, certs := parseTable certs,
                          sigs := parseTable sigs, status := parseTable status }
      let tm := GoTime.ofUnix (← parseInt sec) (← parseInt nsec)
      match verify (mkEnv t) e tm with
      | some p => pure s!"valid {toHex p}"
      | none => pure "invalid"
    | _ => none
  | "sxg.cacheable" => do
    let (e, rest) ← parseExchange args
    match rest with
    | [status] =>
      let t : Tables := { urls := [], fetch := [], certs := [], sigs := [], status := parseTable status }
      pure (if isCacheable (mkEnv t) e then "true" else "false")
    | _ => none
  | "cert.write" => match args with
    | [spec] => do
      let chain ← if spec == "." then some [] else (spec.splitOn ",").mapM readAugCert
      match CertChain.write chain with
      | some bs => pure s!"ok {toHex bs}"
      | none => pure "err"
    | _ => none
  | "cert.read.needs" => match args with
    | [h] => do
      let bs ← ofHex h
      let ders := candidateCerts bs
      pure (if ders.isEmpty then "-" else " ".intercalate (ders.map fun d => s!"cert:{toHex d}"))
    | _ => none
  | "cert.read" => match args with
    | [h, certs] => do
      let bs ← ofHex h
      let t : Tables := { urls := [], fetch := [], certs := parseTable certs, sigs := [], status := [] }
      match CertChain.read (mkEnv t).parseOk bs with
      | some chain => pure ("ok " ++ ",".intercalate (chain.map fun a =>
          toHex a.cert ++ ":" ++ (match a.ocsp with | some o => toHex o | none => "nil") ++ ":" ++
          (match a.sct with | some o => toHex o | none => "nil")))
      | none => pure "err"
    | _ => none
  | "sct.ser" => match args with
    | [spec] => do
      let scts ← if spec == "." then some [] else (spec.splitOn ",").mapM ofHex
      match CertChain.serializeSCTList scts with
      | some bs => pure s!"ok {toHex bs}"
      | none => pure "err"
    | _ => none
  | "gotime.sub" => match args with
    | [a, b] => do pure s!"{GoTime.sub (GoTime.ofUnix (← parseInt a) 0) (GoTime.ofUnix (← parseInt b) 0)}"
    | _ => none
  | "gotime.cmp" => match args with
    | [s1, n1, s2, n2] => do
      let a := GoTime.ofUnix (← parseInt s1) (← parseInt n1)
      let b := GoTime.ofUnix (← parseInt s2) (← parseInt n2)
      pure s!"{GoTime.before a b} {GoTime.after a b}"
    | _ => none
  | _ => none

/-- `sxg.reuse` dispatches to the plain ops on the second exchange (one level, no recursion needed beyond that) -/
def handleSxg (op : String) (args : List String) : Option String :=
  handleSxgCore (handleSxgCore (fun _ _ => none)) op args

end WebPkg.Driver
