import WebPkg.Model.Basic
/- Line-protocol helpers for the model driver (glue, not part of any theorem). -/
namespace WebPkg.Driver

def hexDigit (n : Nat) : Char :=
  if n < 10 then Char.ofNat (48 + n) else Char.ofNat (87 + n)

def toHex (bs : Bytes) : String :=
  if bs.isEmpty then "-" else
  String.ofList (bs.foldr (fun b acc => hexDigit (b.toNat / 16) :: hexDigit (b.toNat % 16) :: acc) [])

def hexVal (c : Char) : Option Nat :=
  if '0' ≤ c ∧ c ≤ '9' then some (c.toNat - 48)
  else if 'a' ≤ c ∧ c ≤ 'f' then some (c.toNat - 87)
  else if 'A' ≤ c ∧ c ≤ 'F' then some (c.toNat - 55)
  else none

def ofHexChars : List Char → Option Bytes
  | [] => some []
  | a :: b :: rest => do
    let x ← hexVal a
    let y ← hexVal b
    let r ← ofHexChars rest
    pure (UInt8.ofNat (16 * x + y) :: r)
  | _ => none

/-- "-" is the empty string; `rep:<hexbyte>:<n>` is a run. -/
def ofHex (s : String) : Option Bytes :=
  if s == "-" || s == "" then some []
  else if s.startsWith "rep:" then
    match (s.drop 4).toString.splitOn ":" with
    | [b, n] => do
      let bb ← ofHexChars b.toList
      let k ← n.toNat?
      pure (List.replicate k bb).flatten
    | _ => none
  else ofHexChars s.toList

def parseInt (s : String) : Option Int :=
  if s.startsWith "-" then (s.drop 1).toString.toNat?.map (fun n => -(n : Int)) else s.toNat?.map (fun n => (n : Int))

end WebPkg.Driver
