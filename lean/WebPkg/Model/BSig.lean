import WebPkg.Model.Bundle
import WebPkg.Model.Mice
import WebPkg.Model.GoTime
/-
  Model of go/bundle/signature/{signer,verifier}.go, bundle.Exchange.AddPayloadIntegrity and the signing
  loop of cmd/sign-bundle/signedexchange.go `addSignature`.  External: SHA-256 `H`, ECDSA (`sigVerify`,
  the signature bytes returned by the signing algorithm), `keyOk` (VerifierForPublicKey), `canSign`
  (x509 VerifyHostname).
-/
namespace WebPkg.BSig
open WebPkg.Cbor WebPkg.Bundle WebPkg.Http

structure ResourceIntegrity where
  headerSha256 : Bytes
  payloadIntegrityHeader : Bytes
  deriving Repr, DecidableEq, Inhabited

structure ResponseHashes where
  variantsValue : Bytes
  hashes : List ResourceIntegrity
  deriving Repr, DecidableEq, Inhabited

structure SignedSubset where
  validityUrl : Bytes
  authSha256 : Bytes
  date : Int                 -- Unix seconds
  expires : Int
  subsetHashes : List (Bytes × ResponseHashes)      -- Go map url → hashes (distinct keys)
  deriving Repr, DecidableEq, Inhabited

def kValidityUrl : Bytes := [118, 97, 108, 105, 100, 105, 116, 121, 45, 117, 114, 108]   -- "validity-url"
def kAuthSha256 : Bytes := [97, 117, 116, 104, 45, 115, 104, 97, 50, 53, 54]              -- "auth-sha256"
def kDate : Bytes := [100, 97, 116, 101]                                                  -- "date"
def kExpires : Bytes := [101, 120, 112, 105, 114, 101, 115]                               -- "expires"
def kSubsetHashes : Bytes := [115, 117, 98, 115, 101, 116, 45, 104, 97, 115, 104, 101, 115]  -- "subset-hashes"
def hDigest : Bytes := [68, 105, 103, 101, 115, 116]                                      -- "Digest"

/-- context string of `SignatureContextString()`: "Web Package 1 b1" / "Web Package 1 b2" -/
def context : BVer → Bytes
  | .b1 => [87, 101, 98, 32, 80, 97, 99, 107, 97, 103, 101, 32, 49, 32, 98, 49]
  | .b2 => [87, 101, 98, 32, 80, 97, 99, 107, 97, 103, 101, 32, 49, 32, 98, 50]

/-- buffer left by an `EncodeTextString` whose error is dropped -/
def textOrEmpty (s : Bytes) : Bytes := match encodeText s with | .ok b => b | .error _ => []

/-- buffer left by a nested `EncodeMap` whose error is dropped (header already written on a duplicate key;
    map keys are distinct in Go, so the error branch is unreachable from real values) -/
def mapOrHeader (es : List Entry) : Bytes := match encodeMap es with | .ok b => b | .error _ => encodeMapHeader es.length

/-- `SignedSubset.Encode()` -/
def encodeSignedSubset (s : SignedSubset) : Except EncErr Bytes :=
  let hashesEntry (u : Bytes) (rh : ResponseHashes) : Entry :=
    (textOrEmpty u, encodeArrayHeader (1 + rh.hashes.length * 2) ++ encodeBytes rh.variantsValue ++
      (rh.hashes.map fun ri => encodeBytes ri.headerSha256 ++ textOrEmpty ri.payloadIntegrityHeader).flatten)
  encodeMap [
    (Bundle.tstr kValidityUrl, textOrEmpty s.validityUrl),
    (Bundle.tstr kAuthSha256, encodeBytes s.authSha256),
    (Bundle.tstr kDate, encodeInt s.date),
    (Bundle.tstr kExpires, encodeInt s.expires),
    (Bundle.tstr kSubsetHashes, mapOrHeader (s.subsetHashes.map fun (u, rh) => hashesEntry u rh))]

/-- `generateSignedMessage(signed, ver)` -/
def signedMessage (signed : Bytes) (ver : BVer) : Bytes :=
  List.replicate 64 (32 : UInt8) ++ context ver ++ [0] ++ signed

/-- `Exchange.AddPayloadIntegrity(ver, recordSize)`: MI-encode the body, add Content-Encoding and Digest -/
def addPayloadIntegrity (H : Bytes → Bytes) (e : Exch) (rs : Nat) : Option Exch :=
  if values e.resp.headers hDigest ≠ [] then none
  else
    let (stream, digest) := Mice.encode H .draft03 e.resp.body rs
    let r : Resp := { status := e.resp.status, body := stream,
                      headers := add (add e.resp.headers Sxg.hContentEncoding Mice.Enc.draft03.name) hDigest digest }
    some { url := e.url, resp := r }

/-- `Response.HeaderSha256()` -/
def headerSha256 (H : Bytes → Bytes) (r : Resp) : Option Bytes :=
  match encodeRespHeader r with
  | .ok b => some (H b)
  | .error _ => none

/-- the loop of `addSignature` over the exchanges (`canSign url` = CanSignForURL) -/
def signExchanges (H : Bytes → Bytes) (canSign : Bytes → Bool) (rs : Nat) :
    List Exch → List Exch → List (Bytes × ResponseHashes) → Option (List Exch × List (Bytes × ResponseHashes))
  | [], done, hashes => some (done, hashes)
  | e :: rest, done, hashes =>
    if !canSign e.url then signExchanges H canSign rs rest (done ++ [e]) hashes
    else
      match addPayloadIntegrity H e rs with
      | none => none
      | some e' =>
        match headerSha256 H e'.resp with
        | none => none
        | some hs =>
          if hashes.any (·.1 == e'.url) then none
          else signExchanges H canSign rs rest (done ++ [e'])
            (hashes ++ [(e'.url, { variantsValue := [], hashes := [{ headerSha256 := hs, payloadIntegrityHeader := Mice.Enc.draft03.integrityIdentifier }] })])

/-- `addSignature(b, signer)` with `NewSigner`: the bundle after one signer ran; `sig` = what the signing
    algorithm returned for the message. `none` = error. -/
def addSignature (H : Bytes → Bytes) (canSign : Bytes → Bool) (rs : Nat) (b : Bundle) (certs : List CertChain.AugCert)
    (validityUrl : Bytes) (date expires : Int) (sig : Bytes) : Option (Bundle × Bytes) :=
  if !CertChain.validate certs then none
  else
    match signExchanges H canSign rs b.exchanges [] [] with
    | none => none
    | some (exs, hashes) =>
      let subset : SignedSubset := { validityUrl := validityUrl, authSha256 := H (certs.headD default).cert, date := date,
                                     expires := expires, subsetHashes := hashes }
      match encodeSignedSubset subset with
      | .error _ => none
      | .ok signedBytes =>
        let old := b.signatures.getD { authorities := [], subsets := [] }
        let sigs : Sigs := { authorities := old.authorities ++ certs,
                             subsets := old.subsets ++ [{ authority := old.authorities.length, sig := sig, signed := signedBytes }] }
        some ({ b with exchanges := exs, signatures := some sigs }, signedMessage signedBytes b.version)

/-! ### verifier -/

def insertHash (m : List (Bytes × ResponseHashes)) (u : Bytes) (rh : ResponseHashes) : List (Bytes × ResponseHashes) :=
  if m.any (·.1 == u) then m.map fun (k, v) => if k == u then (k, rh) else (k, v) else m ++ [(u, rh)]

def decodeHashPairs : Nat → Bytes → List ResourceIntegrity → Option (List ResourceIntegrity × Bytes)
  | 0, bs, acc => some (acc, bs)
  | n + 1, bs, acc =>
    match decodeByteString bs with
    | none => none
    | some (h, bs1) =>
      match decodeTextString bs1 with
      | none => none
      | some (p, bs2) => decodeHashPairs n bs2 (acc ++ [{ headerSha256 := h, payloadIntegrityHeader := p }])

/-- the entry loop of `decodeSubsetHashes` -/
def decodeSubsetEntries : Nat → Bytes → List (Bytes × ResponseHashes) → Option (List (Bytes × ResponseHashes) × Bytes)
  | 0, bs, acc => some (acc, bs)
  | n + 1, bs, acc =>
    match decodeTextString bs with
    | none => none
    | some (u, bs1) =>
      match decodeArrayHeader bs1 with
      | none => none
      | some (m, bs2) =>
        if m < 3 ∨ m % 2 ≠ 1 then none
        else match decodeByteString bs2 with
          | none => none
          | some (vv, bs3) =>
            match decodeHashPairs ((m - 1) / 2) bs3 [] with
            | none => none
            | some (hs, bs4) => decodeSubsetEntries n bs4 (insertHash acc u { variantsValue := vv, hashes := hs })

structure PartialSubset where
  validityUrl : Option Bytes
  authSha256 : Option Bytes
  date : Option Int           -- as passed to time.Unix
  expires : Option Int
  subsetHashes : Option (List (Bytes × ResponseHashes))

/-- the key loop of `decodeSignedSubset`; `urlOk` = url.Parse succeeds -/
def decodeSubsetFields (urlOk : Bytes → Bool) : Nat → Bytes → PartialSubset → Option PartialSubset
  | 0, _, acc => some acc
  | n + 1, bs, acc =>
    match decodeTextString bs with
    | none => none
    | some (label, bs1) =>
      if label = kValidityUrl then
        match decodeTextString bs1 with
        | none => none
        | some (u, bs2) => if urlOk u then decodeSubsetFields urlOk n bs2 { acc with validityUrl := some u } else none
      else if label = kAuthSha256 then
        match decodeByteString bs1 with
        | none => none
        | some (a, bs2) => decodeSubsetFields urlOk n bs2 { acc with authSha256 := some a }
      else if label = kDate then
        match decodeUint bs1 with
        | none => none
        | some (d, bs2) => decodeSubsetFields urlOk n bs2 { acc with date := some (toInt64 d) }
      else if label = kExpires then
        match decodeUint bs1 with
        | none => none
        | some (d, bs2) => decodeSubsetFields urlOk n bs2 { acc with expires := some (toInt64 d) }
      else if label = kSubsetHashes then
        match decodeMapHeader bs1 with
        | none => none
        | some (m, bs2) =>
          match decodeSubsetEntries m bs2 [] with
          | none => none
          | some (hs, bs3) => decodeSubsetFields urlOk n bs3 { acc with subsetHashes := some hs }
      else none

/-- `Time.IsZero()` of `time.Unix(sec, 0)` -/
def unixIsZero (sec : Int) : Bool := (GoTime.ofUnix sec 0).isec == 0

/-- `decodeSignedSubset(signed)` -/
def decodeSignedSubset (urlOk : Bytes → Bool) (signed : Bytes) : Option SignedSubset :=
  match decodeMapHeader signed with
  | none => none
  | some (n, bs) =>
    match decodeSubsetFields urlOk n bs { validityUrl := none, authSha256 := none, date := none, expires := none, subsetHashes := none } with
    | some { validityUrl := some vu, authSha256 := some a, date := some d, expires := some x, subsetHashes := some hs } =>
      if unixIsZero d || unixIsZero x then none
      else some { validityUrl := vu, authSha256 := a, date := d, expires := x, subsetHashes := hs }
    | _ => none

structure VEnv where
  H : Bytes → Bytes
  urlOk : Bytes → Bool
  keyOk : Bytes → Bool
  sigVerify : Bytes → Bytes → Bytes → Bool

/-- `verifyVouchedSubset` : (subset, authority certificate) -/
def verifyVouchedSubset (env : VEnv) (vs : VouchedSubset) (authorities : List CertChain.AugCert) (t : GoTime.T) (ver : BVer) :
    Option (SignedSubset × CertChain.AugCert) :=
  if vs.authority ≥ authorities.length then none
  else
    let cert := authorities.getD vs.authority default
    if !env.keyOk cert.cert then none
    else if !env.sigVerify cert.cert (signedMessage vs.signed ver) vs.sig then none
    else match decodeSignedSubset env.urlOk vs.signed with
      | none => none
      | some ss =>
        if ss.authSha256 ≠ env.H cert.cert then none
        else
          let d := GoTime.ofUnix ss.date 0
          let x := GoTime.ofUnix ss.expires 0
          if GoTime.sub x d > 604800 * 1000000000 then none
          else if GoTime.before t d then none
          else if GoTime.after t x then none
          else some (ss, cert)

/-- `NewVerifier(sigs, t, ver)` -/
def newVerifier (env : VEnv) (sigs : Sigs) (t : GoTime.T) (ver : BVer) : Option (List (SignedSubset × CertChain.AugCert)) :=
  sigs.subsets.mapM fun vs => verifyVouchedSubset env vs sigs.authorities t ver

inductive VResult where
  | unsigned
  | verified (payload : Bytes) (authority : Bytes)
  | error
  deriving Repr, DecidableEq

/-- `Verifier.VerifyExchange(e)` -/
def verifyExchange (env : VEnv) (_ver : BVer) (vss : List (SignedSubset × CertChain.AugCert)) (e : Exch) : VResult :=
  match vss.findSome? (fun (ss, auth) => (ss.subsetHashes.find? (·.1 == e.url)).map fun kv => (kv.2, auth)) with
  | none => .unsigned
  | some (rhs, auth) =>
    if rhs.variantsValue.length ≠ 0 ∨ rhs.hashes.length ≠ 1 then .error
    else
      let rh := rhs.hashes.headD default
      match headerSha256 env.H e.resp with
      | none => .error
      | some hs =>
        if hs ≠ rh.headerSha256 then .error
        else if Mice.Enc.draft03.integrityIdentifier ≠ rh.payloadIntegrityHeader then .error
        else
          let digest := get e.resp.headers hDigest
          if digest = [] then .error
          else match Mice.decodeAll env.H .draft03 e.resp.body digest 16384 with
            | (out, .eof) => .verified out auth.cert
            | _ => .error

end WebPkg.BSig
