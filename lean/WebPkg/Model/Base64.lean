import WebPkg.Model.Basic
/-
  Go's encoding/base64 (StdEncoding, RawStdEncoding, RawURLEncoding), non-strict mode:
  the decoder skips CR and LF anywhere and does not check trailing bits.
-/
namespace WebPkg.Base64


def enc6 (url : Bool) (v : Nat) : UInt8 :=
  if v < 26 then UInt8.ofNat (65 + v)
  else if v < 52 then UInt8.ofNat (97 + (v - 26))
  else if v < 62 then UInt8.ofNat (48 + (v - 52))
  else if v = 62 then (if url then 45 else 43)
  else (if url then 95 else 47)

def dec6 (url : Bool) (c : UInt8) : Option Nat :=
  let n := c.toNat
  if 65 ≤ n ∧ n ≤ 90 then some (n - 65)
  else if 97 ≤ n ∧ n ≤ 122 then some (n - 97 + 26)
  else if 48 ≤ n ∧ n ≤ 57 then some (n - 48 + 52)
  else if n = (if url then 45 else 43) then some 62
  else if n = (if url then 95 else 47) then some 63
  else none

/-- `EncodeToString`; `pad` = StdEncoding-style '=' padding -/
def encode (url pad : Bool) : Bytes → Bytes
  | [] => []
  | [a] =>
    let x := a.toNat
    [enc6 url (x / 4), enc6 url (x % 4 * 16)] ++ (if pad then [61, 61] else [])
  | [a, b] =>
    let x := a.toNat; let y := b.toNat
    [enc6 url (x / 4), enc6 url (x % 4 * 16 + y / 16), enc6 url (y % 16 * 4)] ++ (if pad then [61] else [])
  | a :: b :: c :: rest =>
    let x := a.toNat; let y := b.toNat; let z := c.toNat
    enc6 url (x / 4) :: enc6 url (x % 4 * 16 + y / 16) :: enc6 url (y % 16 * 4 + z / 64) :: enc6 url (z % 64) :: encode url pad rest

def b0 (v0 v1 : Nat) : UInt8 := UInt8.ofNat (v0 * 4 + v1 / 16)
def b1 (v1 v2 : Nat) : UInt8 := UInt8.ofNat (v1 % 16 * 16 + v2 / 4)
def b2 (v2 v3 : Nat) : UInt8 := UInt8.ofNat (v2 % 4 * 64 + v3)

/-- quanta decoding of an input from which CR/LF were already removed (`decodeQuantum`) -/
def decodeQuanta (url pad : Bool) : Bytes → Option Bytes
  | [] => some []
  | [_] => none
  | c0 :: c1 :: rest =>
    match dec6 url c0, dec6 url c1 with
    | some v0, some v1 =>
      match rest with
      | [] => if pad then none else some [b0 v0 v1]
      | c2 :: rest2 =>
        if pad && c2 == 61 then
          match rest2 with
          | [c3] => if c3 == 61 then some [b0 v0 v1] else none
          | _ => none
        else
          match dec6 url c2 with
          | none => none
          | some v2 =>
            match rest2 with
            | [] => if pad then none else some [b0 v0 v1, b1 v1 v2]
            | c3 :: rest3 =>
              if pad && c3 == 61 then (if rest3.isEmpty then some [b0 v0 v1, b1 v1 v2] else none)
              else
                match dec6 url c3 with
                | none => none
                | some v3 =>
                  match decodeQuanta url pad rest3 with
                  | some r => some (b0 v0 v1 :: b1 v1 v2 :: b2 v2 v3 :: r)
                  | none => none
    | _, _ => none

/-- `DecodeString` -/
def decode (url pad : Bool) (s : Bytes) : Option Bytes :=
  decodeQuanta url pad (s.filter fun c => c != 10 && c != 13)

end WebPkg.Base64
