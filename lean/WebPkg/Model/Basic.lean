/-
  Common definitions for all models: byte strings, big-endian integers, outcomes.
  Core Lean only (no Mathlib) so that the driver links as a `lean_exe`.
-/
namespace WebPkg

abbrev Bytes := List UInt8

/-- Result of running a piece of Go code that parses untrusted data. -/
inductive Outcome (α : Type) where
  | ok (a : α)
  | error
  | panic
  deriving Repr, DecidableEq

namespace Outcome
def bind {α β} (o : Outcome α) (f : α → Outcome β) : Outcome β :=
  match o with
  | .ok a => f a
  | .error => .error
  | .panic => .panic
instance : Monad Outcome where
  pure := .ok
  bind := Outcome.bind
def isOk {α} : Outcome α → Bool
  | .ok _ => true
  | _ => false
def ofOption {α} : Option α → Outcome α
  | some a => .ok a
  | none => .error
end Outcome

/-- `k`-byte big-endian representation of `n` (low `8k` bits, as Go's shift-and-truncate loops). -/
def beBytes : Nat → Nat → Bytes
  | 0, _ => []
  | k + 1, n => beBytes k (n / 256) ++ [UInt8.ofNat (n % 256)]

/-- big-endian value of a byte string -/
def beVal (bs : Bytes) : Nat := bs.foldl (fun acc b => acc * 256 + b.toNat) 0

/-- Go `int64(n)` for a `uint64` value `n` (two's complement). -/
def toInt64 (n : Nat) : Int := if n < 2 ^ 63 then (n : Int) else (n : Int) - 2 ^ 64

/-- Go `uint64(z)` for an `int64` value `z`. -/
def ofInt64 (z : Int) : Nat := (z % 2 ^ 64).toNat

/-- bytes.Compare(a,b) <= 0 -/
def ble : Bytes → Bytes → Bool
  | [], _ => true
  | _ :: _, [] => false
  | a :: as, b :: bs => if a < b then true else if b < a then false else ble as bs

/-- bytes.Compare(a,b) < 0 -/
def blt (a b : Bytes) : Bool := ble a b && !(a == b)

end WebPkg

namespace WebPkg
/-- result of a reader model: value, error, or "outside the modelled domain" (e.g. Unicode case
    mapping of non-ASCII header names, which the model does not reproduce) -/
inductive Res (α : Type) where
  | ok (a : α)
  | err
  | ood
  deriving Repr, DecidableEq

namespace Res
def bind {α β} (o : Res α) (f : α → Res β) : Res β :=
  match o with
  | .ok a => f a
  | .err => .err
  | .ood => .ood
instance : Monad Res where
  pure := .ok
  bind := Res.bind
def ofOption {α} : Option α → Res α
  | some a => .ok a
  | none => .err
end Res
end WebPkg
