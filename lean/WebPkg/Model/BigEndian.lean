import WebPkg.Model.Basic
/- Model of go/signedexchange/internal/bigendian/bigendianint.go (after fix F1: `>=`). -/
namespace WebPkg.BigEndian

/-- `EncodeBytesUint(n int64, size int)`; `size` is 2, 3 or 8 at all call sites. -/
def encodeBytesUint (n : Int) (size : Nat) : Option Bytes :=
  if n < 0 then none
  else if size < 7 ∧ (2 : Int) ^ (size * 8) ≤ n then none
  else some (beBytes size n.toNat)

/-- `Decode3BytesUint` -/
def decode3BytesUint (b0 b1 b2 : UInt8) : Nat := b0.toNat * 65536 + b1.toNat * 256 + b2.toNat

end WebPkg.BigEndian
