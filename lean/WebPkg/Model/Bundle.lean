import WebPkg.Model.Cbor
import WebPkg.Model.HttpHeader
import WebPkg.Model.StructuredHeader
import WebPkg.Model.CertChain
import WebPkg.Model.Sxg
/-
  Model of go/bundle/{bundle,encoder,decoder,countingwriter}.go and bundle/version/version.go
  (after fixes F5, F6, F7, F11).  URLs are the strings produced by `URL.String()`; what the reader needs
  from `net/url.Parse` is the parameter `BUrlFacts`.
-/
namespace WebPkg.Bundle
open WebPkg.Cbor WebPkg.Http

inductive BVer where
  | b1 | b2
  deriving DecidableEq, Repr, Inhabited

structure Resp where
  status : Int
  headers : Headers
  body : Bytes
  deriving Repr, Inhabited, DecidableEq

structure Exch where
  url : Bytes
  resp : Resp
  deriving Repr, Inhabited, DecidableEq

structure VouchedSubset where
  authority : Nat
  sig : Bytes
  signed : Bytes
  deriving Repr, Inhabited, DecidableEq

structure Sigs where
  authorities : List CertChain.AugCert
  subsets : List VouchedSubset
  deriving Repr, Inhabited, DecidableEq

structure Bundle where
  version : BVer
  primaryURL : Option Bytes
  exchanges : List Exch
  manifestURL : Option Bytes
  signatures : Option Sigs
  deriving Repr, Inhabited, DecidableEq

def headerMagicB1 : Bytes := [0x86, 0x48, 0xf0, 0x9f, 0x8c, 0x90, 0xf0, 0x9f, 0x93, 0xa6]
def headerMagicB2 : Bytes := [0x85, 0x48, 0xf0, 0x9f, 0x8c, 0x90, 0xf0, 0x9f, 0x93, 0xa6]
def versionMagicB1 : Bytes := [0x44, 0x62, 0x31, 0x00, 0x00]
def versionMagicB2 : Bytes := [0x44, 0x62, 0x32, 0x00, 0x00]

def BVer.magic : BVer → Bytes
  | .b1 => headerMagicB1 ++ versionMagicB1
  | .b2 => headerMagicB2 ++ versionMagicB2

def tstr (s : Bytes) : Bytes := encodeHead 3 s.length ++ s

def nIndex : Bytes := [105, 110, 100, 101, 120]                           -- "index"
def nManifest : Bytes := [109, 97, 110, 105, 102, 101, 115, 116]          -- "manifest"
def nPrimary : Bytes := [112, 114, 105, 109, 97, 114, 121]                -- "primary"
def nSignatures : Bytes := [115, 105, 103, 110, 97, 116, 117, 114, 101, 115]  -- "signatures"
def nResponses : Bytes := [114, 101, 115, 112, 111, 110, 115, 101, 115]   -- "responses"
def kAuthority : Bytes := [97, 117, 116, 104, 111, 114, 105, 116, 121]    -- "authority"
def kSig : Bytes := [115, 105, 103]                                       -- "sig"
def kSigned : Bytes := [115, 105, 103, 110, 101, 100]                     -- "signed"
def hVariants : Bytes := [86, 97, 114, 105, 97, 110, 116, 115]            -- "Variants"
def hVariantKey : Bytes := [86, 97, 114, 105, 97, 110, 116, 45, 75, 101, 121]  -- "Variant-Key"

/-! ### writer -/

/-- `Response.EncodeHeader()` -/
def encodeRespHeader (r : Resp) : Except EncErr Bytes :=
  encodeMap ((encodeBytes Sxg.keyStatus, encodeBytes (SH.formatInt r.status)) :: Sxg.headerEntries r.headers)

/-- one `[headers, payload]` response as appended by `addResponse` -/
def encodeResponse (r : Resp) : Except EncErr Bytes := do
  let h ← encodeRespHeader r
  pure (encodeArrayHeader 2 ++ encodeBytes h ++ encodeBytes r.body)

structure IndexEntry where
  url : Bytes
  variants : Bytes
  variantKey : Bytes
  offset : Nat
  length : Nat
  deriving Repr, Inhabited, DecidableEq

/-- direct map lookup `h[key]` (no canonicalisation of stored keys) -/
def rawValues (h : Headers) (key : Bytes) : List Bytes :=
  match h.find? (·.1 == key) with
  | some (_, vs) => vs
  | none => []

/-- the loop of `WriteTo` over the exchanges: responses buffer and index entries -/
def addExchanges : List Exch → Bytes → List IndexEntry → Except EncErr (Bytes × List IndexEntry)
  | [], buf, acc => .ok (buf, acc)
  | e :: rest, buf, acc =>
    match encodeResponse e.resp with
    | .error err => .error err
    | .ok r =>
      addExchanges rest (buf ++ r)
        (acc ++ [{ url := e.url, variants := joinComma (rawValues e.resp.headers hVariants),
                   variantKey := joinComma (rawValues e.resp.headers hVariantKey), offset := buf.length, length := r.length }])

/-- `parseListOfStringLists` -/
def parseListOfStringLists (s : Bytes) : Option (List (List Bytes)) :=
  match SH.parseListOfLists s with
  | none => none
  | some ll => ll.mapM fun l => l.mapM fun
    | .str v => some v
    | .token v => some v
    | _ => none

/-- `Variants.numberOfPossibleKeys` -/
def numberOfPossibleKeys : List (List Bytes) → Nat → Option Nat
  | [], n => some n
  | vals :: rest, n =>
    if vals.length ≤ 1 then none
    else
      let n' := n * (vals.length - 1)
      if n' > 10000 then none else numberOfPossibleKeys rest n'

def indexOf (vals : List Bytes) (v : Bytes) : Option Nat :=
  let i := vals.findIdx (· == v)
  if i < vals.length then some i else none

/-- `Variants.indexInPossibleKeys` (none = -1) -/
def indexInPossibleKeysAux : List (List Bytes) → List Bytes → Nat → Option Nat
  | [], [], idx => some idx
  | vals :: vrest, k :: krest, idx =>
    match indexOf (vals.drop 1) k with
    | some i => indexInPossibleKeysAux vrest krest (idx * (vals.length - 1) + i)
    | none => none
  | _, _, _ => none

def indexInPossibleKeys (v : List (List Bytes)) (vk : List Bytes) : Option Nat :=
  if v.length ≠ vk.length then none else indexInPossibleKeysAux v vk 0

/-- `Variants.possibleKeyAt` -/
def possibleKeyAtAux : List (List Bytes) → Nat → (List Bytes × Nat)
  | [], index => ([], index)
  | vals :: rest, index =>
    let (keys, idx) := possibleKeyAtAux rest index
    let vs := vals.drop 1
    ((vs.getD (idx % vs.length) []) :: keys, idx / vs.length)

def possibleKeyAt (v : List (List Bytes)) (index : Nat) : Option (List Bytes) :=
  let (keys, idx) := possibleKeyAtAux v index
  if idx ≠ 0 then none else some keys

def setAt {α} (l : List α) (i : Nat) (a : α) : List α := l.set i a

/-- `entriesInPossibleKeyOrder(es)` -/
def entriesInPossibleKeyOrder (es : List IndexEntry) : Option (List IndexEntry) :=
  match es with
  | [] => none
  | first :: _ =>
    if first.variants.isEmpty then none
    else match parseListOfStringLists first.variants with
      | none => none
      | some variants =>
        match numberOfPossibleKeys variants 1 with
        | none => none
        | some num =>
          let place (result : Option (List (Option IndexEntry))) (e : IndexEntry) : Option (List (Option IndexEntry)) :=
            match result with
            | none => none
            | some res =>
              if e.variants ≠ first.variants then none
              else match parseListOfStringLists e.variantKey with
                | none => none
                | some vks =>
                  vks.foldl (fun acc vk =>
                    match acc with
                    | none => none
                    | some r =>
                      match indexInPossibleKeys variants vk with
                      | none => none
                      | some i => if (r.getD i none).isSome then none else some (r.set i (some e))) (some res)
          match es.foldl place (some (List.replicate num none)) with
          | none => none
          | some res => res.mapM id

/-- group index entries by URL, keeping first-seen order of URLs and insertion order inside a group -/
def groupByUrl : List IndexEntry → List (Bytes × List IndexEntry) → List (Bytes × List IndexEntry)
  | [], acc => acc
  | e :: rest, acc =>
    if acc.any (·.1 == e.url) then groupByUrl rest (acc.map fun (u, es) => if u == e.url then (u, es ++ [e]) else (u, es))
    else groupByUrl rest (acc ++ [(e.url, [e])])

inductive WErr where
  | enc (e : EncErr)
  | variants
  | multipleResources
  | manifestNotSupported
  deriving Repr, DecidableEq

/-- `indexSection.Finalize(ver)`; `.panic` = `panic(err)` on a URL that is not valid UTF-8 -/
def finalizeIndex (ver : BVer) (entries : List IndexEntry) : Outcome (Except WErr Bytes) :=
  let groups := groupByUrl entries []
  if groups.any (fun g => !utf8Valid g.1) then
    -- the panic only happens when the group is actually encoded; b2 returns the multiple-resources error first
    if ver = .b2 ∧ groups.any (fun g => g.2.length > 1) then .ok (.error .multipleResources) else .panic
  else
    match ver with
    | .b2 =>
      if groups.any (fun g => g.2.length > 1) then .ok (.error .multipleResources)
      else
        let mes : List Entry := groups.map fun (u, es) =>
          (tstr u, encodeArrayHeader 2 ++ (es.map fun e => encodeUint e.offset ++ encodeUint e.length).flatten)
        match encodeMap mes with
        | .ok b => .ok (.ok b)
        | .error e => .ok (.error (.enc e))
    | .b1 =>
      let build (g : Bytes × List IndexEntry) : Option Entry :=
        if g.2.length > 1 then
          match entriesInPossibleKeyOrder g.2 with
          | none => none
          | some es =>
            some (tstr g.1, encodeArrayHeader (1 + es.length * 2) ++ encodeBytes (g.2.headD default).variants ++
              (es.map fun e => encodeUint e.offset ++ encodeUint e.length).flatten)
        else
          some (tstr g.1, encodeArrayHeader (1 + g.2.length * 2) ++ encodeBytes [] ++
            (g.2.map fun e => encodeUint e.offset ++ encodeUint e.length).flatten)
      match groups.mapM build with
      | none => .ok (.error .variants)
      | some mes =>
        match encodeMap mes with
        | .ok b => .ok (.ok b)
        | .error e => .ok (.error (.enc e))

/-- `newSignaturesSection` -/
def encodeSignatures (s : Sigs) : Except EncErr Bytes := do
  let auths ← CertChain.encodeAll s.authorities
  let subs ← s.subsets.foldlM (fun acc vs => do
    let m ← encodeMap [(tstr kAuthority, encodeUint vs.authority), (tstr kSig, encodeBytes vs.sig), (tstr kSigned, encodeBytes vs.signed)]
    pure (acc ++ m)) []
  pure (encodeArrayHeader 2 ++ encodeArrayHeader s.authorities.length ++ auths ++ encodeArrayHeader s.subsets.length ++ subs)

def encodeUrlSection (u : Bytes) : Except EncErr Bytes := encodeText u

/-- `Bundle.WriteTo(w)`: the complete output and the returned count (= its length) on success.
    `.panic`: b1 without primary URL (nil dereference) or an exchange URL that is not valid UTF-8. -/
def write (b : Bundle) : Outcome (Except WErr Bytes) :=
  match addExchanges b.exchanges (encodeArrayHeader b.exchanges.length) [] with
  | .error e => .ok (.error (.enc e))
  | .ok (respBuf, entries) =>
    match finalizeIndex b.version entries with
    | .panic => .panic
    | .error => .error
    | .ok (.error e) => .ok (.error e)
    | .ok (.ok indexBytes) =>
      -- optional sections
      let primary : Except WErr (List (Bytes × Bytes)) :=
        match b.version, b.primaryURL with
        | .b2, some u => match encodeUrlSection u with
          | .ok s => .ok [(nPrimary, s)]
          | .error e => .error (.enc e)
        | _, _ => .ok []
      let manifest : Except WErr (List (Bytes × Bytes)) :=
        match b.manifestURL with
        | none => .ok []
        | some u =>
          if b.version ≠ .b1 then .error .manifestNotSupported
          else match encodeUrlSection u with
            | .ok s => .ok [(nManifest, s)]
            | .error e => .error (.enc e)
      let sigs : Except WErr (List (Bytes × Bytes)) :=
        match b.signatures with
        | none => .ok []
        | some s => match encodeSignatures s with
          | .ok x => .ok [(nSignatures, x)]
          | .error e => .error (.enc e)
      match primary, manifest, sigs with
      | .error e, _, _ => .ok (.error e)
      | .ok _, .error e, _ => .ok (.error e)
      | .ok _, .ok _, .error e => .ok (.error e)
      | .ok p, .ok m, .ok s =>
        let sections : List (Bytes × Bytes) := [(nIndex, indexBytes)] ++ p ++ m ++ s ++ [(nResponses, respBuf)]
        let lengths : Bytes := encodeArrayHeader (sections.length * 2) ++
          (sections.map fun (n, c) => tstr n ++ encodeUint c.length).flatten
        let head : Outcome (Except WErr Bytes) :=
          match b.version with
          | .b1 =>
            match b.primaryURL with
            | none => .panic
            | some u => match encodeText u with
              | .ok t => .ok (.ok (BVer.magic .b1 ++ t))
              | .error e => .ok (.error (.enc e))
          | .b2 => .ok (.ok (BVer.magic .b2))
        match head with
        | .ok (.ok h) =>
          let body := h ++ encodeBytes lengths ++ encodeArrayHeader sections.length ++ (sections.map (·.2)).flatten
          .ok (.ok (body ++ encodeBytes (beBytes 8 (body.length + 9))))
        | other => other

/-! ### reader -/

/-- what the reader needs from `net/url.Parse(raw)`: none = error, else (fragment ≠ "", user ≠ nil, IsAbs, String()) -/
abbrev BUrlFacts := Bytes → Option (Bool × Bool × Bool × Bytes)

structure SectionOffset where
  name : Bytes
  length : Nat
  deriving Repr, Inhabited, DecidableEq

/-- Go `uint64` addition wraps -/
def w64 (n : Nat) : Nat := n % 2 ^ 64

/-- `FindSection(sos, name)`: (section, offset relative to sectionsStart); the running sum is a uint64 -/
def findSection : List SectionOffset → Bytes → Nat → Option (SectionOffset × Nat)
  | [], _, _ => none
  | so :: rest, name, off => if so.name = name then some (so, off) else findSection rest name (w64 (off + so.length))

/-- the pair loop of `decodeSectionLengthsCBOR` (`i += 2` until `n`) -/
def decodeSectionPairs : Nat → Bytes → List SectionOffset → Option (List SectionOffset)
  | 0, _, acc => some acc
  | pairs + 1, bs, acc =>
    match decodeTextString bs with
    | none => none
    | some (name, bs1) =>
      if acc.any (·.name == name) then none
      else match decodeUint bs1 with
        | none => none
        | some (len, bs2) => decodeSectionPairs pairs bs2 (acc ++ [{ name := name, length := len }])

def decodeSectionLengths (bs : Bytes) : Option (List SectionOffset) :=
  match decodeArrayHeader bs with
  | none => none
  | some (n, rest) => decodeSectionPairs ((n + 1) / 2) rest []

structure ReqEntry where
  url : Bytes          -- String() of the parsed URL
  offset : Nat         -- within the whole bundle
  length : Nat
  deriving Repr, Inhabited, DecidableEq

/-- URL checks of the index parsers: parses, no fragment, no credentials -/
def indexUrl (url : BUrlFacts) (raw : Bytes) : Option Bytes :=
  match url raw with
  | some (hasFrag, hasUser, _, str) => if hasFrag || hasUser then none else some str
  | none => none

/-- `makeRelativeToStream` (overflow-safe since fix F5) -/
def makeRelative (respLen respOff offset length : Nat) : Option (Nat × Nat) :=
  if length > respLen ∨ offset > respLen - length then none else some (w64 (respOff + offset), length)

/-- `count` (offset, length) pairs -/
def decodeLocations (respLen respOff : Nat) (u : Bytes) : Nat → Bytes → List ReqEntry → Option (List ReqEntry × Bytes)
  | 0, bs, acc => some (acc, bs)
  | k + 1, bs, acc =>
    match decodeUint bs with
    | none => none
    | some (off, bs1) =>
      match decodeUint bs1 with
      | none => none
      | some (len, bs2) =>
        match makeRelative respLen respOff off len with
        | none => none
        | some (o, l) => decodeLocations respLen respOff u k bs2 (acc ++ [{ url := u, offset := o, length := l }])

/-- the entry loop of `parseIndexSection` (b2) -/
def indexEntriesB2 (url : BUrlFacts) (respLen respOff : Nat) : Nat → Bytes → List ReqEntry → Option (List ReqEntry)
  | 0, _, acc => some acc
  | n + 1, bs, acc =>
    match decodeTextString bs with
    | none => none
    | some (raw, bs1) =>
      match indexUrl url raw with
      | none => none
      | some u =>
        match decodeArrayHeader bs1 with
        | none => none
        | some (k, bs2) =>
          if k ≠ 2 then none
          else match decodeLocations respLen respOff u 1 bs2 acc with
            | none => none
            | some (acc', bs3) => indexEntriesB2 url respLen respOff n bs3 acc'

/-- the entry loop of `parseIndexSectionWithVariants` (b1) -/
def indexEntriesB1 (url : BUrlFacts) (respLen respOff : Nat) : Nat → Bytes → List ReqEntry → Option (List ReqEntry)
  | 0, _, acc => some acc
  | n + 1, bs, acc =>
    match decodeTextString bs with
    | none => none
    | some (raw, bs1) =>
      match indexUrl url raw with
      | none => none
      | some u =>
        match decodeArrayHeader bs1 with
        | none => none
        | some (k, bs2) =>
          if k = 0 then none
          else match decodeByteString bs2 with
            | none => none
            | some (vv, bs3) =>
              if vv.isEmpty then
                if k ≠ 3 then none
                else match decodeLocations respLen respOff u 1 bs3 acc with
                  | none => none
                  | some (acc', bs4) => indexEntriesB1 url respLen respOff n bs4 acc'
              else
                match parseListOfStringLists vv with
                | none => none
                | some variants =>
                  match numberOfPossibleKeys variants 1 with
                  | none => none
                  | some num =>
                    if k ≠ 2 * num + 1 then none
                    else match decodeLocations respLen respOff u num bs3 acc with
                      | none => none
                      | some (acc', bs4) => indexEntriesB1 url respLen respOff n bs4 acc'

def parseIndex (url : BUrlFacts) (ver : BVer) (contents : Bytes) (sectionsStart : Nat) (sos : List SectionOffset) :
    Option (List ReqEntry) :=
  match decodeMapHeader contents with
  | none => none
  | some (n, bs) =>
    match findSection sos nResponses 0 with
    | none => none
    | some (respso, rel) =>
      match ver with
      | .b1 => indexEntriesB1 url respso.length (w64 (sectionsStart + rel)) n bs []
      | .b2 => indexEntriesB2 url respso.length (w64 (sectionsStart + rel)) n bs []

/-- `parsePrimarySection` / `parseManifestSection` -/
def parseUrlSection (url : BUrlFacts) (contents : Bytes) : Option Bytes :=
  match decodeTextString contents with
  | none => none
  | some (raw, _) =>
    match url raw with
    | some (hasFrag, hasUser, isAbs, str) => if !isAbs || hasFrag || hasUser then none else some str
    | none => none

def decodeVouched : Nat → Bytes → VouchedSubset → Option (VouchedSubset × Bytes)
  | 0, bs, acc => some (acc, bs)
  | n + 1, bs, acc =>
    match decodeTextString bs with
    | none => none
    | some (label, bs1) =>
      if label = kAuthority then
        match decodeUint bs1 with
        | none => none
        | some (v, bs2) => decodeVouched n bs2 { acc with authority := v }
      else if label = kSig then
        match decodeByteString bs1 with
        | none => none
        | some (v, bs2) => decodeVouched n bs2 { acc with sig := v }
      else if label = kSigned then
        match decodeByteString bs1 with
        | none => none
        | some (v, bs2) => decodeVouched n bs2 { acc with signed := v }
      else none

def decodeVouchedList : Nat → Bytes → List VouchedSubset → Option (List VouchedSubset)
  | 0, _, acc => some acc
  | k + 1, bs, acc =>
    match decodeMapHeader bs with
    | none => none
    | some (n, bs1) =>
      if n ≠ 3 then none
      else match decodeVouched 3 bs1 { authority := 0, sig := [], signed := [] } with
        | none => none
        | some (vs, bs2) => decodeVouchedList k bs2 (acc ++ [vs])

/-- `parseSignaturesSection` -/
def parseSignatures (parseOk : Bytes → Bool) (contents : Bytes) : Option Sigs :=
  match decodeArrayHeader contents with
  | none => none
  | some (two, bs) =>
    if two ≠ 2 then none
    else match decodeArrayHeader bs with
      | none => none
      | some (na, bs1) =>
        match CertChain.decodeCerts parseOk na bs1 [] with
        | none => none
        | some (auths, bs2) =>
          match decodeArrayHeader bs2 with
          | none => none
          | some (nv, bs3) =>
            match decodeVouchedList nv bs3 [] with
            | none => none
            | some subs => some { authorities := auths, subsets := subs }

structure Meta where
  version : BVer
  primaryURL : Option Bytes
  manifestURL : Option Bytes
  signatures : Option Sigs
  requests : List ReqEntry
  deriving Repr, Inhabited

/-- `ParseMagicBytes` -/
def parseMagic (bs : Bytes) : Option (BVer × Bytes) :=
  if bs.length < 10 then none
  else
    let hm := bs.take 10
    if hm ≠ headerMagicB1 ∧ hm ≠ headerMagicB2 then none
    else
      let bs1 := bs.drop 10
      if bs1.length < 5 then none
      else
        let vm := bs1.take 5
        if vm = versionMagicB1 then (if hm = headerMagicB1 then some (.b1, bs1.drop 5) else none)
        else if vm = versionMagicB2 then (if hm = headerMagicB2 then some (.b2, bs1.drop 5) else none)
        else none

def knownSection (n : Bytes) : Bool := n == nIndex || n == nManifest || n == nPrimary || n == nSignatures || n == nResponses

/-- the section loop of `loadMetadata`; `total` = len(bs). `.panic` = slice bounds violation of `bs[offset:end]`. -/
def sectionLoop (url : BUrlFacts) (parseOk : Bytes → Bool) (ver : BVer) (bs : Bytes) (sectionsStart : Nat)
    (sos : List SectionOffset) : List SectionOffset → Nat → Meta → Outcome Meta
  | [], _, m => .ok m
  | so :: rest, offset, m =>
    if !knownSection so.name then sectionLoop url parseOk ver bs sectionsStart sos rest (w64 (offset + so.length)) m
    else if so.name = nResponses then sectionLoop url parseOk ver bs sectionsStart sos rest offset m
    else if bs.length ≤ offset then .error
    else
      let end_ := w64 (offset + so.length)
      if bs.length ≤ end_ then .error
      else if end_ < offset ∨ bs.length < end_ then .panic          -- bs[offset:end]
      else
        let contents := (bs.drop offset).take so.length
        if so.name = nIndex then
          match parseIndex url ver contents sectionsStart sos with
          | none => .error
          | some reqs => sectionLoop url parseOk ver bs sectionsStart sos rest end_ { m with requests := reqs }
        else if so.name = nPrimary then
          match parseUrlSection url contents with
          | none => .error
          | some u => sectionLoop url parseOk ver bs sectionsStart sos rest end_ { m with primaryURL := some u }
        else if so.name = nManifest then
          match parseUrlSection url contents with
          | none => .error
          | some u => sectionLoop url parseOk ver bs sectionsStart sos rest end_ { m with manifestURL := some u }
        else
          match parseSignatures parseOk contents with
          | none => .error
          | some s => sectionLoop url parseOk ver bs sectionsStart sos rest end_ { m with signatures := some s }

/-- sections must fit in the bundle (fix F5) -/
def sectionsFit : List SectionOffset → Nat → Bool
  | [], _ => true
  | so :: rest, remaining => if so.length > remaining then false else sectionsFit rest (remaining - so.length)

/-- `loadMetadata(bs)` -/
def loadMetadata (url : BUrlFacts) (parseOk : Bytes → Bool) (bs : Bytes) : Outcome Meta :=
  match parseMagic bs with
  | none => .error
  | some (ver, r0) =>
    let fb : Option (Option Bytes × Bytes) :=
      match ver with
      | .b1 =>
        match decodeTextString r0 with
        | none => none
        | some (raw, r1) =>
          match url raw with
          | some (_, _, _, str) => some (some str, r1)
          | none => none
      | .b2 => some (none, r0)
    match fb with
    | none => .error
    | some (fallback, r1) =>
      match decodeByteString r1 with
      | none => .error
      | some (slbytes, r2) =>
        if slbytes.length ≥ 8192 then .error
        else match decodeSectionLengths slbytes with
          | none => .error
          | some sos =>
            match decodeArrayHeader r2 with
            | none => .error
            | some (numSections, r3) =>
              if numSections ≠ sos.length then .error
              else
                let sectionsStart := bs.length - r3.length
                if sos.isEmpty ∨ (sos.getLast?.map (·.name)) ≠ some nResponses then .error
                else if !sectionsFit sos (bs.length - sectionsStart) then .error
                else sectionLoop url parseOk ver bs sectionsStart sos sos sectionsStart
                  { version := ver, primaryURL := fallback, manifestURL := none, signatures := none, requests := [] }

/-- the entry loop of `decodeCborHeaders`: (headers, pseudos) -/
def decodeHeaderEntries : Nat → Bytes → Headers → List (Bytes × Bytes) → Option (Headers × List (Bytes × Bytes))
  | 0, _, h, p => some (h, p)
  | n + 1, bs, h, p =>
    match decodeByteString bs with
    | none => none
    | some (name, bs1) =>
      match decodeByteString bs1 with
      | none => none
      | some (value, bs2) =>
        if !isAscii name || !isAscii value then none
        else if lowerAscii name ≠ name then none
        else if name.head? = some 58 then
          if p.any (·.1 == name) then none else decodeHeaderEntries n bs2 h (p ++ [(name, value)])
        else if h.any (·.1 == canonicalKey name) then none
        else decodeHeaderEntries n bs2 (h ++ [(canonicalKey name, [value])]) p

def isStatus3 (s : Bytes) : Bool := s.length == 3 && s.all SH.isDigit

/-- `loadResponse(req, bs)`; `.panic` = slice bounds violation of `bs[req.Offset : req.Offset+req.Length]` -/
def loadResponse (req : ReqEntry) (bs : Bytes) : Outcome Resp :=
  let hi := w64 (req.offset + req.length)
  if hi < req.offset ∨ bs.length < hi then .panic          -- bs[req.Offset : req.Offset+req.Length]
  else
    let r := (bs.drop req.offset).take req.length
    match r with
    | [] => .error
    | b :: r1 =>
      if b ≠ 0x82 then .error
      else match decodeByteString r1 with
        | none => .error
        | some (hdrBytes, r2) =>
          match decodeMapHeader hdrBytes with
          | none => .error
          | some (n, hb) =>
            match decodeHeaderEntries n hb [] [] with
            | none => .error
            | some (headers, pseudos) =>
              match pseudos with
              | [(k, status)] =>
                if k ≠ Sxg.keyStatus then .error
                else if !isStatus3 status then .error
                else match decodeByteString r2 with
                  | none => .error
                  | some (body, r3) =>
                    if r3.length ≠ 0 then .error
                    else .ok { status := SH.digitsVal status, headers := headers, body := body }
              | _ => .error

def loadResponses (bs : Bytes) : List ReqEntry → List Exch → Outcome (List Exch)
  | [], acc => .ok acc
  | req :: rest, acc =>
    match loadResponse req bs with
    | .ok r => loadResponses bs rest (acc ++ [{ url := req.url, resp := r }])
    | .error => .error
    | .panic => .panic

/-- `bundle.Read(r)` -/
def read (url : BUrlFacts) (parseOk : Bytes → Bool) (bs : Bytes) : Outcome Bundle :=
  match loadMetadata url parseOk bs with
  | .error => .error
  | .panic => .panic
  | .ok m =>
    match loadResponses bs m.requests [] with
    | .error => .error
    | .panic => .panic
    | .ok es => .ok { version := m.version, primaryURL := m.primaryURL, exchanges := es, manifestURL := m.manifestURL,
                      signatures := m.signatures }

end WebPkg.Bundle
