import WebPkg.Model.Basic
import WebPkg.Model.Utf8
/-
  Model of go/internal/cbor: encoder.go, decoder.go (transcribed function by function).
  Major types are numbers 0..7; the Go constants TypePosInt.. are `32 * mt`.
-/
namespace WebPkg.Cbor

/-- encoder.go `encodeTypedUint(t, n)`: the bytes handed to the writer (one Write call). -/
def encodeHead (mt : Nat) (n : Nat) : Bytes :=
  if n < 24 then [UInt8.ofNat (32 * mt + n)]
  else if n < 2 ^ 8 then UInt8.ofNat (32 * mt + 24) :: beBytes 1 n
  else if n < 2 ^ 16 then UInt8.ofNat (32 * mt + 25) :: beBytes 2 n
  else if n < 2 ^ 32 then UInt8.ofNat (32 * mt + 26) :: beBytes 4 n
  else UInt8.ofNat (32 * mt + 27) :: beBytes 8 n

def encodeUint (n : Nat) : Bytes := encodeHead 0 n

/-- `EncodeInt(n int64)`: `uint64(-n)-1` is computed in uint64 arithmetic (correct for MinInt64). -/
def encodeInt (z : Int) : Bytes :=
  if 0 ≤ z then encodeHead 0 z.toNat else encodeHead 1 ((-z).toNat - 1)

def encodeBytes (bs : Bytes) : Bytes := encodeHead 2 bs.length ++ bs

inductive EncErr where
  | invalidUtf8
  | duplicatedKey
  deriving Repr, DecidableEq

def encodeText (s : Bytes) : Except EncErr Bytes :=
  if utf8Valid s then .ok (encodeHead 3 s.length ++ s) else .error .invalidUtf8

def encodeArrayHeader (n : Nat) : Bytes := encodeHead 4 n
def encodeMapHeader (n : Nat) : Bytes := encodeHead 5 n
def encodeBool (b : Bool) : Bytes := [if b then 0xf5 else 0xf4]

abbrev Entry := Bytes × Bytes

def entryLe (a b : Entry) : Bool := ble a.1 b.1

/-- the `sort.Slice` step of `EncodeMap` (any correct sort gives the same list when keys are
    distinct: `Proofs.Sort.sort_perm_eq`) -/
def sortEntries (es : List Entry) : List Entry := es.mergeSort entryLe

/-- adjacent-duplicate scan of `EncodeMap` -/
def hasAdjDup : List Entry → Bool
  | a :: b :: rest => a.1 == b.1 || hasAdjDup (b :: rest)
  | _ => false

/-- `EncodeMap(mes)` where every entry is the pair of already-encoded (key, value) buffers.
    On `ErrDuplicatedKey` Go has already written the header and a prefix of the entries; only the
    error is modelled here (the partial output is in `Trace`). -/
def encodeMap (es : List Entry) : Except EncErr Bytes :=
  let sorted := sortEntries es
  if hasAdjDup sorted then .error .duplicatedKey
  else .ok (encodeMapHeader es.length ++ (sorted.map fun e => e.1 ++ e.2).flatten)

/-! ### decoder.go -/

/-- number of bytes following the initial byte for additional information `ai`;
    `none` for the reserved / indefinite values 28..31 (rejected since fix F2). -/
def nfollow (ai : Nat) : Option Nat :=
  if ai < 24 then some 0
  else if ai = 24 then some 1
  else if ai = 25 then some 2
  else if ai = 26 then some 4
  else if ai = 27 then some 8
  else none

/-- the part of `decodeTypedUint` after the initial byte has been split into (mt, ai) -/
def decodeArg (mt ai : Nat) (rest : Bytes) : Option (Nat × Nat × Bytes) :=
  match nfollow ai with
  | none => none
  | some 0 => some (mt, ai, rest)
  | some k =>
    if rest.length < k then none
    else some (mt, beVal (rest.take k), rest.drop k)

/-- `decodeTypedUint`: returns (major type, argument, rest of input). -/
def decodeHead : Bytes → Option (Nat × Nat × Bytes)
  | [] => none
  | b :: rest => decodeArg (b.toNat / 32) (b.toNat % 32) rest

/-- `decodeOfType(expected)` -/
def decodeOfType (expected : Nat) (bs : Bytes) : Option (Nat × Bytes) :=
  match decodeHead bs with
  | some (mt, n, rest) => if mt = expected then some (n, rest) else none
  | none => none

def decodeUint := decodeOfType 0
def decodeArrayHeader := decodeOfType 4
def decodeMapHeader := decodeOfType 5

/-- `decodeBytesOfType`: `io.CopyN(buf, r, int64(n))`; lengths above MaxInt64 rejected (fix F3). -/
def decodeBytesOfType (expected : Nat) (bs : Bytes) : Option (Bytes × Bytes) :=
  match decodeOfType expected bs with
  | some (n, rest) =>
    if 2 ^ 63 ≤ n then none
    else if rest.length < n then none
    else some (rest.take n, rest.drop n)
  | none => none

def decodeByteString := decodeBytesOfType 2

def decodeTextString (bs : Bytes) : Option (Bytes × Bytes) :=
  match decodeBytesOfType 3 bs with
  | some (s, rest) => if utf8Valid s then some (s, rest) else none
  | none => none

end WebPkg.Cbor
