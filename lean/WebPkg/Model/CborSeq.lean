import WebPkg.Model.Cbor
/-
  Sequences of calls on one `cbor.Encoder` (encoder.go), maps nested to any depth: what the stream holds afterwards.
  An accepted call appends its bytes; a refused call (invalid UTF-8 text, map with two equal keys) appends nothing and the
  sequence goes on. This is the function the correspondence op `cbor.enc.cont` runs against the real encoder; the theorems about
  it are in Properties/C11Seq.lean.
-/
namespace WebPkg.CborSeq
open WebPkg WebPkg.Cbor

/-! ## 1. encoder calls and their semantics -/

/-- One call on a `cbor.Encoder`.  A map call carries, for each entry, the sequence of calls the
    caller makes on the entry's key encoder and on its value encoder (`GenerateMapEntry`); these are
    sequences of arbitrary calls again (nested inductive through `List` and `Prod`). -/
inductive Call where
  | uint (n : Nat)
  | int (z : Int)
  | bytes (b : Bytes)
  | text (s : Bytes)
  | arrayHeader (n : Nat)
  | bool (b : Bool)
  | map (entries : List (List Call × List Call))

mutual
/-- one call on the encoder: the bytes appended to the stream, or the error (nothing appended) -/
def encodeCall : Call → Except EncErr Bytes
  | .uint n => .ok (encodeUint n)
  | .int z => .ok (encodeInt z)
  | .bytes b => .ok (encodeBytes b)
  | .text s => encodeText s
  | .arrayHeader n => .ok (encodeArrayHeader n)
  | .bool b => .ok (encodeBool b)
  | .map es => encodeMap (runEntries es)
/-- the stream after a sequence of calls on one encoder (as `Driver.runCalls` / `cbor.enc.cont`):
    an accepted call appends its bytes, a refused call appends nothing and the sequence goes on -/
def run : List Call → Bytes
  | [] => []
  | c :: cs => (match encodeCall c with | .ok bs => bs | .error _ => []) ++ run cs
/-- the key and value buffers of the entries handed to `EncodeMap` (same rule inside them) -/
def runEntries : List (List Call × List Call) → List Entry
  | [] => []
  | (k, v) :: es => (run k, run v) :: runEntries es
end

end WebPkg.CborSeq
