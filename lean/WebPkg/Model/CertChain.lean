import WebPkg.Model.Cbor
/-
  Model of go/signedexchange/certurl/certchain.go (CBOR part) and sct.go `SerializeSCTList`.
  `x509.ParseCertificate` is the parameter `parseOk` (with `Raw = input`, trusted stdlib behaviour).
-/
namespace WebPkg.CertChain
open WebPkg.Cbor

structure AugCert where
  cert : Bytes                 -- DER (`Cert.Raw`)
  ocsp : Option Bytes
  sct : Option Bytes
  deriving DecidableEq, Repr, Inhabited

def magic : Bytes := [0xF0, 0x9F, 0x93, 0x9C, 0xE2, 0x9B, 0x93]   -- "📜⛓"
def kCert : Bytes := [99, 101, 114, 116]   -- "cert"
def kOcsp : Bytes := [111, 99, 115, 112]   -- "ocsp"
def kSct : Bytes := [115, 99, 116]   -- "sct"

def textItem (s : Bytes) : Bytes := encodeHead 3 s.length ++ s

/-- `Validate()` -/
def validate : List AugCert → Bool
  | [] => false
  | first :: rest => first.ocsp.isSome && rest.all (fun a => a.ocsp.isNone)

/-- `AugmentedCertificate.EncodeTo` -/
def encodeAugCert (a : AugCert) : Except EncErr Bytes :=
  encodeMap ([(textItem kCert, encodeBytes a.cert)] ++
    (match a.ocsp with | some o => [(textItem kOcsp, encodeBytes o)] | none => []) ++
    (match a.sct with | some s => [(textItem kSct, encodeBytes s)] | none => []))

def encodeAll : List AugCert → Except EncErr Bytes
  | [] => .ok []
  | a :: rest => do
    let x ← encodeAugCert a
    let r ← encodeAll rest
    pure (x ++ r)

/-- `CertChain.Write`; `none` = refused (invalid chain) -/
def write (chain : List AugCert) : Option Bytes :=
  if !validate chain then none
  else match encodeAll chain with
    | .ok body => some (encodeArrayHeader (chain.length + 1) ++ textItem magic ++ body)
    | .error _ => none

/-- the entry loop of `DecodeAugmentedCertificateFrom` -/
def decodeEntries (parseOk : Bytes → Bool) : Nat → Bytes → (Option Bytes × Option Bytes × Option Bytes) →
    Option ((Option Bytes × Option Bytes × Option Bytes) × Bytes)
  | 0, bs, acc => some (acc, bs)
  | n + 1, bs, acc =>
    match decodeTextString bs with
    | none => none
    | some (key, bs1) =>
      match decodeByteString bs1 with
      | none => none
      | some (value, bs2) =>
        if key = kCert then (if parseOk value then decodeEntries parseOk n bs2 (some value, acc.2.1, acc.2.2) else none)
        else if key = kOcsp then decodeEntries parseOk n bs2 (acc.1, some value, acc.2.2)
        else if key = kSct then decodeEntries parseOk n bs2 (acc.1, acc.2.1, some value)
        else decodeEntries parseOk n bs2 acc

def decodeAugCert (parseOk : Bytes → Bool) (bs : Bytes) : Option (AugCert × Bytes) :=
  match decodeMapHeader bs with
  | none => none
  | some (m, bs1) =>
    match decodeEntries parseOk m bs1 (none, none, none) with
    | some ((some c, o, s), rest) => some ({ cert := c, ocsp := o, sct := s }, rest)
    | _ => none

def decodeCerts (parseOk : Bytes → Bool) : Nat → Bytes → List AugCert → Option (List AugCert × Bytes)
  | 0, bs, acc => some (acc, bs)
  | n + 1, bs, acc =>
    match decodeAugCert parseOk bs with
    | none => none
    | some (a, rest) => decodeCerts parseOk n rest (acc ++ [a])

/-- `ReadCertChain(r)` -/
def read (parseOk : Bytes → Bool) (bs : Bytes) : Option (List AugCert) :=
  match decodeArrayHeader bs with
  | none => none
  | some (n, bs1) =>
    if n < 2 then none
    else match decodeTextString bs1 with
      | none => none
      | some (m, bs2) =>
        if m ≠ magic then none
        else match decodeCerts parseOk (n - 1) bs2 [] with
          | none => none
          | some (chain, _) => if validate chain then some chain else none

/-- `SerializeSCTList(scts)` -/
def serializeSCTList (scts : List Bytes) : Option Bytes :=
  if scts.any (fun s => s.length > 65535) then none
  else
    let total := (scts.map fun s => s.length + 2).sum
    if total > 65535 then none
    else some (beBytes 2 total ++ (scts.map fun s => beBytes 2 s.length ++ s).flatten)

end WebPkg.CertChain
