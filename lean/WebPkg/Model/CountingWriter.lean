import WebPkg.Model.Basic
/-
  Model of go/bundle/countingwriter.go: `CountingWriter.Write` and `CountingWriter.ReadFrom` over three kinds of
  destination: one that implements io.ReaderFrom (bytes.Buffer), one that does not, and one that fails after
  accepting `k` more bytes (delivering the fault either as a short write with error or as an error with n = 0).
  Data is abstracted to byte counts: the property is about accounting.
-/
namespace WebPkg.CW

inductive DestKind where
  | readerFrom           -- *bytes.Buffer: ReadFrom drains the source itself
  | plain                -- accepts everything, no ReadFrom
  | failing (short : Bool)   -- accepts `room` more bytes, then fails
  deriving Repr, DecidableEq

structure State where
  kind : DestKind
  room : Nat             -- only for `failing`
  received : Nat         -- bytes the destination accepted so far
  written : Nat          -- CountingWriter.Written
  deriving Repr, DecidableEq

/-- destination `Write(p)` with `len(p) = n`: (bytes accepted, failed?) and the new state -/
def destWrite (s : State) (n : Nat) : Nat × Bool × State :=
  match s.kind with
  | .failing short =>
    if n ≤ s.room then (n, false, { s with room := s.room - n, received := s.received + n })
    else if short then (s.room, true, { s with room := 0, received := s.received + s.room })
    else (0, true, s)
  | _ => (n, false, { s with received := s.received + n })

/-- `cw.Write(p)`: returns (n, err) -/
def write (s : State) (n : Nat) : Nat × Bool × State :=
  let (k, err, s') := destWrite s n
  (k, err, { s' with written := s'.written + k })

/-- the fallback copy loop of `ReadFrom`: the source yields `chunk` bytes per Read (at most 32 KiB fit the buffer) -/
def copyLoop : Nat → State → Nat → Nat → Nat → Nat × Bool × State
  | 0, s, _, _, n => (n, false, s)
  | fuel + 1, s, remaining, chunk, n =>
    if remaining = 0 then (n, false, s)
    else
      let nr := min (min chunk 32768) remaining
      if nr = 0 then (n, false, s)       -- a source that returns (0, nil) forever is not modelled
      else
        let (nw, err, s') := destWrite s nr
        let s'' := { s' with written := s'.written + nw }
        if err then (n + nw, true, s'')
        else if nw < nr then (n + nw, true, s'')
        else copyLoop fuel s'' (remaining - nr) chunk (n + nw)

/-- `cw.ReadFrom(r)` for a source of `total` bytes delivered `chunk` at a time -/
def readFrom (s : State) (total chunk : Nat) : Nat × Bool × State :=
  match s.kind with
  | .readerFrom => (total, false, { s with received := s.received + total, written := s.written + total })
  | _ => copyLoop (total + 1) s total chunk 0

inductive Op where
  | write (n : Nat)
  | readFrom (total chunk : Nat)
  deriving Repr, DecidableEq

def step (s : State) : Op → State
  | .write n => (write s n).2.2
  | .readFrom t c => (readFrom s t c).2.2

def init (k : DestKind) (room : Nat) : State := { kind := k, room := room, received := 0, written := 0 }

end WebPkg.CW
