import WebPkg.Model.Basic
/-
  Model of go/internal/cbor/deterministic.go + addinfo.go (after fix F4: the uint64 lengths and
  counts are compared before being converted to `int`).  Slices `input[i:]` are the remaining
  bytes; every index / slice expression of the Go code appears with its bounds condition and
  yields `.panic` when violated (the repository's tests require those panics).
-/
namespace WebPkg.Det

/-- `getAdditionalInfoLength` for ai 24..27 -/
def aiLength (ai : Nat) : Nat := if ai = 24 then 1 else if ai = 25 then 2 else if ai = 26 then 4 else 8

/-- `getAdditionalInfoValueLowerLimit` for ai 24..27 -/
def aiLowerLimit (ai : Nat) : Nat :=
  if ai = 24 then 24 else if ai = 25 then 256 else if ai = 26 then 2 ^ 16 else 2 ^ 32

/-- `unsignedIntegerDeterministic(input)`: (number of bytes after the initial byte, value). -/
def uintDet : Bytes → Outcome (Nat × Nat)
  | [] => .panic                                  -- input[0]
  | b :: rest =>
    let ai := b.toNat % 32
    if 28 ≤ ai then .error                        -- reserved / indefinite
    else if ai < 24 then .ok (0, ai)
    else
      let k := aiLength ai
      if rest.length < k then .panic              -- input[1], BigEndian.UintNN(input[1:])
      else
        let v := beVal (rest.take k)
        if v < aiLowerLimit ai then .error else .ok (k, v)

mutual
/-- `deterministicRec(input)`: number of bytes of the first item. -/
def detRec (input : Bytes) : Outcome Nat :=
  match input with
  | [] => .panic                                  -- input[0]
  | b :: rest =>
    let mt := b.toNat / 32
    if mt = 0 then
      match uintDet (b :: rest) with
      | .ok (l, _) => .ok (l + 1)
      | .error => .error
      | .panic => .panic
    else if mt = 2 ∨ mt = 3 then
      -- textOrByteStringDeterministic
      match uintDet (b :: rest) with
      | .ok (uintLen, stringLen) =>
        if (b :: rest).length ≤ stringLen then .panic
        else if (b :: rest).length ≤ uintLen + stringLen then .panic
        else .ok (uintLen + stringLen + 1)
      | .error => .error
      | .panic => .panic
    else if mt = 4 then
      match uintDet (b :: rest) with
      | .ok (l, n) =>
        match arrLoop n (rest.drop l) with
        | .ok c => .ok (1 + l + c)
        | .error => .error
        | .panic => .panic
      | .error => .error
      | .panic => .panic
    else if mt = 5 then
      match uintDet (b :: rest) with
      | .ok (l, n) =>
        match mapLoop n [] (rest.drop l) with
        | .ok c => .ok (1 + l + c)
        | .error => .error
        | .panic => .panic
      | .error => .error
      | .panic => .panic
    else .error
termination_by (input.length, 0)
decreasing_by
  all_goals simp_wf
  all_goals (apply Prod.Lex.left; omega)

/-- the element loop of `arrayDeterministic`: `count` items expected in `rem`; bytes consumed. -/
def arrLoop (count : Nat) (rem : Bytes) : Outcome Nat :=
  match count with
  | 0 => .ok 0
  | c + 1 =>
    if rem.length = 0 then .panic                 -- startIndexOfNextElement >= len(input)
    else
      match detRec rem with
      | .ok l =>
        match arrLoop c (rem.drop l) with
        | .ok r => .ok (l + r)
        | .error => .error
        | .panic => .panic
      | .error => .error
      | .panic => .panic
termination_by (rem.length, count + 1)
decreasing_by
  all_goals simp_wf
  · apply Prod.Lex.right; omega
  · rw [Prod.lex_def]; simp; omega

/-- the loop of `mapDeterministic`, two items (key, value) per round; `last` = lastSeenKey. -/
def mapLoop (pairs : Nat) (last : Bytes) (rem : Bytes) : Outcome Nat :=
  match pairs with
  | 0 => .ok 0
  | c + 1 =>
    if rem.length = 0 then .panic
    else
      match detRec rem with
      | .ok kl =>
        let key := rem.take kl
        if last = key then .error                 -- duplicate keys
        else if !(ble last key) then .error       -- not in lexicographical order
        else
          let rem' := rem.drop kl
          if rem'.length = 0 then .panic
          else
            match detRec rem' with
            | .ok vl =>
              match mapLoop c key (rem'.drop vl) with
              | .ok r => .ok (kl + vl + r)
              | .error => .error
              | .panic => .panic
            | .error => .error
            | .panic => .panic
      | .error => .error
      | .panic => .panic
termination_by (rem.length, pairs + 1)
decreasing_by
  all_goals simp_wf
  · apply Prod.Lex.right; omega
  · rw [Prod.lex_def]; simp; omega
  · rw [Prod.lex_def]; simp; omega
end

/-- `Deterministic(input)`: the top-level loop over a CBOR sequence. The `l = 0` branch is dead
    (`Proofs.Deterministic.detRec_pos`); it is what remains of the pre-fix non-termination. -/
def seqLoop (rem : Bytes) : Outcome Unit :=
  if _h : rem.length = 0 then .ok ()
  else
    match detRec rem with
    | .ok l => if l = 0 then .panic else seqLoop (rem.drop l)
    | .error => .error
    | .panic => .panic
termination_by rem.length
decreasing_by simp; omega

def deterministic (input : Bytes) : Outcome Unit := seqLoop input

end WebPkg.Det
