import WebPkg.Model.PathUrl
/-
  Model of cmd/gen-bundle/fromdir.go `fromDir`: the `filepath.Walk` over a directory tree that creates one
  exchange per visited path through `http.ServeFile`.
-/
namespace WebPkg.DirWalk
open WebPkg.PathUrl

/-! ## Model -/
section Model

/-- a file-system tree; the children of a directory are listed in the order `filepath.Walk` visits them
    (sorted by name) -/
inductive Node where
  | file (content : Bytes)
  | dir (children : List (Bytes × Node))

/-- what `http.ServeFile` answered: 200 with a body, or the 301 `Location: ./` redirect -/
inductive Kind where
  | body (content : Bytes)
  | redirect
  deriving DecidableEq, Repr

structure Exch where
  url : Bytes
  kind : Kind
  deriving DecidableEq, Repr

/-- "index.html" -/
def idx : Bytes := [105, 110, 100, 101, 120, 46, 104, 116, 109, 108]

/-- `filepath.Join` of the walk-relative path of a directory and a child name (`.` is the root) -/
def join (rel name : Bytes) : Bytes := if rel = [46] then name else rel ++ [47] ++ name

/-- the part of a slash-separated path after the last `/` -/
def basename (p : Bytes) : Bytes := (p.reverse.takeWhile (· != 47)).reverse

/-- the part of a slash-separated path up to and including the last `/` (empty when there is none) -/
def dirPrefix (p : Bytes) : Bytes := (p.reverse.dropWhile (· != 47)).reverse

/-- `path.Dir` for clean relative paths: everything before the last `/`, or `.` -/
def dirname (p : Bytes) : Bytes := if dirPrefix p = [] then [46] else (dirPrefix p).dropLast

/-- fromdir.go: `if !strings.HasSuffix(url, "/") { url += "/" }` applied to the directory's URL -/
def dirURL (base d : Bytes) : Bytes :=
  if (pathToURL base d).getLast? = some 47 then pathToURL base d else pathToURL base d ++ [47]

/-- `os.Stat(filepath.Join(path, "index.html"))` followed by ServeFile's "use contents of index.html":
    the bytes of the child called index.html. (A *directory* called index.html makes ServeFile emit a
    directory listing; that is outside the model — here it yields no exchange — and excluded by `WF`.) -/
def indexOf : List (Bytes × Node) → Option Bytes
  | [] => none
  | (n, t) :: rest =>
    if n = idx then (match t with | .file c => some c | .dir _ => none) else indexOf rest

/-- the exchange (if any) created when the walk visits a directory at `rel` with children `cs` -/
def dirExch (base rel : Bytes) (cs : List (Bytes × Node)) : List Exch :=
  match indexOf cs with
  | some c => [⟨dirURL base rel, .body c⟩]
  | none => []

mutual
/-- the exchanges `fromDir` appends while `filepath.Walk` is inside the node at relative path `rel` -/
def walk (base rel : Bytes) : Node → List Exch
  | .file c => [⟨pathToURL base rel, if basename rel = idx then .redirect else .body c⟩]
  | .dir cs => dirExch base rel cs ++ walkChildren base rel cs
def walkChildren (base rel : Bytes) : List (Bytes × Node) → List Exch
  | [] => []
  | (n, t) :: rest => walk base (join rel n) t ++ walkChildren base rel rest
end

mutual
/-- specification side: every regular file below the node at `rel`, as (relative path, content) -/
def filesAt (rel : Bytes) : Node → List (Bytes × Bytes)
  | .file c => [(rel, c)]
  | .dir cs => filesChildren rel cs
def filesChildren (rel : Bytes) : List (Bytes × Node) → List (Bytes × Bytes)
  | [] => []
  | (n, t) :: rest => filesAt (join rel n) t ++ filesChildren rel rest
end

def files (t : Node) : List (Bytes × Bytes) := filesAt [46] t

/-- the exchanges the specification asks for, for one regular file -/
def specExch (base : Bytes) (pc : Bytes × Bytes) : List Exch :=
  if basename pc.1 = idx then
    [⟨pathToURL base pc.1, .redirect⟩, ⟨dirURL base (dirname pc.1), .body pc.2⟩]
  else [⟨pathToURL base pc.1, .body pc.2⟩]

def Node.isFile : Node → Bool
  | .file _ => true
  | .dir _ => false

mutual
/-- `P` holds of the children list of every directory in the tree -/
def Node.allDirs (P : List (Bytes × Node) → Bool) : Node → Bool
  | .file _ => true
  | .dir cs => P cs && allDirsChildren P cs
def allDirsChildren (P : List (Bytes × Node) → Bool) : List (Bytes × Node) → Bool
  | [] => true
  | (_, t) :: rest => t.allDirs P && allDirsChildren P rest
end

/-- a legal file name: non-empty, no `/`, not `.` or `..` -/
def nameOK (n : Bytes) : Bool := n != [] && !n.contains 47 && n != [46] && n != [46, 46]

/-- at most one child is called index.html, and it is a regular file -/
def idxOK (cs : List (Bytes × Node)) : Bool :=
  (cs.filter (·.1 == idx)).length ≤ 1 && cs.all (fun p => p.1 != idx || p.2.isFile)

/-- weak per-directory well-formedness: no `/` inside names; index.html unique and a regular file -/
def dirOK1 (cs : List (Bytes × Node)) : Bool := cs.all (fun p => !p.1.contains 47) && idxOK cs

/-- per-directory well-formedness: legal names, pairwise distinct, no directory called index.html -/
def dirOK (cs : List (Bytes × Node)) : Bool :=
  cs.all (fun p => nameOK p.1) && decide (cs.map (·.1)).Nodup && cs.all (fun p => p.1 != idx || p.2.isFile)

/-- what theorem 1 and 4 need -/
def WF1 (t : Node) : Prop := t.allDirs dirOK1 = true

/-- well-formed file-system tree -/
def WF (t : Node) : Prop := t.allDirs dirOK = true

instance (t : Node) : Decidable (WF t) := by unfold WF; infer_instance
instance (t : Node) : Decidable (WF1 t) := by unfold WF1; infer_instance

end Model

end WebPkg.DirWalk
