import WebPkg.Model.Basic
/-
  Go `time.Time` values without monotonic reading, as created by `time.Unix(sec, nsec)`:
  internal seconds since year 1 (int64, wrapping on construction) and nanoseconds.
  Transcribed from go1.23 src/time/time.go: Unix/unixTime, Before, After, Equal, Add/addSec
  (saturating), Sub (wrapping Duration arithmetic + overflow check).
-/
namespace WebPkg.GoTime

def unixToInternal : Int := 62135596800

/-- two's-complement wrap to int64 -/
def wrapS64 (z : Int) : Int := (z + 2 ^ 63) % 2 ^ 64 - 2 ^ 63

structure T where
  isec : Int
  nsec : Int
  deriving DecidableEq, Repr

/-- `time.Unix(sec, nsec)` for `0 ≤ nsec < 1e9` -/
def ofUnix (sec nsec : Int) : T := ⟨wrapS64 (sec + unixToInternal), nsec⟩

def before (a b : T) : Bool := decide (a.isec < b.isec) || (decide (a.isec = b.isec) && decide (a.nsec < b.nsec))
def after (a b : T) : Bool := before b a

def maxDuration : Int := 2 ^ 63 - 1
def minDuration : Int := -(2 ^ 63)

/-- `t.Add(d)` -/
def add (t : T) (d : Int) : T :=
  let dsec0 := Int.tdiv d 1000000000
  let n0 := t.nsec + Int.tmod d 1000000000
  let (dsec, n) := if n0 ≥ 1000000000 then (dsec0 + 1, n0 - 1000000000) else if n0 < 0 then (dsec0 - 1, n0 + 1000000000) else (dsec0, n0)
  -- addSec: saturating
  let sum := wrapS64 (t.isec + dsec)
  let ext := if (decide (sum > t.isec)) == (decide (dsec > 0)) then sum else if dsec > 0 then 2 ^ 63 - 1 else -(2 ^ 63 - 1)
  ⟨ext, n⟩

/-- `t.Sub(u)` in nanoseconds -/
def sub (t u : T) : Int :=
  let d := wrapS64 ((t.isec - u.isec) * 1000000000 + (t.nsec - u.nsec))
  if add u d = t then d else if before t u then minDuration else maxDuration

end WebPkg.GoTime
