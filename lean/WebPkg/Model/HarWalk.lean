import WebPkg.Model.Bundle
import WebPkg.Model.SxgVerify
/-
  Model of cmd/gen-bundle/fromhar.go: `nvpToHeader`, `contentToBody` (as a parameter: the decoded body or a
  decode error) and the loop of `fromHar` over `har.Log.Entries` with its `hasVariants` map.

  What is a parameter (stdlib, computed by the harness and handed to the model as data):
    * `encoding/json` + `hargo.Har`: the HAR file arrives as the list of `Entry` records below;
    * `url.Parse(e.Request.URL)` and `parsedUrl.String()`: `Entry.key` (`none` = parse error);
    * `base64.StdEncoding.DecodeString`: `Entry.body` (`none` = decode error).
  Everything else (order of the checks, which errors abort the run and which drop the entry, the
  header filters, `http.Header.Add`, the duplicate-URL rule) is transcribed.
-/
namespace WebPkg.HarWalk
open WebPkg WebPkg.Http

structure Entry where
  /-- `String()` of the parsed request URL; `none` when `url.Parse` fails -/
  key : Option Bytes
  method : Bytes
  /-- `e.Response.Status` (a Go `int` decoded from JSON) -/
  status : Int
  /-- request / response header name-value pairs in HAR order -/
  reqH : List (Bytes × Bytes)
  resH : List (Bytes × Bytes)
  /-- `contentToBody`: the text, or its base64 decoding; `none` when the decoding fails -/
  body : Option Bytes
  deriving Repr, Inhabited

/-- "GET" -/
def methodGet : Bytes := [71, 69, 84]
/-- "Variants" (the literal map key `resh["Variants"]`) -/
def kVariants : Bytes := [86, 97, 114, 105, 97, 110, 116, 115]

/-- `nvpToHeader(nvps, predBanned)`: pseudo headers (`:` prefix) and banned names are dropped, the rest is
    `h.Add(name, value)` in order -/
def nvpToHeader (banned : Bytes → Bool) : List (Bytes × Bytes) → Headers → Headers
  | [], h => h
  | (n, v) :: rest, h =>
    if n.head? = some 58 then nvpToHeader banned rest h
    else if banned n then nvpToHeader banned rest h
    else nvpToHeader banned rest (Http.add h n v)

/-- Go `m[k] = v` on an association list -/
def mapSet : List (Bytes × Bool) → Bytes → Bool → List (Bytes × Bool)
  | [], k, v => [(k, v)]
  | p :: m, k, v => if p.1 = k then (k, v) :: m else p :: mapSet m k v

/-- Go `v, ok := m[k]` -/
def mapGet : List (Bytes × Bool) → Bytes → Option Bool
  | [], _ => none
  | p :: m, k => if p.1 = k then some p.2 else mapGet m k

/-- direct map lookup `_, ok := resh["Variants"]` (the stored keys are canonical: they went through `Add`) -/
def hasVariantsHdr (h : Headers) : Bool := h.any (·.1 == kVariants)

/-- one iteration of the loop of `fromHar`; `none` = the function returns an error.
    State: the `hasVariants` map and the exchanges appended so far. -/
def step (st : List (Bytes × Bool) × List Bundle.Exch) (e : Entry) : Option (List (Bytes × Bool) × List Bundle.Exch) :=
  match e.key with
  | none => none                                     -- url.Parse failed: whole run fails (before the method test)
  | some key =>
    let resh := nvpToHeader Sxg.isUncachedHeader e.resH []
    match e.body with
    | none => none                                   -- contentToBody failed: whole run fails
    | some body =>
      if e.method ≠ methodGet then some st           -- dropped
      else if e.status < 100 ∨ e.status > 999 then some st
      else
        let thisHas := hasVariantsHdr resh
        let ex : Bundle.Exch := { url := key, resp := { status := e.status, headers := resh, body := body } }
        match mapGet st.1 key with
        | some others =>
          if !thisHas || !others then some st          -- dropped: URL already present and not all have Variants
          else some (mapSet st.1 key thisHas, st.2 ++ [ex])
        | none => some (mapSet st.1 key thisHas, st.2 ++ [ex])

def run : List Entry → List (Bytes × Bool) × List Bundle.Exch → Option (List (Bytes × Bool) × List Bundle.Exch)
  | [], st => some st
  | e :: rest, st => match step st e with
    | none => none
    | some st' => run rest st'

/-- `fromHar`: the exchanges handed to `bundle.Bundle{Exchanges: es}`, or `none` for an error return -/
def fromHar (entries : List Entry) : Option (List Bundle.Exch) := (run entries ([], [])).map (·.2)

/-- the request header map `fromHar` builds (not written into b1/b2 bundles; kept for completeness of the transcription) -/
def reqHeaders (e : Entry) : Headers := nvpToHeader Sxg.isStatefulRequestHeader e.reqH []

/-- specification side: an entry that passes the method and status filters -/
def eligible (e : Entry) : Bool := e.method == methodGet && decide (100 ≤ e.status) && decide (e.status ≤ 999)

/-- `Bundle.Validate()` (bundle.go): a primary URL must be the URL of some exchange (compared as `String()`s) -/
def validate (b : Bundle.Bundle) : Bool :=
  match b.primaryURL with
  | none => true
  | some u => b.exchanges.any (fun e => e.url = u)

/-- `Header.Set(key, value)` on the association list: `h[CanonicalMIMEHeaderKey(key)] = []string{value}` -/
def hset : Headers → Bytes → Bytes → Headers
  | [], k, v => [(k, [v])]
  | p :: h, k, v => if p.1 = k then (k, [v]) :: h else p :: hset h k v

/-- ASCII part of `unicode.IsSpace` (the model's domain for `-headerOverride` values is ASCII) -/
def isSpaceByte (c : UInt8) : Bool := c == 32 || c == 9 || c == 10 || c == 11 || c == 12 || c == 13

/-- `strings.TrimSpace` on ASCII -/
def trimSpace (v : Bytes) : Bytes := ((v.dropWhile isSpaceByte).reverse.dropWhile isSpaceByte).reverse

/-- `strings.SplitN(h, ":", 2)`: (chunks[0], chunks[1] if there is one) -/
def splitColon : Bytes → Bytes × Option Bytes
  | [] => ([], none)
  | c :: rest => if c = 58 then ([], some rest) else
    let (a, b) := splitColon rest
    (c :: a, b)

/-- one `-headerOverride` value applied to every exchange; `none` = `chunks[1]` indexes out of range (Go panics) when there is
    no colon and at least one exchange -/
def applyOverride (es : List Bundle.Exch) (h : Bytes) : Option (List Bundle.Exch) :=
  match splitColon h with
  | (_, none) => if es.isEmpty then some es else none
  | (n, some v) => some (es.map fun e => { e with resp := { e.resp with headers := hset e.resp.headers (canonicalKey n) (trimSpace v) } })

def applyOverrides : List Bytes → List Bundle.Exch → Option (List Bundle.Exch)
  | [], es => some es
  | h :: rest, es => match applyOverride es h with
    | none => none
    | some es' => applyOverrides rest es'

/-- what `gen-bundle -har` does after flag parsing (cmd/gen-bundle/main.go): `fromHar`, assemble the bundle, apply the
    `-headerOverride` values in order, `Validate` (unless `-ignoreErrors`), `WriteTo` the output file. `primary` / `manifest`
    are the `String()`s of the parsed flag values. -/
inductive GenResult where
  | failed                 -- log.Fatal: non-zero exit, nothing (useful) written
  | wrote (out : Bytes)    -- exit 0, the file holds `out`
  | panic
  deriving Repr, DecidableEq

def genBundle (ver : Bundle.BVer) (primary manifest : Option Bytes) (ignoreErrors : Bool) (overrides : List Bytes)
    (entries : List Entry) : GenResult :=
  match fromHar entries with
  | none => .failed
  | some es0 =>
    match applyOverrides overrides es0 with
    | none => .panic
    | some es =>
      let b : Bundle.Bundle := { version := ver, primaryURL := primary, exchanges := es, manifestURL := manifest, signatures := none }
      if !ignoreErrors && !validate b then .failed
      else match Bundle.write b with
        | .ok (.ok out) => .wrote out
        | .ok (.error _) => .failed
        | .error => .failed
        | .panic => .panic

end WebPkg.HarWalk
