import WebPkg.Model.Basic
/-
  Go net/http.Header as used by this repository: a map from (canonical) name to value list.
  `textproto.CanonicalMIMEHeaderKey`, `Header.Add`, `Header.Get`, `Header.Values`, `strings.ToLower`
  on ASCII, `strings.Join(values, ",")`.  A Go map is modelled as an association list with distinct
  keys; iteration order is "any permutation" (see C18).
-/
namespace WebPkg.Http

abbrev Headers := List (Bytes × List Bytes)

def isUpper (c : UInt8) : Bool := 65 ≤ c && c ≤ 90
def isLower (c : UInt8) : Bool := 97 ≤ c && c ≤ 122
def toLowerByte (c : UInt8) : UInt8 := if isUpper c then c + 32 else c
def toUpperByte (c : UInt8) : UInt8 := if isLower c then c - 32 else c

/-- `strings.ToLower` restricted to ASCII input (bytes ≥ 0x80 are left alone here; Go would apply
    Unicode case mapping — callers of the model stay in ASCII, see DESIGN) -/
def lowerAscii (s : Bytes) : Bytes := s.map toLowerByte

def isAscii (s : Bytes) : Bool := s.all (· < 128)

/-- textproto `validHeaderFieldByte`: RFC 7230 token characters -/
def validHeaderFieldByte (c : UInt8) : Bool :=
  isUpper c || isLower c || (48 ≤ c && c ≤ 57) ||
  c == 33 || c == 35 || c == 36 || c == 37 || c == 38 || c == 39 || c == 42 || c == 43 || c == 45 || c == 46 ||
  c == 94 || c == 95 || c == 96 || c == 124 || c == 126

def titleCase : Bool → Bytes → Bytes
  | _, [] => []
  | upper, c :: rest => (if upper then toUpperByte c else toLowerByte c) :: titleCase (c == 45) rest

/-- `textproto.CanonicalMIMEHeaderKey` -/
def canonicalKey (s : Bytes) : Bytes := if s.all validHeaderFieldByte then titleCase true s else s

/-- `Header.Add(key, value)` -/
def add (h : Headers) (key value : Bytes) : Headers :=
  let k := canonicalKey key
  if h.any (·.1 == k) then h.map fun (n, vs) => if n == k then (n, vs ++ [value]) else (n, vs)
  else h ++ [(k, [value])]

/-- `Header.Values(key)` -/
def values (h : Headers) (key : Bytes) : List Bytes :=
  match h.find? (·.1 == canonicalKey key) with
  | some (_, vs) => vs
  | none => []

/-- `Header.Get(key)`: first value or "" -/
def get (h : Headers) (key : Bytes) : Bytes := (values h key).headD []

/-- `strings.Join(values, ",")` (`normalizeHeaderValues`) -/
def joinComma : List Bytes → Bytes
  | [] => []
  | [v] => v
  | v :: rest => v ++ [44] ++ joinComma rest

/-- `joinedHeaderValue(h, name)` (verifier.go, since fix F13) -/
def joined (h : Headers) (key : Bytes) : Bytes := joinComma (values h key)

end WebPkg.Http
