import WebPkg.Model.Cbor
import WebPkg.Model.Deterministic
import WebPkg.Model.HttpHeader
/-
  Model of go/integrityblock/{integrityblock,integrityblock-signer}.go, webbundleid/web-bundle-id.go and the
  `writeOutput` step of cmd/sign-bundle/integrityblock.go (after fix F8).
  SHA-512 (`H512`), the signing strategy's `Sign` and `ed25519.Verify` are parameters.
-/
namespace WebPkg.IB
open WebPkg.Cbor

structure IntegritySignature where
  attrs : List (Bytes × Bytes)        -- SignatureAttributesMap (Go map: distinct keys)
  signature : Bytes
  deriving Repr, DecidableEq, Inhabited

structure Block where
  magic : Bytes
  version : Bytes
  stack : List IntegritySignature
  deriving Repr, DecidableEq, Inhabited

def blockMagic : Bytes := [0xf0, 0x9f, 0x96, 0x8b, 0xf0, 0x9f, 0x93, 0xa6]   -- 🖋📦
def versionB1 : Bytes := [0x31, 0x62, 0x00, 0x00]                              -- "1b\0\0"
def kEd25519PublicKey : Bytes := [101, 100, 50, 53, 53, 49, 57, 80, 117, 98, 108, 105, 99, 75, 101, 121]  -- "ed25519PublicKey"

def emptyBlock : Block := { magic := blockMagic, version := versionB1, stack := [] }

/-- key buffer written by `keyE.EncodeTextString(key)` inside the map-entry closure (its error is dropped:
    an invalid UTF-8 key leaves the buffer empty) -/
def attrKey (k : Bytes) : Bytes := match encodeText k with | .ok b => b | .error _ => []

/-- `SignatureAttributesMap.cborBytes` -/
def attrsCbor (attrs : List (Bytes × Bytes)) : Except EncErr Bytes :=
  encodeMap (attrs.map fun (k, v) => (attrKey k, encodeBytes v))

/-- `IntegritySignature.cborBytes` -/
def sigCbor (s : IntegritySignature) : Except EncErr Bytes := do
  let a ← attrsCbor s.attrs
  pure (encodeArrayHeader 2 ++ a ++ encodeBytes s.signature)

def stackCbor : List IntegritySignature → Except EncErr Bytes
  | [] => .ok []
  | s :: rest => do
    let x ← sigCbor s
    let r ← stackCbor rest
    pure (x ++ r)

/-- `IntegrityBlock.CborBytes()` -/
def blockCbor (b : Block) : Except EncErr Bytes := do
  let st ← stackCbor b.stack
  pure (encodeArrayHeader 3 ++ encodeBytes b.magic ++ encodeBytes b.version ++ encodeArrayHeader b.stack.length ++ st)

/-- `GenerateDataToBeSigned(hash, blockBytes, attrs)` -/
def dataToBeSigned (hash blockBytes : Bytes) (attrs : List (Bytes × Bytes)) : Except EncErr Bytes := do
  let a ← attrsCbor attrs
  pure (beBytes 8 hash.length ++ hash ++ beBytes 8 blockBytes.length ++ blockBytes ++ beBytes 8 a.length ++ a)

inductive SignErr where
  | encode | notDeterministic | strategy | verification
  deriving Repr, DecidableEq

/-- `SignAndAddNewSignature(pk, attrs)`; `sign` = the strategy's Sign, `edVerify pk msg sig` = ed25519.Verify -/
def signAndAdd (sign : Bytes → Option Bytes) (edVerify : Bytes → Bytes → Bytes → Bool) (hash : Bytes) (b : Block)
    (pk : Bytes) (attrs : List (Bytes × Bytes)) : Outcome (Except SignErr Block) :=
  match blockCbor b with
  | .error _ => .ok (.error .encode)
  | .ok blockBytes =>
    match Det.deterministic blockBytes with
    | .panic => .panic
    | .error => .ok (.error .notDeterministic)
    | .ok _ =>
      match dataToBeSigned hash blockBytes attrs with
      | .error _ => .ok (.error .encode)
      | .ok dts =>
        match sign dts with
        | none => .ok (.error .strategy)
        | some sig =>
          if !edVerify pk dts sig then .ok (.error .verification)
          else .ok (.ok { b with stack := { attrs := attrs, signature := sig } :: b.stack })

/-- `ObtainIntegrityBlock(file)`: `none` = error; the file is its byte content -/
def obtain (file : Bytes) : Option (Block × Nat) :=
  if file.length < 8 then none                         -- Seek(-8, End) fails
  else
    let webBundleLen := toInt64 (beVal (file.drop (file.length - 8)))
    let integrityBlockLen : Int := (file.length : Int) - webBundleLen
    if integrityBlockLen < 0 then none
    else if integrityBlockLen ≠ 0 then none
    else some (emptyBlock, 0)

/-- `SignWithIntegrityBlock(in, out, strategy)`: the bytes written to the output file -/
def signFile (H512 : Bytes → Bytes) (sign : Bytes → Option Bytes) (edVerify : Bytes → Bytes → Bytes → Bool)
    (pk : Bytes) (file : Bytes) : Outcome (Option Bytes) :=
  match obtain file with
  | none => .ok none
  | some (block, offset) =>
    let hash := H512 (file.drop offset)
    match signAndAdd sign edVerify hash block pk [(kEd25519PublicKey, pk)] with
    | .panic => .panic
    | .error => .error
    | .ok (.error _) => .ok none
    | .ok (.ok b') =>
      match blockCbor b' with
      | .error _ => .ok none
      | .ok bytes =>
        match Det.deterministic bytes with
        | .ok _ => .ok (some (bytes ++ file.drop offset))
        | .error => .ok none
        | .panic => .panic

/-! ### Web Bundle ID -/

def b32char (v : Nat) : UInt8 := if v < 26 then UInt8.ofNat (65 + v) else UInt8.ofNat (50 + (v - 26))   -- A-Z 2-7

/-- RFC 4648 base32 with padding (`base32.StdEncoding.EncodeToString`) -/
def base32 : Bytes → Bytes
  | [] => []
  | [a] =>
    let x := a.toNat
    [b32char (x / 8), b32char (x % 8 * 4), 61, 61, 61, 61, 61, 61]
  | [a, b] =>
    let x := a.toNat; let y := b.toNat
    [b32char (x / 8), b32char (x % 8 * 4 + y / 64), b32char (y / 2 % 32), b32char (y % 2 * 16), 61, 61, 61, 61]
  | [a, b, c] =>
    let x := a.toNat; let y := b.toNat; let z := c.toNat
    [b32char (x / 8), b32char (x % 8 * 4 + y / 64), b32char (y / 2 % 32), b32char (y % 2 * 16 + z / 16), b32char (z % 16 * 2), 61, 61, 61]
  | [a, b, c, d] =>
    let x := a.toNat; let y := b.toNat; let z := c.toNat; let w := d.toNat
    [b32char (x / 8), b32char (x % 8 * 4 + y / 64), b32char (y / 2 % 32), b32char (y % 2 * 16 + z / 16), b32char (z % 16 * 2 + w / 128),
     b32char (w / 4 % 32), b32char (w % 4 * 8), 61]
  | a :: b :: c :: d :: e :: rest =>
    let x := a.toNat; let y := b.toNat; let z := c.toNat; let w := d.toNat; let v := e.toNat
    b32char (x / 8) :: b32char (x % 8 * 4 + y / 64) :: b32char (y / 2 % 32) :: b32char (y % 2 * 16 + z / 16) ::
      b32char (z % 16 * 2 + w / 128) :: b32char (w / 4 % 32) :: b32char (w % 4 * 8 + v / 32) :: b32char (v % 32) :: base32 rest

/-- `GetWebBundleId(pk)` -/
def webBundleId (pk : Bytes) : Bytes := Http.lowerAscii (base32 (pk ++ [0, 1, 2]))

end WebPkg.IB
