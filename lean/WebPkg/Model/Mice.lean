import WebPkg.Model.Basic
import WebPkg.Model.Base64
/-
  Model of go/signedexchange/mice/mice.go. `H` (SHA-256) is a parameter.
-/
namespace WebPkg.Mice

inductive Enc where
  | draft02
  | draft03
  deriving DecidableEq, Repr

def Enc.name : Enc → Bytes
  | .draft02 => [109, 105, 45, 115, 104, 97, 50, 53, 54, 45, 100, 114, 97, 102, 116, 50]  -- "mi-sha256-draft2"
  | .draft03 => [109, 105, 45, 115, 104, 97, 50, 53, 54, 45, 48, 51]  -- "mi-sha256-03"

def Enc.digestHeaderName : Enc → Bytes
  | .draft02 => [77, 73, 45, 68, 114, 97, 102, 116, 50]  -- "MI-Draft2"
  | .draft03 => [68, 105, 103, 101, 115, 116]  -- "Digest"

def Enc.integrityIdentifier : Enc → Bytes
  | .draft02 => [109, 105, 45, 100, 114, 97, 102, 116, 50]  -- "mi-draft2"
  | .draft03 => [100, 105, 103, 101, 115, 116, 47, 109, 105, 45, 115, 104, 97, 50, 53, 54, 45, 48, 51]  -- "digest/mi-sha256-03"

/-- `base64Encoding()`: draft02 = RawURLEncoding, draft03 = StdEncoding -/
def Enc.b64encode : Enc → Bytes → Bytes
  | .draft02 => Base64.encode true false
  | .draft03 => Base64.encode false true

def Enc.b64decode : Enc → Bytes → Option Bytes
  | .draft02 => Base64.decode true false
  | .draft03 => Base64.decode false true

/-- `FormatDigestHeader` -/
def formatDigestHeader (enc : Enc) (proof : Bytes) : Bytes := enc.name ++ [61] ++ enc.b64encode proof

variable (H : Bytes → Bytes)

/-- `buf[i*rs : min((i+1)*rs, len)]` -/
def slice (buf : Bytes) (rs i : Nat) : Bytes := (buf.drop (i * rs)).take rs

/-- the proof loop of `Encode`: after `k+1` iterations the proofs of records `n-1-k .. n-1`
    (iteration 0 hashes the last record with flag 0, iteration i the record `n-1-i` with the proof
    of its successor and flag 1). -/
def proofsRev (buf : Bytes) (rs n : Nat) : Nat → List Bytes
  | 0 => [H (buf.drop ((n - 1) * rs) ++ [0])]
  | k + 1 =>
    let ps := proofsRev buf rs n k
    H (slice buf rs (n - 2 - k) ++ ps.headD [] ++ [1]) :: ps

/-- the output loop of `Encode`: records from index `i`, each but the very first preceded by its proof -/
def emit (buf : Bytes) (rs : Nat) : Nat → List Bytes → Bytes
  | _, [] => []
  | i, p :: ps => (if i = 0 then [] else p) ++ slice buf rs i ++ emit buf rs (i + 1) ps

/-- `Encode(w, buf, recordSize)` for `recordSize >= 1`: (bytes written, digest header value) -/
def encode (enc : Enc) (buf : Bytes) (rs : Nat) : Bytes × Bytes :=
  if enc = .draft03 ∧ buf.length = 0 then ([], formatDigestHeader enc (H [0]))
  else
    let n := if buf.length = 0 then 1 else (buf.length + rs - 1) / rs
    let proofs := proofsRev H buf rs n (n - 1)
    (beBytes 8 rs ++ emit buf rs 0 proofs, formatDigestHeader enc (proofs.headD []))

/-! ### decoder -/

inductive DecErr where
  | validation    -- ErrValidationFailure
  | other
  deriving DecidableEq, Repr

/-- `strings.SplitN(v, "=", 2)` -/
def splitEq : Bytes → Option (Bytes × Bytes)
  | [] => none
  | c :: rest => if c = 61 then some ([], rest) else (splitEq rest).map fun (a, b) => (c :: a, b)

/-- `parseDigestHeader` -/
def parseDigestHeader (enc : Enc) (v : Bytes) : Option Bytes :=
  match splitEq v with
  | none => none
  | some (alg, digest) =>
    if alg ≠ enc.name then none
    else match enc.b64decode digest with
      | none => none
      | some proof => if proof.length = 32 then some proof else none

structure State where
  enc : Enc
  rs : Nat
  rest : Bytes                -- unread part of the underlying stream
  nextProof : Option Bytes
  out : Bytes
  deriving Repr

/-- `NewDecoder(r, digestHeaderValue, maxRecordSize)` -/
def newDecoder (enc : Enc) (stream digest : Bytes) (maxRs : Nat) : Except DecErr State :=
  match parseDigestHeader enc digest with
  | none => .error .other
  | some proof =>
    if stream.length = 0 ∧ enc ≠ .draft02 then
      if H [0] = proof then .ok { enc := enc, rs := 0, rest := [], nextProof := none, out := [] }
      else .error .validation
    else if stream.length < 8 then .error .other
    else
      let rs := beVal (stream.take 8)
      if rs = 0 ∨ rs > maxRs then .error .other
      else .ok { enc := enc, rs := rs, rest := stream.drop 8, nextProof := some proof, out := [] }

inductive RecStatus where
  | ok | eof | errValidation | errOther
  deriving DecidableEq, Repr, Inhabited

/-- `readNextRecord` (requires `nextProof = some p`) -/
def readNextRecord (st : State) (p : Bytes) : State × RecStatus :=
  if st.rs + 32 ≤ st.rest.length then
    let c := st.rest.take (st.rs + 32)
    if H (c ++ [1]) = p then
      ({ st with rest := st.rest.drop (st.rs + 32), out := c.take st.rs, nextProof := some (c.drop st.rs) }, .ok)
    else ({ st with rest := st.rest.drop (st.rs + 32) }, .errValidation)
  else if st.rest.length = 0 then
    if st.enc = .draft02 then
      if H [0] = p then ({ st with out := [], nextProof := none }, .eof)
      else (st, .errValidation)
    else (st, .errOther)
  else if st.rs < st.rest.length then ({ st with rest := [] }, .errOther)
  else if H (st.rest ++ [0]) = p then ({ st with rest := [], out := st.rest, nextProof := none }, .ok)
  else ({ st with rest := [] }, .errValidation)

/-- `Read(dst)` with `len(dst) = n` -/
def read (st : State) (n : Nat) : State × Bytes × RecStatus :=
  if st.out.length = 0 then
    match st.nextProof with
    | none => (st, [], .eof)
    | some p =>
      match readNextRecord H st p with
      | (st', .ok) => ({ st' with out := st'.out.drop n }, st'.out.take n, .ok)
      | (st', s) => (st', [], s)
  else ({ st with out := st.out.drop n }, st.out.take n, .ok)

/-- `ioutil.ReadAll(decoder)` after `NewDecoder` succeeded with record size `rs` and proof `p`:
    the record loop. Returns the released bytes and the final status (eof = clean end). -/
def loop (draft02 : Bool) (rs : Nat) (s : Bytes) (p : Bytes) : Bytes × RecStatus :=
  if _h : rs + 32 ≤ s.length then
    let c := s.take (rs + 32)
    if H (c ++ [1]) = p then
      let r := loop draft02 rs (s.drop (rs + 32)) (c.drop rs)
      (c.take rs ++ r.1, r.2)
    else ([], .errValidation)
  else if s.length = 0 then
    if draft02 = true then (if H [0] = p then ([], .eof) else ([], .errValidation)) else ([], .errOther)
  else if rs < s.length then ([], .errOther)
  else if H (s ++ [0]) = p then (s, .eof) else ([], .errValidation)
termination_by s.length
decreasing_by simp; omega

/-- `NewDecoder` followed by `ioutil.ReadAll`: what the verifiers do -/
def decodeAll (enc : Enc) (stream digest : Bytes) (maxRs : Nat) : Bytes × RecStatus :=
  match newDecoder H enc stream digest maxRs with
  | .error .validation => ([], .errValidation)
  | .error .other => ([], .errOther)
  | .ok st =>
    match st.nextProof with
    | none => ([], .eof)
    | some p => loop H (enc = .draft02) st.rs st.rest p

end WebPkg.Mice
