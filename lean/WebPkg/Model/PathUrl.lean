import WebPkg.Model.Basic
/-
  Model of cmd/gen-bundle/fromdir.go `convertPathToURL` (after fix F12) for a base URL whose path ends in "/":
  `baseURL.ResolveReference(&url.URL{Path: rel}).String()` = base ‖ percent-encoded rel, with Go's
  `shouldEscape(c, encodePath)` table; the walk root "." maps to the base URL itself.
-/
namespace WebPkg.PathUrl

def isAlnum (c : UInt8) : Bool := (48 ≤ c && c ≤ 57) || (65 ≤ c && c ≤ 90) || (97 ≤ c && c ≤ 122)

/-- net/url `shouldEscape(c, encodePath)` -/
def shouldEscape (c : UInt8) : Bool :=
  if isAlnum c then false
  else if c == 45 || c == 95 || c == 46 || c == 126 then false            -- - _ . ~
  else if c == 36 || c == 38 || c == 43 || c == 44 || c == 47 || c == 58 || c == 59 || c == 61 || c == 64 then false  -- $ & + , / : ; = @
  else true

def hexUpper (n : Nat) : UInt8 := if n < 10 then UInt8.ofNat (48 + n) else UInt8.ofNat (55 + n)

/-- `escape(s, encodePath)` -/
def escapePath (s : Bytes) : Bytes :=
  s.flatMap fun c => if shouldEscape c then [37, hexUpper (c.toNat / 16), hexUpper (c.toNat % 16)] else [c]

def unhex (c : UInt8) : Option Nat :=
  if 48 ≤ c && c ≤ 57 then some (c.toNat - 48)
  else if 65 ≤ c && c ≤ 70 then some (c.toNat - 55)
  else if 97 ≤ c && c ≤ 102 then some (c.toNat - 87)
  else none

/-- `url.PathUnescape` -/
def unescape : Bytes → Option Bytes
  | [] => some []
  | 37 :: a :: b :: rest =>
    match unhex a, unhex b, unescape rest with
    | some x, some y, some r => some (UInt8.ofNat (16 * x + y) :: r)
    | _, _, _ => none
  | [37] => none
  | [37, _] => none
  | c :: rest => (unescape rest).map (c :: ·)

/-- URL of the file at relative path `rel` (slash-separated, clean) under base URL `base` (ends with "/") -/
def pathToURL (base rel : Bytes) : Bytes := if rel = [46] then base else base ++ escapePath rel

end WebPkg.PathUrl
