import WebPkg.Model.Resource
import WebPkg.Model.Bundle
import WebPkg.Model.BSig
/-
  Cost skeletons (property C10) of every entry point that parses external data, written over `Res.RM`.

  A skeleton performs the same sequence of primitive decode calls, fixed-size reads and count-driven loops as the
  Go function, with the same data flow for every value that steers *where* and *how much* is read (lengths, counts,
  section tables, index entries), and charges the allocations the Go code makes at each of them. Semantic
  validations that only make the Go code stop earlier (URL syntax, ASCII/lower-case header names, status format,
  known map keys, x509 parsing) are omitted: dropping an early exit can only increase the cost, so the skeleton's
  cost is an upper bound of the cost of the modelled Go function, on every input. (Accept/reject behaviour is the
  business of the full models in Model/*.lean; here only the class `ok`/`err` of the *skeleton* is reported.)

  Allocations inside the standard library (x509.ParseCertificate, url.Parse, http.Header buckets, fmt.Errorf) are not
  charged; each is bounded by a constant multiple of the bytes handed to it, which the skeleton has already charged.
-/
namespace WebPkg.Res
open WebPkg.Cbor
open RM (head ofType bytesOfType byteString textString readN beUint readAll loop onSlice charge guard fail)

/-- byte string followed by a linear-time, linear-space post-processing of its content (header parsing, `string(b)`) -/
def byteStringX : RM Bytes := do
  let b ← byteString
  charge b.length b.length
  return b

/-! ### go/internal/cbor decoder entry points -/
inductive CborEntry where | uint | arrayHeader | mapHeader | bytes | text
def cborEntry : CborEntry → RM Unit
  | .uint => do let _ ← ofType 0
  | .arrayHeader => do let _ ← ofType 4
  | .mapHeader => do let _ ← ofType 5
  | .bytes => do let _ ← byteString
  | .text => do let _ ← textString

/-! ### certurl.ReadCertChain -/
/-- `DecodeAugmentedCertificateFrom`: map header, then (text key, byte-string value) pairs -/
def augCert : RM Unit := do
  let m ← ofType 5
  loop (fun _ => do let _ ← textString; let _ ← byteStringX) m ()

def certChain : RM Unit := do
  let n ← ofType 4
  let _ ← textString
  loop (fun _ => augCert) (n - 1) ()

/-! ### signedexchange.ReadExchange -/
/-- a CBOR map of byte-string pairs (`decodeRequestMap` / `decodeResponseMap`) -/
def headerMap : RM Unit := do
  let n ← ofType 5
  loop (fun _ => do let _ ← byteStringX; let _ ← byteStringX) n ()

def exchangeHeaders (b3 : Bool) : RM Unit :=
  if b3 then headerMap
  else do
    let _ ← ofType 4
    headerMap
    headerMap

def sxgMagicB1 : Bytes := [0x73, 0x78, 0x67, 0x31, 0x2d, 0x62, 0x31, 0x00]   -- "sxg1-b1\0"
def sxgMagicB3 : Bytes := [0x73, 0x78, 0x67, 0x31, 0x2d, 0x62, 0x33, 0x00]   -- "sxg1-b3\0"

/-- `ReadExchange`: every `make` precedes its `ReadFull` and is charged in full -/
def sxgRead : RM Unit := do
  let magic ← readN 8
  let fallbackLen ← if magic == sxgMagicB1 then pure 0 else beUint 2
  let _ ← if magic == sxgMagicB1 then pure [] else readN fallbackLen
  let sigLen ← beUint 3
  let hdrLen ← beUint 3
  let _ ← readN sigLen
  let hdr ← readN hdrLen
  onSlice hdr (exchangeHeaders (magic == sxgMagicB3))
  let _ ← readAll

/-! ### bundle/signature verifier: decodeSignedSubset -/
def hashPairs (k : Nat) : RM Unit := loop (fun _ => do let _ ← byteString; let _ ← textString) k ()

def subsetEntries (n : Nat) : RM Unit :=
  loop (fun _ => do
    let _ ← textString
    let m ← ofType 4
    let _ ← byteString
    hashPairs ((m - 1) / 2)) n ()

def subsetFields (n : Nat) : RM Unit :=
  loop (fun _ => do
    let label ← textString
    if label = BSig.kValidityUrl then do let _ ← textString
    else if label = BSig.kAuthSha256 then do let _ ← byteString
    else if label = BSig.kDate then do let _ ← ofType 0
    else if label = BSig.kExpires then do let _ ← ofType 0
    else if label = BSig.kSubsetHashes then do let m ← ofType 5; subsetEntries m
    else fail) n ()

def signedSubset : RM Unit := do
  let n ← ofType 5
  subsetFields n

/-! ### mice decoder -/
/-- `NewDecoder` + `ioutil.ReadAll`: the record buffer (`recordSize + 32`, only after the size passed the limit
    check) is the only allocation that depends on a declared number; records are read into that buffer, the output
    is accumulated by `ReadAll`. -/
def miceDecode (draft02 : Bool) (maxRecordSize : Nat) : RM Unit := fun bs c =>
  if bs.length < 8 then (if bs.isEmpty && !draft02 then some ((), []) else none, { c with steps := c.steps + 1 })
  else
    let rs := beVal (bs.take 8)
    if rs = 0 ∨ rs > maxRecordSize then (none, { c with steps := c.steps + 1 })
    else
      let rest := bs.drop 8
      (some ((), []), { alloc := c.alloc + (rs + 32) + 2 * rest.length + 512, steps := c.steps + 2 + rest.length / (rs + 32) })

/-! ### bundle reader -/
open WebPkg.Bundle in
def sectionPairs : RM (List SectionOffset) := do
  let n ← ofType 4
  loop (fun acc => do
    let name ← textString
    let len ← ofType 0
    return acc ++ [{ name := name, length := len }]) ((n + 1) / 2) []

/-- b2 index: map of url → [offset, length] -/
def indexB2 : RM (List (Nat × Nat)) := do
  let n ← ofType 5
  loop (fun acc => do
    let _ ← textString
    let _ ← ofType 4
    let off ← ofType 0
    let len ← ofType 0
    return acc ++ [(off, len)]) n []

def locations (k : Nat) (acc : List (Nat × Nat)) : RM (List (Nat × Nat)) :=
  loop (fun acc => do
    let off ← ofType 0
    let len ← ofType 0
    return acc ++ [(off, len)]) k acc

/-- b1 index: map of url → [variants-value, (offset, length)*]; the number of locations is the product of the axis
    sizes of the Variants value, *computed*, not declared -- each location still has to be read from the input -/
def indexB1 : RM (List (Nat × Nat)) := do
  let n ← ofType 5
  loop (fun acc => do
    let _ ← textString
    let _ ← ofType 4
    let vv ← byteStringX
    if vv.isEmpty then locations 1 acc
    else
      match (Bundle.parseListOfStringLists vv).bind (fun v => Bundle.numberOfPossibleKeys v 1) with
      | none => fail
      | some num => locations num acc) n []

open WebPkg.Bundle in
def vouchedList (k : Nat) : RM Unit :=
  loop (fun _ => do
    let n ← ofType 5
    loop (fun _ => do
      let label ← textString
      if label = kAuthority then do let _ ← ofType 0
      else do let _ ← byteString) n ()) k ()

def signaturesSection : RM Unit := do
  let _ ← ofType 4
  let na ← ofType 4
  loop (fun _ => augCert) na ()
  let nv ← ofType 4
  vouchedList nv

def urlSection : RM Unit := do let _ ← textString

/-- one response: `0x82`, header byte string (parsed as a CBOR map of byte-string pairs), body byte string -/
def response : RM Unit := do
  let _ ← readN 1
  let hdr ← byteString
  onSlice hdr headerMap
  let _ ← byteString

/-- entry lengths are relative to the responses section; anything outside it is refused by `makeRelativeToStream` -/
def inResponses (respLen : Nat) (e : Nat × Nat) : Bool := e.2 ≤ respLen && e.1 ≤ respLen - e.2

open WebPkg.Bundle in
/-- sections after the table: each known section is parsed on its own slice -/
def sectionsCost (b1 : Bool) : List SectionOffset → Bytes → Cost → List (Nat × Nat) → Option (List (Nat × Nat)) × Cost
  | [], _, c, acc => (some acc, c)
  | so :: rest, bs, c, acc =>
    let contents := bs.take so.length
    let bs' := bs.drop so.length
    if so.name = nIndex then
      match (if b1 then indexB1 else indexB2) contents c with
      | (some (es, _), c') => sectionsCost b1 rest bs' c' es
      | (none, c') => (none, c')
    else if so.name = nPrimary ∨ so.name = nManifest then
      match urlSection contents c with
      | (some _, c') => sectionsCost b1 rest bs' c' acc
      | (none, c') => (none, c')
    else if so.name = nSignatures then
      match signaturesSection contents c with
      | (some _, c') => sectionsCost b1 rest bs' c' acc
      | (none, c') => (none, c')
    else sectionsCost b1 rest bs' c acc

/-- `loadResponse` for every index entry, each on its own slice of the responses section -/
def responsesCost (resp : Bytes) : List (Nat × Nat) → Cost → Option Unit × Cost
  | [], c => (some (), c)
  | (off, len) :: rest, c =>
    match response ((resp.drop off).take len) { c with steps := c.steps + 1 } with
    | (some _, c') => responsesCost resp rest c'
    | (none, c') => (none, c')

open WebPkg.Bundle in
/-- `bundle.Read`: `ioutil.ReadAll`, `loadMetadata`, then `loadResponse` per index entry.
    Returns the cost and the index entries (offset, length relative to the responses section). -/
def bundleRead (bs : Bytes) : Option Unit × Cost × List (Nat × Nat) :=
  let c0 : Cost := { alloc := 2 * bs.length + 512, steps := 1 }
  match parseMagic bs with
  | none => (none, c0, [])
  | some (ver, r0) =>
    let pro : RM (List SectionOffset) := do
      if ver == .b1 then do let _ ← textString
      let sl ← byteString
      guard (sl.length < 8192)
      let sos ← onSlice sl sectionPairs
      let _ ← ofType 4
      return sos
    match pro r0 c0 with
    | (none, c1) => (none, c1, [])
    | (some (sos, r3), c1) =>
      if !sectionsFit sos r3.length then (none, c1, [])
      else
        match sectionsCost (ver == .b1) sos r3 c1 [] with
        | (none, c2) => (none, c2, [])
        | (some entries, c2) =>
          let respLen := (sos.getLast?.map (·.length)).getD 0
          let respOff := ((sos.dropLast.map (·.length)).sum)
          let ok := entries.filter (inResponses respLen)
          if ok.length ≠ entries.length then (none, c2, [])
          else
            match responsesCost ((r3.drop respOff).take respLen) ok c2 with
            | (r, c3) => (r, c3, ok)

/-- index entries are pairwise disjoint (what every bundle writer produces; shared or nested ranges are legal CBOR
    but make `bundle.Read` copy the same bytes once per entry) -/
def Disjoint : List (Nat × Nat) → Prop
  | [] => True
  | e :: rest => (∀ f ∈ rest, e.1 + e.2 ≤ f.1 ∨ f.1 + f.2 ≤ e.1) ∧ Disjoint rest

/-! ### parsers that are not byte-stream decoders -/
/-- structured-header parsers: the Go parser only re-slices its input string (`p.input = p.input[n:]`), the values it
    returns are sub-strings or decoded copies no longer than the input, and its loops consume at least one character
    per iteration (the model runs them with fuel `input.length`, and the correspondence with the Go parser shows the
    fuel is never exhausted) -/
def shCost (input : Bytes) : Cost := { alloc := input.length, steps := 2 * input.length + 1 }

/-- `WebBundleHasIntegrityBlock` + `ObtainIntegrityBlock`: two fixed-size reads (8 bytes each) -/
def ibCost : Cost := { alloc := 16, steps := 2 }

/-- `Exchange.Verify`: Signature header parse, cert chain (from the fetcher), MI decoding of the payload -/
def verifyCost (sigHeader certBytes payload : Bytes) (draft02 : Bool) : Cost :=
  let a := shCost sigHeader
  let b := (RM.run certChain certBytes).2
  let c := (RM.run (miceDecode draft02 16384) payload).2
  { alloc := a.alloc + b.alloc + c.alloc, steps := a.steps + b.steps + c.steps }

end WebPkg.Res
