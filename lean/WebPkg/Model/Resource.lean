import WebPkg.Model.Cbor
/-
  Resource layer (property C10): parsers re-expressed over a reader monad that threads the remaining
  input and accumulates what the Go code spends while parsing:

    alloc : bytes of byte-slice / string storage the repository's own code requests
            (`make([]byte, n)`, `bytes.Buffer` growth by `io.CopyN`, `string(bs)` conversions)
    steps : primitive decode calls and loop iterations (each costs O(1) further memory: struct fields,
            slice headers, map buckets, error values)

  Cost is charged where Go spends it, *including on failing paths* (a `make([]byte, n)` that precedes a failing
  `io.ReadFull` is charged in full; `io.CopyN` is charged for what it actually copied).
  The point of the layer: a parser assembled from the primitives below by `bind`, `guard` and the count-driven
  `loop` is `Good` (Proofs/Resource.lean) -- its cost is linear in the input -- *by construction*, whatever counts
  and lengths the input declares.
-/
namespace WebPkg.Res
open WebPkg.Cbor

structure Cost where
  alloc : Nat := 0
  steps : Nat := 0
  deriving Repr, DecidableEq

/-- a parser: remaining input → cost so far → (result and rest, or failure) × cost afterwards -/
def RM (α : Type) := Bytes → Cost → Option (α × Bytes) × Cost

namespace RM
def pure {α} (a : α) : RM α := fun bs c => (some (a, bs), c)
def fail {α} : RM α := fun _ c => (none, c)
def bind {α β} (m : RM α) (f : α → RM β) : RM β := fun bs c =>
  match m bs c with
  | (some (a, rest), c') => f a rest c'
  | (none, c') => (none, c')
instance : Monad RM where
  pure := RM.pure
  bind := RM.bind

/-- `if !cond { return err }` -/
def guard (cond : Bool) : RM Unit := if cond then pure () else fail
/-- lift a pure partial function (no input consumed, nothing allocated) -/
def ofOption {α} : Option α → RM α
  | some a => pure a
  | none => fail
/-- charge without consuming -/
def charge (alloc steps : Nat) : RM Unit := fun bs c => (some ((), bs), { alloc := c.alloc + alloc, steps := c.steps + steps })
/-- remaining input (for end-of-stream checks) -/
def remaining : RM Nat := fun bs c => (some (bs.length, bs), c)

/-- `decodeTypedUint`: `ReadByte` allocates 1 byte; for ai 24..27 `make([]byte, nfollow)` precedes `ReadFull`. -/
def head : RM (Nat × Nat) := fun bs c =>
  match bs with
  | [] => (none, { alloc := c.alloc + 1, steps := c.steps + 1 })
  | b :: rest =>
    let c1 : Cost := { alloc := c.alloc + 1 + (nfollow (b.toNat % 32)).getD 0, steps := c.steps + 1 }
    match decodeArg (b.toNat / 32) (b.toNat % 32) rest with
    | some (mt, n, rest') => (some ((mt, n), rest'), c1)
    | none => (none, c1)

/-- `decodeOfType(expected)` -/
def ofType (expected : Nat) : RM Nat := do
  let (mt, n) ← head
  guard (mt == expected)
  return n

/-- `decodeBytesOfType`: `io.CopyN` into a fresh `bytes.Buffer` copies `min n remaining` bytes (charged twice: the
    buffer doubles while growing) and fails if fewer than `n` were available; lengths above MaxInt64 are refused
    before anything is copied. -/
def bytesOfType (expected : Nat) : RM Bytes := do
  let n ← ofType expected
  guard (n < 2 ^ 63)
  fun bs c =>
    let c1 : Cost := { alloc := c.alloc + 2 * min n bs.length, steps := c.steps + 1 }
    if bs.length < n then (none, c1) else (some (bs.take n, bs.drop n), c1)

def byteString : RM Bytes := bytesOfType 2

/-- `DecodeTextString`: UTF-8 check, then `string(bs)` (another copy) -/
def textString : RM Bytes := do
  let s ← bytesOfType 3
  guard (utf8Valid s)
  charge s.length 0
  return s

/-- `make([]byte, n)` followed by `io.ReadFull`: the allocation is charged even when the input is short -/
def readN (n : Nat) : RM Bytes := fun bs c =>
  let c1 : Cost := { alloc := c.alloc + n, steps := c.steps + 1 }
  if bs.length < n then (none, c1) else (some (bs.take n, bs.drop n), c1)

/-- fixed-width big-endian integer (`binary.Read` / `[3]byte` arrays: no heap allocation modelled beyond the width) -/
def beUint (k : Nat) : RM Nat := do
  let b ← readN k
  return beVal b

/-- `ioutil.ReadAll(r)` of the rest: geometric growth, charged twice the length plus the initial 512 bytes -/
def readAll : RM Bytes := fun bs c =>
  (some (bs, []), { alloc := c.alloc + 2 * bs.length + 512, steps := c.steps + 1 })

/-- `for i := 0; i < n; i++ { acc, err = body(acc); if err != nil { return err } }` -/
def loop {α} (body : α → RM α) : Nat → α → RM α
  | 0, a => pure a
  | n + 1, a => do
    charge 0 1
    let a' ← body a
    loop body n a'

/-- run a parser on a sub-slice (`bytes.NewReader(bs[off:end])` / `bytes.NewBuffer(x)`): costs accumulate, the outer
    position is unchanged -/
def onSlice {α} (sub : Bytes) (m : RM α) : RM α := fun bs c =>
  match m sub c with
  | (some (a, _), c') => (some (a, bs), c')
  | (none, c') => (none, c')

/-- run on `bs` from zero cost -/
def run {α} (m : RM α) (bs : Bytes) : Option α × Cost :=
  match m bs {} with
  | (some (a, _), c) => (some a, c)
  | (none, c) => (none, c)

end RM
end WebPkg.Res
