import WebPkg.Model.Basic
/-
  SHA-256 (FIPS 180-4) for the model driver. Theorems never unfold this: every model that hashes
  takes `H : Bytes → Bytes` as a parameter; the driver instantiates it with `sha256`, and the
  correspondence compares it with Go's crypto/sha256 on every hashed message.
-/
namespace WebPkg.Sha256

def K : Array UInt32 := #[
  0x428a2f98, 0x71374491, 0xb5c0fbcf, 0xe9b5dba5, 0x3956c25b, 0x59f111f1, 0x923f82a4, 0xab1c5ed5,
  0xd807aa98, 0x12835b01, 0x243185be, 0x550c7dc3, 0x72be5d74, 0x80deb1fe, 0x9bdc06a7, 0xc19bf174,
  0xe49b69c1, 0xefbe4786, 0x0fc19dc6, 0x240ca1cc, 0x2de92c6f, 0x4a7484aa, 0x5cb0a9dc, 0x76f988da,
  0x983e5152, 0xa831c66d, 0xb00327c8, 0xbf597fc7, 0xc6e00bf3, 0xd5a79147, 0x06ca6351, 0x14292967,
  0x27b70a85, 0x2e1b2138, 0x4d2c6dfc, 0x53380d13, 0x650a7354, 0x766a0abb, 0x81c2c92e, 0x92722c85,
  0xa2bfe8a1, 0xa81a664b, 0xc24b8b70, 0xc76c51a3, 0xd192e819, 0xd6990624, 0xf40e3585, 0x106aa070,
  0x19a4c116, 0x1e376c08, 0x2748774c, 0x34b0bcb5, 0x391c0cb3, 0x4ed8aa4a, 0x5b9cca4f, 0x682e6ff3,
  0x748f82ee, 0x78a5636f, 0x84c87814, 0x8cc70208, 0x90befffa, 0xa4506ceb, 0xbef9a3f7, 0xc67178f2]

@[inline] def rotr (x : UInt32) (n : UInt32) : UInt32 := (x >>> n) ||| (x <<< (32 - n))

def processBlock (h : Array UInt32) (blk : ByteArray) (off : Nat) : Array UInt32 := Id.run do
  let mut w : Array UInt32 := Array.mkEmpty 64
  for i in [0:16] do
    let b0 := (blk.get! (off + 4*i)).toUInt32
    let b1 := (blk.get! (off + 4*i + 1)).toUInt32
    let b2 := (blk.get! (off + 4*i + 2)).toUInt32
    let b3 := (blk.get! (off + 4*i + 3)).toUInt32
    w := w.push ((b0 <<< 24) ||| (b1 <<< 16) ||| (b2 <<< 8) ||| b3)
  for i in [16:64] do
    let w15 := w[i-15]!
    let w2 := w[i-2]!
    let s0 := rotr w15 7 ^^^ rotr w15 18 ^^^ (w15 >>> 3)
    let s1 := rotr w2 17 ^^^ rotr w2 19 ^^^ (w2 >>> 10)
    w := w.push (w[i-16]! + s0 + w[i-7]! + s1)
  let mut a := h[0]!
  let mut b := h[1]!
  let mut c := h[2]!
  let mut d := h[3]!
  let mut e := h[4]!
  let mut f := h[5]!
  let mut g := h[6]!
  let mut hh := h[7]!
  for i in [0:64] do
    let s1 := rotr e 6 ^^^ rotr e 11 ^^^ rotr e 25
    let ch := (e &&& f) ^^^ ((~~~ e) &&& g)
    let t1 := hh + s1 + ch + K[i]! + w[i]!
    let s0 := rotr a 2 ^^^ rotr a 13 ^^^ rotr a 22
    let maj := (a &&& b) ^^^ (a &&& c) ^^^ (b &&& c)
    let t2 := s0 + maj
    hh := g; g := f; f := e; e := d + t1; d := c; c := b; b := a; a := t1 + t2
  return #[h[0]! + a, h[1]! + b, h[2]! + c, h[3]! + d, h[4]! + e, h[5]! + f, h[6]! + g, h[7]! + hh]

def sha256 (msg : Bytes) : Bytes := Id.run do
  let len := msg.length
  let padLen := (119 - len % 64) % 64
  let bitLen := len * 8
  let mut ba : ByteArray := ByteArray.mk msg.toArray
  ba := ba.push 0x80
  for _ in [0:padLen] do
    ba := ba.push 0
  for i in [0:8] do
    ba := ba.push (UInt8.ofNat ((bitLen >>> (8 * (7 - i))) % 256))
  let mut h : Array UInt32 := #[0x6a09e667, 0xbb67ae85, 0x3c6ef372, 0xa54ff53a, 0x510e527f, 0x9b05688c, 0x1f83d9ab, 0x5be0cd19]
  for blk in [0:ba.size / 64] do
    h := processBlock h ba (blk * 64)
  let mut out : Bytes := []
  for i in [0:8] do
    let x := h[7 - i]!
    out := UInt8.ofNat (x >>> 24).toNat :: UInt8.ofNat ((x >>> 16).toNat % 256) :: UInt8.ofNat ((x >>> 8).toNat % 256) :: UInt8.ofNat (x.toNat % 256) :: out
  return out

end WebPkg.Sha256
