import WebPkg.Model.Basic
import WebPkg.Model.Base64
/-
  Model of go/signedexchange/structuredheader/{parser,writer}.go (draft-ietf-httpbis-header-structure-09).
  The parser state `p.input` is the remaining bytes; every function returns the value and the rest.
-/
namespace WebPkg.SH

inductive Item where
  | int (z : Int)
  | str (s : Bytes)
  | token (t : Bytes)
  | bytes (b : Bytes)
  | other                 -- any Go value of another dynamic type (nil, bool, float64, ...)
  deriving DecidableEq, Repr, Inhabited

abbrev Params := List (Bytes × Option Item)

structure PI where
  label : Bytes
  params : Params
  deriving DecidableEq, Repr, Inhabited

def isDigit (c : UInt8) : Bool := 48 ≤ c && c ≤ 57
def isLCAlpha (c : UInt8) : Bool := 97 ≤ c && c ≤ 122
def isAlpha (c : UInt8) : Bool := isLCAlpha c || (65 ≤ c && c ≤ 90)
def isKeyChar (c : UInt8) : Bool := isLCAlpha c || isDigit c || c == 95 || c == 45
def isTokenChar (c : UInt8) : Bool :=
  isAlpha c || isDigit c || c == 95 || c == 45 || c == 46 || c == 58 || c == 37 || c == 42 || c == 47
def isOWS (c : UInt8) : Bool := c == 32 || c == 9

/-- `discardLeadingOWS` -/
def discardOWS (inp : Bytes) : Bytes := inp.dropWhile isOWS

/-! ### numbers: strconv.ParseInt(s, 10, 64) / strconv.FormatInt(v, 10) -/

def digitsVal (ds : Bytes) : Nat := ds.foldl (fun acc d => acc * 10 + (d.toNat - 48)) 0

/-- `strconv.ParseInt(s, 10, 64)` on a string of the shape `-?[0-9]*` -/
def parseInt64 (s : Bytes) : Option Int :=
  match s with
  | [] => none
  | c :: rest =>
    if c = 45 then
      if rest.isEmpty then none
      else
        let v := digitsVal rest
        if v ≤ 2 ^ 63 then some (-(v : Int)) else none
    else
      let v := digitsVal (c :: rest)
      if v < 2 ^ 63 then some (v : Int) else none

def natDigits : Nat → Nat → Bytes
  | 0, _ => []
  | fuel + 1, n => if n < 10 then [UInt8.ofNat (48 + n)] else natDigits fuel (n / 10) ++ [UInt8.ofNat (48 + n % 10)]

/-- `strconv.FormatInt(v, 10)` -/
def formatInt (z : Int) : Bytes :=
  if z < 0 then 45 :: natDigits 20 (-z).toNat else natDigits 20 z.toNat

/-! ### parser -/

/-- `parseKey` -/
def parseKey (inp : Bytes) : Option (Bytes × Bytes) :=
  match inp with
  | [] => none
  | c :: _ => if !isLCAlpha c then none else some (inp.takeWhile isKeyChar, inp.dropWhile isKeyChar)

/-- `parseToken` -/
def parseToken (inp : Bytes) : Option (Bytes × Bytes) :=
  match inp with
  | [] => none
  | c :: _ => if !isAlpha c then none else some (inp.takeWhile isTokenChar, inp.dropWhile isTokenChar)

/-- `parseNumber` -/
def parseNumber (inp : Bytes) : Option (Int × Bytes) :=
  match inp with
  | [] => none
  | c :: rest =>
    if c ≠ 45 && !isDigit c then none
    else
      let ds := rest.takeWhile isDigit
      match parseInt64 (c :: ds) with
      | some n => some (n, rest.dropWhile isDigit)
      | none => none

/-- the loop of `parseString` after the opening quote -/
def parseStringBody : Bytes → Bytes → Option (Bytes × Bytes)
  | [], _ => none
  | c :: rest, acc =>
    if c = 92 then
      match rest with
      | [] => none
      | d :: rest' => if d = 34 ∨ d = 92 then parseStringBody rest' (acc ++ [d]) else none
    else if c = 34 then some (acc, rest)
    else if c < 32 ∨ c > 126 then none
    else parseStringBody rest (acc ++ [c])

def parseString (inp : Bytes) : Option (Bytes × Bytes) :=
  match inp with
  | [] => none
  | c :: rest => if c = 34 then parseStringBody rest [] else none

/-- `parseByteSequence`: up to the next '*', padded or unpadded std base64 chosen by `len % 4` -/
def parseByteSequence (inp : Bytes) : Option (Bytes × Bytes) :=
  match inp with
  | [] => none
  | c :: rest =>
    if c ≠ 42 then none
    else
      let s := rest.takeWhile (· != 42)
      let after := rest.dropWhile (· != 42)
      match after with
      | [] => none                               -- missing closing '*'
      | _ :: after' =>
        match Base64.decode false (s.length % 4 == 0) s with
        | some data => some (data, after')
        | none => none

/-- `parseItem` -/
def parseItem (inp : Bytes) : Option (Item × Bytes) :=
  match inp with
  | [] => none
  | c :: _ =>
    if c = 45 ∨ isDigit c then (parseNumber inp).map fun (n, r) => (.int n, r)
    else if c = 34 then (parseString inp).map fun (s, r) => (.str s, r)
    else if c = 42 then (parseByteSequence inp).map fun (b, r) => (.bytes b, r)
    else if isAlpha c then (parseToken inp).map fun (t, r) => (.token t, r)
    else none

/-- the parameter loop of `parseParameterisedIdentifier` (`fuel` ≥ remaining length suffices:
    every round consumes the ';') -/
def parseParams : Nat → Bytes → Params → Option (Params × Bytes)
  | 0, _, _ => none
  | fuel + 1, inp, acc =>
    let inp1 := discardOWS inp
    match inp1 with
    | c :: rest =>
      if c ≠ 59 then some (acc, inp1)
      else
        let inp2 := discardOWS rest
        match parseKey inp2 with
        | none => none
        | some (k, inp3) =>
          if acc.any (fun kv => kv.1 == k) then none
          else
            match inp3 with
            | 61 :: inp4 =>
              match parseItem inp4 with
              | none => none
              | some (v, inp5) => parseParams fuel inp5 (acc ++ [(k, some v)])
            | _ => parseParams fuel inp3 (acc ++ [(k, none)])
    | [] => some (acc, inp1)

def parsePI (inp : Bytes) : Option (PI × Bytes) :=
  match parseToken inp with
  | none => none
  | some (label, rest) =>
    match parseParams (rest.length + 1) rest [] with
    | none => none
    | some (ps, rest') => some ({ label := label, params := ps }, rest')

/-- the loop of `parseParameterisedList` -/
def parsePLLoop : Nat → Bytes → List PI → Option (List PI)
  | 0, _, _ => none
  | fuel + 1, inp, acc =>
    if inp.isEmpty then none
    else
      match parsePI inp with
      | none => none
      | some (pi, rest) =>
        let rest1 := discardOWS rest
        match rest1 with
        | [] => some (acc ++ [pi])
        | c :: rest2 => if c ≠ 44 then none else parsePLLoop fuel (discardOWS rest2) (acc ++ [pi])

/-- `ParseParameterisedList(input)` -/
def parseParameterisedList (input : Bytes) : Option (List PI) :=
  let inp := discardOWS input
  parsePLLoop (inp.length + 1) inp []

/-- the loop of `parseListOfLists` -/
def parseLLLoop : Nat → Bytes → List (List Item) → List Item → Option (List (List Item))
  | 0, _, _, _ => none
  | fuel + 1, inp, top, inner =>
    if inp.isEmpty then none
    else
      match parseItem inp with
      | none => none
      | some (item, rest) =>
        let inner' := inner ++ [item]
        let rest1 := discardOWS rest
        match rest1 with
        | [] => some (top ++ [inner'])
        | c :: rest2 =>
          if c = 44 then parseLLLoop fuel (discardOWS rest2) (top ++ [inner']) []
          else if c = 59 then parseLLLoop fuel (discardOWS rest2) top inner'
          else none

/-- `ParseListOfLists(input)` -/
def parseListOfLists (input : Bytes) : Option (List (List Item)) :=
  let inp := discardOWS input
  parseLLLoop (inp.length + 1) inp [] []

/-! ### writer -/

def isValidKey (s : Bytes) : Bool :=
  match s with
  | [] => false
  | c :: _ => isLCAlpha c && s.all isKeyChar

def isValidToken (s : Bytes) : Bool :=
  match s with
  | [] => false
  | c :: _ => isAlpha c && s.all isTokenChar

/-- `strconv.Quote` on printable ASCII -/
def quote (s : Bytes) : Bytes :=
  34 :: (s.flatMap fun c => if c = 34 ∨ c = 92 then [92, c] else [c]) ++ [34]

def serializeItem : Item → Option Bytes
  | .int z => some (formatInt z)
  | .str s => if s.all (fun c => 32 ≤ c && c ≤ 126) then some (quote s) else none
  | .token t => if isValidToken t then some t else none
  | .bytes b => some (42 :: Base64.encode false true b ++ [42])
  | .other => none

def keyLe (a b : Bytes × Option Item) : Bool := ble a.1 b.1

def serializeParams : Params → Option Bytes
  | [] => some []
  | (k, v) :: rest =>
    if !isValidKey k then none
    else
      match v with
      | none => (serializeParams rest).map fun r => 59 :: k ++ r
      | some item =>
        match serializeItem item, serializeParams rest with
        | some iv, some r => some (59 :: k ++ 61 :: iv ++ r)
        | _, _ => none

/-- `ParameterisedIdentifier.serialize` (keys sorted with `sort.Strings`) -/
def serializePI (pi : PI) : Option Bytes :=
  if !isValidToken pi.label then none
  else (serializeParams (pi.params.mergeSort keyLe)).map fun r => pi.label ++ r

def joinWith (sep : Bytes) : List Bytes → Bytes
  | [] => []
  | [x] => x
  | x :: rest => x ++ sep ++ joinWith sep rest

def mapM' {α β} (f : α → Option β) : List α → Option (List β)
  | [] => some []
  | x :: xs => match f x, mapM' f xs with
    | some y, some ys => some (y :: ys)
    | _, _ => none

/-- `ParameterisedList.String()` -/
def serializePL (pl : List PI) : Option Bytes :=
  if pl.isEmpty then none
  else (mapM' serializePI pl).map (joinWith [44, 32])

/-- `ListOfLists.String()` -/
def serializeLL (ll : List (List Item)) : Option Bytes :=
  if ll.isEmpty then none
  else
    (mapM' (fun inner => if inner.isEmpty then none else (mapM' serializeItem inner).map (joinWith [59, 32])) ll).map
      (joinWith [44, 32])

end WebPkg.SH
