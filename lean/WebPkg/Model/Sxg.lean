import WebPkg.Model.Cbor
import WebPkg.Model.BigEndian
import WebPkg.Model.HttpHeader
import WebPkg.Model.StructuredHeader
import WebPkg.Model.Mice
/-
  Model of go/signedexchange/{signedexchange,signer}.go and version/version.go
  (after fixes F1, F9). External functions are parameters (`Env`).
-/
namespace WebPkg.Sxg
open WebPkg.Cbor WebPkg.Http

inductive Ver where
  | b1 | b2 | b3
  deriving DecidableEq, Repr, Inhabited

def Ver.magic : Ver → Bytes
  | .b1 => [115, 120, 103, 49, 45, 98, 49, 0]   -- "sxg1-b1\0"
  | .b2 => [115, 120, 103, 49, 45, 98, 50, 0]   -- "sxg1-b2\0"
  | .b3 => [115, 120, 103, 49, 45, 98, 51, 0]   -- "sxg1-b3\0"

def Ver.ofMagic (m : Bytes) : Option Ver :=
  if m = Ver.magic .b1 then some .b1 else if m = Ver.magic .b2 then some .b2 else if m = Ver.magic .b3 then some .b3 else none

def Ver.mice : Ver → Mice.Enc
  | .b1 => .draft02
  | _ => .draft03

/-- `contextString(v)`: "HTTP Exchange 1 b1" / "... b2" / "... b3" -/
def Ver.context : Ver → Bytes
  | .b1 => [72, 84, 84, 80, 32, 69, 120, 99, 104, 97, 110, 103, 101, 32, 49, 32, 98, 49]
  | .b2 => [72, 84, 84, 80, 32, 69, 120, 99, 104, 97, 110, 103, 101, 32, 49, 32, 98, 50]
  | .b3 => [72, 84, 84, 80, 32, 69, 120, 99, 104, 97, 110, 103, 101, 32, 49, 32, 98, 51]

structure Exchange where
  version : Ver
  uri : Bytes
  method : Bytes
  reqHeaders : Headers
  status : Int
  respHeaders : Headers
  sigHeader : Bytes
  payload : Bytes
  deriving Repr, Inhabited

def keyMethod : Bytes := [58, 109, 101, 116, 104, 111, 100]   -- ":method"
def keyURL : Bytes := [58, 117, 114, 108]                      -- ":url"
def keyStatus : Bytes := [58, 115, 116, 97, 116, 117, 115]     -- ":status"

/-- `strconv.Atoi` on a 64-bit platform -/
def atoi (s : Bytes) : Option Int :=
  match s with
  | [] => none
  | c :: rest =>
    let neg := c == 45
    let ds := if c == 45 || c == 43 then rest else s
    if ds.isEmpty || !ds.all SH.isDigit then none
    else
      let v := SH.digitsVal ds
      if neg then (if v ≤ 2 ^ 63 then some (-(v : Int)) else none)
      else (if v < 2 ^ 63 then some (v : Int) else none)

/-- `encodeHeaders`: one map entry per header: lower-cased name ↦ comma-joined values -/
def headerEntries (hs : Headers) : List Entry :=
  hs.map fun (n, vs) => (encodeBytes (lowerAscii n), encodeBytes (joinComma vs))

def encodeRequestMap (e : Exchange) : Except EncErr Bytes :=
  encodeMap ([(encodeBytes keyMethod, encodeBytes e.method)] ++
    (if e.version = .b1 then [(encodeBytes keyURL, encodeBytes e.uri)] else []) ++ headerEntries e.reqHeaders)

def encodeResponseMap (e : Exchange) : Except EncErr Bytes :=
  encodeMap ((encodeBytes keyStatus, encodeBytes (SH.formatInt e.status)) :: headerEntries e.respHeaders)

/-- `encodeExchangeHeaders` (the complete output on success) -/
def encodeExchangeHeaders (e : Exchange) : Except EncErr Bytes :=
  if e.version = .b3 then encodeResponseMap e
  else do
    let rq ← encodeRequestMap e
    let rs ← encodeResponseMap e
    pure (encodeArrayHeader 2 ++ rq ++ rs)

inductive WriteErr where
  | headers (e : EncErr)
  | urlTooLong
  | sigTooLong
  | headersTooLong
  deriving Repr, DecidableEq

/-- `Exchange.Write(w)`: the complete file on success -/
def write (e : Exchange) : Except WriteErr Bytes :=
  match encodeExchangeHeaders e with
  | .error err => .error (.headers err)
  | .ok hdr =>
    match e.version with
    | .b1 =>
      match BigEndian.encodeBytesUint e.sigHeader.length 3, BigEndian.encodeBytesUint hdr.length 3 with
      | none, _ => .error .sigTooLong
      | _, none => .error .headersTooLong
      | some sl, some hl => .ok (Ver.magic .b1 ++ sl ++ hl ++ e.sigHeader ++ hdr ++ e.payload)
    | v =>
      match BigEndian.encodeBytesUint e.uri.length 2 with
      | none => .error .urlTooLong
      | some ul =>
        if e.sigHeader.length > 16384 then .error .sigTooLong
        else match BigEndian.encodeBytesUint e.sigHeader.length 3 with
          | none => .error .sigTooLong
          | some sl =>
            if hdr.length > 524288 then .error .headersTooLong
            else match BigEndian.encodeBytesUint hdr.length 3 with
              | none => .error .headersTooLong
              | some hl => .ok (Ver.magic v ++ ul ++ e.uri ++ sl ++ hl ++ e.sigHeader ++ hdr ++ e.payload)

/-! ### reader -/

/-- what the model needs from `net/url.Parse`: `none` = parse error, else (scheme, hostname, port) -/
abbrev UrlFacts := Bytes → Option (Bytes × Bytes × Bytes)

def https : Bytes := [104, 116, 116, 112, 115]   -- "https"

/-- `validateFallbackURL` -/
def validFallback (url : UrlFacts) (u : Bytes) : Bool :=
  match url u with
  | some (scheme, _, _) => scheme == https
  | none => false

structure ReqAcc where
  method : Bytes
  uri : Bytes
  headers : Headers

/-- the entry loop of `decodeRequestMap` -/
def decodeReqEntries (url : UrlFacts) (v : Ver) : Nat → Bytes → ReqAcc → Res (ReqAcc × Bytes)
  | 0, bs, acc => .ok (acc, bs)
  | n + 1, bs, acc =>
    match decodeByteString bs with
    | none => .err
    | some (key, bs1) =>
      if !isAscii key then .ood
      else if key ≠ lowerAscii key then .err
      else match decodeByteString bs1 with
        | none => .err
        | some (value, bs2) =>
          if key = keyMethod then decodeReqEntries url v n bs2 { acc with method := value }
          else if key = keyURL then
            if v = .b1 then
              (if validFallback url value then decodeReqEntries url v n bs2 { acc with uri := value } else .err)
            else .err
          else decodeReqEntries url v n bs2 { acc with headers := add acc.headers key value }

/-- the entry loop of `decodeResponseMap` -/
def decodeRespEntries : Nat → Bytes → Int × Headers → Res ((Int × Headers) × Bytes)
  | 0, bs, acc => .ok (acc, bs)
  | n + 1, bs, acc =>
    match decodeByteString bs with
    | none => .err
    | some (key, bs1) =>
      if !isAscii key then .ood
      else if key ≠ lowerAscii key then .err
      else match decodeByteString bs1 with
        | none => .err
        | some (value, bs2) =>
          if key = keyStatus then
            match atoi value with
            | none => .err
            | some st => decodeRespEntries n bs2 (st, acc.2)
          else decodeRespEntries n bs2 (acc.1, add acc.2 key value)

/-- `decodeExchangeHeaders` on the header block (trailing bytes of the block are ignored, as in Go) -/
def decodeExchangeHeaders (url : UrlFacts) (v : Ver) (uri0 : Bytes) (hdr : Bytes) :
    Res (Bytes × Bytes × Headers × Int × Headers) :=
  if v = .b3 then
    match decodeMapHeader hdr with
    | none => .err
    | some (n, bs) => do
      let ((st, rh), _) ← decodeRespEntries n bs (0, [])
      pure ([71, 69, 84], uri0, [], st, rh)
  else
    match decodeArrayHeader hdr with
    | none => .err
    | some (k, bs0) =>
      if k ≠ 2 then .err
      else match decodeMapHeader bs0 with
        | none => .err
        | some (n, bs1) => do
          let (rq, bs2) ← decodeReqEntries url v n bs1 { method := [], uri := uri0, headers := [] }
          match decodeMapHeader bs2 with
          | none => .err
          | some (m, bs3) => do
            let ((st, rh), _) ← decodeRespEntries m bs3 (0, [])
            pure (rq.method, rq.uri, rq.headers, st, rh)

/-- `ReadExchange(r)` -/
def read (url : UrlFacts) (bs : Bytes) : Res Exchange :=
  if bs.length < 8 then .err
  else match Ver.ofMagic (bs.take 8) with
    | none => .err
    | some v =>
      let bs1 := bs.drop 8
      -- fallback URL (b2, b3)
      let step2 : Res (Bytes × Bytes) :=
        if v = .b1 then .ok ([], bs1)
        else if bs1.length < 2 then .err
        else
          let ul := beVal (bs1.take 2)
          let bs2 := bs1.drop 2
          if bs2.length < ul then .err
          else if validFallback url (bs2.take ul) then .ok (bs2.take ul, bs2.drop ul) else .err
      match step2 with
      | .err => .err
      | .ood => .ood
      | .ok (uri0, bs3) =>
        if bs3.length < 6 then .err
        else
          let sl := beVal (bs3.take 3)
          let hl := beVal ((bs3.drop 3).take 3)
          let bs4 := bs3.drop 6
          if bs4.length < sl then .err
          else
            let sig := bs4.take sl
            let bs5 := bs4.drop sl
            if bs5.length < hl then .err
            else
              match decodeExchangeHeaders url v uri0 (bs5.take hl) with
              | .err => .err
              | .ood => .ood
              | .ok (method, uri, rqh, st, rh) =>
                .ok { version := v, uri := uri, method := method, reqHeaders := rqh, status := st, respHeaders := rh,
                      sigHeader := sig, payload := bs5.drop hl }

/-! ### signer -/

def textKey (s : Bytes) : Bytes := encodeHead 3 s.length ++ s

def kCertSha256 : Bytes := [99, 101, 114, 116, 45, 115, 104, 97, 50, 53, 54]        -- "cert-sha256"
def kValidityUrl : Bytes := [118, 97, 108, 105, 100, 105, 116, 121, 45, 117, 114, 108]  -- "validity-url"
def kDate : Bytes := [100, 97, 116, 101]                                              -- "date"
def kExpires : Bytes := [101, 120, 112, 105, 114, 101, 115]                           -- "expires"
def kHeaders : Bytes := [104, 101, 97, 100, 101, 114, 115]                            -- "headers"
def kCertUrl : Bytes := [99, 101, 114, 116, 45, 117, 114, 108]                        -- "cert-url"
def kIntegrity : Bytes := [105, 110, 116, 101, 103, 114, 105, 116, 121]               -- "integrity"
def kSig : Bytes := [115, 105, 103]                                                   -- "sig"
def kLabel : Bytes := [108, 97, 98, 101, 108]                                         -- "label"

/-- `serializeSignedMessage(e, certSha256, validityUrl, date, expires)`; `none` = error -/
def signedMessage (e : Exchange) (certSha256 : Option Bytes) (validityUrl : Bytes) (date expires : Int) : Option Bytes :=
  let pre := List.replicate 64 (32 : UInt8) ++ e.version.context ++ [0]
  match encodeExchangeHeaders e with
  | .error _ => none
  | .ok hdr =>
    if e.version = .b1 then
      let entries : List Entry :=
        (match certSha256 with | some c => [(textKey kCertSha256, encodeBytes c)] | none => []) ++
        [(textKey kValidityUrl, encodeBytes validityUrl), (textKey kDate, encodeInt date),
         (textKey kExpires, encodeInt expires), (textKey kHeaders, hdr)]
      match encodeMap entries with
      | .ok m => some (pre ++ m)
      | .error _ => none
    else
      match BigEndian.encodeBytesUint validityUrl.length 8, BigEndian.encodeBytesUint date 8,
            BigEndian.encodeBytesUint expires 8, BigEndian.encodeBytesUint e.uri.length 8,
            BigEndian.encodeBytesUint hdr.length 8 with
      | some vl, some d, some x, some ul, some hl =>
        some (pre ++ (match certSha256 with | some c => 32 :: c | none => []) ++ vl ++ validityUrl ++ d ++ x ++
              ul ++ e.uri ++ hl ++ hdr)
      | _, _, _, _, _ => none

/-- the Signature header value built by `signatureHeaderValue` from the raw signature bytes -/
def signatureHeaderValue (v : Ver) (sig validityUrl certUrl certSha256 : Bytes) (date expires : Int) : Option Bytes :=
  SH.serializePI { label := kLabel, params := [
    (kSig, some (.bytes sig)), (kValidityUrl, some (.str validityUrl)), (kIntegrity, some (.str v.mice.integrityIdentifier)),
    (kCertUrl, some (.str certUrl)), (kCertSha256, some (.bytes certSha256)), (kDate, some (.int date)),
    (kExpires, some (.int expires))] }

end WebPkg.Sxg

namespace WebPkg.Sxg
/-- `ComputeHeaderIntegrity()`: "sha256-" ++ padded std base64 of SHA-256 over the signed header bytes -/
def headerIntegrity (H : Bytes → Bytes) (e : Exchange) : Option Bytes :=
  match encodeExchangeHeaders e with
  | .ok hdr => some ([115, 104, 97, 50, 53, 54, 45] ++ Base64.encode false true (H hdr))   -- "sha256-"
  | .error _ => none
end WebPkg.Sxg

namespace WebPkg.Sxg
open WebPkg.Http

def hContentEncoding : Bytes := [67, 111, 110, 116, 101, 110, 116, 45, 69, 110, 99, 111, 100, 105, 110, 103]   -- "Content-Encoding"

/-- `Exchange.MiEncodePayload(recordSize)` (recordSize ≥ 1); `none` = the digest header is already present
    (presence of the field, even with an empty value: fix F14) -/
def miEncodePayload (H : Bytes → Bytes) (e : Exchange) (rs : Nat) : Option Exchange :=
  let enc := e.version.mice
  if values e.respHeaders enc.digestHeaderName ≠ [] then none
  else
    let (stream, digest) := Mice.encode H enc e.payload rs
    some { e with payload := stream,
                  respHeaders := add (add e.respHeaders hContentEncoding enc.name) enc.digestHeaderName digest }

/-- `Exchange.AddSignatureHeader(s)` given the signature bytes the signing algorithm returned for the message -/
def addSignatureHeader (e : Exchange) (sig validityUrl certUrl certSha256 : Bytes) (date expires : Int) : Option Exchange :=
  match signatureHeaderValue e.version sig validityUrl certUrl certSha256 date expires with
  | some h => some { e with sigHeader := h }
  | none => none
end WebPkg.Sxg
