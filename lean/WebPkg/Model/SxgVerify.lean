import WebPkg.Model.Sxg
import WebPkg.Model.GoTime
import WebPkg.Model.CertChain
/-
  Model of go/signedexchange/verifier.go and stateful_headers.go (after fixes F10, F13).
-/
namespace WebPkg.Sxg
open WebPkg.Http

/-- everything the verifier takes from outside this repository -/
structure Env where
  H : Bytes → Bytes                                  -- SHA-256
  url : UrlFacts                                     -- net/url.Parse: (scheme, hostname, port)
  fetch : Bytes → Option Bytes                       -- certFetcher(cert-url)
  parseOk : Bytes → Bool                             -- x509.ParseCertificate succeeds
  keyOk : Bytes → Bool                               -- VerifierForPublicKey(cert.PublicKey) succeeds
  sigVerify : Bytes → Bytes → Bytes → Bool           -- verifier.Verify(msg, sig) = (true, nil) under cert's key
  statusText : Int → Bool                            -- http.StatusText(code) != ""

structure Signature where
  label : Bytes
  sig : Bytes
  integrity : Bytes
  certUrl : Bytes
  certSha256 : Bytes
  validityUrl : Bytes
  date : Int
  expires : Int
  deriving Repr

def lookup (ps : SH.Params) (k : Bytes) : Option SH.Item :=
  match ps.find? (·.1 == k) with
  | some (_, v) => v
  | none => none

/-- `extractSignatureFields` -/
def extractSignature (pi : SH.PI) : Option Signature :=
  match lookup pi.params kSig, lookup pi.params kIntegrity, lookup pi.params kCertUrl, lookup pi.params kCertSha256,
        lookup pi.params kValidityUrl, lookup pi.params kDate, lookup pi.params kExpires with
  | some (.bytes sig), some (.str integ), some (.str cu), some (.bytes cs), some (.str vu), some (.int d), some (.int x) =>
    some { label := pi.label, sig := sig, integrity := integ, certUrl := cu, certSha256 := cs, validityUrl := vu, date := d, expires := x }
  | _, _, _, _, _, _, _ => none

def statefulRequestHeaders : List Bytes := [
  [97, 117, 116, 104, 111, 114, 105, 122, 97, 116, 105, 111, 110],                                  -- authorization
  [99, 111, 111, 107, 105, 101],                                                                    -- cookie
  [99, 111, 111, 107, 105, 101, 50],                                                                -- cookie2
  [112, 114, 111, 120, 121, 45, 97, 117, 116, 104, 111, 114, 105, 122, 97, 116, 105, 111, 110],     -- proxy-authorization
  [115, 101, 99, 45, 119, 101, 98, 115, 111, 99, 107, 101, 116, 45, 107, 101, 121]]                 -- sec-websocket-key

def uncachedHeaders : List Bytes := [
  [99, 111, 110, 110, 101, 99, 116, 105, 111, 110],                                                 -- connection
  [107, 101, 101, 112, 45, 97, 108, 105, 118, 101],                                                 -- keep-alive
  [112, 114, 111, 120, 121, 45, 99, 111, 110, 110, 101, 99, 116, 105, 111, 110],                    -- proxy-connection
  [116, 114, 97, 105, 108, 101, 114],                                                               -- trailer
  [116, 114, 97, 110, 115, 102, 101, 114, 45, 101, 110, 99, 111, 100, 105, 110, 103],               -- transfer-encoding
  [117, 112, 103, 114, 97, 100, 101],                                                               -- upgrade
  [97, 117, 116, 104, 101, 110, 116, 105, 99, 97, 116, 105, 111, 110, 45, 99, 111, 110, 116, 114, 111, 108], -- authentication-control
  [97, 117, 116, 104, 101, 110, 116, 105, 99, 97, 116, 105, 111, 110, 45, 105, 110, 102, 111],      -- authentication-info
  [99, 108, 101, 97, 114, 45, 115, 105, 116, 101, 45, 100, 97, 116, 97],                            -- clear-site-data
  [111, 112, 116, 105, 111, 110, 97, 108, 45, 119, 119, 119, 45, 97, 117, 116, 104, 101, 110, 116, 105, 99, 97, 116, 101], -- optional-www-authenticate
  [112, 114, 111, 120, 121, 45, 97, 117, 116, 104, 101, 110, 116, 105, 99, 97, 116, 101],           -- proxy-authenticate
  [112, 114, 111, 120, 121, 45, 97, 117, 116, 104, 101, 110, 116, 105, 99, 97, 116, 105, 111, 110, 45, 105, 110, 102, 111], -- proxy-authentication-info
  [112, 117, 98, 108, 105, 99, 45, 107, 101, 121, 45, 112, 105, 110, 115],                          -- public-key-pins
  [115, 101, 99, 45, 119, 101, 98, 115, 111, 99, 107, 101, 116, 45, 97, 99, 99, 101, 112, 116],     -- sec-websocket-accept
  [115, 101, 116, 45, 99, 111, 111, 107, 105, 101],                                                 -- set-cookie
  [115, 101, 116, 45, 99, 111, 111, 107, 105, 101, 50],                                             -- set-cookie2
  [115, 101, 116, 112, 114, 111, 102, 105, 108, 101],                                               -- setprofile
  [115, 116, 114, 105, 99, 116, 45, 116, 114, 97, 110, 115, 112, 111, 114, 116, 45, 115, 101, 99, 117, 114, 105, 116, 121], -- strict-transport-security
  [119, 119, 119, 45, 97, 117, 116, 104, 101, 110, 116, 105, 99, 97, 116, 101]]                     -- www-authenticate

/-- `IsStatefulRequestHeader(n)` (ASCII names) -/
def isStatefulRequestHeader (n : Bytes) : Bool := statefulRequestHeaders.contains (lowerAscii n)
/-- `IsUncachedHeader(n)` (ASCII names) -/
def isUncachedHeader (n : Bytes) : Bool := uncachedHeaders.contains (lowerAscii n)

/-- `verifyHeaders(e)` = ok -/
def headersOk (e : Exchange) : Bool :=
  !(e.reqHeaders.any fun kv => isStatefulRequestHeader kv.1) && !(e.respHeaders.any fun kv => isUncachedHeader kv.1)

def isSpace (c : UInt8) : Bool := c == 32 || c == 9 || c == 10 || c == 11 || c == 12 || c == 13

/-- `strings.TrimSpace` on ASCII -/
def trimSpace (s : Bytes) : Bytes := ((s.dropWhile isSpace).reverse.dropWhile isSpace).reverse

def splitOn (sep : UInt8) : Bytes → List Bytes
  | [] => [[]]
  | c :: rest =>
    match splitOn sep rest with
    | [] => [[]]
    | x :: xs => if c = sep then [] :: x :: xs else (c :: x) :: xs

/-- the directive names of `parseCacheControlDirectives(cacheControl)` -/
def cacheDirectives (cc : Bytes) : List Bytes :=
  (splitOn 44 cc).map fun s =>
    let t := trimSpace s
    lowerAscii (t.takeWhile (· != 61))

def dNoStore : Bytes := [110, 111, 45, 115, 116, 111, 114, 101]   -- "no-store"
def dPrivate : Bytes := [112, 114, 105, 118, 97, 116, 101]   -- "private"
def dMaxAge : Bytes := [109, 97, 120, 45, 97, 103, 101]   -- "max-age"
def dSMaxage : Bytes := [115, 45, 109, 97, 120, 97, 103, 101]   -- "s-maxage"
def dPublic : Bytes := [112, 117, 98, 108, 105, 99]   -- "public"
def hCacheControl : Bytes := [67, 97, 99, 104, 101, 45, 67, 111, 110, 116, 114, 111, 108]   -- "Cache-Control"
def hExpires : Bytes := [69, 120, 112, 105, 114, 101, 115]   -- "Expires"
def hContentType : Bytes := [67, 111, 110, 116, 101, 110, 116, 45, 84, 121, 112, 101]   -- "Content-Type"
def cacheableStatusCodes : List Int := [200, 203, 204, 206, 300, 301, 404, 405, 410, 414, 501]
def mGET : Bytes := [71, 69, 84]   -- "GET"
def mHEAD : Bytes := [72, 69, 65, 68]   -- "HEAD"

/-- `IsCacheable` (b3) -/
def isCacheable (env : Env) (e : Exchange) : Bool :=
  if !env.statusText e.status then false
  else
    let ds := cacheDirectives (joined e.respHeaders hCacheControl)
    if ds.contains dNoStore then false
    else if ds.contains dPrivate then false
    else if joined e.respHeaders hExpires ≠ [] then true
    else if ds.contains dMaxAge then true
    else if ds.contains dSMaxage then true
    else if cacheableStatusCodes.contains e.status then true
    else if ds.contains dPublic then true
    else false

/-- `verifyTimestamps(sig, verificationTime)` = nil -/
def timestampsOk (s : Signature) (t : GoTime.T) : Bool :=
  let expiresTime := GoTime.ofUnix s.expires 0
  let creationTime := GoTime.ofUnix s.date 0
  if GoTime.sub expiresTime creationTime > 604800 * 1000000000 then false
  else if GoTime.before t creationTime then false
  else if GoTime.after t expiresTime then false
  else true

/-- `verifyPayload(e, signature)` -/
def verifyPayload (env : Env) (e : Exchange) (s : Signature) : Option Bytes :=
  let enc := e.version.mice
  if s.integrity ≠ enc.integrityIdentifier then none
  else
    let digest := joined e.respHeaders enc.digestHeaderName
    if digest = [] then none
    else match Mice.decodeAll env.H enc e.payload digest 16384 with
      | (out, .eof) => some out
      | _ => none

/-- `isSameOrigin` on url facts -/
def effectivePort (scheme port : Bytes) : Bytes :=
  if port ≠ [] then port
  else if scheme = https then [52, 52, 51]
  else if scheme = [104, 116, 116, 112] then [56, 48]
  else []

def sameOrigin (a b : Bytes × Bytes × Bytes) : Bool :=
  a.1 == b.1 && lowerAscii a.2.1 == lowerAscii b.2.1 && effectivePort a.1 a.2.2 == effectivePort b.1 b.2.2

/-- `verifySignature`: decoded payload on success -/
def verifySignature (env : Env) (e : Exchange) (t : GoTime.T) (s : Signature) : Option Bytes :=
  match env.fetch s.certUrl with
  | none => none
  | some certBytes =>
    match CertChain.read env.parseOk certBytes with
    | none => none
    | some [] => none
    | some (main :: _) =>
      if !env.keyOk main.cert then none
      else if !timestampsOk s t then none
      else
        let certSha := env.H main.cert
        match signedMessage e (some certSha) s.validityUrl s.date s.expires with
        | none => none
        | some msg =>
          if s.certSha256 ≠ certSha then none
          else if !env.sigVerify main.cert msg s.sig then none
          else if e.version = .b3 ∧ joined e.respHeaders hContentType = [] then none
          else verifyPayload env e s

/-- the per-signature body of `Exchange.Verify` -/
def verifyOne (env : Env) (e : Exchange) (t : GoTime.T) (pi : SH.PI) : Option Bytes :=
  match extractSignature pi with
  | none => none
  | some s =>
    match env.url s.validityUrl, env.url e.uri with
    | some vu, some ru =>
      if !sameOrigin vu ru then none
      else match verifySignature env e t s with
        | none => none
        | some payload =>
          if (e.version = .b1 ∨ e.version = .b2) ∧ e.method ≠ mGET ∧ e.method ≠ mHEAD then none
          else if e.version = .b3 ∧ !isCacheable env e then none
          else if !headersOk e then none
          else some payload
    | _, _ => none

/-- `Exchange.Verify(verificationTime, certFetcher, l)`: `some payload` = (payload, true) -/
def verify (env : Env) (e : Exchange) (t : GoTime.T) : Option Bytes :=
  match SH.parseParameterisedList e.sigHeader with
  | none => none
  | some sigs => sigs.findSome? (verifyOne env e t)

end WebPkg.Sxg
