import WebPkg.Model.Basic
/-
  Write traces: a serializer writing to an `io.Writer` is a list of chunks (one per `Write` call reaching the
  destination). The destination fails after accepting `k` bytes, in one of two ways:
  short write (the crossing call takes the bytes that still fit and returns an error) or error return
  (the crossing call takes nothing). A *checked* program stops at the first failed write and returns its error.
-/
namespace WebPkg.Trace

inductive Mode where
  | shortWrite
  | errorReturn
  deriving DecidableEq, Repr

/-- result of a run: bytes the destination accepted, whether the serializer returned an error -/
structure Result where
  accepted : Bytes
  failed : Bool
  deriving Repr, DecidableEq

/-- every write result is checked and returned (`if _, err := w.Write(p); err != nil { return err }`) -/
def runChecked (mode : Mode) : List Bytes → Nat → Result
  | [], _ => { accepted := [], failed := false }
  | c :: rest, budget =>
    if c.length ≤ budget then
      let r := runChecked mode rest (budget - c.length)
      { accepted := c ++ r.accepted, failed := r.failed }
    else
      match mode with
      | .shortWrite => { accepted := c.take budget, failed := true }
      | .errorReturn => { accepted := [], failed := true }

/-- a program whose write number `i` (0-based) drops its error: the run goes on (later writes hit the same
    failing destination) and the final status is the status of the checked remainder -/
def runDropping (mode : Mode) (i : Nat) : List Bytes → Nat → Result
  | [], _ => { accepted := [], failed := false }
  | c :: rest, budget =>
    if c.length ≤ budget then
      let r := (match i with
        | 0 => runChecked mode rest (budget - c.length)
        | j + 1 => runDropping mode j rest (budget - c.length))
      { accepted := c ++ r.accepted, failed := r.failed }
    else
      match i with
      | 0 =>
        -- error dropped; the destination is broken from now on: nothing more is accepted, nothing is reported
        { accepted := (match mode with | .shortWrite => c.take budget | .errorReturn => []), failed := false }
      | _ + 1 =>
        match mode with
        | .shortWrite => { accepted := c.take budget, failed := true }
        | .errorReturn => { accepted := [], failed := true }

/-- the byte count a `CountingWriter` in front of the destination reports: what the destination accepted -/
def counted (r : Result) : Nat := r.accepted.length

end WebPkg.Trace
