import WebPkg.Model.Basic
/-
  Go's `unicode/utf8.Valid` (RFC 3629 well-formed byte sequences, Table 3-7 of Unicode).
-/
namespace WebPkg

def isCont (b : UInt8) : Bool := 0x80 ≤ b && b ≤ 0xBF

def utf8Valid : Bytes → Bool
  | [] => true
  | b0 :: rest =>
    if b0 < 0x80 then utf8Valid rest
    else if 0xC2 ≤ b0 && b0 ≤ 0xDF then
      match rest with
      | b1 :: r => isCont b1 && utf8Valid r
      | _ => false
    else if b0 == 0xE0 then
      match rest with
      | b1 :: b2 :: r => (0xA0 ≤ b1 && b1 ≤ 0xBF) && isCont b2 && utf8Valid r
      | _ => false
    else if (0xE1 ≤ b0 && b0 ≤ 0xEC) || b0 == 0xEE || b0 == 0xEF then
      match rest with
      | b1 :: b2 :: r => isCont b1 && isCont b2 && utf8Valid r
      | _ => false
    else if b0 == 0xED then
      match rest with
      | b1 :: b2 :: r => (0x80 ≤ b1 && b1 ≤ 0x9F) && isCont b2 && utf8Valid r
      | _ => false
    else if b0 == 0xF0 then
      match rest with
      | b1 :: b2 :: b3 :: r => (0x90 ≤ b1 && b1 ≤ 0xBF) && isCont b2 && isCont b3 && utf8Valid r
      | _ => false
    else if 0xF1 ≤ b0 && b0 ≤ 0xF3 then
      match rest with
      | b1 :: b2 :: b3 :: r => isCont b1 && isCont b2 && isCont b3 && utf8Valid r
      | _ => false
    else if b0 == 0xF4 then
      match rest with
      | b1 :: b2 :: b3 :: r => (0x80 ≤ b1 && b1 ≤ 0x8F) && isCont b2 && isCont b3 && utf8Valid r
      | _ => false
    else false
termination_by bs => bs.length

end WebPkg
