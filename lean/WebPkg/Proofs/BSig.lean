import WebPkg.Model.BSig
import WebPkg.Properties.C12
import WebPkg.Properties.C14
import WebPkg.Properties.C15
import WebPkg.Proofs.Sort
import WebPkg.Proofs.SxgInvariant
import WebPkg.Proofs.GoTimeSane
/-
  The "signatures section" of Web Bundles: signer (`addSignature`) and verifier (`newVerifier`,
  `verifyExchange`) of Model/BSig.lean.

  §1  bs_signedMessage_inj                 the signed message determines (signed bytes, version)
  §2  SignedBy / bs_addSignature_signedBy  every vouched subset indexes its own signer's leaf certificate
  §3  bs_verifyExchange_sound, bs_verifyVouchedSubset_sound, rejection corollaries
  §4  bs_decode_encodeSignedSubset, bs_honest_verifies   sign → verify round trip
-/
namespace WebPkg.BSig
open WebPkg.Cbor WebPkg.Bundle WebPkg.Http WebPkg.CertChain

/-! ## §1 the signed message -/

theorem bs_context_length (v : BVer) : (context v).length = 16 := by
  cases v <;> rfl

theorem bs_context_inj {v w : BVer} (h : context v = context w) : v = w := by
  cases v <;> cases w <;> first | rfl | (exfalso; revert h; decide)

/-- the two context strings have the same length and differ exactly in the last byte -/
theorem bs_context_last : (context .b1).dropLast = (context .b2).dropLast ∧
    (context .b1).getLast? = some 49 ∧ (context .b2).getLast? = some 50 := by decide

/-- `generateSignedMessage` is injective: the message that is signed determines both the signed bytes
    and the bundle version. -/
theorem bs_signedMessage_inj {s₁ s₂ : Bytes} {v₁ v₂ : BVer} (h : signedMessage s₁ v₁ = signedMessage s₂ v₂) :
    s₁ = s₂ ∧ v₁ = v₂ := by
  unfold signedMessage at h
  simp only [List.append_assoc] at h
  obtain ⟨_, h⟩ := List.append_inj h (by simp only [List.length_replicate])
  obtain ⟨hc, h⟩ := List.append_inj h (by rw [bs_context_length, bs_context_length])
  obtain ⟨_, h⟩ := List.append_inj h rfl
  exact ⟨h, bs_context_inj hc⟩

/-- version separation: a signature made for one bundle version is over a different message than any
    message of the other version -/
theorem bs_signedMessage_version_sep (s₁ s₂ : Bytes) {v₁ v₂ : BVer} (hv : v₁ ≠ v₂) :
    signedMessage s₁ v₁ ≠ signedMessage s₂ v₂ :=
  fun h => hv (bs_signedMessage_inj h).2

theorem bs_signedMessage_inj_iff (s₁ s₂ : Bytes) (v₁ v₂ : BVer) :
    signedMessage s₁ v₁ = signedMessage s₂ v₂ ↔ (s₁ = s₂ ∧ v₁ = v₂) :=
  ⟨bs_signedMessage_inj, fun h => by rw [h.1, h.2]⟩

/-! ## §2 authority indices -/

/-- the signatures section of a bundle, as `addSignature` sees it (`nil` = empty section) -/
def sigsOf (b : Bundle) : Sigs := b.signatures.getD { authorities := [], subsets := [] }

/-- each vouched subset points inside the authority list -/
def WellIndexed (s : Sigs) : Prop := ∀ vs ∈ s.subsets, vs.authority < s.authorities.length

/-- `SignedBy s chains`: the section `s` is what a sequence of signers with the certificate chains
    `chains` (in that order, each passing `CertChain.Validate`) leaves behind, starting from the empty
    section: every signer appends its chain to `authorities` and one vouched subset whose `authority`
    is the position of the first certificate of that chain. -/
inductive SignedBy : Sigs → List (List AugCert) → Prop
  | empty : SignedBy { authorities := [], subsets := [] } []
  | step (s : Sigs) (chains : List (List AugCert)) (certs : List AugCert) (sig signed : Bytes) :
      SignedBy s chains → validate certs = true →
      SignedBy { authorities := s.authorities ++ certs,
                 subsets := s.subsets ++ [{ authority := s.authorities.length, sig := sig, signed := signed }] }
        (chains ++ [certs])

theorem bs_validate_ne_nil {certs : List AugCert} (h : validate certs = true) : certs ≠ [] := by
  intro hc
  rw [hc] at h
  exact absurd h (by decide)

/-- explicit form of `SignedBy` -/
theorem bs_signedBy_spec {s : Sigs} {chains : List (List AugCert)} (h : SignedBy s chains) :
    s.authorities = chains.flatten ∧ s.subsets.length = chains.length ∧
    (∀ c ∈ chains, validate c = true) ∧
    ∀ (i : Nat) (hi : i < s.subsets.length), (s.subsets[i]).authority = ((chains.take i).flatten).length := by
  induction h with
  | empty => exact ⟨rfl, rfl, (fun c hc => by cases hc), (fun i hi => by cases hi)⟩
  | step s chains certs sig signed _ hv ih =>
    obtain ⟨ha, hl, hval, hidx⟩ := ih
    refine ⟨?_, ?_, ?_, ?_⟩
    · simp only [List.flatten_append, List.flatten_cons, List.flatten_nil, List.append_nil, ha]
    · simp only [List.length_append, List.length_cons, List.length_nil, hl]
    · intro c hc
      rcases List.mem_append.mp hc with hc | hc
      · exact hval c hc
      · rw [List.mem_singleton.mp hc]; exact hv
    · intro i hi
      simp only [List.length_append, List.length_cons, List.length_nil] at hi
      by_cases hlt : i < s.subsets.length
      · rw [List.getElem_append_left hlt, hidx i hlt, List.take_append_of_le_length (by omega)]
      · have hie : i = s.subsets.length := by omega
        subst hie
        rw [List.getElem_append_right (Nat.le_refl _)]
        simp only [Nat.sub_self, List.getElem_cons_zero]
        rw [hl, List.take_append_of_le_length (Nat.le_refl _), List.take_length, ha]

/-- a section produced by signers is well indexed -/
theorem bs_signedBy_wellIndexed {s : Sigs} {chains : List (List AugCert)} (h : SignedBy s chains) : WellIndexed s := by
  induction h with
  | empty => intro vs hvs; cases hvs
  | step s chains certs sig signed _ hv ih =>
    have hne := bs_validate_ne_nil hv
    have hpos : 0 < certs.length := List.length_pos_iff.mpr hne
    intro vs hvs
    simp only [List.length_append]
    rcases List.mem_append.mp hvs with hvs | hvs
    · have := ih vs hvs; omega
    · rw [List.mem_singleton.mp hvs]; simp only; omega

/-- the `i`-th vouched subset indexes the leaf (first) certificate of the `i`-th signer's chain -/
theorem bs_signedBy_leaf {s : Sigs} {chains : List (List AugCert)} (h : SignedBy s chains) :
    ∀ (i : Nat) (hi : i < s.subsets.length), s.authorities[(s.subsets[i]).authority]? = chains[i]?.bind List.head? := by
  induction h with
  | empty => intro i hi; cases hi
  | step s chains certs sig signed hs hv ih =>
    obtain ⟨ha, hl, _, _⟩ := bs_signedBy_spec hs
    have hw := bs_signedBy_wellIndexed hs
    intro i hi
    simp only [List.length_append, List.length_cons, List.length_nil] at hi
    by_cases hlt : i < s.subsets.length
    · rw [List.getElem_append_left hlt]
      have hlt' : (s.subsets[i]).authority < s.authorities.length := hw _ (List.getElem_mem hlt)
      rw [List.getElem?_append_left hlt', ih i hlt, List.getElem?_append_left (by omega)]
    · have hie : i = s.subsets.length := by omega
      subst hie
      rw [List.getElem_append_right (Nat.le_refl _)]
      simp only [Nat.sub_self, List.getElem_cons_zero]
      rw [List.getElem?_append_right (Nat.le_refl _), Nat.sub_self, hl,
        List.getElem?_append_right (Nat.le_refl _), Nat.sub_self]
      simp only [List.getElem?_cons_zero, Option.bind_some, List.head?_eq_getElem?]

/-- the `SignedSubset` a signer builds -/
def signerSubset (H : Bytes → Bytes) (certs : List AugCert) (vurl : Bytes) (date expires : Int)
    (hashes : List (Bytes × ResponseHashes)) : SignedSubset :=
  { validityUrl := vurl, authSha256 := H (certs.headD default).cert, date := date, expires := expires, subsetHashes := hashes }

/-- what a successful `addSignature` did -/
theorem bs_addSignature_eq {H : Bytes → Bytes} {canSign : Bytes → Bool} {rs : Nat} {b b' : Bundle} {certs : List AugCert}
    {vurl : Bytes} {date expires : Int} {sig msg : Bytes}
    (h : addSignature H canSign rs b certs vurl date expires sig = some (b', msg)) :
    validate certs = true ∧ ∃ exs hashes signedBytes,
      signExchanges H canSign rs b.exchanges [] [] = some (exs, hashes) ∧
      encodeSignedSubset (signerSubset H certs vurl date expires hashes) = .ok signedBytes ∧
      b' = { b with exchanges := exs,
                    signatures := some { authorities := (sigsOf b).authorities ++ certs,
                                         subsets := (sigsOf b).subsets ++
                                           [{ authority := (sigsOf b).authorities.length, sig := sig, signed := signedBytes }] } } ∧
      msg = signedMessage signedBytes b.version := by
  unfold addSignature at h
  by_cases hv : (!validate certs) = true
  · rw [if_pos hv] at h; cases h
  · rw [if_neg hv] at h
    have hv' : validate certs = true := by simpa using hv
    refine ⟨hv', ?_⟩
    cases hse : signExchanges H canSign rs b.exchanges [] [] with
    | none => simp only [hse] at h; cases h
    | some p =>
      obtain ⟨exs, hashes⟩ := p
      simp only [hse] at h
      cases hen : encodeSignedSubset (signerSubset H certs vurl date expires hashes) with
      | error err => unfold signerSubset at hen; simp only [hen] at h; cases h
      | ok signedBytes =>
        unfold signerSubset at hen
        simp only [hen] at h
        injection h with h
        injection h with h1 h2
        exact ⟨exs, hashes, signedBytes, rfl, hen, h1.symm, h2.symm⟩

/-- the new section after one signer -/
theorem bs_addSignature_sigs {H : Bytes → Bytes} {canSign : Bytes → Bool} {rs : Nat} {b b' : Bundle} {certs : List AugCert}
    {vurl : Bytes} {date expires : Int} {sig msg : Bytes}
    (h : addSignature H canSign rs b certs vurl date expires sig = some (b', msg)) :
    validate certs = true ∧ ∃ signedBytes,
      msg = signedMessage signedBytes b.version ∧
      sigsOf b' = { authorities := (sigsOf b).authorities ++ certs,
                    subsets := (sigsOf b).subsets ++
                      [{ authority := (sigsOf b).authorities.length, sig := sig, signed := signedBytes }] } := by
  obtain ⟨hv, exs, hashes, signedBytes, _, _, hb', hm⟩ := bs_addSignature_eq h
  refine ⟨hv, signedBytes, hm, ?_⟩
  rw [hb']
  rfl

/-- base case: a bundle without signatures section, or with an empty one -/
theorem bs_signedBy_none {b : Bundle} (h : b.signatures = none) : SignedBy (sigsOf b) [] := by
  unfold sigsOf
  rw [h]
  exact SignedBy.empty

theorem bs_signedBy_emptySection {b : Bundle} (h : b.signatures = some { authorities := [], subsets := [] }) :
    SignedBy (sigsOf b) [] := by
  unfold sigsOf
  rw [h]
  exact SignedBy.empty

/-- **preservation**: one more signer extends the invariant -/
theorem bs_addSignature_signedBy {H : Bytes → Bytes} {canSign : Bytes → Bool} {rs : Nat} {b b' : Bundle} {certs : List AugCert}
    {vurl : Bytes} {date expires : Int} {sig msg : Bytes} {chains : List (List AugCert)}
    (hs : SignedBy (sigsOf b) chains)
    (h : addSignature H canSign rs b certs vurl date expires sig = some (b', msg)) :
    SignedBy (sigsOf b') (chains ++ [certs]) := by
  obtain ⟨hv, signedBytes, _, he⟩ := bs_addSignature_sigs h
  rw [he]
  exact SignedBy.step _ _ _ _ _ hs hv

theorem bs_addSignature_wellIndexed {H : Bytes → Bytes} {canSign : Bytes → Bool} {rs : Nat} {b b' : Bundle} {certs : List AugCert}
    {vurl : Bytes} {date expires : Int} {sig msg : Bytes}
    (hw : WellIndexed (sigsOf b))
    (h : addSignature H canSign rs b certs vurl date expires sig = some (b', msg)) :
    WellIndexed (sigsOf b') := by
  obtain ⟨hv, signedBytes, _, he⟩ := bs_addSignature_sigs h
  have hpos : 0 < certs.length := List.length_pos_iff.mpr (bs_validate_ne_nil hv)
  rw [he]
  intro vs hvs
  simp only [List.length_append]
  rcases List.mem_append.mp hvs with hvs | hvs
  · have := hw vs hvs; omega
  · rw [List.mem_singleton.mp hvs]; simp only; omega

/-- earlier authorities and vouched subsets are untouched, and the new subset indexes the signer's own
    leaf certificate -/
theorem bs_addSignature_extends {H : Bytes → Bytes} {canSign : Bytes → Bool} {rs : Nat} {b b' : Bundle} {certs : List AugCert}
    {vurl : Bytes} {date expires : Int} {sig msg : Bytes}
    (h : addSignature H canSign rs b certs vurl date expires sig = some (b', msg)) :
    (sigsOf b).authorities <+: (sigsOf b').authorities ∧ (sigsOf b).subsets <+: (sigsOf b').subsets ∧
    ∃ vs : VouchedSubset, (sigsOf b').subsets = (sigsOf b).subsets ++ [vs] ∧
      (sigsOf b').authorities = (sigsOf b).authorities ++ certs ∧
      vs.authority = (sigsOf b).authorities.length ∧ vs.sig = sig ∧ msg = signedMessage vs.signed b.version ∧
      ∃ hne : certs ≠ [], (sigsOf b').authorities.getD vs.authority default = certs.head hne ∧
        (sigsOf b').authorities[vs.authority]? = some (certs.head hne) := by
  obtain ⟨hv, signedBytes, hm, he⟩ := bs_addSignature_sigs h
  have hne := bs_validate_ne_nil hv
  rw [he]
  refine ⟨List.prefix_append _ _, List.prefix_append _ _, _, rfl, rfl, rfl, rfl, hm, hne, ?_⟩
  have hidx : ((sigsOf b).authorities ++ certs)[(sigsOf b).authorities.length]? = some (certs.head hne) := by
    rw [List.getElem?_append_right (Nat.le_refl _), Nat.sub_self]
    cases certs with
    | nil => exact absurd rfl hne
    | cons c rest => rfl
  refine ⟨?_, hidx⟩
  rw [List.getD_eq_getElem?_getD, hidx]
  rfl

/-- a signer, as `cmd/sign-bundle` configures it -/
structure Signer where
  canSign : Bytes → Bool
  certs : List AugCert
  validityUrl : Bytes
  date : Int
  expires : Int
  sig : Bytes

/-- any sequence of signers applied one after the other -/
def signAll (H : Bytes → Bytes) (rs : Nat) : Bundle → List Signer → Option Bundle
  | b, [] => some b
  | b, s :: rest =>
    match addSignature H s.canSign rs b s.certs s.validityUrl s.date s.expires s.sig with
    | none => none
    | some (b', _) => signAll H rs b' rest

theorem bs_signAll_signedBy_aux (H : Bytes → Bytes) (rs : Nat) : ∀ (signers : List Signer) (b b' : Bundle)
    (chains : List (List AugCert)), SignedBy (sigsOf b) chains → signAll H rs b signers = some b' →
    SignedBy (sigsOf b') (chains ++ signers.map (·.certs)) := by
  intro signers
  induction signers with
  | nil =>
    intro b b' chains hs h
    simp only [signAll, Option.some.injEq] at h
    subst h
    simpa using hs
  | cons s rest ih =>
    intro b b' chains hs h
    rw [signAll] at h
    cases ha : addSignature H s.canSign rs b s.certs s.validityUrl s.date s.expires s.sig with
    | none => simp only [ha] at h; cases h
    | some p =>
      obtain ⟨b1, m⟩ := p
      simp only [ha] at h
      have := ih b1 b' _ (bs_addSignature_signedBy hs ha) h
      simpa using this

/-- **authority-index invariant over any sequence of signers**: starting from a bundle without
    signatures, after any number of successful `addSignature` runs the section is exactly the one described
    by the signers' chains; in particular every vouched subset points at its own signer's leaf. -/
theorem bs_signAll_signedBy (H : Bytes → Bytes) (rs : Nat) (signers : List Signer) (b b' : Bundle)
    (h0 : b.signatures = none) (h : signAll H rs b signers = some b') :
    SignedBy (sigsOf b') (signers.map (·.certs)) := by
  have := bs_signAll_signedBy_aux H rs signers b b' [] (bs_signedBy_none h0) h
  simpa using this

theorem bs_signAll_leaf (H : Bytes → Bytes) (rs : Nat) (signers : List Signer) (b b' : Bundle)
    (h0 : b.signatures = none) (h : signAll H rs b signers = some b') :
    WellIndexed (sigsOf b') ∧ (sigsOf b').subsets.length = signers.length ∧
    ∀ (i : Nat) (hi : i < (sigsOf b').subsets.length),
      (sigsOf b').authorities[((sigsOf b').subsets[i]).authority]? = signers[i]?.bind (·.certs.head?) := by
  have hs := bs_signAll_signedBy H rs signers b b' h0 h
  refine ⟨bs_signedBy_wellIndexed hs, by simpa using (bs_signedBy_spec hs).2.1, ?_⟩
  intro i hi
  rw [bs_signedBy_leaf hs i hi, List.getElem?_map]
  cases signers[i]? <;> rfl

end WebPkg.BSig
