import WebPkg.Model.BSig
import WebPkg.Properties.C12
import WebPkg.Properties.C14
import WebPkg.Properties.C15
import WebPkg.Proofs.Sort
import WebPkg.Proofs.SxgInvariant
import WebPkg.Proofs.GoTimeSane
/-
  The "signatures section" of Web Bundles: signer (`addSignature`) and verifier (`newVerifier`,
  `verifyExchange`) of Model/BSig.lean.

  §1  bs_signedMessage_inj                 the signed message determines (signed bytes, version)
  §2  SignedBy / bs_addSignature_signedBy  every vouched subset indexes its own signer's leaf certificate
  §3  bs_verifyExchange_sound, bs_verifyVouchedSubset_sound, rejection corollaries
  §4  bs_decode_encodeSignedSubset, bs_honest_verifies   sign → verify round trip
-/
namespace WebPkg.BSig
open WebPkg.Cbor WebPkg.Bundle WebPkg.Http WebPkg.CertChain

/-! ## §1 the signed message -/

theorem bs_context_length (v : BVer) : (context v).length = 16 := by
  cases v <;> rfl

theorem bs_context_inj {v w : BVer} (h : context v = context w) : v = w := by
  cases v <;> cases w <;> first | rfl | (exfalso; revert h; decide)

/-- the two context strings have the same length and differ exactly in the last byte -/
theorem bs_context_last : (context .b1).dropLast = (context .b2).dropLast ∧
    (context .b1).getLast? = some 49 ∧ (context .b2).getLast? = some 50 := by decide

/-- `generateSignedMessage` is injective: the message that is signed determines both the signed bytes
    and the bundle version. -/
theorem bs_signedMessage_inj {s₁ s₂ : Bytes} {v₁ v₂ : BVer} (h : signedMessage s₁ v₁ = signedMessage s₂ v₂) :
    s₁ = s₂ ∧ v₁ = v₂ := by
  unfold signedMessage at h
  simp only [List.append_assoc] at h
  obtain ⟨_, h⟩ := List.append_inj h (by simp only [List.length_replicate])
  obtain ⟨hc, h⟩ := List.append_inj h (by rw [bs_context_length, bs_context_length])
  obtain ⟨_, h⟩ := List.append_inj h rfl
  exact ⟨h, bs_context_inj hc⟩

/-- version separation: a signature made for one bundle version is over a different message than any
    message of the other version -/
theorem bs_signedMessage_version_sep (s₁ s₂ : Bytes) {v₁ v₂ : BVer} (hv : v₁ ≠ v₂) :
    signedMessage s₁ v₁ ≠ signedMessage s₂ v₂ :=
  fun h => hv (bs_signedMessage_inj h).2

theorem bs_signedMessage_inj_iff (s₁ s₂ : Bytes) (v₁ v₂ : BVer) :
    signedMessage s₁ v₁ = signedMessage s₂ v₂ ↔ (s₁ = s₂ ∧ v₁ = v₂) :=
  ⟨bs_signedMessage_inj, fun h => by rw [h.1, h.2]⟩

/-! ## §2 authority indices -/

/-- the signatures section of a bundle, as `addSignature` sees it (`nil` = empty section) -/
def sigsOf (b : Bundle) : Sigs := b.signatures.getD { authorities := [], subsets := [] }

/-- each vouched subset points inside the authority list -/
def WellIndexed (s : Sigs) : Prop := ∀ vs ∈ s.subsets, vs.authority < s.authorities.length

/-- `SignedBy s chains`: the section `s` is what a sequence of signers with the certificate chains
    `chains` (in that order, each passing `CertChain.Validate`) leaves behind, starting from the empty
    section: every signer appends its chain to `authorities` and one vouched subset whose `authority`
    is the position of the first certificate of that chain. -/
inductive SignedBy : Sigs → List (List AugCert) → Prop
  | empty : SignedBy { authorities := [], subsets := [] } []
  | step (s : Sigs) (chains : List (List AugCert)) (certs : List AugCert) (sig signed : Bytes) :
      SignedBy s chains → validate certs = true →
      SignedBy { authorities := s.authorities ++ certs,
                 subsets := s.subsets ++ [{ authority := s.authorities.length, sig := sig, signed := signed }] }
        (chains ++ [certs])

theorem bs_validate_ne_nil {certs : List AugCert} (h : validate certs = true) : certs ≠ [] := by
  intro hc
  rw [hc] at h
  exact absurd h (by decide)

/-- explicit form of `SignedBy` -/
theorem bs_signedBy_spec {s : Sigs} {chains : List (List AugCert)} (h : SignedBy s chains) :
    s.authorities = chains.flatten ∧ s.subsets.length = chains.length ∧
    (∀ c ∈ chains, validate c = true) ∧
    ∀ (i : Nat) (hi : i < s.subsets.length), (s.subsets[i]).authority = ((chains.take i).flatten).length := by
  induction h with
  | empty => exact ⟨rfl, rfl, (fun c hc => by cases hc), (fun i hi => by cases hi)⟩
  | step s chains certs sig signed _ hv ih =>
    obtain ⟨ha, hl, hval, hidx⟩ := ih
    refine ⟨?_, ?_, ?_, ?_⟩
    · simp only [List.flatten_append, List.flatten_cons, List.flatten_nil, List.append_nil, ha]
    · simp only [List.length_append, List.length_cons, List.length_nil, hl]
    · intro c hc
      rcases List.mem_append.mp hc with hc | hc
      · exact hval c hc
      · rw [List.mem_singleton.mp hc]; exact hv
    · intro i hi
      simp only [List.length_append, List.length_cons, List.length_nil] at hi
      by_cases hlt : i < s.subsets.length
      · rw [List.getElem_append_left hlt, hidx i hlt, List.take_append_of_le_length (by omega)]
      · have hie : i = s.subsets.length := by omega
        subst hie
        rw [List.getElem_append_right (Nat.le_refl _)]
        simp only [Nat.sub_self, List.getElem_cons_zero]
        rw [hl, List.take_append_of_le_length (Nat.le_refl _), List.take_length, ha]

/-- a section produced by signers is well indexed -/
theorem bs_signedBy_wellIndexed {s : Sigs} {chains : List (List AugCert)} (h : SignedBy s chains) : WellIndexed s := by
  induction h with
  | empty => intro vs hvs; cases hvs
  | step s chains certs sig signed _ hv ih =>
    have hne := bs_validate_ne_nil hv
    have hpos : 0 < certs.length := List.length_pos_iff.mpr hne
    intro vs hvs
    simp only [List.length_append]
    rcases List.mem_append.mp hvs with hvs | hvs
    · have := ih vs hvs; omega
    · rw [List.mem_singleton.mp hvs]; simp only; omega

/-- the `i`-th vouched subset indexes the leaf (first) certificate of the `i`-th signer's chain -/
theorem bs_signedBy_leaf {s : Sigs} {chains : List (List AugCert)} (h : SignedBy s chains) :
    ∀ (i : Nat) (hi : i < s.subsets.length), s.authorities[(s.subsets[i]).authority]? = chains[i]?.bind List.head? := by
  induction h with
  | empty => intro i hi; cases hi
  | step s chains certs sig signed hs hv ih =>
    obtain ⟨ha, hl, _, _⟩ := bs_signedBy_spec hs
    have hw := bs_signedBy_wellIndexed hs
    intro i hi
    simp only [List.length_append, List.length_cons, List.length_nil] at hi
    by_cases hlt : i < s.subsets.length
    · rw [List.getElem_append_left hlt]
      have hlt' : (s.subsets[i]).authority < s.authorities.length := hw _ (List.getElem_mem hlt)
      rw [List.getElem?_append_left hlt', ih i hlt, List.getElem?_append_left (by omega)]
    · have hie : i = s.subsets.length := by omega
      subst hie
      rw [List.getElem_append_right (Nat.le_refl _)]
      simp only [Nat.sub_self, List.getElem_cons_zero]
      rw [List.getElem?_append_right (Nat.le_refl _), Nat.sub_self, hl,
        List.getElem?_append_right (Nat.le_refl _), Nat.sub_self]
      simp only [List.getElem?_cons_zero, Option.bind_some, List.head?_eq_getElem?]

/-- the `SignedSubset` a signer builds -/
def signerSubset (H : Bytes → Bytes) (certs : List AugCert) (vurl : Bytes) (date expires : Int)
    (hashes : List (Bytes × ResponseHashes)) : SignedSubset :=
  { validityUrl := vurl, authSha256 := H (certs.headD default).cert, date := date, expires := expires, subsetHashes := hashes }

/-- what a successful `addSignature` did -/
theorem bs_addSignature_eq {H : Bytes → Bytes} {canSign : Bytes → Bool} {rs : Nat} {b b' : Bundle} {certs : List AugCert}
    {vurl : Bytes} {date expires : Int} {sig msg : Bytes}
    (h : addSignature H canSign rs b certs vurl date expires sig = some (b', msg)) :
    validate certs = true ∧ ∃ exs hashes signedBytes,
      signExchanges H canSign rs b.exchanges [] [] = some (exs, hashes) ∧
      encodeSignedSubset (signerSubset H certs vurl date expires hashes) = .ok signedBytes ∧
      b' = { b with exchanges := exs,
                    signatures := some { authorities := (sigsOf b).authorities ++ certs,
                                         subsets := (sigsOf b).subsets ++
                                           [{ authority := (sigsOf b).authorities.length, sig := sig, signed := signedBytes }] } } ∧
      msg = signedMessage signedBytes b.version := by
  unfold addSignature at h
  by_cases hv : (!validate certs) = true
  · rw [if_pos hv] at h; cases h
  · rw [if_neg hv] at h
    have hv' : validate certs = true := by simpa using hv
    refine ⟨hv', ?_⟩
    cases hse : signExchanges H canSign rs b.exchanges [] [] with
    | none => simp only [hse] at h; cases h
    | some p =>
      obtain ⟨exs, hashes⟩ := p
      simp only [hse] at h
      cases hen : encodeSignedSubset (signerSubset H certs vurl date expires hashes) with
      | error err => unfold signerSubset at hen; simp only [hen] at h; cases h
      | ok signedBytes =>
        unfold signerSubset at hen
        simp only [hen] at h
        injection h with h
        injection h with h1 h2
        exact ⟨exs, hashes, signedBytes, rfl, hen, h1.symm, h2.symm⟩

/-- the new section after one signer -/
theorem bs_addSignature_sigs {H : Bytes → Bytes} {canSign : Bytes → Bool} {rs : Nat} {b b' : Bundle} {certs : List AugCert}
    {vurl : Bytes} {date expires : Int} {sig msg : Bytes}
    (h : addSignature H canSign rs b certs vurl date expires sig = some (b', msg)) :
    validate certs = true ∧ ∃ signedBytes,
      msg = signedMessage signedBytes b.version ∧
      sigsOf b' = { authorities := (sigsOf b).authorities ++ certs,
                    subsets := (sigsOf b).subsets ++
                      [{ authority := (sigsOf b).authorities.length, sig := sig, signed := signedBytes }] } := by
  obtain ⟨hv, exs, hashes, signedBytes, _, _, hb', hm⟩ := bs_addSignature_eq h
  refine ⟨hv, signedBytes, hm, ?_⟩
  rw [hb']
  rfl

/-- base case: a bundle without signatures section, or with an empty one -/
theorem bs_signedBy_none {b : Bundle} (h : b.signatures = none) : SignedBy (sigsOf b) [] := by
  unfold sigsOf
  rw [h]
  exact SignedBy.empty

theorem bs_signedBy_emptySection {b : Bundle} (h : b.signatures = some { authorities := [], subsets := [] }) :
    SignedBy (sigsOf b) [] := by
  unfold sigsOf
  rw [h]
  exact SignedBy.empty

/-- **preservation**: one more signer extends the invariant -/
theorem bs_addSignature_signedBy {H : Bytes → Bytes} {canSign : Bytes → Bool} {rs : Nat} {b b' : Bundle} {certs : List AugCert}
    {vurl : Bytes} {date expires : Int} {sig msg : Bytes} {chains : List (List AugCert)}
    (hs : SignedBy (sigsOf b) chains)
    (h : addSignature H canSign rs b certs vurl date expires sig = some (b', msg)) :
    SignedBy (sigsOf b') (chains ++ [certs]) := by
  obtain ⟨hv, signedBytes, _, he⟩ := bs_addSignature_sigs h
  rw [he]
  exact SignedBy.step _ _ _ _ _ hs hv

theorem bs_addSignature_wellIndexed {H : Bytes → Bytes} {canSign : Bytes → Bool} {rs : Nat} {b b' : Bundle} {certs : List AugCert}
    {vurl : Bytes} {date expires : Int} {sig msg : Bytes}
    (hw : WellIndexed (sigsOf b))
    (h : addSignature H canSign rs b certs vurl date expires sig = some (b', msg)) :
    WellIndexed (sigsOf b') := by
  obtain ⟨hv, signedBytes, _, he⟩ := bs_addSignature_sigs h
  have hpos : 0 < certs.length := List.length_pos_iff.mpr (bs_validate_ne_nil hv)
  rw [he]
  intro vs hvs
  simp only [List.length_append]
  rcases List.mem_append.mp hvs with hvs | hvs
  · have := hw vs hvs; omega
  · rw [List.mem_singleton.mp hvs]; simp only; omega

/-- earlier authorities and vouched subsets are untouched, and the new subset indexes the signer's own
    leaf certificate -/
theorem bs_addSignature_extends {H : Bytes → Bytes} {canSign : Bytes → Bool} {rs : Nat} {b b' : Bundle} {certs : List AugCert}
    {vurl : Bytes} {date expires : Int} {sig msg : Bytes}
    (h : addSignature H canSign rs b certs vurl date expires sig = some (b', msg)) :
    (sigsOf b).authorities <+: (sigsOf b').authorities ∧ (sigsOf b).subsets <+: (sigsOf b').subsets ∧
    ∃ vs : VouchedSubset, (sigsOf b').subsets = (sigsOf b).subsets ++ [vs] ∧
      (sigsOf b').authorities = (sigsOf b).authorities ++ certs ∧
      vs.authority = (sigsOf b).authorities.length ∧ vs.sig = sig ∧ msg = signedMessage vs.signed b.version ∧
      ∃ hne : certs ≠ [], (sigsOf b').authorities.getD vs.authority default = certs.head hne ∧
        (sigsOf b').authorities[vs.authority]? = some (certs.head hne) := by
  obtain ⟨hv, signedBytes, hm, he⟩ := bs_addSignature_sigs h
  have hne := bs_validate_ne_nil hv
  rw [he]
  refine ⟨List.prefix_append _ _, List.prefix_append _ _, _, rfl, rfl, rfl, rfl, hm, hne, ?_⟩
  have hidx : ((sigsOf b).authorities ++ certs)[(sigsOf b).authorities.length]? = some (certs.head hne) := by
    rw [List.getElem?_append_right (Nat.le_refl _), Nat.sub_self]
    cases certs with
    | nil => exact absurd rfl hne
    | cons c rest => rfl
  refine ⟨?_, hidx⟩
  rw [List.getD_eq_getElem?_getD, hidx]
  rfl

/-- a signer, as `cmd/sign-bundle` configures it -/
structure Signer where
  canSign : Bytes → Bool
  certs : List AugCert
  validityUrl : Bytes
  date : Int
  expires : Int
  sig : Bytes

/-- any sequence of signers applied one after the other -/
def signAll (H : Bytes → Bytes) (rs : Nat) : Bundle → List Signer → Option Bundle
  | b, [] => some b
  | b, s :: rest =>
    match addSignature H s.canSign rs b s.certs s.validityUrl s.date s.expires s.sig with
    | none => none
    | some (b', _) => signAll H rs b' rest

theorem bs_signAll_signedBy_aux (H : Bytes → Bytes) (rs : Nat) : ∀ (signers : List Signer) (b b' : Bundle)
    (chains : List (List AugCert)), SignedBy (sigsOf b) chains → signAll H rs b signers = some b' →
    SignedBy (sigsOf b') (chains ++ signers.map (·.certs)) := by
  intro signers
  induction signers with
  | nil =>
    intro b b' chains hs h
    simp only [signAll, Option.some.injEq] at h
    subst h
    simpa using hs
  | cons s rest ih =>
    intro b b' chains hs h
    rw [signAll] at h
    cases ha : addSignature H s.canSign rs b s.certs s.validityUrl s.date s.expires s.sig with
    | none => simp only [ha] at h; cases h
    | some p =>
      obtain ⟨b1, m⟩ := p
      simp only [ha] at h
      have := ih b1 b' _ (bs_addSignature_signedBy hs ha) h
      simpa using this

/-- **authority-index invariant over any sequence of signers**: starting from a bundle without
    signatures, after any number of successful `addSignature` runs the section is exactly the one described
    by the signers' chains; in particular every vouched subset points at its own signer's leaf. -/
theorem bs_signAll_signedBy (H : Bytes → Bytes) (rs : Nat) (signers : List Signer) (b b' : Bundle)
    (h0 : b.signatures = none) (h : signAll H rs b signers = some b') :
    SignedBy (sigsOf b') (signers.map (·.certs)) := by
  have := bs_signAll_signedBy_aux H rs signers b b' [] (bs_signedBy_none h0) h
  simpa using this

theorem bs_signAll_leaf (H : Bytes → Bytes) (rs : Nat) (signers : List Signer) (b b' : Bundle)
    (h0 : b.signatures = none) (h : signAll H rs b signers = some b') :
    WellIndexed (sigsOf b') ∧ (sigsOf b').subsets.length = signers.length ∧
    ∀ (i : Nat) (hi : i < (sigsOf b').subsets.length),
      (sigsOf b').authorities[((sigsOf b').subsets[i]).authority]? = signers[i]?.bind (·.certs.head?) := by
  have hs := bs_signAll_signedBy H rs signers b b' h0 h
  refine ⟨bs_signedBy_wellIndexed hs, by simpa using (bs_signedBy_spec hs).2.1, ?_⟩
  intro i hi
  rw [bs_signedBy_leaf hs i hi, List.getElem?_map]
  cases signers[i]? <;> rfl

/-! ## §3 soundness of the verifier -/

theorem bs_mapM_some {α β : Type} (f : α → Option β) : ∀ (l : List α) (r : List β), l.mapM f = some r →
    l.map f = r.map some := by
  intro l
  induction l with
  | nil =>
    intro r h
    simp only [List.mapM_nil, Option.pure_def, Option.some.injEq] at h
    subst h
    rfl
  | cons a l ih =>
    intro r h
    rw [List.mapM_cons] at h
    cases hfa : f a with
    | none => simp [hfa] at h
    | some b =>
      cases hl : l.mapM f with
      | none => simp [hfa, hl] at h
      | some r' =>
        simp [hfa, hl] at h
        subst h
        rw [List.map_cons, List.map_cons, hfa, ih r' hl]

theorem bs_mapM_none {α β : Type} (f : α → Option β) : ∀ (l : List α) (a : α), a ∈ l → f a = none → l.mapM f = none := by
  intro l
  induction l with
  | nil => intro a ha; cases ha
  | cons x l ih =>
    intro a ha hfa
    rw [List.mapM_cons]
    rcases List.mem_cons.mp ha with rfl | ha
    · simp [hfa]
    · cases hx : f x with
      | none => simp
      | some b => simp [ih a ha hfa]

theorem bs_map_some_mem {α β : Type} {f : α → Option β} {l : List α} {r : List β} (h : l.map f = r.map some) :
    ∀ b ∈ r, ∃ a ∈ l, f a = some b := by
  intro b hb
  have : some b ∈ l.map f := by rw [h]; exact List.mem_map.mpr ⟨b, hb, rfl⟩
  obtain ⟨a, ha, hfa⟩ := List.mem_map.mp this
  exact ⟨a, ha, hfa⟩

/-- **everything is checked before a subset is trusted**: what `verifyVouchedSubset` accepted -/
theorem bs_verifyVouchedSubset_sound {env : VEnv} {vs : VouchedSubset} {auths : List AugCert} {t : GoTime.T} {ver : BVer}
    {ss : SignedSubset} {cert : AugCert} (h : verifyVouchedSubset env vs auths t ver = some (ss, cert)) :
    vs.authority < auths.length ∧ auths[vs.authority]? = some cert ∧
    env.keyOk cert.cert = true ∧
    env.sigVerify cert.cert (signedMessage vs.signed ver) vs.sig = true ∧
    decodeSignedSubset env.urlOk vs.signed = some ss ∧
    ss.authSha256 = env.H cert.cert ∧
    GoTime.sub (GoTime.ofUnix ss.expires 0) (GoTime.ofUnix ss.date 0) ≤ 604800 * 1000000000 ∧
    GoTime.before t (GoTime.ofUnix ss.date 0) = false ∧
    GoTime.after t (GoTime.ofUnix ss.expires 0) = false := by
  unfold verifyVouchedSubset at h
  by_cases h1 : vs.authority ≥ auths.length
  · rw [if_pos h1] at h; cases h
  · rw [if_neg h1] at h
    simp only at h
    have hlt : vs.authority < auths.length := by omega
    have hget : auths.getD vs.authority default = auths[vs.authority] := by
      rw [List.getD_eq_getElem?_getD, List.getElem?_eq_getElem hlt]; rfl
    by_cases h2 : (!env.keyOk (auths.getD vs.authority default).cert) = true
    · rw [if_pos h2] at h; cases h
    · rw [if_neg h2] at h
      by_cases h3 : (!env.sigVerify (auths.getD vs.authority default).cert (signedMessage vs.signed ver) vs.sig) = true
      · rw [if_pos h3] at h; cases h
      · rw [if_neg h3] at h
        cases hd : decodeSignedSubset env.urlOk vs.signed with
        | none => simp only [hd] at h; cases h
        | some ss' =>
          simp only [hd] at h
          by_cases h4 : ss'.authSha256 ≠ env.H (auths.getD vs.authority default).cert
          · rw [if_pos h4] at h; cases h
          · rw [if_neg h4] at h
            by_cases h5 : GoTime.sub (GoTime.ofUnix ss'.expires 0) (GoTime.ofUnix ss'.date 0) > 604800 * 1000000000
            · rw [if_pos h5] at h; cases h
            · rw [if_neg h5] at h
              by_cases h6 : GoTime.before t (GoTime.ofUnix ss'.date 0) = true
              · rw [if_pos h6] at h; cases h
              · rw [if_neg h6] at h
                by_cases h7 : GoTime.after t (GoTime.ofUnix ss'.expires 0) = true
                · rw [if_pos h7] at h; cases h
                · rw [if_neg h7] at h
                  injection h with h
                  injection h with hss hc
                  subst hss
                  rw [← hc]
                  refine ⟨hlt, ?_, by simpa using h2, by simpa using h3, rfl, by simpa using h4, by omega,
                    by simpa using h6, by simpa using h7⟩
                  rw [hget, List.getElem?_eq_getElem hlt]

/-- a vouched subset whose decoded validity window is wrong is refused, whatever the signature says -/
theorem bs_verifyVouchedSubset_window {env : VEnv} {vs : VouchedSubset} {auths : List AugCert} {t : GoTime.T} {ver : BVer}
    {ss : SignedSubset} (hd : decodeSignedSubset env.urlOk vs.signed = some ss)
    (hbad : GoTime.sub (GoTime.ofUnix ss.expires 0) (GoTime.ofUnix ss.date 0) > 604800 * 1000000000 ∨
      GoTime.before t (GoTime.ofUnix ss.date 0) = true ∨ GoTime.after t (GoTime.ofUnix ss.expires 0) = true) :
    verifyVouchedSubset env vs auths t ver = none := by
  cases hv : verifyVouchedSubset env vs auths t ver with
  | none => rfl
  | some p =>
    obtain ⟨ss', cert⟩ := p
    obtain ⟨_, _, _, _, hd', _, h1, h2, h3⟩ := bs_verifyVouchedSubset_sound hv
    rw [hd] at hd'
    injection hd' with hd'
    subst hd'
    rcases hbad with hb | hb | hb
    · omega
    · rw [hb] at h2; cases h2
    · rw [hb] at h3; cases h3

/-- what `NewVerifier` returns: one verified (subset, authority) pair per vouched subset, in order -/
theorem bs_newVerifier_sound {env : VEnv} {sigs : Sigs} {t : GoTime.T} {ver : BVer}
    {vss : List (SignedSubset × AugCert)} (h : newVerifier env sigs t ver = some vss) :
    sigs.subsets.map (fun vs => verifyVouchedSubset env vs sigs.authorities t ver) = vss.map some :=
  bs_mapM_some _ _ _ h

theorem bs_newVerifier_mem {env : VEnv} {sigs : Sigs} {t : GoTime.T} {ver : BVer}
    {vss : List (SignedSubset × AugCert)} (h : newVerifier env sigs t ver = some vss) :
    ∀ p ∈ vss, ∃ vs ∈ sigs.subsets, verifyVouchedSubset env vs sigs.authorities t ver = some p :=
  bs_map_some_mem (bs_newVerifier_sound h)

/-- one bad vouched subset makes `NewVerifier` fail as a whole -/
theorem bs_newVerifier_none {env : VEnv} {sigs : Sigs} {t : GoTime.T} {ver : BVer} {vs : VouchedSubset}
    (hm : vs ∈ sigs.subsets) (h : verifyVouchedSubset env vs sigs.authorities t ver = none) :
    newVerifier env sigs t ver = none :=
  bs_mapM_none _ _ vs hm h

/-- rejection, in Go `time.Time` terms: lifetime above 7 days, not yet valid, or expired -/
theorem bs_newVerifier_rejects {env : VEnv} {sigs : Sigs} {t : GoTime.T} {ver : BVer} {vs : VouchedSubset}
    {ss : SignedSubset} (hm : vs ∈ sigs.subsets) (hd : decodeSignedSubset env.urlOk vs.signed = some ss)
    (hbad : GoTime.sub (GoTime.ofUnix ss.expires 0) (GoTime.ofUnix ss.date 0) > 604800 * 1000000000 ∨
      GoTime.before t (GoTime.ofUnix ss.date 0) = true ∨ GoTime.after t (GoTime.ofUnix ss.expires 0) = true) :
    newVerifier env sigs t ver = none :=
  bs_newVerifier_none hm (bs_verifyVouchedSubset_window hd hbad)

/-- the three time conditions on the sane range (|unix seconds| < 2^62) are the plain integer ones -/
theorem bs_window_iff (date expires ts tn : Int)
    (hd : -(2:Int)^62 ≤ date ∧ date < (2:Int)^62) (hx : -(2:Int)^62 ≤ expires ∧ expires < (2:Int)^62)
    (ht : -(2:Int)^62 ≤ ts ∧ ts < (2:Int)^62) :
    (GoTime.sub (GoTime.ofUnix expires 0) (GoTime.ofUnix date 0) > 604800 * 1000000000 ↔ expires - date > 604800) ∧
    (GoTime.before (GoTime.ofUnix ts tn) (GoTime.ofUnix date 0) = true ↔ (ts < date ∨ (ts = date ∧ tn < 0))) ∧
    (GoTime.after (GoTime.ofUnix ts tn) (GoTime.ofUnix expires 0) = true ↔ (expires < ts ∨ (expires = ts ∧ 0 < tn))) := by
  refine ⟨Sxg.sub_gt_week_iff date expires hd hx, ?_, ?_⟩
  · rw [Sxg.ofUnix_sane _ _ hd, Sxg.ofUnix_sane _ _ ht, GoTime.before_iff]
    simp only
    omega
  · rw [Sxg.ofUnix_sane _ _ hx, Sxg.ofUnix_sane _ _ ht, GoTime.after, GoTime.before_iff]
    simp only
    omega

/-- rejection corollaries in unix seconds: a subset that is valid for more than 7 days, not yet valid at
    `ts`, or expired at `ts` makes `NewVerifier` fail -/
theorem bs_newVerifier_rejects_unix {env : VEnv} {sigs : Sigs} {ts tn : Int} {ver : BVer} {vs : VouchedSubset}
    {ss : SignedSubset} (hm : vs ∈ sigs.subsets) (hd : decodeSignedSubset env.urlOk vs.signed = some ss)
    (hds : -(2:Int)^62 ≤ ss.date ∧ ss.date < (2:Int)^62) (hxs : -(2:Int)^62 ≤ ss.expires ∧ ss.expires < (2:Int)^62)
    (hts : -(2:Int)^62 ≤ ts ∧ ts < (2:Int)^62) (htn : 0 ≤ tn)
    (hbad : ss.expires - ss.date > 604800 ∨ ts < ss.date ∨ ss.expires < ts ∨ (ss.expires = ts ∧ 0 < tn)) :
    newVerifier env sigs (GoTime.ofUnix ts tn) ver = none := by
  have _ := htn
  obtain ⟨w1, w2, w3⟩ := bs_window_iff ss.date ss.expires ts tn hds hxs hts
  apply bs_newVerifier_rejects hm hd
  rcases hbad with hb | hb | hb | hb
  · exact Or.inl (w1.mpr hb)
  · exact Or.inr (Or.inl (w2.mpr (Or.inl hb)))
  · exact Or.inr (Or.inr (w3.mpr (Or.inl hb)))
  · exact Or.inr (Or.inr (w3.mpr (Or.inr hb)))

/-- **soundness of `VerifyExchange`**: a `verified` verdict means that one of the verifier's trusted subsets
    lists exactly one integrity entry for this URL, that the entry is the SHA-256 of the response's header
    block with the draft-03 integrity identifier, and that the returned payload is what the MI decoder
    released, up to clean end of stream, under the response's `Digest` header. -/
theorem bs_verifyExchange_sound {env : VEnv} {ver : BVer} {vss : List (SignedSubset × AugCert)} {e : Exch}
    {p a : Bytes} (h : verifyExchange env ver vss e = .verified p a) :
    ∃ ss auth rhs rh, (ss, auth) ∈ vss ∧ a = auth.cert ∧
      ss.subsetHashes.find? (·.1 == e.url) = some (e.url, rhs) ∧
      rhs.variantsValue = [] ∧ rhs.hashes = [rh] ∧
      headerSha256 env.H e.resp = some rh.headerSha256 ∧
      rh.payloadIntegrityHeader = Mice.Enc.draft03.integrityIdentifier ∧
      get e.resp.headers hDigest ≠ [] ∧
      Mice.decodeAll env.H .draft03 e.resp.body (get e.resp.headers hDigest) 16384 = (p, .eof) := by
  unfold verifyExchange at h
  cases hf : vss.findSome? (fun (x : SignedSubset × AugCert) =>
      (x.1.subsetHashes.find? (·.1 == e.url)).map fun kv => (kv.2, x.2)) with
  | none => simp only [hf] at h; cases h
  | some q =>
    obtain ⟨rhs, auth⟩ := q
    simp only [hf] at h
    obtain ⟨x, hx, hfx⟩ := List.exists_of_findSome?_eq_some hf
    obtain ⟨ss, auth'⟩ := x
    simp only at hfx
    cases hfind : ss.subsetHashes.find? (·.1 == e.url) with
    | none => rw [hfind] at hfx; cases hfx
    | some kv =>
      rw [hfind] at hfx
      simp only [Option.map_some, Option.some.injEq, Prod.mk.injEq] at hfx
      obtain ⟨hkv, hauth⟩ := hfx
      subst hauth
      have hk : kv.1 = e.url := by
        have := List.find?_some hfind
        simpa using this
      have hkv' : kv = (e.url, rhs) := by
        obtain ⟨k, v⟩ := kv
        simp only at hk hkv
        rw [hk, hkv]
      by_cases h1 : rhs.variantsValue.length ≠ 0 ∨ rhs.hashes.length ≠ 1
      · rw [if_pos h1] at h; cases h
      · rw [if_neg h1] at h
        have hvv : rhs.variantsValue = [] := by
          apply List.eq_nil_of_length_eq_zero; omega
        have hlen : rhs.hashes.length = 1 := by omega
        obtain ⟨rh, hrh⟩ : ∃ rh, rhs.hashes = [rh] := by
          cases hh : rhs.hashes with
          | nil => rw [hh] at hlen; cases hlen
          | cons r rest =>
            cases rest with
            | nil => exact ⟨r, rfl⟩
            | cons r2 rest2 => rw [hh] at hlen; simp at hlen
        have hhd : rhs.hashes.headD default = rh := by rw [hrh]; rfl
        rw [hhd] at h
        cases hhs : headerSha256 env.H e.resp with
        | none => simp only [hhs] at h; cases h
        | some hs =>
          simp only [hhs] at h
          by_cases h2 : hs ≠ rh.headerSha256
          · rw [if_pos h2] at h; cases h
          · rw [if_neg h2] at h
            by_cases h3 : Mice.Enc.draft03.integrityIdentifier ≠ rh.payloadIntegrityHeader
            · rw [if_pos h3] at h; cases h
            · rw [if_neg h3] at h
              by_cases h4 : get e.resp.headers hDigest = []
              · rw [if_pos h4] at h; cases h
              · rw [if_neg h4] at h
                cases hdec : Mice.decodeAll env.H .draft03 e.resp.body (get e.resp.headers hDigest) 16384 with
                | mk out st =>
                  rw [hdec] at h
                  cases st with
                  | eof =>
                    simp only at h
                    injection h with hp ha
                    subst hp
                    refine ⟨ss, auth', rhs, rh, hx, ha.symm, by rw [hfind, hkv'], hvv, hrh, ?_, ?_, h4, rfl⟩
                    · have : hs = rh.headerSha256 := by simpa using h2
                      rw [this]
                    · have : Mice.Enc.draft03.integrityIdentifier = rh.payloadIntegrityHeader := by simpa using h3
                      exact this.symm
                  | ok => simp only at h; cases h
                  | errValidation => simp only at h; cases h
                  | errOther => simp only at h; cases h

/-- combined with C15: if the `Digest` header of the response is the digest of an honest record list, the
    verified payload is that committed payload — or a SHA-256 collision is exhibited -/
theorem bs_verifyExchange_payload {env : VEnv} (hlen : ∀ x, (env.H x).length = 32) {ver : BVer}
    {vss : List (SignedSubset × AugCert)} {e : Exch} {p a : Bytes}
    (h : verifyExchange env ver vss e = .verified p a) (recs : List Bytes) (hne : recs ≠ [])
    (hdig : get e.resp.headers hDigest = Mice.formatDigestHeader .draft03 (Spec.Mice.chain env.H recs)) :
    p = recs.flatten ∨ Spec.Mice.Collision env.H := by
  obtain ⟨_, _, _, _, _, _, _, _, _, _, _, _, hdec⟩ := bs_verifyExchange_sound h
  rw [hdig] at hdec
  have := C15.decodeAll_sound env.H hlen .draft03 recs hne e.resp.body 16384
  rw [hdec] at this
  rcases this with hs | hc
  · exact Or.inl (hs.2 rfl)
  · exact Or.inr hc

/-- end to end: a `verified` verdict of a verifier built by `NewVerifier` rests on a vouched subset of the
    section whose signature verified under the authority it indexes -/
theorem bs_verified_chain {env : VEnv} {sigs : Sigs} {t : GoTime.T} {ver : BVer}
    {vss : List (SignedSubset × AugCert)} {e : Exch} {p a : Bytes}
    (hn : newVerifier env sigs t ver = some vss) (h : verifyExchange env ver vss e = .verified p a) :
    ∃ vs ∈ sigs.subsets, ∃ ss cert, verifyVouchedSubset env vs sigs.authorities t ver = some (ss, cert) ∧
      a = cert.cert ∧ sigs.authorities[vs.authority]? = some cert ∧
      env.sigVerify cert.cert (signedMessage vs.signed ver) vs.sig = true ∧
      decodeSignedSubset env.urlOk vs.signed = some ss ∧
      (ss.subsetHashes.find? (·.1 == e.url)).isSome = true := by
  obtain ⟨ss, auth, rhs, rh, hmem, ha, hfind, _⟩ := bs_verifyExchange_sound h
  obtain ⟨vs, hvs, hv⟩ := bs_newVerifier_mem hn _ hmem
  obtain ⟨_, hidx, _, hsv, hd, _⟩ := bs_verifyVouchedSubset_sound hv
  exact ⟨vs, hvs, ss, auth, hv, ha, hidx, hsv, hd, by rw [hfind]; rfl⟩

/-! ## §4 sign → verify round trip -/

/-! ### CBOR items -/

theorem bs_decode_tstr (k r : Bytes) (hu : utf8Valid k = true) (hl : k.length < 2 ^ 63) :
    decodeTextString (Bundle.tstr k ++ r) = some (k, r) :=
  C12.decodeText_complete _ _ ⟨_, encodeHead_isHead 3 _ (by decide) (by omega), rfl⟩ hl hu r

theorem bs_textOrEmpty (s : Bytes) (hu : utf8Valid s = true) : textOrEmpty s = Bundle.tstr s := by
  unfold textOrEmpty encodeText Bundle.tstr
  rw [if_pos hu]

theorem bs_tstr_inj {a b : Bytes} (ha : utf8Valid a = true) (hb : utf8Valid b = true) (hla : a.length < 2 ^ 63)
    (hlb : b.length < 2 ^ 63) (h : Bundle.tstr a = Bundle.tstr b) : a = b := by
  have h1 := bs_decode_tstr a [] ha hla
  have h2 := bs_decode_tstr b [] hb hlb
  rw [h, h2] at h1
  injection h1 with h1
  injection h1 with h1 _
  exact h1.symm

theorem bs_decode_int (z : Int) (r : Bytes) (h0 : 0 ≤ z) (h1 : z < 2 ^ 63) :
    decodeUint (encodeInt z ++ r) = some (z.toNat, r) ∧ toInt64 z.toNat = z := by
  constructor
  · unfold encodeInt
    rw [if_pos h0]
    exact C12.roundtrip_uint z.toNat (by omega) r
  · unfold toInt64
    rw [if_pos (by omega)]
    omega

theorem bs_unixIsZero_false (d : Int) (h0 : 0 ≤ d) (h1 : d < 2 ^ 63) : unixIsZero d = false := by
  unfold unixIsZero GoTime.ofUnix GoTime.wrapS64 GoTime.unixToInternal
  simp only [beq_eq_false_iff_ne, ne_eq]
  omega

/-! ### the subset-hashes map -/

def riBytes (ri : ResourceIntegrity) : Bytes := encodeBytes ri.headerSha256 ++ textOrEmpty ri.payloadIntegrityHeader

/-- the map entry `SignedSubset.Encode` writes for one URL -/
def hashesEntry (p : Bytes × ResponseHashes) : Entry :=
  (textOrEmpty p.1, encodeArrayHeader (1 + p.2.hashes.length * 2) ++ encodeBytes p.2.variantsValue ++
    (p.2.hashes.map riBytes).flatten)

def GoodRI (ri : ResourceIntegrity) : Prop :=
  ri.headerSha256.length < 2 ^ 63 ∧ utf8Valid ri.payloadIntegrityHeader = true ∧ ri.payloadIntegrityHeader.length < 2 ^ 63

def GoodRH (rh : ResponseHashes) : Prop :=
  rh.variantsValue.length < 2 ^ 63 ∧ rh.hashes ≠ [] ∧ 1 + rh.hashes.length * 2 < 2 ^ 64 ∧ ∀ ri ∈ rh.hashes, GoodRI ri

/-- an entry of `SubsetHashes` that the reader can read back: URL valid UTF-8, at least one integrity pair,
    all lengths in range -/
def GoodEntry (p : Bytes × ResponseHashes) : Prop := utf8Valid p.1 = true ∧ p.1.length < 2 ^ 63 ∧ GoodRH p.2

theorem bs_encodeSignedSubset_def (s : SignedSubset) : encodeSignedSubset s = encodeMap [
    (Bundle.tstr kValidityUrl, textOrEmpty s.validityUrl),
    (Bundle.tstr kAuthSha256, encodeBytes s.authSha256),
    (Bundle.tstr kDate, encodeInt s.date),
    (Bundle.tstr kExpires, encodeInt s.expires),
    (Bundle.tstr kSubsetHashes, mapOrHeader (s.subsetHashes.map hashesEntry))] := rfl

theorem bs_decodeHashPairs : ∀ (l acc : List ResourceIntegrity) (r : Bytes), (∀ ri ∈ l, GoodRI ri) →
    decodeHashPairs l.length ((l.map riBytes).flatten ++ r) acc = some (acc ++ l, r) := by
  intro l
  induction l with
  | nil => intro acc r _; simp [decodeHashPairs]
  | cons ri rest ih =>
    intro acc r hg
    obtain ⟨g1, g2, g3⟩ := hg ri List.mem_cons_self
    rw [List.length_cons, decodeHashPairs, List.map_cons, List.flatten_cons, riBytes, bs_textOrEmpty _ g2]
    simp only [List.append_assoc]
    rw [C12.roundtrip_bytes _ g1]
    simp only
    rw [bs_decode_tstr _ _ g2 g3]
    simp only
    rw [ih _ _ (fun x hx => hg x (List.mem_cons_of_mem _ hx))]
    simp only [List.append_assoc, List.singleton_append]

theorem bs_insertHash_fresh (m : List (Bytes × ResponseHashes)) (u : Bytes) (rh : ResponseHashes)
    (h : u ∉ m.map Prod.fst) : insertHash m u rh = m ++ [(u, rh)] := by
  unfold insertHash
  rw [if_neg]
  intro hany
  obtain ⟨x, hx, hxu⟩ := List.any_eq_true.mp hany
  exact h (List.mem_map.mpr ⟨x, hx, eq_of_beq hxu⟩)

theorem bs_decodeSubsetEntries : ∀ (l acc : List (Bytes × ResponseHashes)) (r : Bytes), (∀ p ∈ l, GoodEntry p) →
    ((acc ++ l).map Prod.fst).Nodup →
    decodeSubsetEntries l.length (((l.map hashesEntry).map fun e => e.1 ++ e.2).flatten ++ r) acc = some (acc ++ l, r) := by
  intro l
  induction l with
  | nil => intro acc r _ _; simp [decodeSubsetEntries]
  | cons p rest ih =>
    intro acc r hg hnd
    obtain ⟨g1, g2, g3, g4, g5, g6⟩ := hg p List.mem_cons_self
    obtain ⟨u, rh⟩ := p
    simp only at g1 g2 g3 g4 g5 g6
    rw [List.length_cons, decodeSubsetEntries, List.map_cons, List.map_cons, List.flatten_cons, hashesEntry]
    simp only [bs_textOrEmpty _ g1, List.append_assoc]
    rw [bs_decode_tstr _ _ g1 g2]
    simp only
    rw [C12.roundtrip_arrayHeader _ g5]
    simp only
    have hlen : 0 < rh.hashes.length := List.length_pos_iff.mpr g4
    rw [if_neg (by omega)]
    rw [C12.roundtrip_bytes _ g3]
    simp only
    have hk : (1 + rh.hashes.length * 2 - 1) / 2 = rh.hashes.length := by omega
    rw [hk, bs_decodeHashPairs _ _ _ g6]
    simp only [List.nil_append]
    have hfresh : u ∉ acc.map Prod.fst := by
      intro hu
      rw [List.map_append, List.map_cons] at hnd
      have := (List.nodup_append.mp hnd).2.2 u hu u (List.mem_cons_self)
      exact this rfl
    rw [bs_insertHash_fresh _ _ _ hfresh]
    have := ih (acc ++ [(u, rh)]) r (fun x hx => hg x (List.mem_cons_of_mem _ hx))
      (by simpa [List.append_assoc] using hnd)
    rw [this]
    simp only [List.append_assoc, List.singleton_append]

/-- the order in which `EncodeMap` emits the URLs -/
def sortHashes (l : List (Bytes × ResponseHashes)) : List (Bytes × ResponseHashes) :=
  l.mergeSort fun a b => entryLe (hashesEntry a) (hashesEntry b)

theorem bs_sortHashes_perm (l : List (Bytes × ResponseHashes)) : (sortHashes l).Perm l := List.mergeSort_perm _ _

theorem bs_sortEntries_map (l : List (Bytes × ResponseHashes)) :
    sortEntries (l.map hashesEntry) = (sortHashes l).map hashesEntry := by
  unfold sortEntries sortHashes
  exact (List.map_mergeSort (f := hashesEntry) (s := entryLe) (fun _ _ _ _ => rfl)).symm

theorem bs_nodup_map_on {α β : Type} (g : α → β) : ∀ (l : List α), l.Nodup → (∀ a ∈ l, ∀ b ∈ l, g a = g b → a = b) →
    (l.map g).Nodup := by
  intro l
  induction l with
  | nil => intro _ _; exact List.nodup_nil
  | cons x xs ih =>
    intro hnd hinj
    rw [List.nodup_cons] at hnd
    rw [List.map_cons, List.nodup_cons]
    refine ⟨?_, ih hnd.2 (fun a ha b hb => hinj a (List.mem_cons_of_mem _ ha) b (List.mem_cons_of_mem _ hb))⟩
    intro hm
    obtain ⟨y, hy, hxy⟩ := List.mem_map.mp hm
    have := hinj y (List.mem_cons_of_mem _ hy) x List.mem_cons_self hxy
    rw [this] at hy
    exact hnd.1 hy

theorem bs_hashKeys_nodup (l : List (Bytes × ResponseHashes)) (hg : ∀ p ∈ l, GoodEntry p) (hnd : (l.map Prod.fst).Nodup) :
    ((l.map hashesEntry).map Prod.fst).Nodup := by
  have he : (l.map hashesEntry).map Prod.fst = (l.map Prod.fst).map textOrEmpty := by
    rw [List.map_map, List.map_map]; rfl
  rw [he]
  apply bs_nodup_map_on _ _ hnd
  intro a ha b hb hab
  obtain ⟨pa, hpa, rfl⟩ := List.mem_map.mp ha
  obtain ⟨pb, hpb, rfl⟩ := List.mem_map.mp hb
  obtain ⟨a1, a2, _⟩ := hg pa hpa
  obtain ⟨b1, b2, _⟩ := hg pb hpb
  rw [bs_textOrEmpty _ a1, bs_textOrEmpty _ b1] at hab
  exact bs_tstr_inj a1 b1 a2 b2 hab

theorem bs_mapOrHeader_eq (l : List (Bytes × ResponseHashes)) (hg : ∀ p ∈ l, GoodEntry p) (hnd : (l.map Prod.fst).Nodup) :
    mapOrHeader (l.map hashesEntry) =
      encodeMapHeader l.length ++ (((sortHashes l).map hashesEntry).map fun e => e.1 ++ e.2).flatten := by
  unfold mapOrHeader encodeMap
  simp only
  rw [if_neg (by rw [(hasAdjDup_sort_iff _).mpr (bs_hashKeys_nodup l hg hnd)]; decide)]
  simp only [bs_sortEntries_map, List.length_map]

/-! ### the five top-level keys -/

theorem bs_perm5 {α : Type} (vu au d x sh : α) : [d, x, au, vu, sh].Perm [vu, au, d, x, sh] := by
  apply List.Perm.symm
  refine (List.perm_middle (l₁ := [vu, au]) (l₂ := [x, sh])).trans (List.Perm.cons _ ?_)
  refine (List.perm_middle (l₁ := [vu, au]) (l₂ := [sh])).trans (List.Perm.cons _ ?_)
  exact (List.perm_middle (l₁ := [vu]) (l₂ := [sh])).trans (List.Perm.cons _ (List.Perm.refl _))

/-- keys are emitted sorted by encoded key: "date" (0x64…), "expires" (0x67…), "auth-sha256" (0x6b…),
    "validity-url" (0x6c…), "subset-hashes" (0x6d…) -/
theorem bs_sort5 (vu au d x sh : Bytes) :
    sortEntries [(Bundle.tstr kValidityUrl, vu), (Bundle.tstr kAuthSha256, au), (Bundle.tstr kDate, d),
      (Bundle.tstr kExpires, x), (Bundle.tstr kSubsetHashes, sh)] =
    [(Bundle.tstr kDate, d), (Bundle.tstr kExpires, x), (Bundle.tstr kAuthSha256, au),
      (Bundle.tstr kValidityUrl, vu), (Bundle.tstr kSubsetHashes, sh)] := by
  apply Eq.symm
  have hkeys : ([(Bundle.tstr kDate, d), (Bundle.tstr kExpires, x), (Bundle.tstr kAuthSha256, au),
      (Bundle.tstr kValidityUrl, vu), (Bundle.tstr kSubsetHashes, sh)] : List Entry).map Prod.fst =
      [Bundle.tstr kDate, Bundle.tstr kExpires, Bundle.tstr kAuthSha256, Bundle.tstr kValidityUrl,
       Bundle.tstr kSubsetHashes] := rfl
  apply sorted_perm_unique
  · exact (bs_perm5 _ _ _ _ _).trans (sortEntries_perm _).symm
  · rw [hkeys]; decide +kernel
  · have : ([(Bundle.tstr kDate, d), (Bundle.tstr kExpires, x), (Bundle.tstr kAuthSha256, au),
        (Bundle.tstr kValidityUrl, vu), (Bundle.tstr kSubsetHashes, sh)] : List Entry).Pairwise
          (fun a b => ble a.1 b.1 = true) := by
      rw [← List.pairwise_map (f := Prod.fst) (R := fun a b => ble a b = true), hkeys]
      decide +kernel
    exact this
  · exact sortEntries_sorted _

/-- `SignedSubset.Encode()` never fails, and this is what it writes -/
theorem bs_encodeSignedSubset_eq (s : SignedSubset) : encodeSignedSubset s = .ok (
    encodeMapHeader 5 ++ (Bundle.tstr kDate ++ (encodeInt s.date ++ (Bundle.tstr kExpires ++ (encodeInt s.expires ++
      (Bundle.tstr kAuthSha256 ++ (encodeBytes s.authSha256 ++ (Bundle.tstr kValidityUrl ++ (textOrEmpty s.validityUrl ++
        (Bundle.tstr kSubsetHashes ++ mapOrHeader (s.subsetHashes.map hashesEntry))))))))))) := by
  rw [bs_encodeSignedSubset_def]
  unfold encodeMap
  simp only [bs_sort5]
  have hd : hasAdjDup [(Bundle.tstr kDate, encodeInt s.date), (Bundle.tstr kExpires, encodeInt s.expires),
      (Bundle.tstr kAuthSha256, encodeBytes s.authSha256), (Bundle.tstr kValidityUrl, textOrEmpty s.validityUrl),
      (Bundle.tstr kSubsetHashes, mapOrHeader (s.subsetHashes.map hashesEntry))] = false := by
    simp only [hasAdjDup, Bool.or_false, Bool.or_eq_false_iff]
    decide +kernel
  rw [if_neg (by rw [hd]; decide)]
  simp only [List.map_cons, List.map_nil, List.flatten_cons, List.flatten_nil, List.append_nil, List.append_assoc,
    List.length_cons, List.length_nil]

/-! ### the key loop of `decodeSignedSubset`, one field at a time -/

theorem bs_fields_date (urlOk : Bytes → Bool) (n : Nat) (z : Int) (r : Bytes) (acc : PartialSubset)
    (h0 : 0 ≤ z) (h1 : z < 2 ^ 63) :
    decodeSubsetFields urlOk (n + 1) (Bundle.tstr kDate ++ (encodeInt z ++ r)) acc =
      decodeSubsetFields urlOk n r { acc with date := some z } := by
  rw [decodeSubsetFields, bs_decode_tstr _ _ (by decide +kernel) (by decide)]
  simp only
  rw [if_neg (by decide), if_neg (by decide), if_pos trivial, (bs_decode_int z r h0 h1).1]
  simp only [(bs_decode_int z r h0 h1).2]

theorem bs_fields_expires (urlOk : Bytes → Bool) (n : Nat) (z : Int) (r : Bytes) (acc : PartialSubset)
    (h0 : 0 ≤ z) (h1 : z < 2 ^ 63) :
    decodeSubsetFields urlOk (n + 1) (Bundle.tstr kExpires ++ (encodeInt z ++ r)) acc =
      decodeSubsetFields urlOk n r { acc with expires := some z } := by
  rw [decodeSubsetFields, bs_decode_tstr _ _ (by decide +kernel) (by decide)]
  simp only
  rw [if_neg (by decide), if_neg (by decide), if_neg (by decide), if_pos trivial, (bs_decode_int z r h0 h1).1]
  simp only [(bs_decode_int z r h0 h1).2]

theorem bs_fields_auth (urlOk : Bytes → Bool) (n : Nat) (a : Bytes) (r : Bytes) (acc : PartialSubset)
    (ha : a.length < 2 ^ 63) :
    decodeSubsetFields urlOk (n + 1) (Bundle.tstr kAuthSha256 ++ (encodeBytes a ++ r)) acc =
      decodeSubsetFields urlOk n r { acc with authSha256 := some a } := by
  rw [decodeSubsetFields, bs_decode_tstr _ _ (by decide +kernel) (by decide)]
  simp only
  rw [if_neg (by decide), if_pos trivial, C12.roundtrip_bytes _ ha]

theorem bs_fields_validity (urlOk : Bytes → Bool) (n : Nat) (u : Bytes) (r : Bytes) (acc : PartialSubset)
    (hu : utf8Valid u = true) (hl : u.length < 2 ^ 63) (hok : urlOk u = true) :
    decodeSubsetFields urlOk (n + 1) (Bundle.tstr kValidityUrl ++ (textOrEmpty u ++ r)) acc =
      decodeSubsetFields urlOk n r { acc with validityUrl := some u } := by
  rw [decodeSubsetFields, bs_decode_tstr _ _ (by decide +kernel) (by decide)]
  simp only
  rw [if_pos trivial, bs_textOrEmpty _ hu, bs_decode_tstr _ _ hu hl]
  simp only
  rw [if_pos hok]

theorem bs_fields_hashes (urlOk : Bytes → Bool) (n : Nat) (l : List (Bytes × ResponseHashes)) (r : Bytes)
    (acc : PartialSubset) (hg : ∀ p ∈ l, GoodEntry p) (hnd : (l.map Prod.fst).Nodup) (hn : l.length < 2 ^ 64) :
    decodeSubsetFields urlOk (n + 1) (Bundle.tstr kSubsetHashes ++ (mapOrHeader (l.map hashesEntry) ++ r)) acc =
      decodeSubsetFields urlOk n r { acc with subsetHashes := some (sortHashes l) } := by
  rw [decodeSubsetFields, bs_decode_tstr _ _ (by decide +kernel) (by decide)]
  simp only
  rw [if_neg (by decide), if_neg (by decide), if_neg (by decide), if_neg (by decide), if_pos trivial,
    bs_mapOrHeader_eq l hg hnd, List.append_assoc, C12.roundtrip_mapHeader _ hn]
  simp only
  have hp := bs_sortHashes_perm l
  have := bs_decodeSubsetEntries (sortHashes l) [] r (fun p hp' => hg p (hp.mem_iff.mp hp'))
    (by rw [List.nil_append]; exact ((hp.map Prod.fst).nodup_iff).mpr hnd)
  rw [hp.length_eq] at this
  rw [this]
  simp only [List.nil_append]

/-- **subset round trip**: `decodeSignedSubset` reads back what `SignedSubset.Encode` wrote; the URL map
    comes back in the order of the encoded keys (a permutation, `bs_sortHashes_perm`). -/
theorem bs_decode_encodeSignedSubset (urlOk : Bytes → Bool) (s : SignedSubset) (out : Bytes)
    (henc : encodeSignedSubset s = .ok out)
    (hvu : utf8Valid s.validityUrl = true) (hvl : s.validityUrl.length < 2 ^ 63) (hok : urlOk s.validityUrl = true)
    (hal : s.authSha256.length < 2 ^ 63)
    (hd : 0 ≤ s.date ∧ s.date < 2 ^ 63) (hx : 0 ≤ s.expires ∧ s.expires < 2 ^ 63)
    (hg : ∀ p ∈ s.subsetHashes, GoodEntry p) (hnd : (s.subsetHashes.map Prod.fst).Nodup)
    (hn : s.subsetHashes.length < 2 ^ 64) :
    decodeSignedSubset urlOk out = some { s with subsetHashes := sortHashes s.subsetHashes } := by
  rw [bs_encodeSignedSubset_eq] at henc
  injection henc with henc
  subst henc
  unfold decodeSignedSubset
  rw [C12.roundtrip_mapHeader 5 (by decide)]
  simp only
  have hnil : ∀ x : Bytes, x = x ++ [] := fun x => (List.append_nil x).symm
  rw [bs_fields_date urlOk 4 _ _ _ hd.1 hd.2, bs_fields_expires urlOk 3 _ _ _ hx.1 hx.2,
    bs_fields_auth urlOk 2 _ _ _ hal, bs_fields_validity urlOk 1 _ _ _ hvu hvl hok,
    hnil (mapOrHeader _), bs_fields_hashes urlOk 0 _ _ _ hg hnd hn, decodeSubsetFields]
  simp only
  rw [bs_unixIsZero_false _ hd.1 hd.2, bs_unixIsZero_false _ hx.1 hx.2]
  rfl

/-- looking a URL up gives the same answer in the decoded subset as in the written one -/
theorem bs_find_sortHashes (l : List (Bytes × ResponseHashes)) (hnd : (l.map Prod.fst).Nodup) (u : Bytes) :
    (sortHashes l).find? (·.1 == u) = l.find? (·.1 == u) :=
  Sxg.inv_find_perm _ _ (bs_sortHashes_perm l) hnd u

/-! ### the signing loop -/

/-- `Exchange.AddPayloadIntegrity`: body MI-encoded, `Content-Encoding` and `Digest` added -/
def piExch (H : Bytes → Bytes) (rs : Nat) (e : Exch) : Exch :=
  { url := e.url,
    resp := { status := e.resp.status, body := (Mice.encode H .draft03 e.resp.body rs).1,
              headers := add (add e.resp.headers Sxg.hContentEncoding Mice.Enc.draft03.name) hDigest
                (Mice.encode H .draft03 e.resp.body rs).2 } }

theorem bs_addPayloadIntegrity_eq {H : Bytes → Bytes} {e e' : Exch} {rs : Nat} (h : addPayloadIntegrity H e rs = some e') :
    values e.resp.headers hDigest = [] ∧ e' = piExch H rs e := by
  unfold addPayloadIntegrity at h
  by_cases hg : values e.resp.headers hDigest ≠ []
  · rw [if_pos hg] at h; cases h
  · rw [if_neg hg] at h
    injection h with h
    exact ⟨by simpa using hg, h.symm⟩

/-- the `ResponseHashes` the signer records for a covered exchange -/
def hashOf (H : Bytes → Bytes) (rs : Nat) (e : Exch) : ResponseHashes :=
  { variantsValue := [],
    hashes := [{ headerSha256 := (headerSha256 H (piExch H rs e).resp).getD [],
                 payloadIntegrityHeader := Mice.Enc.draft03.integrityIdentifier }] }

/-- the exchange of the signed bundle that corresponds to `e` -/
def signedView (H : Bytes → Bytes) (canSign : Bytes → Bool) (rs : Nat) (e : Exch) : Exch :=
  if canSign e.url = true then piExch H rs e else e

/-- the `SubsetHashes` map of the signer, in the order of the exchanges -/
def coveredHashes (H : Bytes → Bytes) (canSign : Bytes → Bool) (rs : Nat) (es : List Exch) : List (Bytes × ResponseHashes) :=
  (es.filter fun e => canSign e.url).map fun e => (e.url, hashOf H rs e)

theorem bs_coveredHashes_cons_pos (H : Bytes → Bytes) (canSign : Bytes → Bool) (rs : Nat) (e : Exch) (rest : List Exch)
    (hc : canSign e.url = true) :
    coveredHashes H canSign rs (e :: rest) = (e.url, hashOf H rs e) :: coveredHashes H canSign rs rest := by
  unfold coveredHashes
  rw [List.filter_cons, if_pos hc, List.map_cons]

theorem bs_coveredHashes_cons_neg (H : Bytes → Bytes) (canSign : Bytes → Bool) (rs : Nat) (e : Exch) (rest : List Exch)
    (hc : ¬ canSign e.url = true) :
    coveredHashes H canSign rs (e :: rest) = coveredHashes H canSign rs rest := by
  unfold coveredHashes
  rw [List.filter_cons, if_neg hc]

theorem bs_signExchanges_spec (H : Bytes → Bytes) (canSign : Bytes → Bool) (rs : Nat) :
    ∀ (es done : List Exch) (hashes : List (Bytes × ResponseHashes)) (exs : List Exch) (hs : List (Bytes × ResponseHashes)),
    signExchanges H canSign rs es done hashes = some (exs, hs) →
    exs = done ++ es.map (signedView H canSign rs) ∧ hs = hashes ++ coveredHashes H canSign rs es ∧
    (∀ e ∈ es, canSign e.url = true → values e.resp.headers hDigest = [] ∧
      ∃ hd, headerSha256 H (piExch H rs e).resp = some hd) ∧
    ((hashes.map Prod.fst).Nodup → (hs.map Prod.fst).Nodup) := by
  intro es
  induction es with
  | nil =>
    intro done hashes exs hs h
    simp only [signExchanges, Option.some.injEq, Prod.mk.injEq] at h
    obtain ⟨rfl, rfl⟩ := h
    exact ⟨by simp, by simp [coveredHashes], (fun e he => by cases he), (fun h => h)⟩
  | cons e rest ih =>
    intro done hashes exs hs h
    rw [signExchanges] at h
    by_cases hc : canSign e.url = true
    · rw [if_neg (by simp [hc])] at h
      cases hpi : addPayloadIntegrity H e rs with
      | none => simp only [hpi] at h; cases h
      | some e' =>
        simp only [hpi] at h
        obtain ⟨hno, he'⟩ := bs_addPayloadIntegrity_eq hpi
        subst he'
        cases hhs : headerSha256 H (piExch H rs e).resp with
        | none => simp only [hhs] at h; cases h
        | some hd =>
          simp only [hhs] at h
          by_cases hany : (hashes.any (·.1 == (piExch H rs e).url)) = true
          · rw [if_pos hany] at h; cases h
          · rw [if_neg hany] at h
            obtain ⟨h1, h2, h3, h4⟩ := ih _ _ _ _ h
            have hrec : (⟨[], [⟨hd, Mice.Enc.draft03.integrityIdentifier⟩]⟩ : ResponseHashes) = hashOf H rs e := by
              unfold hashOf; rw [hhs]; rfl
            have hurl : (piExch H rs e).url = e.url := rfl
            rw [hrec, hurl] at h2 h4
            refine ⟨?_, ?_, ?_, ?_⟩
            · rw [h1, List.map_cons, signedView, if_pos hc, List.append_assoc, List.singleton_append]
            · rw [h2, bs_coveredHashes_cons_pos _ _ _ _ _ hc, List.append_assoc, List.singleton_append]
            · intro x hx hcx
              rcases List.mem_cons.mp hx with rfl | hx
              · exact ⟨hno, hd, hhs⟩
              · exact h3 x hx hcx
            · intro hnd
              apply h4
              rw [List.map_append, List.map_cons, List.map_nil]
              rw [List.nodup_append]
              refine ⟨hnd, by simp, ?_⟩
              intro a ha b hb hab
              rw [List.mem_singleton.mp hb] at hab
              subst hab
              apply hany
              obtain ⟨x, hx, hxa⟩ := List.mem_map.mp ha
              exact List.any_eq_true.mpr ⟨x, hx, by rw [hurl]; simp [hxa]⟩
    · rw [if_pos (by simp [hc])] at h
      obtain ⟨h1, h2, h3, h4⟩ := ih _ _ _ _ h
      refine ⟨?_, ?_, ?_, h4⟩
      · rw [h1, List.map_cons, signedView, if_neg hc, List.append_assoc, List.singleton_append]
      · rw [h2, bs_coveredHashes_cons_neg _ _ _ _ _ hc]
      · intro x hx hcx
        rcases List.mem_cons.mp hx with rfl | hx
        · exact absurd hcx hc
        · exact h3 x hx hcx

theorem bs_find_of_mem {β : Type} (l : List (Bytes × β)) (hnd : (l.map Prod.fst).Nodup) (k : Bytes) (v : β)
    (hm : (k, v) ∈ l) : l.find? (·.1 == k) = some (k, v) := by
  cases hf : l.find? (·.1 == k) with
  | none =>
    rw [List.find?_eq_none] at hf
    exact absurd (by simp) (hf _ hm)
  | some x =>
    have hx := List.mem_of_find?_eq_some hf
    have hxk : (x.1 == k) = true := List.find?_some (p := fun kv : Bytes × β => kv.1 == k) hf
    rw [Sxg.inv_eq_of_mem_of_key_eq l hnd x (k, v) hx hm (eq_of_beq hxk)]

theorem bs_headerSha256_length {H : Bytes → Bytes} (hlen : ∀ x, (H x).length = 32) (r : Resp) :
    ((headerSha256 H r).getD []).length < 2 ^ 63 := by
  unfold headerSha256
  cases encodeRespHeader r with
  | error e => show (0 : Nat) < 2 ^ 63; decide
  | ok b => show (H b).length < 2 ^ 63; rw [hlen]; decide

theorem bs_covered_good {H : Bytes → Bytes} (hlen : ∀ x, (H x).length = 32) (canSign : Bytes → Bool) (rs : Nat)
    (es : List Exch) (hurls : ∀ e ∈ es, canSign e.url = true → utf8Valid e.url = true ∧ e.url.length < 2 ^ 63) :
    ∀ p ∈ coveredHashes H canSign rs es, GoodEntry p := by
  intro p hp
  obtain ⟨e, he, rfl⟩ := List.mem_map.mp hp
  obtain ⟨hmem, hc⟩ := List.mem_filter.mp he
  obtain ⟨u1, u2⟩ := hurls e hmem hc
  refine ⟨u1, u2, ?_, ?_, ?_, ?_⟩
  · show (0 : Nat) < 2 ^ 63; decide
  · simp [hashOf]
  · show 1 + 1 * 2 < 2 ^ 64; decide
  · intro ri hri
    simp only [hashOf, List.mem_singleton] at hri
    subst hri
    refine ⟨bs_headerSha256_length hlen _, ?_, ?_⟩
    · show utf8Valid Mice.Enc.draft03.integrityIdentifier = true; decide +kernel
    · show Mice.Enc.draft03.integrityIdentifier.length < 2 ^ 63; decide

/-! ### completeness of the two verifier steps -/

/-- converse of `bs_verifyVouchedSubset_sound` -/
theorem bs_verifyVouchedSubset_complete {env : VEnv} {vs : VouchedSubset} {auths : List AugCert} {t : GoTime.T} {ver : BVer}
    {ss : SignedSubset} {cert : AugCert}
    (hidx : auths[vs.authority]? = some cert) (hkey : env.keyOk cert.cert = true)
    (hsv : env.sigVerify cert.cert (signedMessage vs.signed ver) vs.sig = true)
    (hd : decodeSignedSubset env.urlOk vs.signed = some ss) (hauth : ss.authSha256 = env.H cert.cert)
    (hlife : GoTime.sub (GoTime.ofUnix ss.expires 0) (GoTime.ofUnix ss.date 0) ≤ 604800 * 1000000000)
    (hb : GoTime.before t (GoTime.ofUnix ss.date 0) = false) (ha : GoTime.after t (GoTime.ofUnix ss.expires 0) = false) :
    verifyVouchedSubset env vs auths t ver = some (ss, cert) := by
  have hlt : vs.authority < auths.length := by
    cases hl : auths[vs.authority]? with
    | none => rw [hl] at hidx; cases hidx
    | some c => exact (List.getElem?_eq_some_iff.mp hl).1
  have hget : auths.getD vs.authority default = cert := by
    rw [List.getD_eq_getElem?_getD, hidx]; rfl
  unfold verifyVouchedSubset
  rw [if_neg (by omega)]
  simp only [hget]
  rw [if_neg (by simp [hkey]), if_neg (by simp [hsv])]
  simp only [hd]
  rw [if_neg (by simp [hauth]), if_neg (by omega), if_neg (by simp [hb]), if_neg (by simp [ha])]

theorem bs_verifyVouchedSubset_iff {env : VEnv} {vs : VouchedSubset} {auths : List AugCert} {t : GoTime.T} {ver : BVer}
    {ss : SignedSubset} {cert : AugCert} :
    verifyVouchedSubset env vs auths t ver = some (ss, cert) ↔
      (auths[vs.authority]? = some cert ∧ env.keyOk cert.cert = true ∧
       env.sigVerify cert.cert (signedMessage vs.signed ver) vs.sig = true ∧
       decodeSignedSubset env.urlOk vs.signed = some ss ∧ ss.authSha256 = env.H cert.cert ∧
       GoTime.sub (GoTime.ofUnix ss.expires 0) (GoTime.ofUnix ss.date 0) ≤ 604800 * 1000000000 ∧
       GoTime.before t (GoTime.ofUnix ss.date 0) = false ∧ GoTime.after t (GoTime.ofUnix ss.expires 0) = false) := by
  constructor
  · intro h
    obtain ⟨_, h1, h2, h3, h4, h5, h6, h7, h8⟩ := bs_verifyVouchedSubset_sound h
    exact ⟨h1, h2, h3, h4, h5, h6, h7, h8⟩
  · rintro ⟨h1, h2, h3, h4, h5, h6, h7, h8⟩
    exact bs_verifyVouchedSubset_complete h1 h2 h3 h4 h5 h6 h7 h8

/-- converse of `bs_verifyExchange_sound` for a verifier with one trusted subset -/
theorem bs_verifyExchange_complete {env : VEnv} {ver : BVer} {ss : SignedSubset} {auth : AugCert} {e : Exch}
    {rhs : ResponseHashes} {rh : ResourceIntegrity} {p : Bytes}
    (hfind : ss.subsetHashes.find? (·.1 == e.url) = some (e.url, rhs))
    (hvv : rhs.variantsValue = []) (hrh : rhs.hashes = [rh])
    (hhs : headerSha256 env.H e.resp = some rh.headerSha256)
    (hid : rh.payloadIntegrityHeader = Mice.Enc.draft03.integrityIdentifier)
    (hne : get e.resp.headers hDigest ≠ [])
    (hdec : Mice.decodeAll env.H .draft03 e.resp.body (get e.resp.headers hDigest) 16384 = (p, .eof)) :
    verifyExchange env ver [(ss, auth)] e = .verified p auth.cert := by
  unfold verifyExchange
  simp only [List.findSome?_cons, hfind, Option.map_some]
  rw [if_neg (by rw [hvv, hrh]; simp)]
  simp only [hrh, List.headD_cons, hhs]
  rw [if_neg (by simp), if_neg (by simp [hid]), if_neg hne, hdec]

theorem bs_verifyExchange_unsigned {env : VEnv} {ver : BVer} {ss : SignedSubset} {auth : AugCert} {e : Exch}
    (hfind : ss.subsetHashes.find? (·.1 == e.url) = none) :
    verifyExchange env ver [(ss, auth)] e = .unsigned := by
  unfold verifyExchange
  simp only [List.findSome?_cons, List.findSome?_nil, hfind, Option.map_none]

theorem bs_piExch_digest (H : Bytes → Bytes) (rs : Nat) (e : Exch) (hno : values e.resp.headers hDigest = []) :
    Http.get (piExch H rs e).resp.headers hDigest = (Mice.encode H .draft03 e.resp.body rs).2 := by
  unfold Http.get piExch
  simp only
  have hne : canonicalKey Sxg.hContentEncoding ≠ canonicalKey hDigest := Sxg.inv_digestName_ne .draft03
  rw [Sxg.inv_values_add_same, Sxg.inv_values_add_other _ _ _ _ hne, hno]
  rfl

/-! ### the main theorem -/

/-- **an honestly signed bundle verifies.**  The first signer runs on a bundle without signatures section;
    the environment accepts the signature on the message it was given; the validity URL and the URLs of the
    covered exchanges are valid UTF-8 (CBOR text strings) of representable length; the dates are non-negative
    (they are written with `EncodeInt` and read with `DecodeUint`), at most 7 days apart, and `t` is inside the
    window.  Then `NewVerifier` accepts the section with exactly one trusted subset — the signer's, with the
    URL map in encoded-key order — under the signer's leaf certificate; every covered exchange verifies with
    its original body, and every other exchange is reported unsigned.
    (That the covered URLs are pairwise distinct is not a hypothesis: `addSignature` fails otherwise.) -/
theorem bs_honest_verifies (env : VEnv) (hlen : ∀ x, (env.H x).length = 32) (canSign : Bytes → Bool) (rs : Nat)
    (hrs : 1 ≤ rs) (hrs2 : rs ≤ 16384) (b b' : Bundle) (certs : List AugCert) (vurl : Bytes) (date expires : Int)
    (sig msg : Bytes) (t : GoTime.T)
    (hfirst : b.signatures = none)
    (hadd : addSignature env.H canSign rs b certs vurl date expires sig = some (b', msg))
    (hkey : env.keyOk (certs.headD default).cert = true)
    (hsv : env.sigVerify (certs.headD default).cert msg sig = true)
    (hvu : utf8Valid vurl = true) (hvl : vurl.length < 2 ^ 63) (hok : env.urlOk vurl = true)
    (hd : 0 ≤ date ∧ date < 2 ^ 62) (hx : 0 ≤ expires ∧ expires < 2 ^ 62) (hlife : expires - date ≤ 604800)
    (ht1 : GoTime.before t (GoTime.ofUnix date 0) = false) (ht2 : GoTime.after t (GoTime.ofUnix expires 0) = false)
    (hurls : ∀ e ∈ b.exchanges, canSign e.url = true → utf8Valid e.url = true ∧ e.url.length < 2 ^ 63)
    (hn : b.exchanges.length < 2 ^ 64) :
    ∃ (sigs' : Sigs) (ss : SignedSubset) (hne : certs ≠ []),
      b'.signatures = some sigs' ∧
      newVerifier env sigs' t b.version = some [(ss, certs.head hne)] ∧
      ss = { validityUrl := vurl, authSha256 := env.H (certs.head hne).cert, date := date, expires := expires,
             subsetHashes := sortHashes (coveredHashes env.H canSign rs b.exchanges) } ∧
      b'.exchanges = b.exchanges.map (signedView env.H canSign rs) ∧
      ∀ e ∈ b.exchanges,
        (canSign e.url = true →
          verifyExchange env b.version [(ss, certs.head hne)] (piExch env.H rs e) =
            .verified e.resp.body (certs.head hne).cert) ∧
        (canSign e.url = false → verifyExchange env b.version [(ss, certs.head hne)] e = .unsigned) := by
  obtain ⟨hval, exs, hashes, signedBytes, hse, henc, hb', hmsg⟩ := bs_addSignature_eq hadd
  have hne := bs_validate_ne_nil hval
  obtain ⟨c, crest, rfl⟩ : ∃ c crest, certs = c :: crest := by
    cases certs with
    | nil => exact absurd rfl hne
    | cons c crest => exact ⟨c, crest, rfl⟩
  have hhead : (c :: crest).headD default = c := rfl
  rw [hhead] at hkey hsv
  obtain ⟨hexs, hhashes, hcov, hndp⟩ := bs_signExchanges_spec env.H canSign rs _ _ _ _ _ hse
  rw [List.nil_append] at hexs hhashes
  have hnd : (hashes.map Prod.fst).Nodup := hndp List.nodup_nil
  subst hhashes
  have hgood := bs_covered_good hlen canSign rs b.exchanges hurls
  have hcl : (coveredHashes env.H canSign rs b.exchanges).length < 2 ^ 64 := by
    have : (coveredHashes env.H canSign rs b.exchanges).length ≤ b.exchanges.length := by
      unfold coveredHashes
      rw [List.length_map]
      exact List.length_filter_le _ _
    omega
  have hdec := bs_decode_encodeSignedSubset env.urlOk _ signedBytes henc hvu hvl hok
    (by simp only [signerSubset, hlen]; decide) ⟨hd.1, by simp only [signerSubset]; omega⟩
    ⟨hx.1, by simp only [signerSubset]; omega⟩ hgood hnd hcl
  simp only [signerSubset, hhead] at hdec
  have hsigs : (sigsOf b) = { authorities := [], subsets := [] } := by unfold sigsOf; rw [hfirst]; rfl
  rw [hsigs] at hb'
  simp only [List.nil_append, List.length_nil] at hb'
  refine ⟨_, _, hne, by rw [hb'], ?_, rfl, by rw [hb']; exact hexs, ?_⟩
  · -- NewVerifier
    unfold newVerifier
    simp only
    have hv : verifyVouchedSubset env { authority := 0, sig := sig, signed := signedBytes } (c :: crest) t b.version =
        some (_, c) :=
      bs_verifyVouchedSubset_complete (cert := c) rfl hkey (by rw [← hmsg]; exact hsv) hdec rfl
        (by
          have := (Sxg.sub_gt_week_iff date expires ⟨by omega, hd.2⟩ ⟨by omega, hx.2⟩)
          simp only
          apply Int.not_lt.mp
          intro hgt
          have := this.mp hgt
          omega)
        ht1 ht2
    simp only [List.mapM_cons, List.mapM_nil, hv]
    rfl
  · intro e he
    constructor
    · intro hc
      obtain ⟨hno, hd', hhd⟩ := hcov e he hc
      have hmem : (e.url, hashOf env.H rs e) ∈ coveredHashes env.H canSign rs b.exchanges :=
        List.mem_map.mpr ⟨e, List.mem_filter.mpr ⟨he, hc⟩, rfl⟩
      have hdig := bs_piExch_digest env.H rs e hno
      apply bs_verifyExchange_complete (rhs := hashOf env.H rs e)
        (rh := { headerSha256 := (headerSha256 env.H (piExch env.H rs e).resp).getD [],
                 payloadIntegrityHeader := Mice.Enc.draft03.integrityIdentifier })
      · simp only
        rw [bs_find_sortHashes _ hnd]
        exact bs_find_of_mem _ hnd _ _ hmem
      · rfl
      · rfl
      · rw [hhd]; rfl
      · rfl
      · rw [hdig]; exact Sxg.inv_digest_ne_nil _ _ _ _
      · rw [hdig]
        exact C14.decode_encode env.H hlen .draft03 e.resp.body rs 16384 hrs hrs2 (by omega)
    · intro hc
      apply bs_verifyExchange_unsigned
      simp only
      rw [bs_find_sortHashes _ hnd, List.find?_eq_none]
      intro x hx hxk
      obtain ⟨e2, he2, rfl⟩ := List.mem_map.mp hx
      have hc2 := (List.mem_filter.mp he2).2
      have : e2.url = e.url := eq_of_beq hxk
      rw [this, hc] at hc2
      cases hc2

/-- the same with the verification time given in unix seconds: `date ≤ ts ≤ expires` (at `ts = expires` only
    with zero nanoseconds) -/
theorem bs_honest_verifies_unix (env : VEnv) (hlen : ∀ x, (env.H x).length = 32) (canSign : Bytes → Bool) (rs : Nat)
    (hrs : 1 ≤ rs) (hrs2 : rs ≤ 16384) (b b' : Bundle) (certs : List AugCert) (vurl : Bytes) (date expires : Int)
    (sig msg : Bytes) (ts tn : Int)
    (hfirst : b.signatures = none)
    (hadd : addSignature env.H canSign rs b certs vurl date expires sig = some (b', msg))
    (hkey : env.keyOk (certs.headD default).cert = true)
    (hsv : env.sigVerify (certs.headD default).cert msg sig = true)
    (hvu : utf8Valid vurl = true) (hvl : vurl.length < 2 ^ 63) (hok : env.urlOk vurl = true)
    (hd : 0 ≤ date ∧ date < 2 ^ 62) (hx : 0 ≤ expires ∧ expires < 2 ^ 62) (hlife : expires - date ≤ 604800)
    (htn : 0 ≤ tn) (hts1 : date ≤ ts) (hts2 : ts < expires ∨ (ts = expires ∧ tn = 0))
    (hurls : ∀ e ∈ b.exchanges, canSign e.url = true → utf8Valid e.url = true ∧ e.url.length < 2 ^ 63)
    (hn : b.exchanges.length < 2 ^ 64) :
    ∃ (sigs' : Sigs) (ss : SignedSubset) (hne : certs ≠ []),
      b'.signatures = some sigs' ∧
      newVerifier env sigs' (GoTime.ofUnix ts tn) b.version = some [(ss, certs.head hne)] ∧
      ss = { validityUrl := vurl, authSha256 := env.H (certs.head hne).cert, date := date, expires := expires,
             subsetHashes := sortHashes (coveredHashes env.H canSign rs b.exchanges) } ∧
      b'.exchanges = b.exchanges.map (signedView env.H canSign rs) ∧
      ∀ e ∈ b.exchanges,
        (canSign e.url = true →
          verifyExchange env b.version [(ss, certs.head hne)] (piExch env.H rs e) =
            .verified e.resp.body (certs.head hne).cert) ∧
        (canSign e.url = false → verifyExchange env b.version [(ss, certs.head hne)] e = .unsigned) := by
  obtain ⟨_, w2, w3⟩ := bs_window_iff date expires ts tn ⟨by omega, hd.2⟩ ⟨by omega, hx.2⟩ ⟨by omega, by omega⟩
  have ht1 : GoTime.before (GoTime.ofUnix ts tn) (GoTime.ofUnix date 0) = false := by
    cases hb : GoTime.before (GoTime.ofUnix ts tn) (GoTime.ofUnix date 0) with
    | false => rfl
    | true => have := w2.mp hb; omega
  have ht2 : GoTime.after (GoTime.ofUnix ts tn) (GoTime.ofUnix expires 0) = false := by
    cases hb : GoTime.after (GoTime.ofUnix ts tn) (GoTime.ofUnix expires 0) with
    | false => rfl
    | true => have := w3.mp hb; omega
  exact bs_honest_verifies env hlen canSign rs hrs hrs2 b b' certs vurl date expires sig msg _ hfirst hadd hkey hsv
    hvu hvl hok hd hx hlife ht1 ht2 hurls hn

/-- why `0 ≤ date` is a hypothesis: `SignedSubset.Encode` writes the dates with `EncodeInt` (a negative one
    as major type 1) and `decodeSignedSubset` reads them with `DecodeUint`; a subset signed with a date before
    1970 is therefore refused by every verifier (likewise for `expires`, which is read after `date`). -/
theorem bs_negative_date_unreadable (urlOk : Bytes → Bool) (s : SignedSubset) (out : Bytes)
    (henc : encodeSignedSubset s = .ok out) (hneg : s.date < 0) (hlo : -(2 : Int) ^ 64 ≤ s.date) :
    decodeSignedSubset urlOk out = none := by
  rw [bs_encodeSignedSubset_eq] at henc
  injection henc with henc
  subst henc
  unfold decodeSignedSubset
  rw [C12.roundtrip_mapHeader 5 (by decide)]
  simp only
  rw [decodeSubsetFields, bs_decode_tstr _ _ (by decide +kernel) (by decide)]
  simp only
  rw [if_neg (by decide), if_neg (by decide), if_pos trivial]
  have : decodeUint (encodeInt s.date ++ (Bundle.tstr kExpires ++ (encodeInt s.expires ++ (Bundle.tstr kAuthSha256 ++
      (encodeBytes s.authSha256 ++ (Bundle.tstr kValidityUrl ++ (textOrEmpty s.validityUrl ++ (Bundle.tstr kSubsetHashes ++
        mapOrHeader (s.subsetHashes.map hashesEntry))))))))) = none := by
    unfold encodeInt
    rw [if_neg (by omega)]
    exact decodeOfType_wrong_type (encodeHead_isHead 1 _ (by decide) (by omega)) (by decide) _
  rw [this]

end WebPkg.BSig
