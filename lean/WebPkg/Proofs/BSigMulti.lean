import WebPkg.Proofs.BSig
/-
  Bundle signatures, any sequence of signers (C06, general statement).

  §1  generic list / option lemmas
  §2  bm_step                       one signer on a bundle that may already carry a signatures section
  §3  bm_verifyVouched_append, bm_newVerifier_append     old subsets keep verifying when authorities are appended
  §4  the trusted list of a sequence of signers, lookups in it
  §5  bm_Inv, bm_inv_step, bm_signAll_inv                 the invariant threaded through `signAll`
  §6  bm_honest_verifies_all (+ trace form, two-signer instance)
-/
namespace WebPkg.BSig
open WebPkg.Cbor WebPkg.Bundle WebPkg.Http WebPkg.CertChain

/-! ## §1 generic lemmas -/

theorem bm_mapM_append_some {α β : Type} (f : α → Option β) : ∀ (l₁ l₂ : List α) (r₁ r₂ : List β),
    l₁.mapM f = some r₁ → l₂.mapM f = some r₂ → (l₁ ++ l₂).mapM f = some (r₁ ++ r₂) := by
  intro l₁
  induction l₁ with
  | nil =>
    intro l₂ r₁ r₂ h1 h2
    simp only [List.mapM_nil, Option.pure_def, Option.some.injEq] at h1
    subst h1
    simpa using h2
  | cons a l ih =>
    intro l₂ r₁ r₂ h1 h2
    rw [List.mapM_cons] at h1
    rw [List.cons_append, List.mapM_cons]
    cases hfa : f a with
    | none => simp [hfa] at h1
    | some y =>
      cases hl : l.mapM f with
      | none => simp [hfa, hl] at h1
      | some r' =>
        simp [hfa, hl] at h1
        subst h1
        simp [ih l₂ r' r₂ hl h2]

theorem bm_mapM_mono {α β : Type} (f g : α → Option β) : ∀ (l : List α) (r : List β),
    l.mapM f = some r → (∀ a ∈ l, ∀ y, f a = some y → g a = some y) → l.mapM g = some r := by
  intro l
  induction l with
  | nil =>
    intro r h _
    simpa using h
  | cons a l ih =>
    intro r h hfg
    rw [List.mapM_cons] at h
    rw [List.mapM_cons]
    cases hfa : f a with
    | none => simp [hfa] at h
    | some y =>
      cases hl : l.mapM f with
      | none => simp [hfa, hl] at h
      | some r' =>
        simp [hfa, hl] at h
        subst h
        simp [hfg a List.mem_cons_self y hfa, ih r' hl (fun x hx => hfg x (List.mem_cons_of_mem _ hx))]

/-- if every element of the list either finds nothing or finds what `s` finds, the first hit is `s`'s -/
theorem bm_findSome_unique {α β : Type} (f : α → Option β) (s : α) : ∀ (l : List α), s ∈ l →
    (∀ x ∈ l, f x = none ∨ f x = f s) → l.findSome? f = f s := by
  intro l
  induction l with
  | nil => intro hs; cases hs
  | cons x xs ih =>
    intro hs hall
    rw [List.findSome?_cons]
    cases hfx : f x with
    | some r =>
      rcases hall x List.mem_cons_self with h | h
      · rw [hfx] at h; cases h
      · rw [← h, hfx]
    | none =>
      simp only
      rcases List.mem_cons.mp hs with rfl | hs'
      · rw [hfx, List.findSome?_eq_none_iff]
        intro y hy
        rcases hall y (List.mem_cons_of_mem _ hy) with h | h
        · exact h
        · rw [h, hfx]
      · exact ih hs' (fun y hy => hall y (List.mem_cons_of_mem _ hy))

/-! ## §2 one signer on a bundle with an arbitrary existing section -/

/-- the `SignedSubset` the verifier reads back for one signer: the signer's subset with the URL map in
    encoded-key order -/
def bm_ss (H : Bytes → Bytes) (canSign : Bytes → Bool) (rs : Nat) (es : List Exch) (certs : List AugCert)
    (vurl : Bytes) (date expires : Int) : SignedSubset :=
  { validityUrl := vurl, authSha256 := H (certs.headD default).cert, date := date, expires := expires,
    subsetHashes := sortHashes (coveredHashes H canSign rs es) }

theorem bm_piExch_values_ne (H : Bytes → Bytes) (rs : Nat) (e : Exch) :
    values (piExch H rs e).resp.headers hDigest ≠ [] := by
  unfold piExch
  simp only
  rw [Sxg.inv_values_add_same]
  simp

/-- a covered URL is found in the (sorted) map with the hash the signer recorded -/
theorem bm_find_covered (H : Bytes → Bytes) (canSign : Bytes → Bool) (rs : Nat) (es : List Exch)
    (hnd : ((coveredHashes H canSign rs es).map Prod.fst).Nodup) (e : Exch) (he : e ∈ es) (hc : canSign e.url = true) :
    (sortHashes (coveredHashes H canSign rs es)).find? (·.1 == e.url) = some (e.url, hashOf H rs e) := by
  rw [bs_find_sortHashes _ hnd]
  exact bs_find_of_mem _ hnd _ _ (List.mem_map.mpr ⟨e, List.mem_filter.mpr ⟨he, hc⟩, rfl⟩)

/-- a URL the certificate does not cover is not a key of the signer's map -/
theorem bm_find_uncovered (H : Bytes → Bytes) (canSign : Bytes → Bool) (rs : Nat) (es : List Exch) (u : Bytes)
    (hc : canSign u = false) : (sortHashes (coveredHashes H canSign rs es)).find? (·.1 == u) = none := by
  rw [List.find?_eq_none]
  intro x hx hxk
  have hx' := (bs_sortHashes_perm _).mem_iff.mp hx
  obtain ⟨e2, he2, rfl⟩ := List.mem_map.mp hx'
  have hc2 := (List.mem_filter.mp he2).2
  have : e2.url = u := eq_of_beq hxk
  rw [this, hc] at hc2
  cases hc2

/-- **one signer, arbitrary existing section.**  If `addSignature` succeeds on a bundle `b` (whatever
    signatures section it already carries), then the new section is the old one with the signer's chain and
    one vouched subset appended; that subset verifies at `t` against the NEW authority list and yields the
    signer's subset (URL map in encoded-key order) and the signer's leaf certificate; every exchange of `b`
    the signer covers verifies (after `AddPayloadIntegrity`) against that one trusted subset with its original
    body, the others are unsigned for it.  The message returned is the signed message of the encoding of the
    signer's subset over `coveredHashes … b.exchanges`. -/
theorem bm_step (env : VEnv) (hlen : ∀ x, (env.H x).length = 32) (canSign : Bytes → Bool) (rs : Nat)
    (hrs : 1 ≤ rs) (hrs2 : rs ≤ 16384) (b b' : Bundle) (certs : List AugCert) (vurl : Bytes) (date expires : Int)
    (sig msg : Bytes) (t : GoTime.T)
    (hadd : addSignature env.H canSign rs b certs vurl date expires sig = some (b', msg))
    (hkey : env.keyOk (certs.headD default).cert = true)
    (hsv : env.sigVerify (certs.headD default).cert msg sig = true)
    (hvu : utf8Valid vurl = true) (hvl : vurl.length < 2 ^ 63) (hok : env.urlOk vurl = true)
    (hd : 0 ≤ date ∧ date < 2 ^ 62) (hx : 0 ≤ expires ∧ expires < 2 ^ 62) (hlife : expires - date ≤ 604800)
    (ht1 : GoTime.before t (GoTime.ofUnix date 0) = false) (ht2 : GoTime.after t (GoTime.ofUnix expires 0) = false)
    (hurls : ∀ e ∈ b.exchanges, canSign e.url = true → utf8Valid e.url = true ∧ e.url.length < 2 ^ 63)
    (hn : b.exchanges.length < 2 ^ 64) :
    ∃ (signedBytes : Bytes),
      encodeSignedSubset (signerSubset env.H certs vurl date expires (coveredHashes env.H canSign rs b.exchanges)) =
        .ok signedBytes ∧
      msg = signedMessage signedBytes b.version ∧
      b'.signatures = some (sigsOf b') ∧
      sigsOf b' = { authorities := (sigsOf b).authorities ++ certs,
                    subsets := (sigsOf b).subsets ++
                      [{ authority := (sigsOf b).authorities.length, sig := sig, signed := signedBytes }] } ∧
      b'.version = b.version ∧
      b'.exchanges = b.exchanges.map (signedView env.H canSign rs) ∧
      verifyVouchedSubset env { authority := (sigsOf b).authorities.length, sig := sig, signed := signedBytes }
          ((sigsOf b).authorities ++ certs) t b.version =
        some (bm_ss env.H canSign rs b.exchanges certs vurl date expires, certs.headD default) ∧
      ((coveredHashes env.H canSign rs b.exchanges).map Prod.fst).Nodup ∧
      (∀ e ∈ b.exchanges, canSign e.url = true → values e.resp.headers hDigest = []) ∧
      ∀ e ∈ b.exchanges,
        (canSign e.url = true →
          verifyExchange env b.version [(bm_ss env.H canSign rs b.exchanges certs vurl date expires, certs.headD default)]
            (piExch env.H rs e) = .verified e.resp.body (certs.headD default).cert) ∧
        (canSign e.url = false →
          verifyExchange env b.version [(bm_ss env.H canSign rs b.exchanges certs vurl date expires, certs.headD default)]
            e = .unsigned) := by
  obtain ⟨hval, exs, hashes, signedBytes, hse, henc, hb', hmsg⟩ := bs_addSignature_eq hadd
  have hne := bs_validate_ne_nil hval
  obtain ⟨c, crest, rfl⟩ : ∃ c crest, certs = c :: crest := by
    cases certs with
    | nil => exact absurd rfl hne
    | cons c crest => exact ⟨c, crest, rfl⟩
  have hhead : (c :: crest).headD default = c := rfl
  rw [hhead] at hkey hsv
  obtain ⟨hexs, hhashes, hcov, hndp⟩ := bs_signExchanges_spec env.H canSign rs _ _ _ _ _ hse
  rw [List.nil_append] at hexs hhashes
  have hnd : (hashes.map Prod.fst).Nodup := hndp List.nodup_nil
  subst hhashes
  have hgood := bs_covered_good hlen canSign rs b.exchanges hurls
  have hcl : (coveredHashes env.H canSign rs b.exchanges).length < 2 ^ 64 := by
    have : (coveredHashes env.H canSign rs b.exchanges).length ≤ b.exchanges.length := by
      unfold coveredHashes
      rw [List.length_map]
      exact List.length_filter_le _ _
    omega
  have hdec := bs_decode_encodeSignedSubset env.urlOk _ signedBytes henc hvu hvl hok
    (by simp only [signerSubset, hlen]; decide) ⟨hd.1, by simp only [signerSubset]; omega⟩
    ⟨hx.1, by simp only [signerSubset]; omega⟩ hgood hnd hcl
  simp only [signerSubset, hhead] at hdec
  have hsigs' : sigsOf b' =
      { authorities := (sigsOf b).authorities ++ (c :: crest),
        subsets := (sigsOf b).subsets ++
          [{ authority := (sigsOf b).authorities.length, sig := sig, signed := signedBytes }] } := by
    rw [hb']; rfl
  refine ⟨signedBytes, henc, hmsg, ?_, hsigs', by rw [hb'], by rw [hb']; exact hexs, ?_, hnd,
    (fun e he hc => (hcov e he hc).1), ?_⟩
  · rw [hsigs', hb']
  · rw [hhead]
    apply bs_verifyVouchedSubset_complete (cert := c)
    · show ((sigsOf b).authorities ++ c :: crest)[(sigsOf b).authorities.length]? = some c
      rw [List.getElem?_append_right (Nat.le_refl _), Nat.sub_self]
      rfl
    · exact hkey
    · show env.sigVerify c.cert (signedMessage signedBytes b.version) sig = true
      rw [← hmsg]; exact hsv
    · show decodeSignedSubset env.urlOk signedBytes = some _
      rw [hdec]; rfl
    · rfl
    · have := (Sxg.sub_gt_week_iff date expires ⟨by omega, hd.2⟩ ⟨by omega, hx.2⟩)
      show GoTime.sub (GoTime.ofUnix expires 0) (GoTime.ofUnix date 0) ≤ 604800 * 1000000000
      apply Int.not_lt.mp
      intro hgt
      have := this.mp hgt
      omega
    · exact ht1
    · exact ht2
  · intro e he
    rw [hhead]
    constructor
    · intro hc
      obtain ⟨hno, hd', hhd⟩ := hcov e he hc
      have hdig := bs_piExch_digest env.H rs e hno
      apply bs_verifyExchange_complete (rhs := hashOf env.H rs e)
        (rh := { headerSha256 := (headerSha256 env.H (piExch env.H rs e).resp).getD [],
                 payloadIntegrityHeader := Mice.Enc.draft03.integrityIdentifier })
      · exact bm_find_covered env.H canSign rs b.exchanges hnd e he hc
      · rfl
      · rfl
      · rw [hhd]; rfl
      · rfl
      · rw [hdig]; exact Sxg.inv_digest_ne_nil _ _ _ _
      · rw [hdig]
        exact C14.decode_encode env.H hlen .draft03 e.resp.body rs 16384 hrs hrs2 (by omega)
    · intro hc
      apply bs_verifyExchange_unsigned
      exact bm_find_uncovered env.H canSign rs b.exchanges e.url hc

/-! ## §3 appending authorities and vouched subsets -/

/-- a vouched subset that verifies against `auths` verifies, with the same result, against any extension of
    `auths` (its index is inside `auths`) -/
theorem bm_verifyVouched_append {env : VEnv} {vs : VouchedSubset} {auths : List AugCert} {t : GoTime.T} {ver : BVer}
    {r : SignedSubset × AugCert} (more : List AugCert)
    (h : verifyVouchedSubset env vs auths t ver = some r) :
    verifyVouchedSubset env vs (auths ++ more) t ver = some r := by
  obtain ⟨ss, cert⟩ := r
  obtain ⟨hlt, h1, h2, h3, h4, h5, h6, h7, h8⟩ := bs_verifyVouchedSubset_sound h
  exact bs_verifyVouchedSubset_complete (by rw [List.getElem?_append_left hlt]; exact h1) h2 h3 h4 h5 h6 h7 h8

/-- a verifier for the old section extends to the section with more authorities and more vouched subsets
    appended, provided the new subsets verify against the new authority list -/
theorem bm_newVerifier_append {env : VEnv} {old : Sigs} {t : GoTime.T} {ver : BVer}
    {vss vss' : List (SignedSubset × AugCert)} (more : List AugCert) (newSubsets : List VouchedSubset)
    (hold : newVerifier env old t ver = some vss)
    (hnew : newSubsets.mapM (fun vs => verifyVouchedSubset env vs (old.authorities ++ more) t ver) = some vss') :
    newVerifier env { authorities := old.authorities ++ more, subsets := old.subsets ++ newSubsets } t ver =
      some (vss ++ vss') := by
  unfold newVerifier at hold ⊢
  simp only
  apply bm_mapM_append_some _ _ _ _ _ _ hnew
  exact bm_mapM_mono _ _ _ _ hold (fun vs _ y hy => bm_verifyVouched_append more hy)

/-- one more signer: the old trusted list, then the new signer's pair -/
theorem bm_newVerifier_snoc {env : VEnv} {old : Sigs} {t : GoTime.T} {ver : BVer}
    {vss : List (SignedSubset × AugCert)} {p : SignedSubset × AugCert} (more : List AugCert) (vs : VouchedSubset)
    (hold : newVerifier env old t ver = some vss)
    (hnew : verifyVouchedSubset env vs (old.authorities ++ more) t ver = some p) :
    newVerifier env { authorities := old.authorities ++ more, subsets := old.subsets ++ [vs] } t ver =
      some (vss ++ [p]) := by
  apply bm_newVerifier_append more [vs] hold
  simp only [List.mapM_cons, List.mapM_nil, hnew]
  rfl

/-! ## §4 the trusted list of a sequence of signers -/

/-- the leaf (first) certificate of a signer's chain -/
def bm_leaf (s : Signer) : AugCert := s.certs.headD default

/-- the subset the verifier trusts for signer `s` on the original bundle `b` -/
def bm_subset (H : Bytes → Bytes) (rs : Nat) (b : Bundle) (s : Signer) : SignedSubset :=
  bm_ss H s.canSign rs b.exchanges s.certs s.validityUrl s.date s.expires

/-- what `NewVerifier` returns after the signers ran: one (subset, leaf certificate) pair per signer, in order -/
def bm_trusted (H : Bytes → Bytes) (rs : Nat) (b : Bundle) (signers : List Signer) : List (SignedSubset × AugCert) :=
  signers.map fun s => (bm_subset H rs b s, bm_leaf s)

/-- the message signer `s` is asked to sign, in terms of the ORIGINAL bundle `b` (it does not depend on what
    the other signers did: `bm_trace_msgs`) -/
def bm_signerMsg (H : Bytes → Bytes) (rs : Nat) (b : Bundle) (s : Signer) : Bytes :=
  match encodeSignedSubset (signerSubset H s.certs s.validityUrl s.date s.expires
      (coveredHashes H s.canSign rs b.exchanges)) with
  | .ok signedBytes => signedMessage signedBytes b.version
  | .error _ => []

/-- the exchange of the finally signed bundle that corresponds to `e` -/
def bm_view (H : Bytes → Bytes) (rs : Nat) (signers : List Signer) (e : Exch) : Exch :=
  if signers.any (fun s => s.canSign e.url) = true then piExch H rs e else e

/-- the URL lookup of `VerifyExchange` in one trusted pair -/
def bm_lookup (u : Bytes) (p : SignedSubset × AugCert) : Option (ResponseHashes × AugCert) :=
  (p.1.subsetHashes.find? (·.1 == u)).map fun kv => (kv.2, p.2)

/-- `VerifyExchange` depends on the trusted list only through the first hit of the URL lookup -/
theorem bm_verifyExchange_congr {env : VEnv} {ver : BVer} {vss vss' : List (SignedSubset × AugCert)} {e : Exch}
    (h : vss.findSome? (bm_lookup e.url) = vss'.findSome? (bm_lookup e.url)) :
    verifyExchange env ver vss e = verifyExchange env ver vss' e := by
  unfold verifyExchange
  have h' : vss.findSome? (fun (x : SignedSubset × AugCert) =>
        (x.1.subsetHashes.find? (·.1 == e.url)).map fun kv => (kv.2, x.2)) =
      vss'.findSome? (fun (x : SignedSubset × AugCert) =>
        (x.1.subsetHashes.find? (·.1 == e.url)).map fun kv => (kv.2, x.2)) := h
  simp only [h']

theorem bm_verifyExchange_none {env : VEnv} {ver : BVer} {vss : List (SignedSubset × AugCert)} {e : Exch}
    (h : vss.findSome? (bm_lookup e.url) = none) : verifyExchange env ver vss e = .unsigned := by
  have : verifyExchange env ver vss e = verifyExchange env ver [] e :=
    bm_verifyExchange_congr (by rw [h]; rfl)
  rw [this]
  rfl

theorem bm_lookup_covered (H : Bytes → Bytes) (rs : Nat) (b : Bundle) (s : Signer)
    (hnd : ((coveredHashes H s.canSign rs b.exchanges).map Prod.fst).Nodup) (e : Exch) (he : e ∈ b.exchanges)
    (hc : s.canSign e.url = true) :
    bm_lookup e.url (bm_subset H rs b s, bm_leaf s) = some (hashOf H rs e, bm_leaf s) := by
  unfold bm_lookup bm_subset bm_ss
  simp only
  rw [bm_find_covered H s.canSign rs b.exchanges hnd e he hc]
  rfl

theorem bm_lookup_uncovered (H : Bytes → Bytes) (rs : Nat) (b : Bundle) (s : Signer) (u : Bytes)
    (hc : s.canSign u = false) : bm_lookup u (bm_subset H rs b s, bm_leaf s) = none := by
  unfold bm_lookup bm_subset bm_ss
  simp only
  rw [bm_find_uncovered H s.canSign rs b.exchanges u hc]
  rfl

/-- with disjoint coverage, looking a URL up in the whole trusted list is looking it up in the pair of the
    one signer that covers it -/
theorem bm_trusted_lookup (H : Bytes → Bytes) (rs : Nat) (b : Bundle) (signers : List Signer) (u : Bytes) (s : Signer)
    (hs : s ∈ signers) (hc : s.canSign u = true)
    (hdisj : ∀ s₁ ∈ signers, ∀ s₂ ∈ signers, s₁.canSign u = true → s₂.canSign u = true → s₁ = s₂) :
    (bm_trusted H rs b signers).findSome? (bm_lookup u) = bm_lookup u (bm_subset H rs b s, bm_leaf s) := by
  unfold bm_trusted
  rw [List.findSome?_map]
  apply bm_findSome_unique (bm_lookup u ∘ fun s => (bm_subset H rs b s, bm_leaf s)) s signers hs
  intro x hx
  cases hcx : x.canSign u with
  | false => exact Or.inl (bm_lookup_uncovered H rs b x u hcx)
  | true => rw [hdisj x hx s hs hcx hc]; exact Or.inr rfl

theorem bm_trusted_lookup_none (H : Bytes → Bytes) (rs : Nat) (b : Bundle) (signers : List Signer) (u : Bytes)
    (hnone : ∀ s ∈ signers, s.canSign u = false) :
    (bm_trusted H rs b signers).findSome? (bm_lookup u) = none := by
  unfold bm_trusted
  rw [List.findSome?_map, List.findSome?_eq_none_iff]
  intro x hx
  exact bm_lookup_uncovered H rs b x u (hnone x hx)

/-! ## §5 the invariant threaded through `signAll` -/

theorem bm_piExch_url (H : Bytes → Bytes) (rs : Nat) (e : Exch) : (piExch H rs e).url = e.url := rfl

theorem bm_view_url (H : Bytes → Bytes) (rs : Nat) (signers : List Signer) (e : Exch) :
    (bm_view H rs signers e).url = e.url := by
  unfold bm_view
  by_cases h : signers.any (fun s => s.canSign e.url) = true
  · rw [if_pos h]; rfl
  · rw [if_neg h]

theorem bm_view_nil (H : Bytes → Bytes) (rs : Nat) (e : Exch) : bm_view H rs [] e = e := by
  unfold bm_view
  rw [if_neg (by simp)]

/-- the signer's map only depends on the exchanges it covers -/
theorem bm_coveredHashes_map (H : Bytes → Bytes) (canSign : Bytes → Bool) (rs : Nat) (g : Exch → Exch) :
    ∀ (es : List Exch), (∀ e ∈ es, (g e).url = e.url ∧ (canSign e.url = true → g e = e)) →
    coveredHashes H canSign rs (es.map g) = coveredHashes H canSign rs es := by
  intro es
  induction es with
  | nil => intro _; rfl
  | cons e rest ih =>
    intro h
    obtain ⟨hu, hg⟩ := h e List.mem_cons_self
    have ih' := ih (fun x hx => h x (List.mem_cons_of_mem _ hx))
    rw [List.map_cons]
    by_cases hc : canSign e.url = true
    · rw [bs_coveredHashes_cons_pos _ _ _ _ _ (by rw [hu]; exact hc), bs_coveredHashes_cons_pos _ _ _ _ _ hc, ih', hg hc]
    · rw [bs_coveredHashes_cons_neg _ _ _ _ _ (by rw [hu]; exact hc), bs_coveredHashes_cons_neg _ _ _ _ _ hc, ih']

/-- the crypto-free part of the invariant: after the signers `pre` ran on `b0`, giving `bm` -/
structure bm_Shape (H : Bytes → Bytes) (rs : Nat) (b0 : Bundle) (pre : List Signer) (bm : Bundle) : Prop where
  version : bm.version = b0.version
  exchanges : bm.exchanges = b0.exchanges.map (bm_view H rs pre)
  /-- no URL of the bundle is covered by two signers (as values) … -/
  disjoint : ∀ e ∈ b0.exchanges, ∀ s₁ ∈ pre, ∀ s₂ ∈ pre, s₁.canSign e.url = true → s₂.canSign e.url = true → s₁ = s₂
  /-- … nor by two signers at different positions -/
  pairwise : pre.Pairwise fun s₁ s₂ => ∀ e ∈ b0.exchanges, ¬ (s₁.canSign e.url = true ∧ s₂.canSign e.url = true)

theorem bm_shape_nil (H : Bytes → Bytes) (rs : Nat) (b0 : Bundle) : bm_Shape H rs b0 [] b0 where
  version := rfl
  exchanges := by
    have : (bm_view H rs []) = id := funext (bm_view_nil H rs)
    rw [this, List.map_id]
  disjoint := fun _ _ _ h => by cases h
  pairwise := List.Pairwise.nil

/-- one more signer succeeded: it covers no exchange an earlier signer covers (the `Digest` header the earlier
    one added makes `AddPayloadIntegrity` fail), the exchanges it covers are still the original ones, and the
    message it signs is the one computed from the original bundle -/
theorem bm_shape_step {H : Bytes → Bytes} {rs : Nat} {b0 bm b1 : Bundle} {pre : List Signer} {s : Signer} {msg : Bytes}
    (hsh : bm_Shape H rs b0 pre bm)
    (hadd : addSignature H s.canSign rs bm s.certs s.validityUrl s.date s.expires s.sig = some (b1, msg)) :
    bm_Shape H rs b0 (pre ++ [s]) b1 ∧ msg = bm_signerMsg H rs b0 s ∧
    (∀ e ∈ b0.exchanges, s.canSign e.url = true → pre.any (fun p => p.canSign e.url) = false) ∧
    coveredHashes H s.canSign rs bm.exchanges = coveredHashes H s.canSign rs b0.exchanges := by
  obtain ⟨_, exs, hashes, signedBytes, hse, henc, hb', hmsg⟩ := bs_addSignature_eq hadd
  obtain ⟨hexs, hhashes, hcov, _⟩ := bs_signExchanges_spec H s.canSign rs _ _ _ _ _ hse
  rw [List.nil_append] at hexs hhashes
  subst hhashes
  have hB : ∀ e ∈ b0.exchanges, s.canSign e.url = true → pre.any (fun p => p.canSign e.url) = false := by
    intro e he hc
    cases hany : pre.any (fun p => p.canSign e.url) with
    | false => rfl
    | true =>
      exfalso
      have hmem : piExch H rs e ∈ bm.exchanges := by
        rw [hsh.exchanges]
        refine List.mem_map.mpr ⟨e, he, ?_⟩
        unfold bm_view
        rw [if_pos hany]
      exact bm_piExch_values_ne H rs e (hcov _ hmem hc).1
  have hC : coveredHashes H s.canSign rs bm.exchanges = coveredHashes H s.canSign rs b0.exchanges := by
    rw [hsh.exchanges]
    apply bm_coveredHashes_map
    intro e he
    refine ⟨bm_view_url H rs pre e, fun hc => ?_⟩
    unfold bm_view
    rw [if_neg (by rw [hB e he hc]; decide)]
  refine ⟨?_, ?_, hB, hC⟩
  · constructor
    · rw [hb']; exact hsh.version
    · rw [hb']
      show exs = _
      rw [hexs, hsh.exchanges, List.map_map]
      apply List.map_congr_left
      intro e he
      show signedView H s.canSign rs (bm_view H rs pre e) = bm_view H rs (pre ++ [s]) e
      cases hc : s.canSign e.url with
      | true =>
        have hany := hB e he hc
        simp [bm_view, signedView, hany, hc]
      | false =>
        cases hany : pre.any (fun p => p.canSign e.url) with
        | true => simp [bm_view, signedView, hany, hc, bm_piExch_url]
        | false => simp [bm_view, signedView, hany, hc]
    · intro e he s₁ h1 s₂ h2 c1 c2
      rcases List.mem_append.mp h1 with h1 | h1 <;> rcases List.mem_append.mp h2 with h2 | h2
      · exact hsh.disjoint e he s₁ h1 s₂ h2 c1 c2
      · rw [List.mem_singleton.mp h2] at c2
        have := hB e he c2
        rw [List.any_eq_true.mpr ⟨s₁, h1, c1⟩] at this
        cases this
      · rw [List.mem_singleton.mp h1] at c1
        have := hB e he c1
        rw [List.any_eq_true.mpr ⟨s₂, h2, c2⟩] at this
        cases this
      · rw [List.mem_singleton.mp h1, List.mem_singleton.mp h2]
    · rw [List.pairwise_append]
      refine ⟨hsh.pairwise, List.pairwise_singleton _ _, ?_⟩
      intro a ha x hx e he hboth
      rw [List.mem_singleton.mp hx] at hboth
      have := hB e he hboth.2
      rw [List.any_eq_true.mpr ⟨a, ha, hboth.1⟩] at this
      cases this
  · unfold bm_signerMsg
    rw [← hC, henc]
    simp only
    rw [hmsg, hsh.version]

/-- what is assumed about one signer (besides that its signature verifies): key usable, validity URL a
    parseable UTF-8 string, dates non-negative and at most 7 days apart, `t` inside the window, and the URLs
    it covers are CBOR text strings of representable length -/
structure bm_SignerOk (env : VEnv) (t : GoTime.T) (b : Bundle) (s : Signer) : Prop where
  key : env.keyOk (bm_leaf s).cert = true
  vurl_utf8 : utf8Valid s.validityUrl = true
  vurl_len : s.validityUrl.length < 2 ^ 63
  vurl_ok : env.urlOk s.validityUrl = true
  date : 0 ≤ s.date ∧ s.date < 2 ^ 62
  expires : 0 ≤ s.expires ∧ s.expires < 2 ^ 62
  life : s.expires - s.date ≤ 604800
  notBefore : GoTime.before t (GoTime.ofUnix s.date 0) = false
  notAfter : GoTime.after t (GoTime.ofUnix s.expires 0) = false
  urls : ∀ e ∈ b.exchanges, s.canSign e.url = true → utf8Valid e.url = true ∧ e.url.length < 2 ^ 63

/-- the two window conditions of `bm_SignerOk` from a verification time in unix seconds: `date ≤ ts ≤ expires`
    (at `ts = expires` only with zero nanoseconds) -/
theorem bm_window_unix (date expires ts tn : Int) (hd : 0 ≤ date ∧ date < 2 ^ 62) (hx : 0 ≤ expires ∧ expires < 2 ^ 62)
    (htn : 0 ≤ tn) (hts1 : date ≤ ts) (hts2 : ts < expires ∨ (ts = expires ∧ tn = 0)) :
    GoTime.before (GoTime.ofUnix ts tn) (GoTime.ofUnix date 0) = false ∧
    GoTime.after (GoTime.ofUnix ts tn) (GoTime.ofUnix expires 0) = false := by
  obtain ⟨_, w2, w3⟩ := bs_window_iff date expires ts tn ⟨by omega, hd.2⟩ ⟨by omega, hx.2⟩ ⟨by omega, by omega⟩
  constructor
  · cases hb : GoTime.before (GoTime.ofUnix ts tn) (GoTime.ofUnix date 0) with
    | false => rfl
    | true => have := w2.mp hb; omega
  · cases hb : GoTime.after (GoTime.ofUnix ts tn) (GoTime.ofUnix expires 0) with
    | false => rfl
    | true => have := w3.mp hb; omega

/-- the full invariant: shape, plus the verifier's view of the section -/
structure bm_Inv (env : VEnv) (rs : Nat) (t : GoTime.T) (b0 : Bundle) (pre : List Signer) (bm : Bundle) : Prop where
  shape : bm_Shape env.H rs b0 pre bm
  section_some : pre ≠ [] → bm.signatures = some (sigsOf bm)
  verifier : newVerifier env (sigsOf bm) t b0.version = some (bm_trusted env.H rs b0 pre)
  nodup : ∀ s ∈ pre, ((coveredHashes env.H s.canSign rs b0.exchanges).map Prod.fst).Nodup
  single : ∀ s ∈ pre, ∀ e ∈ b0.exchanges, s.canSign e.url = true →
    verifyExchange env b0.version [(bm_subset env.H rs b0 s, bm_leaf s)] (piExch env.H rs e) =
      .verified e.resp.body (bm_leaf s).cert

theorem bm_inv_nil (env : VEnv) (rs : Nat) (t : GoTime.T) (b0 : Bundle) (hfirst : b0.signatures = none) :
    bm_Inv env rs t b0 [] b0 where
  shape := bm_shape_nil env.H rs b0
  section_some := fun h => absurd rfl h
  verifier := by
    unfold sigsOf newVerifier
    rw [hfirst]
    rfl
  nodup := fun _ h => by cases h
  single := fun _ h => by cases h

/-- **one more signer preserves the invariant** -/
theorem bm_inv_step {env : VEnv} (hlen : ∀ x, (env.H x).length = 32) {rs : Nat} (hrs : 1 ≤ rs) (hrs2 : rs ≤ 16384)
    {t : GoTime.T} {b0 bm b1 : Bundle} {pre : List Signer} {s : Signer} {msg : Bytes}
    (hn : b0.exchanges.length < 2 ^ 64)
    (hinv : bm_Inv env rs t b0 pre bm) (hok : bm_SignerOk env t b0 s)
    (hsig : env.sigVerify (bm_leaf s).cert (bm_signerMsg env.H rs b0 s) s.sig = true)
    (hadd : addSignature env.H s.canSign rs bm s.certs s.validityUrl s.date s.expires s.sig = some (b1, msg)) :
    bm_Inv env rs t b0 (pre ++ [s]) b1 := by
  obtain ⟨hsh', hmsg, hB, hC⟩ := bm_shape_step hinv.shape hadd
  have hver := hinv.shape.version
  have hurls : ∀ e ∈ bm.exchanges, s.canSign e.url = true → utf8Valid e.url = true ∧ e.url.length < 2 ^ 63 := by
    intro e' he' hc
    rw [hinv.shape.exchanges] at he'
    obtain ⟨e, he, rfl⟩ := List.mem_map.mp he'
    rw [bm_view_url] at hc ⊢
    exact hok.urls e he hc
  have hn' : bm.exchanges.length < 2 ^ 64 := by rw [hinv.shape.exchanges, List.length_map]; exact hn
  obtain ⟨signedBytes, _, _, hsome, hsigs, _, _, hvv, hnd, _, hsingle⟩ :=
    bm_step env hlen s.canSign rs hrs hrs2 bm b1 s.certs s.validityUrl s.date s.expires s.sig msg t hadd
      hok.key (by rw [hmsg]; exact hsig) hok.vurl_utf8 hok.vurl_len hok.vurl_ok hok.date hok.expires hok.life
      hok.notBefore hok.notAfter hurls hn'
  have hss : bm_ss env.H s.canSign rs bm.exchanges s.certs s.validityUrl s.date s.expires = bm_subset env.H rs b0 s := by
    unfold bm_subset bm_ss
    rw [hC]
  rw [hss, hver] at hvv
  rw [hC] at hnd
  have hleaf : s.certs.headD default = bm_leaf s := rfl
  rw [hleaf] at hvv
  constructor
  · exact hsh'
  · intro _; exact hsome
  · rw [hsigs]
    have := bm_newVerifier_snoc s.certs _ hinv.verifier hvv
    rw [this]
    unfold bm_trusted
    rw [List.map_append]
    rfl
  · intro x hx
    rcases List.mem_append.mp hx with hx | hx
    · exact hinv.nodup x hx
    · rw [List.mem_singleton.mp hx]; exact hnd
  · intro x hx e he hc
    rcases List.mem_append.mp hx with hx | hx
    · exact hinv.single x hx e he hc
    · rw [List.mem_singleton.mp hx] at hc ⊢
      have hmem : e ∈ bm.exchanges := by
        rw [hinv.shape.exchanges]
        refine List.mem_map.mpr ⟨e, he, ?_⟩
        unfold bm_view
        rw [if_neg (by rw [hB e he hc]; decide)]
      have := (hsingle e hmem).1 hc
      rw [hss, hver, hleaf] at this
      exact this

/-- the invariant along `signAll` -/
theorem bm_signAll_inv {env : VEnv} (hlen : ∀ x, (env.H x).length = 32) {rs : Nat} (hrs : 1 ≤ rs) (hrs2 : rs ≤ 16384)
    {t : GoTime.T} {b0 : Bundle} (hn : b0.exchanges.length < 2 ^ 64) :
    ∀ (rest pre : List Signer) (bm b' : Bundle), bm_Inv env rs t b0 pre bm →
      (∀ s ∈ rest, bm_SignerOk env t b0 s) →
      (∀ s ∈ rest, env.sigVerify (bm_leaf s).cert (bm_signerMsg env.H rs b0 s) s.sig = true) →
      signAll env.H rs bm rest = some b' → bm_Inv env rs t b0 (pre ++ rest) b' := by
  intro rest
  induction rest with
  | nil =>
    intro pre bm b' hinv _ _ h
    simp only [signAll, Option.some.injEq] at h
    subst h
    rw [List.append_nil]
    exact hinv
  | cons s rest ih =>
    intro pre bm b' hinv hok hsig h
    rw [signAll] at h
    cases ha : addSignature env.H s.canSign rs bm s.certs s.validityUrl s.date s.expires s.sig with
    | none => simp only [ha] at h; cases h
    | some p =>
      obtain ⟨b1, m⟩ := p
      simp only [ha] at h
      have hstep := bm_inv_step hlen hrs hrs2 hn hinv (hok s List.mem_cons_self) (hsig s List.mem_cons_self) ha
      have := ih (pre ++ [s]) b1 b' hstep (fun x hx => hok x (List.mem_cons_of_mem _ hx))
        (fun x hx => hsig x (List.mem_cons_of_mem _ hx)) h
      rw [List.append_assoc, List.singleton_append] at this
      exact this

/-- the shape along `signAll`: needs nothing but success -/
theorem bm_signAll_shape (H : Bytes → Bytes) (rs : Nat) (b0 : Bundle) :
    ∀ (rest pre : List Signer) (bm b' : Bundle), bm_Shape H rs b0 pre bm →
      signAll H rs bm rest = some b' → bm_Shape H rs b0 (pre ++ rest) b' := by
  intro rest
  induction rest with
  | nil =>
    intro pre bm b' hsh h
    simp only [signAll, Option.some.injEq] at h
    subst h
    rw [List.append_nil]
    exact hsh
  | cons s rest ih =>
    intro pre bm b' hsh h
    rw [signAll] at h
    cases ha : addSignature H s.canSign rs bm s.certs s.validityUrl s.date s.expires s.sig with
    | none => simp only [ha] at h; cases h
    | some p =>
      obtain ⟨b1, m⟩ := p
      simp only [ha] at h
      have := ih (pre ++ [s]) b1 b' (bm_shape_step hsh ha).1 h
      rw [List.append_assoc, List.singleton_append] at this
      exact this

/-! ## §6 main theorems -/

theorem bm_findSome_singleton {α β : Type} (f : α → Option β) (a : α) : [a].findSome? f = f a := by
  rw [List.findSome?_cons]
  cases f a <;> rfl

/-- **honest multi-signer verification.**  `signAll` ran the signers one after the other on a bundle without
    signatures section and succeeded; every signer satisfies `bm_SignerOk` (in particular `t` is inside every
    signer's window) and the environment accepts every signer's signature on the message that signer was given
    (`bm_signerMsg`, which by `bm_trace_msgs` is the message its `addSignature` returned).  Then:
    the section is present (if there was a signer); version unchanged; the exchanges of the result are the
    original ones with `AddPayloadIntegrity` applied to those some signer covers; `NewVerifier` accepts the section
    at `t` and trusts exactly one (subset, leaf certificate) pair per signer, in order; no exchange URL is covered
    by two signers at different positions (NOT a hypothesis: `signAll` fails otherwise); every exchange covered
    by a signer `s` verifies with its ORIGINAL body under `s`'s leaf certificate, and exchanges covered by nobody
    are unsigned. -/
theorem bm_honest_verifies_all (env : VEnv) (hlen : ∀ x, (env.H x).length = 32) (rs : Nat) (hrs : 1 ≤ rs)
    (hrs2 : rs ≤ 16384) (b b' : Bundle) (signers : List Signer) (t : GoTime.T)
    (hfirst : b.signatures = none) (hall : signAll env.H rs b signers = some b')
    (hs : ∀ s ∈ signers, bm_SignerOk env t b s)
    (hsig : ∀ s ∈ signers, env.sigVerify (bm_leaf s).cert (bm_signerMsg env.H rs b s) s.sig = true)
    (hn : b.exchanges.length < 2 ^ 64) :
    (signers ≠ [] → b'.signatures = some (sigsOf b')) ∧
    b'.version = b.version ∧
    b'.exchanges = b.exchanges.map (bm_view env.H rs signers) ∧
    newVerifier env (sigsOf b') t b.version = some (bm_trusted env.H rs b signers) ∧
    (signers.Pairwise fun s₁ s₂ => ∀ e ∈ b.exchanges, ¬ (s₁.canSign e.url = true ∧ s₂.canSign e.url = true)) ∧
    ∀ e ∈ b.exchanges,
      (∀ s ∈ signers, s.canSign e.url = true →
        verifyExchange env b.version (bm_trusted env.H rs b signers) (piExch env.H rs e) =
          .verified e.resp.body (bm_leaf s).cert) ∧
      ((∀ s ∈ signers, s.canSign e.url = false) →
        verifyExchange env b.version (bm_trusted env.H rs b signers) e = .unsigned) := by
  have hinv := bm_signAll_inv hlen hrs hrs2 (t := t) hn signers [] b b' (bm_inv_nil env rs t b hfirst) hs hsig hall
  rw [List.nil_append] at hinv
  refine ⟨hinv.section_some, hinv.shape.version, hinv.shape.exchanges, hinv.verifier, hinv.shape.pairwise, ?_⟩
  intro e he
  constructor
  · intro s hsm hc
    rw [← hinv.single s hsm e he hc]
    apply bm_verifyExchange_congr
    rw [bm_findSome_singleton]
    exact bm_trusted_lookup env.H rs b signers e.url s hsm hc (hinv.shape.disjoint e he)
  · intro hnone
    exact bm_verifyExchange_none (bm_trusted_lookup_none env.H rs b signers e.url hnone)

/-- the same, exchange by exchange of the FINAL bundle: the exchange that corresponds to `e` verifies under the
    leaf of the (first = only) signer covering it with `e`'s original body, or is unsigned if there is none -/
theorem bm_honest_final (env : VEnv) (hlen : ∀ x, (env.H x).length = 32) (rs : Nat) (hrs : 1 ≤ rs)
    (hrs2 : rs ≤ 16384) (b b' : Bundle) (signers : List Signer) (t : GoTime.T)
    (hfirst : b.signatures = none) (hall : signAll env.H rs b signers = some b')
    (hs : ∀ s ∈ signers, bm_SignerOk env t b s)
    (hsig : ∀ s ∈ signers, env.sigVerify (bm_leaf s).cert (bm_signerMsg env.H rs b s) s.sig = true)
    (hn : b.exchanges.length < 2 ^ 64) :
    ∃ vss, newVerifier env (sigsOf b') t b'.version = some vss ∧
      b'.exchanges = b.exchanges.map (bm_view env.H rs signers) ∧
      ∀ e ∈ b.exchanges, verifyExchange env b'.version vss (bm_view env.H rs signers e) =
        match signers.find? (fun s => s.canSign e.url) with
        | some s => .verified e.resp.body (bm_leaf s).cert
        | none => .unsigned := by
  obtain ⟨_, hv, hex, hnv, _, hver⟩ := bm_honest_verifies_all env hlen rs hrs hrs2 b b' signers t hfirst hall hs hsig hn
  refine ⟨_, by rw [hv]; exact hnv, hex, ?_⟩
  intro e he
  rw [hv]
  cases hf : signers.find? (fun s => s.canSign e.url) with
  | some s =>
    have hsm := List.mem_of_find?_eq_some hf
    have hc : s.canSign e.url = true := List.find?_some (p := fun s : Signer => s.canSign e.url) hf
    simp only
    unfold bm_view
    rw [if_pos (List.any_eq_true.mpr ⟨s, hsm, hc⟩)]
    exact (hver e he).1 s hsm hc
  | none =>
    rw [List.find?_eq_none] at hf
    have hnone : ∀ s ∈ signers, s.canSign e.url = false := fun s hsm => by simpa using hf s hsm
    simp only
    unfold bm_view
    rw [if_neg (by
      intro hany
      obtain ⟨s, hsm, hc⟩ := List.any_eq_true.mp hany
      rw [hnone s hsm] at hc
      cases hc)]
    exact (hver e he).2 hnone

/-- the statement in the shape "there is a section, a trusted list as long as the signer list whose `i`-th entry
    carries signer `i`'s leaf, …" -/
theorem bm_honest_verifies_all' (env : VEnv) (hlen : ∀ x, (env.H x).length = 32) (rs : Nat) (hrs : 1 ≤ rs)
    (hrs2 : rs ≤ 16384) (b b' : Bundle) (signers : List Signer) (t : GoTime.T)
    (hfirst : b.signatures = none) (hall : signAll env.H rs b signers = some b') (hne : signers ≠ [])
    (hs : ∀ s ∈ signers, bm_SignerOk env t b s)
    (hsig : ∀ s ∈ signers, env.sigVerify (bm_leaf s).cert (bm_signerMsg env.H rs b s) s.sig = true)
    (hn : b.exchanges.length < 2 ^ 64) :
    ∃ sigs' vss, b'.signatures = some sigs' ∧ newVerifier env sigs' t b.version = some vss ∧
      vss.length = signers.length ∧
      (∀ i (hi : i < signers.length), vss[i]? = some (bm_subset env.H rs b signers[i], bm_leaf signers[i])) ∧
      ∀ e ∈ b.exchanges,
        (∀ s ∈ signers, s.canSign e.url = true →
          verifyExchange env b.version vss (piExch env.H rs e) = .verified e.resp.body (bm_leaf s).cert) ∧
        ((∀ s ∈ signers, s.canSign e.url = false) → verifyExchange env b.version vss e = .unsigned) := by
  obtain ⟨hsome, _, _, hnv, _, hver⟩ := bm_honest_verifies_all env hlen rs hrs hrs2 b b' signers t hfirst hall hs hsig hn
  refine ⟨_, _, hsome hne, hnv, by unfold bm_trusted; rw [List.length_map], ?_, hver⟩
  intro i hi
  unfold bm_trusted
  rw [List.getElem?_map, List.getElem?_eq_getElem hi]
  rfl

/-! ### the messages: an instrumented `signAll` -/

/-- `signAll` that also returns, for every signer, the bundle it produced and the message it signed -/
def bm_signAllTrace (H : Bytes → Bytes) (rs : Nat) : Bundle → List Signer → Option (List (Bundle × Bytes))
  | _, [] => some []
  | b, s :: rest =>
    match addSignature H s.canSign rs b s.certs s.validityUrl s.date s.expires s.sig with
    | none => none
    | some (b', msg) =>
      match bm_signAllTrace H rs b' rest with
      | none => none
      | some tr => some ((b', msg) :: tr)

/-- the trace agrees with `signAll`: same success, and the result is the last bundle of the trace -/
theorem bm_signAllTrace_signAll (H : Bytes → Bytes) (rs : Nat) : ∀ (signers : List Signer) (b : Bundle),
    signAll H rs b signers =
      (bm_signAllTrace H rs b signers).map fun tr => ((tr.map Prod.fst).getLast?).getD b := by
  intro signers
  induction signers with
  | nil => intro b; rfl
  | cons s rest ih =>
    intro b
    rw [signAll, bm_signAllTrace]
    cases ha : addSignature H s.canSign rs b s.certs s.validityUrl s.date s.expires s.sig with
    | none => rfl
    | some p =>
      obtain ⟨b1, m⟩ := p
      simp only
      rw [ih b1]
      cases bm_signAllTrace H rs b1 rest with
      | none => rfl
      | some tr =>
        simp only [Option.map_some, List.map_cons, List.getLast?_cons, Option.getD_some]

theorem bm_signAllTrace_length (H : Bytes → Bytes) (rs : Nat) : ∀ (signers : List Signer) (b : Bundle)
    (tr : List (Bundle × Bytes)), bm_signAllTrace H rs b signers = some tr → tr.length = signers.length := by
  intro signers
  induction signers with
  | nil => intro b tr h; simp only [bm_signAllTrace, Option.some.injEq] at h; subst h; rfl
  | cons s rest ih =>
    intro b tr h
    rw [bm_signAllTrace] at h
    cases ha : addSignature H s.canSign rs b s.certs s.validityUrl s.date s.expires s.sig with
    | none => simp only [ha] at h; cases h
    | some p =>
      obtain ⟨b1, m⟩ := p
      simp only [ha] at h
      cases ht : bm_signAllTrace H rs b1 rest with
      | none => simp only [ht] at h; cases h
      | some tr' =>
        simp only [ht, Option.some.injEq] at h
        subst h
        rw [List.length_cons, List.length_cons, ih b1 tr' ht]

theorem bm_trace_msgs_aux (H : Bytes → Bytes) (rs : Nat) (b0 : Bundle) :
    ∀ (rest pre : List Signer) (bm : Bundle) (tr : List (Bundle × Bytes)), bm_Shape H rs b0 pre bm →
      bm_signAllTrace H rs bm rest = some tr → tr.map Prod.snd = rest.map (bm_signerMsg H rs b0) := by
  intro rest
  induction rest with
  | nil => intro pre bm tr _ h; simp only [bm_signAllTrace, Option.some.injEq] at h; subst h; rfl
  | cons s rest ih =>
    intro pre bm tr hsh h
    rw [bm_signAllTrace] at h
    cases ha : addSignature H s.canSign rs bm s.certs s.validityUrl s.date s.expires s.sig with
    | none => simp only [ha] at h; cases h
    | some p =>
      obtain ⟨b1, m⟩ := p
      simp only [ha] at h
      cases ht : bm_signAllTrace H rs b1 rest with
      | none => simp only [ht] at h; cases h
      | some tr' =>
        simp only [ht, Option.some.injEq] at h
        subst h
        obtain ⟨hsh', hm, _, _⟩ := bm_shape_step hsh ha
        rw [List.map_cons, List.map_cons, ih (pre ++ [s]) b1 tr' hsh' ht, hm]

/-- **the message every signer signs is determined by the original bundle and that signer alone**: the
    messages returned by the successive `addSignature` calls are `bm_signerMsg … b s` -/
theorem bm_trace_msgs (H : Bytes → Bytes) (rs : Nat) (b : Bundle) (signers : List Signer) (tr : List (Bundle × Bytes))
    (h : bm_signAllTrace H rs b signers = some tr) : tr.map Prod.snd = signers.map (bm_signerMsg H rs b) :=
  bm_trace_msgs_aux H rs b signers [] b tr (bm_shape_nil H rs b) h

/-- `bm_honest_verifies_all` with the signature hypothesis stated over the messages the `addSignature` calls
    actually returned (the trace) -/
theorem bm_honest_verifies_trace (env : VEnv) (hlen : ∀ x, (env.H x).length = 32) (rs : Nat) (hrs : 1 ≤ rs)
    (hrs2 : rs ≤ 16384) (b : Bundle) (signers : List Signer) (tr : List (Bundle × Bytes)) (t : GoTime.T)
    (hfirst : b.signatures = none) (htr : bm_signAllTrace env.H rs b signers = some tr)
    (hs : ∀ s ∈ signers, bm_SignerOk env t b s)
    (hsig : ∀ (i : Nat) (s : Signer) (p : Bundle × Bytes), signers[i]? = some s → tr[i]? = some p →
      env.sigVerify (bm_leaf s).cert p.2 s.sig = true)
    (hn : b.exchanges.length < 2 ^ 64) :
    ∃ b', signAll env.H rs b signers = some b' ∧ b' = ((tr.map Prod.fst).getLast?).getD b ∧
    (signers ≠ [] → b'.signatures = some (sigsOf b')) ∧
    b'.version = b.version ∧
    b'.exchanges = b.exchanges.map (bm_view env.H rs signers) ∧
    newVerifier env (sigsOf b') t b.version = some (bm_trusted env.H rs b signers) ∧
    ∀ e ∈ b.exchanges,
      (∀ s ∈ signers, s.canSign e.url = true →
        verifyExchange env b.version (bm_trusted env.H rs b signers) (piExch env.H rs e) =
          .verified e.resp.body (bm_leaf s).cert) ∧
      ((∀ s ∈ signers, s.canSign e.url = false) →
        verifyExchange env b.version (bm_trusted env.H rs b signers) e = .unsigned) := by
  have hall := bm_signAllTrace_signAll env.H rs signers b
  rw [htr] at hall
  simp only [Option.map_some] at hall
  have hmsgs := bm_trace_msgs env.H rs b signers tr htr
  have hsig' : ∀ s ∈ signers, env.sigVerify (bm_leaf s).cert (bm_signerMsg env.H rs b s) s.sig = true := by
    intro s hsm
    obtain ⟨i, hi⟩ := List.mem_iff_getElem?.mp hsm
    have h1 : (tr.map Prod.snd)[i]? = some (bm_signerMsg env.H rs b s) := by
      rw [hmsgs, List.getElem?_map, hi]; rfl
    rw [List.getElem?_map] at h1
    cases hp : tr[i]? with
    | none => rw [hp] at h1; cases h1
    | some p =>
      rw [hp] at h1
      simp only [Option.map_some, Option.some.injEq] at h1
      rw [← h1]
      exact hsig i s p hi hp
  obtain ⟨h1, h2, h3, h4, _, h6⟩ := bm_honest_verifies_all env hlen rs hrs hrs2 b _ signers t hfirst hall hs hsig' hn
  exact ⟨_, hall, rfl, h1, h2, h3, h4, h6⟩

/-- **two signers**, written out with the two `addSignature` calls and the two messages they returned -/
theorem bm_honest_verifies_two (env : VEnv) (hlen : ∀ x, (env.H x).length = 32) (rs : Nat) (hrs : 1 ≤ rs)
    (hrs2 : rs ≤ 16384) (b b₁ b₂ : Bundle) (s₁ s₂ : Signer) (m₁ m₂ : Bytes) (t : GoTime.T)
    (hfirst : b.signatures = none)
    (h1 : addSignature env.H s₁.canSign rs b s₁.certs s₁.validityUrl s₁.date s₁.expires s₁.sig = some (b₁, m₁))
    (h2 : addSignature env.H s₂.canSign rs b₁ s₂.certs s₂.validityUrl s₂.date s₂.expires s₂.sig = some (b₂, m₂))
    (hok1 : bm_SignerOk env t b s₁) (hok2 : bm_SignerOk env t b s₂)
    (hsv1 : env.sigVerify (bm_leaf s₁).cert m₁ s₁.sig = true)
    (hsv2 : env.sigVerify (bm_leaf s₂).cert m₂ s₂.sig = true)
    (hn : b.exchanges.length < 2 ^ 64) :
    b₂.signatures = some (sigsOf b₂) ∧
    newVerifier env (sigsOf b₂) t b.version =
      some [(bm_subset env.H rs b s₁, bm_leaf s₁), (bm_subset env.H rs b s₂, bm_leaf s₂)] ∧
    ∀ e ∈ b.exchanges,
      ¬ (s₁.canSign e.url = true ∧ s₂.canSign e.url = true) ∧
      (s₁.canSign e.url = true →
        verifyExchange env b.version [(bm_subset env.H rs b s₁, bm_leaf s₁), (bm_subset env.H rs b s₂, bm_leaf s₂)]
          (piExch env.H rs e) = .verified e.resp.body (bm_leaf s₁).cert) ∧
      (s₂.canSign e.url = true →
        verifyExchange env b.version [(bm_subset env.H rs b s₁, bm_leaf s₁), (bm_subset env.H rs b s₂, bm_leaf s₂)]
          (piExch env.H rs e) = .verified e.resp.body (bm_leaf s₂).cert) ∧
      (s₁.canSign e.url = false → s₂.canSign e.url = false →
        verifyExchange env b.version [(bm_subset env.H rs b s₁, bm_leaf s₁), (bm_subset env.H rs b s₂, bm_leaf s₂)]
          e = .unsigned) := by
  have hall : signAll env.H rs b [s₁, s₂] = some b₂ := by
    rw [signAll]; simp only [h1]; rw [signAll]; simp only [h2]; rfl
  have hm1 := (bm_shape_step (bm_shape_nil env.H rs b) h1)
  have hm2 := (bm_shape_step hm1.1 h2).2.1
  have hmem : ∀ s ∈ [s₁, s₂], s = s₁ ∨ s = s₂ := fun s hs => by simpa using hs
  obtain ⟨hsome, _, _, hnv, hpw, hver⟩ := bm_honest_verifies_all env hlen rs hrs hrs2 b b₂ [s₁, s₂] t hfirst hall
    (fun s hs => by rcases hmem s hs with rfl | rfl <;> assumption)
    (fun s hs => by
      rcases hmem s hs with rfl | rfl
      · rw [← hm1.2.1]; exact hsv1
      · rw [← hm2]; exact hsv2) hn
  refine ⟨hsome (by simp), hnv, ?_⟩
  intro e he
  refine ⟨?_, (hver e he).1 s₁ (by simp), (hver e he).1 s₂ (by simp), ?_⟩
  · have := List.rel_of_pairwise_cons hpw (List.mem_singleton.mpr rfl)
    exact this e he
  · intro c1 c2
    apply (hver e he).2
    intro s hs
    rcases hmem s hs with rfl | rfl <;> assumption

/-! ## §7 when the signers succeed (so that the hypotheses above are satisfiable) -/

/-- the header block of a response can be hashed as soon as its CBOR map keys are distinct -/
theorem bm_headerSha256_some (H : Bytes → Bytes) (r : Resp)
    (hnd : (((encodeBytes Sxg.keyStatus, encodeBytes (SH.formatInt r.status)) :: Sxg.headerEntries r.headers).map
      Prod.fst).Nodup) : ∃ hd, headerSha256 H r = some hd := by
  unfold headerSha256 encodeRespHeader encodeMap
  simp only
  rw [if_neg (by rw [(hasAdjDup_sort_iff _).mpr hnd]; decide)]
  exact ⟨_, rfl⟩

theorem bm_addPayloadIntegrity_some (H : Bytes → Bytes) (e : Exch) (rs : Nat) (hno : values e.resp.headers hDigest = []) :
    addPayloadIntegrity H e rs = some (piExch H rs e) := by
  unfold addPayloadIntegrity
  rw [if_neg (by rw [hno]; exact fun h => h rfl)]
  rfl

/-- **the signing loop succeeds** when the covered exchanges carry no `Digest` header yet, their header blocks
    (after `AddPayloadIntegrity`) are encodable, and the covered URLs are distinct -/
theorem bm_signExchanges_complete (H : Bytes → Bytes) (canSign : Bytes → Bool) (rs : Nat) :
    ∀ (es done : List Exch) (hashes : List (Bytes × ResponseHashes)),
    (∀ e ∈ es, canSign e.url = true → values e.resp.headers hDigest = [] ∧
      ∃ hd, headerSha256 H (piExch H rs e).resp = some hd) →
    (hashes.map Prod.fst ++ (coveredHashes H canSign rs es).map Prod.fst).Nodup →
    signExchanges H canSign rs es done hashes =
      some (done ++ es.map (signedView H canSign rs), hashes ++ coveredHashes H canSign rs es) := by
  intro es
  induction es with
  | nil =>
    intro done hashes _ _
    simp [signExchanges, coveredHashes]
  | cons e rest ih =>
    intro done hashes hcov hnd
    rw [signExchanges]
    by_cases hc : canSign e.url = true
    · obtain ⟨hno, hd, hhd⟩ := hcov e List.mem_cons_self hc
      rw [if_neg (by simp [hc]), bm_addPayloadIntegrity_some H e rs hno]
      simp only [hhd]
      rw [bs_coveredHashes_cons_pos _ _ _ _ _ hc, List.map_cons] at hnd
      have hfresh : (hashes.any (·.1 == (piExch H rs e).url)) = false := by
        cases hany : hashes.any (·.1 == (piExch H rs e).url) with
        | false => rfl
        | true =>
          exfalso
          obtain ⟨x, hx, hxu⟩ := List.any_eq_true.mp hany
          have hxu' : x.1 = e.url := eq_of_beq hxu
          exact (List.nodup_append.mp hnd).2.2 x.1 (List.mem_map.mpr ⟨x, hx, rfl⟩) e.url List.mem_cons_self hxu'
      rw [if_neg (by rw [hfresh]; decide)]
      have hrec : (⟨[], [⟨hd, Mice.Enc.draft03.integrityIdentifier⟩]⟩ : ResponseHashes) = hashOf H rs e := by
        unfold hashOf; rw [hhd]; rfl
      rw [hrec, bm_piExch_url]
      rw [ih _ _ (fun x hx => hcov x (List.mem_cons_of_mem _ hx))
        (by simpa [List.map_append, List.append_assoc] using hnd)]
      rw [bs_coveredHashes_cons_pos _ _ _ _ _ hc, List.map_cons, signedView, if_pos hc]
      simp only [List.append_assoc, List.singleton_append]
    · rw [if_pos (by simp [hc])]
      rw [bs_coveredHashes_cons_neg _ _ _ _ _ hc] at hnd
      rw [ih _ _ (fun x hx => hcov x (List.mem_cons_of_mem _ hx)) hnd]
      rw [bs_coveredHashes_cons_neg _ _ _ _ _ hc, List.map_cons, signedView, if_neg hc]
      simp only [List.append_assoc, List.singleton_append]

/-- **`addSignature` succeeds** under the same conditions and a valid chain -/
theorem bm_addSignature_complete (H : Bytes → Bytes) (canSign : Bytes → Bool) (rs : Nat) (b : Bundle)
    (certs : List AugCert) (vurl : Bytes) (date expires : Int) (sig : Bytes)
    (hval : validate certs = true)
    (hcov : ∀ e ∈ b.exchanges, canSign e.url = true → values e.resp.headers hDigest = [] ∧
      ∃ hd, headerSha256 H (piExch H rs e).resp = some hd)
    (hnd : ((coveredHashes H canSign rs b.exchanges).map Prod.fst).Nodup) :
    ∃ b' msg, addSignature H canSign rs b certs vurl date expires sig = some (b', msg) := by
  unfold addSignature
  rw [if_neg (by rw [hval]; decide)]
  rw [bm_signExchanges_complete H canSign rs b.exchanges [] [] hcov (by simpa using hnd)]
  simp only
  rw [bs_encodeSignedSubset_eq]
  exact ⟨_, _, rfl⟩

theorem bm_signAll_complete_aux (H : Bytes → Bytes) (rs : Nat) (b0 : Bundle) :
    ∀ (rest pre : List Signer) (bm : Bundle), bm_Shape H rs b0 pre bm →
    (∀ s ∈ rest, validate s.certs = true) →
    (∀ s ∈ rest, ∀ e ∈ b0.exchanges, s.canSign e.url = true → values e.resp.headers hDigest = [] ∧
      ∃ hd, headerSha256 H (piExch H rs e).resp = some hd) →
    (∀ s ∈ rest, ((coveredHashes H s.canSign rs b0.exchanges).map Prod.fst).Nodup) →
    ((pre ++ rest).Pairwise fun s₁ s₂ => ∀ e ∈ b0.exchanges, ¬ (s₁.canSign e.url = true ∧ s₂.canSign e.url = true)) →
    ∃ b', signAll H rs bm rest = some b' := by
  intro rest
  induction rest with
  | nil => intro pre bm _ _ _ _ _; exact ⟨bm, rfl⟩
  | cons s rest ih =>
    intro pre bm hsh hval hcov hnd hpw
    have hpw' := List.pairwise_append.mp hpw
    have hfree : ∀ e ∈ b0.exchanges, s.canSign e.url = true → bm_view H rs pre e = e := by
      intro e he hc
      unfold bm_view
      rw [if_neg]
      intro hany
      obtain ⟨p, hp, hpc⟩ := List.any_eq_true.mp hany
      exact hpw'.2.2 p hp s List.mem_cons_self e he ⟨hpc, hc⟩
    have hC : coveredHashes H s.canSign rs bm.exchanges = coveredHashes H s.canSign rs b0.exchanges := by
      rw [hsh.exchanges]
      exact bm_coveredHashes_map H s.canSign rs _ _ (fun e he => ⟨bm_view_url H rs pre e, hfree e he⟩)
    obtain ⟨b1, m, hadd⟩ := bm_addSignature_complete H s.canSign rs bm s.certs s.validityUrl s.date s.expires s.sig
      (hval s List.mem_cons_self)
      (by
        intro e' he' hc
        rw [hsh.exchanges] at he'
        obtain ⟨e, he, rfl⟩ := List.mem_map.mp he'
        rw [bm_view_url] at hc
        rw [hfree e he hc]
        exact hcov s List.mem_cons_self e he hc)
      (by rw [hC]; exact hnd s List.mem_cons_self)
    obtain ⟨b', hb'⟩ := ih (pre ++ [s]) b1 (bm_shape_step hsh hadd).1
      (fun x hx => hval x (List.mem_cons_of_mem _ hx)) (fun x hx => hcov x (List.mem_cons_of_mem _ hx))
      (fun x hx => hnd x (List.mem_cons_of_mem _ hx))
      (by rw [List.append_assoc, List.singleton_append]; exact hpw)
    refine ⟨b', ?_⟩
    rw [signAll]
    simp only [hadd]
    exact hb'

/-- **when a sequence of signers succeeds**: valid chains, pairwise disjoint coverage, and for every signer the
    exchanges it covers carry no `Digest` header, have encodable header blocks and distinct URLs.  (With
    `bm_honest_verifies_all`'s derived disjointness this is also necessary for the coverage part.) -/
theorem bm_signAll_succeeds (H : Bytes → Bytes) (rs : Nat) (b : Bundle) (signers : List Signer)
    (hval : ∀ s ∈ signers, validate s.certs = true)
    (hcov : ∀ s ∈ signers, ∀ e ∈ b.exchanges, s.canSign e.url = true → values e.resp.headers hDigest = [] ∧
      ∃ hd, headerSha256 H (piExch H rs e).resp = some hd)
    (hnd : ∀ s ∈ signers, ((coveredHashes H s.canSign rs b.exchanges).map Prod.fst).Nodup)
    (hpw : signers.Pairwise fun s₁ s₂ => ∀ e ∈ b.exchanges, ¬ (s₁.canSign e.url = true ∧ s₂.canSign e.url = true)) :
    ∃ b', signAll H rs b signers = some b' :=
  bm_signAll_complete_aux H rs b signers [] b (bm_shape_nil H rs b) hval hcov hnd (by rw [List.nil_append]; exact hpw)

/-! ### non-vacuity: a concrete bundle with three exchanges and two signers -/

namespace bm_ex

def env : VEnv :=
  { H := fun _ => List.replicate 32 0, urlOk := fun _ => true, keyOk := fun _ => true, sigVerify := fun _ _ _ => true }

def ex (u : UInt8) : Exch := { url := [u], resp := { status := 200, headers := [], body := [u, u] } }

/-- exchanges "a", "b", "c" -/
def b : Bundle :=
  { version := .b2, primaryURL := none, exchanges := [ex 97, ex 98, ex 99], manifestURL := none, signatures := none }

/-- a signer whose certificate covers exactly the URL `[u]` -/
def sg (u : UInt8) : Signer :=
  { canSign := fun x => x == [u], certs := [{ cert := [u], ocsp := some [], sct := none }], validityUrl := [118],
    date := 100, expires := 200, sig := [] }

def t : GoTime.T := GoTime.ofUnix 150 0

theorem signerOk (u : UInt8) : bm_SignerOk env t b (sg u) where
  key := rfl
  vurl_utf8 := by show utf8Valid [118] = true; decide +kernel
  vurl_len := by show [(118 : UInt8)].length < 2 ^ 63; decide
  vurl_ok := rfl
  date := by show (0 : Int) ≤ 100 ∧ (100 : Int) < 2 ^ 62; decide
  expires := by show (0 : Int) ≤ 200 ∧ (200 : Int) < 2 ^ 62; decide
  life := by show (200 : Int) - 100 ≤ 604800; decide
  notBefore := by show GoTime.before t (GoTime.ofUnix 100 0) = false; decide +kernel
  notAfter := by show GoTime.after t (GoTime.ofUnix 200 0) = false; decide +kernel
  urls := by
    intro e he _
    have : e = ex 97 ∨ e = ex 98 ∨ e = ex 99 := by simpa [b] using he
    rcases this with rfl | rfl | rfl <;> exact ⟨by decide +kernel, by decide⟩

/-- the hypotheses of `bm_honest_verifies_all` are satisfiable with two signers, the first covering "a", the
    second "b", nobody covering "c" -/
theorem hypotheses_satisfiable : ∃ b', signAll env.H 16 b [sg 97, sg 98] = some b' ∧
    (∀ s ∈ [sg 97, sg 98], bm_SignerOk env t b s) ∧
    (∀ s ∈ [sg 97, sg 98], env.sigVerify (bm_leaf s).cert (bm_signerMsg env.H 16 b s) s.sig = true) ∧
    b.signatures = none ∧ b.exchanges.length < 2 ^ 64 ∧
    (sg 97).canSign (ex 97).url = true ∧ (sg 98).canSign (ex 98).url = true ∧
    (∀ s ∈ [sg 97, sg 98], s.canSign (ex 99).url = false) := by
  have hmem : ∀ s ∈ [sg 97, sg 98], s = sg 97 ∨ s = sg 98 := fun s hs => by simpa using hs
  have hex : ∀ e ∈ b.exchanges, e = ex 97 ∨ e = ex 98 ∨ e = ex 99 := fun e he => by simpa [b] using he
  obtain ⟨b', hb'⟩ := bm_signAll_succeeds env.H 16 b [sg 97, sg 98]
    (by intro s hs; rcases hmem s hs with rfl | rfl <;> rfl)
    (by
      intro s hs e he _
      refine ⟨?_, bm_headerSha256_some _ _ ?_⟩
      · rcases hex e he with rfl | rfl | rfl <;> rfl
      · rcases hex e he with rfl | rfl | rfl <;> decide +kernel)
    (by intro s hs; rcases hmem s hs with rfl | rfl <;> decide +kernel)
    (by
      refine List.Pairwise.cons ?_ (List.pairwise_singleton _ _)
      intro s hs e he
      rw [List.mem_singleton.mp hs]
      rcases hex e he with rfl | rfl | rfl <;> decide +kernel)
  refine ⟨b', hb', ?_, ?_, rfl, by decide, by decide +kernel, by decide +kernel, ?_⟩
  · intro s hs; rcases hmem s hs with rfl | rfl <;> exact signerOk _
  · intro s _; rfl
  · intro s hs; rcases hmem s hs with rfl | rfl <;> decide +kernel

/-- … and the conclusion on it: "a" verifies under the first signer's leaf, "b" under the second's, "c" is unsigned -/
theorem verifies : ∃ b', signAll env.H 16 b [sg 97, sg 98] = some b' ∧
    newVerifier env (sigsOf b') t .b2 = some (bm_trusted env.H 16 b [sg 97, sg 98]) ∧
    verifyExchange env .b2 (bm_trusted env.H 16 b [sg 97, sg 98]) (piExch env.H 16 (ex 97)) = .verified [97, 97] [97] ∧
    verifyExchange env .b2 (bm_trusted env.H 16 b [sg 97, sg 98]) (piExch env.H 16 (ex 98)) = .verified [98, 98] [98] ∧
    verifyExchange env .b2 (bm_trusted env.H 16 b [sg 97, sg 98]) (ex 99) = .unsigned := by
  obtain ⟨b', hall, hok, hsig, hfirst, hn, c1, c2, c3⟩ := hypotheses_satisfiable
  obtain ⟨_, _, _, hnv, _, hver⟩ :=
    bm_honest_verifies_all env (fun _ => rfl) 16 (by decide) (by decide) b b' [sg 97, sg 98] t hfirst hall hok hsig hn
  refine ⟨b', hall, hnv, ?_, ?_, ?_⟩
  · exact (hver (ex 97) (by simp [b])).1 (sg 97) (by simp) c1
  · exact (hver (ex 98) (by simp [b])).1 (sg 98) (by simp) c2
  · exact (hver (ex 99) (by simp [b])).2 c3

end bm_ex

end WebPkg.BSig
