import WebPkg.Proofs.BSigMulti
import WebPkg.Proofs.BundleFixpoint
/-
  Bundle signatures survive `WriteTo` / `Read` (C06, last clause: "... and this stays true after writing and
  re-reading the bundle").

  §1  brs_verifyExchange_congr      `VerifyExchange` depends on the exchange only through its URL, the hash of the
                                    encoded header block, the `Digest` lookup and the body
      brs_encodeRespHeader_back     the encoded header block is invariant under read-back
      brs_names_nodup               an encodable header block has names that stay distinct after canonicalisation
      brs_get_back                  the `Digest` lookup is invariant under read-back
      brs_verifyExchange_back       (1) the verdict on the read-back form of an exchange is the verdict on the exchange
      brs_verifyExchange_back_digest    (1), hypothesis in the form "`Digest` is present with exactly one value"
      brs_unsigned_back             the `unsigned` verdict needs no hypothesis on the headers
  §2  brs_signAll_nodigest          a signer that succeeded found no `Digest` header on what it covers
      brs_view_back                 the verdict on the read-back form of an exchange of the signed bundle
      brs_honest_roundtrip          (2) sign with any sequence of signers, write, read, verify
      brs_honest_roundtrip_find     (2) with the verdict written as a `match` on the first covering signer
  §3  brs_honest_roundtrip_single   (3) one signer, phrased on `addSignature` and the message it returned

  What the hypothesis `hD` of (1) is for.  `Header.Get("Digest")` looks the key `Digest` up literally in the Go map.
  An exchange built in memory may carry the field under a non-canonical name (`digest`): `Get` does not see it
  before the round trip, and does see it afterwards (the reader canonicalises names).  It may also carry several
  values, of which `Get` returns the first, whereas the reader returns the comma-joined single value.  `hD`
  excludes both: every field whose name canonicalises to `Digest` is named `Digest` and has at most one value.
  It holds for every exchange `AddPayloadIntegrity` produced whose header block can be encoded
  (`brs_verifyExchange_back_digest` + `brs_piExch_values`), which is what (2) uses; no ASCII / pseudo-header
  condition is needed for (1) (they are needed for the read itself, and are part of `RDomG` in (2)).
-/
namespace WebPkg.BSig
open WebPkg.Cbor WebPkg.Bundle WebPkg.Http WebPkg.CertChain

/-! ## §1 the verdict on an exchange and on its read-back form -/

/-- the name under which the reader returns a header field -/
def brs_key (kv : Bytes × List Bytes) : Bytes := canonicalKey (lowerAscii kv.1)

theorem brs_key_normField (kv : Bytes × List Bytes) : (Sxg.normField kv).1 = brs_key kv := rfl

theorem brs_canonicalKey_digest : canonicalKey hDigest = hDigest := by decide +kernel

theorem brs_key_digest (vs : List Bytes) : brs_key (hDigest, vs) = hDigest := by
  show canonicalKey (lowerAscii hDigest) = hDigest
  decide +kernel

/-- `VerifyExchange` looks at the exchange through four things only: the URL, the SHA-256 of the encoded header
    block, the body, and (when the header block can be encoded at all) `Header.Get("Digest")` -/
theorem brs_verifyExchange_congr {env : VEnv} {ver : BVer} {vss : List (SignedSubset × AugCert)} {e e' : Exch}
    (hu : e'.url = e.url) (hh : headerSha256 env.H e'.resp = headerSha256 env.H e.resp)
    (hb : e'.resp.body = e.resp.body)
    (hg : headerSha256 env.H e.resp ≠ none → get e'.resp.headers hDigest = get e.resp.headers hDigest) :
    verifyExchange env ver vss e' = verifyExchange env ver vss e := by
  unfold verifyExchange
  rw [hu, hh, hb]
  cases hs : headerSha256 env.H e.resp with
  | none => rfl
  | some x => rw [hg (by rw [hs]; intro h; cases h)]

/-- the encoded header block depends on the header list only through the set of normalised fields -/
theorem brs_encodeRespHeader_back (r r' : Resp) (hs : r'.status = r.status)
    (hp : r'.headers.Perm (r.headers.map Sxg.normField)) : encodeRespHeader r' = encodeRespHeader r := by
  have hperm : (Sxg.headerEntries r'.headers).Perm (Sxg.headerEntries r.headers) := by
    rw [Sxg.headerEntries_eq_rt, Sxg.headerEntries_eq_rt]
    have := (hp.map Sxg.hraw).map Sxg.encE
    have e : r.headers.map (Sxg.hraw ∘ Sxg.normField) = r.headers.map Sxg.hraw :=
      List.map_congr_left (fun kv _ => bfp_hraw_normField kv)
    rw [List.map_map (l := r.headers), e] at this
    exact this
  unfold encodeRespHeader
  rw [hs]
  exact C11.encodeMap_perm _ _ (List.Perm.cons _ hperm)

theorem brs_headerSha256_back (H : Bytes → Bytes) (r r' : Resp) (hs : r'.status = r.status)
    (hp : r'.headers.Perm (r.headers.map Sxg.normField)) : headerSha256 H r' = headerSha256 H r := by
  unfold headerSha256
  rw [brs_encodeRespHeader_back r r' hs hp]

/-- if `EncodeHeader` succeeds, the field names are pairwise distinct after lower-casing (the CBOR map refuses a
    duplicate key), hence after canonicalisation -/
theorem brs_names_nodup (r : Resp) (hm : Bytes) (h : encodeRespHeader r = .ok hm) : (r.headers.map brs_key).Nodup := by
  have he : encodeRespHeader r =
      encodeMap (((Sxg.keyStatus, SH.formatInt r.status) :: r.headers.map Sxg.hraw).map Sxg.encE) := by
    unfold encodeRespHeader
    rw [Sxg.headerEntries_eq_rt]; rfl
  rw [he] at h
  obtain ⟨_, _, hnd, _⟩ := Sxg.encodeMap_raw _ hm h
  rw [List.map_cons, List.nodup_cons] at hnd
  have h2 := hnd.2
  unfold List.Nodup at h2 ⊢
  rw [List.map_map, List.pairwise_map] at h2
  rw [List.pairwise_map]
  refine h2.imp ?_
  intro a b hab hc
  exact hab (Sxg.canonicalKey_inj_lower (Sxg.lowerAscii_idem _) (Sxg.lowerAscii_idem _) hc)

theorem brs_headerSha256_nodup {H : Bytes → Bytes} {r : Resp} (h : headerSha256 H r ≠ none) :
    (r.headers.map brs_key).Nodup := by
  unfold headerSha256 at h
  cases he : encodeRespHeader r with
  | ok hm => exact brs_names_nodup r hm he
  | error err => rw [he] at h; exact absurd rfl h

/-- distinct images: the function is injective on the members of the list -/
theorem brs_inj_of_nodup_map (hs : Headers) (hnd : (hs.map brs_key).Nodup) (a b : Bytes × List Bytes)
    (ha : a ∈ hs) (hb : b ∈ hs) (hk : brs_key a = brs_key b) : a = b := by
  have hnd' : ((hs.map fun kv => (brs_key kv, kv)).map Prod.fst).Nodup := by
    rw [List.map_map]
    exact hnd
  have := Sxg.inv_eq_of_mem_of_key_eq _ hnd' (brs_key a, a) (brs_key b, b)
    (List.mem_map.mpr ⟨a, ha, rfl⟩) (List.mem_map.mpr ⟨b, hb, rfl⟩) hk
  exact (Prod.mk.inj this).2

/-- **the `Digest` lookup is invariant under read-back**, provided the names stay distinct after canonicalisation
    and every field that canonicalises to `Digest` is literally named `Digest` and has at most one value -/
theorem brs_get_back (hs hs' : Headers) (hp : hs'.Perm (hs.map Sxg.normField)) (hnd : (hs.map brs_key).Nodup)
    (hD : ∀ kv ∈ hs, brs_key kv = hDigest → kv.1 = hDigest ∧ kv.2.length ≤ 1) :
    get hs' hDigest = get hs hDigest := by
  unfold Http.get values
  rw [brs_canonicalKey_digest]
  by_cases hex : ∃ kv ∈ hs, brs_key kv = hDigest
  · obtain ⟨kv, hkv, hk⟩ := hex
    obtain ⟨h1, h2⟩ := hD kv hkv hk
    have hnd1 : (hs.map Prod.fst).Nodup := by
      have : hs.map brs_key = (hs.map Prod.fst).map (fun n => canonicalKey (lowerAscii n)) := by
        rw [List.map_map]; rfl
      rw [this] at hnd
      exact Sxg.nodup_of_map _ _ hnd
    have hmem : (hDigest, kv.2) ∈ hs := by rw [← h1]; exact hkv
    have hf := bs_find_of_mem hs hnd1 hDigest kv.2 hmem
    have hnd' : (hs'.map Prod.fst).Nodup := by
      refine ((hp.map Prod.fst).nodup_iff).mpr ?_
      rw [List.map_map]
      exact hnd
    have hm' : (hDigest, [joinComma kv.2]) ∈ hs' := by
      refine hp.mem_iff.mpr (List.mem_map.mpr ⟨kv, hkv, ?_⟩)
      show (canonicalKey (lowerAscii kv.1), [joinComma kv.2]) = _
      rw [show canonicalKey (lowerAscii kv.1) = hDigest from hk]
    have hf' := bs_find_of_mem hs' hnd' hDigest _ hm'
    rw [hf, hf']
    show [joinComma kv.2].headD [] = kv.2.headD []
    cases hv : kv.2 with
    | nil => rfl
    | cons v rest =>
      cases rest with
      | nil => rfl
      | cons w rest' =>
        rw [hv] at h2
        simp only [List.length_cons] at h2
        omega
  · have hn : ∀ x ∈ hs, brs_key x ≠ hDigest := fun x hx hc => hex ⟨x, hx, hc⟩
    have hf : hs.find? (fun x => x.1 == hDigest) = none := by
      rw [List.find?_eq_none]
      intro x hx hxk
      have h1 : x.1 = hDigest := eq_of_beq hxk
      apply hn x hx
      show canonicalKey (lowerAscii x.1) = hDigest
      rw [h1]
      exact brs_key_digest []
    have hf' : hs'.find? (fun x => x.1 == hDigest) = none := by
      rw [List.find?_eq_none]
      intro x hx hxk
      have h1 : x.1 = hDigest := eq_of_beq hxk
      obtain ⟨y, hy, rfl⟩ := List.mem_map.mp (hp.mem_iff.mp hx)
      exact hn y hy h1
    rw [hf, hf']

/-- core of (1): the `Digest` condition is only needed when the header block can be encoded -/
theorem brs_verifyExchange_back_core (env : VEnv) (ver : BVer) (vss : List (SignedSubset × AugCert)) (e e' : Exch)
    (hu : e'.url = e.url) (hs : e'.resp.status = e.resp.status) (hb : e'.resp.body = e.resp.body)
    (hp : e'.resp.headers.Perm (e.resp.headers.map Sxg.normField))
    (hD : (e.resp.headers.map brs_key).Nodup →
      ∀ kv ∈ e.resp.headers, brs_key kv = hDigest → kv.1 = hDigest ∧ kv.2.length ≤ 1) :
    verifyExchange env ver vss e' = verifyExchange env ver vss e := by
  apply brs_verifyExchange_congr hu (brs_headerSha256_back env.H e.resp e'.resp hs hp) hb
  intro hne
  have hnd := brs_headerSha256_nodup hne
  exact brs_get_back _ _ hp hnd (hD hnd)

/-- **(1) the verifier's verdict on the read-back form `e'` of an exchange `e` is its verdict on `e`**, for any trusted
    list: same URL, status and body, header fields a permutation of the normalised fields of `e`
    (`(canonicalKey (lowerAscii n), [joinComma vs])`), and every field of `e` whose name canonicalises to `Digest`
    is named `Digest` and has at most one value. -/
theorem brs_verifyExchange_back' (env : VEnv) (ver : BVer) (vss : List (SignedSubset × AugCert)) (e e' : Exch)
    (hu : e'.url = e.url) (hs : e'.resp.status = e.resp.status) (hb : e'.resp.body = e.resp.body)
    (hp : e'.resp.headers.Perm (e.resp.headers.map Sxg.normField))
    (hD : ∀ kv ∈ e.resp.headers, canonicalKey (lowerAscii kv.1) = hDigest → kv.1 = hDigest ∧ kv.2.length ≤ 1) :
    verifyExchange env ver vss e' = verifyExchange env ver vss e :=
  brs_verifyExchange_back_core env ver vss e e' hu hs hb hp (fun _ => hD)

/-- (1) on the relation `bfp_Back` of `bfp_read_write` -/
theorem brs_verifyExchange_back (env : VEnv) (ver : BVer) (vss : List (SignedSubset × AugCert)) (e e' : Exch)
    (hback : bfp_Back e e')
    (hD : ∀ kv ∈ e.resp.headers, canonicalKey (lowerAscii kv.1) = hDigest → kv.1 = hDigest ∧ kv.2.length ≤ 1) :
    verifyExchange env ver vss e' = verifyExchange env ver vss e :=
  brs_verifyExchange_back' env ver vss e e' hback.1 hback.2.1 hback.2.2.1 hback.2.2.2.1 hD

/-- (1) when `e` carries the field `Digest` with exactly one value (what `AddPayloadIntegrity` leaves): nothing
    else is needed — if another field canonicalised to `Digest` too, the header block could not be encoded, and
    both verdicts would be the same (`error` or `unsigned`) -/
theorem brs_verifyExchange_back_digest (env : VEnv) (ver : BVer) (vss : List (SignedSubset × AugCert)) (e e' : Exch)
    (hback : bfp_Back e e') (v : Bytes) (hv : values e.resp.headers hDigest = [v]) :
    verifyExchange env ver vss e' = verifyExchange env ver vss e := by
  apply brs_verifyExchange_back_core env ver vss e e' hback.1 hback.2.1 hback.2.2.1 hback.2.2.2.1
  intro hnd kv hkv hk
  unfold values at hv
  rw [brs_canonicalKey_digest] at hv
  cases hf : e.resp.headers.find? (fun x => x.1 == hDigest) with
  | none => rw [hf] at hv; cases hv
  | some x =>
    rw [hf] at hv
    have hx := List.mem_of_find?_eq_some hf
    have hxk : x.1 = hDigest := eq_of_beq (List.find?_some (p := fun x : Bytes × List Bytes => x.1 == hDigest) hf)
    have hx2 : x.2 = [v] := hv
    have hkx : brs_key x = hDigest := by
      show canonicalKey (lowerAscii x.1) = hDigest
      rw [hxk]
      exact brs_key_digest []
    have := brs_inj_of_nodup_map _ hnd kv x hkv hx (by rw [hk, hkx])
    rw [this, hx2]
    exact ⟨hxk, Nat.le_refl _⟩

/-- an exchange no trusted subset lists is unsigned, and so is anything with the same URL -/
theorem brs_unsigned_back (env : VEnv) (ver : BVer) (vss : List (SignedSubset × AugCert)) (e e' : Exch)
    (hu : e'.url = e.url) (h : vss.findSome? (bm_lookup e.url) = none) :
    verifyExchange env ver vss e' = .unsigned :=
  bm_verifyExchange_none (by rw [hu]; exact h)

/-! ## §2 sign, write, read, verify -/

/-- what `AddPayloadIntegrity` leaves: exactly one `Digest` value -/
theorem brs_piExch_values (H : Bytes → Bytes) (rs : Nat) (e : Exch) (hno : values e.resp.headers hDigest = []) :
    values (piExch H rs e).resp.headers hDigest = [(Mice.encode H .draft03 e.resp.body rs).2] := by
  unfold piExch
  simp only
  have hne : canonicalKey Sxg.hContentEncoding ≠ canonicalKey hDigest := Sxg.inv_digestName_ne .draft03
  rw [Sxg.inv_values_add_same, Sxg.inv_values_add_other _ _ _ _ hne, hno]
  rfl

/-- every signer of a successful `signAll` found the exchanges it covers without `Digest` header
    (`AddPayloadIntegrity` fails otherwise) -/
theorem brs_signAll_nodigest (H : Bytes → Bytes) (rs : Nat) (b0 : Bundle) :
    ∀ (rest pre : List Signer) (bm b' : Bundle), bm_Shape H rs b0 pre bm → signAll H rs bm rest = some b' →
      ∀ s ∈ rest, ∀ e ∈ b0.exchanges, s.canSign e.url = true → values e.resp.headers hDigest = [] := by
  intro rest
  induction rest with
  | nil => intro pre bm b' _ _ s hs; cases hs
  | cons s0 rest ih =>
    intro pre bm b' hsh h s hs e he hc
    rw [signAll] at h
    cases ha : addSignature H s0.canSign rs bm s0.certs s0.validityUrl s0.date s0.expires s0.sig with
    | none => simp only [ha] at h; cases h
    | some p =>
      obtain ⟨b1, m⟩ := p
      simp only [ha] at h
      obtain ⟨hsh', _, hB, _⟩ := bm_shape_step hsh ha
      rcases List.mem_cons.mp hs with rfl | hs'
      · obtain ⟨_, exs, hashes, signedBytes, hse, _, _, _⟩ := bs_addSignature_eq ha
        obtain ⟨_, _, hcov, _⟩ := bs_signExchanges_spec H s.canSign rs _ _ _ _ _ hse
        have hmem : e ∈ bm.exchanges := by
          rw [hsh.exchanges]
          refine List.mem_map.mpr ⟨e, he, ?_⟩
          unfold bm_view
          rw [if_neg (by rw [hB e he hc]; decide)]
        exact (hcov e hmem hc).1
      · exact ih (pre ++ [s0]) b1 b' hsh' h s hs' e he hc

theorem brs_forall₂_mem_left {α β : Type} {R : α → β → Prop} {as : List α} {bs : List β} (h : Forall₂ R as bs) :
    ∀ a ∈ as, ∃ b ∈ bs, R a b := by
  induction h with
  | nil => intro a ha; cases ha
  | cons hab _ ih =>
    intro a ha
    rcases List.mem_cons.mp ha with rfl | ha
    · exact ⟨_, by simp, hab⟩
    · obtain ⟨b, hb, hr⟩ := ih a ha
      exact ⟨b, List.mem_cons_of_mem _ hb, hr⟩

/-- the verdict that C06 asks for on the counterpart `e''` of the original exchange `e`: verified, with the
    ORIGINAL body of `e` and the leaf certificate of the signer, for every signer whose certificate covers the URL;
    unsigned if no signer covers it -/
def brs_Verdict (env : VEnv) (rs : Nat) (b : Bundle) (signers : List Signer) (ver : BVer) (e e'' : Exch) : Prop :=
  (∀ s ∈ signers, s.canSign e.url = true →
    verifyExchange env ver (bm_trusted env.H rs b signers) e'' = .verified e.resp.body (bm_leaf s).cert) ∧
  ((∀ s ∈ signers, s.canSign e.url = false) →
    verifyExchange env ver (bm_trusted env.H rs b signers) e'' = .unsigned)

/-- transport of `bm_honest_verifies_all` along read-back, one exchange: whatever comes back for the exchange
    `bm_view … e` of the signed bundle gets the verdict of `e` -/
theorem brs_view_back (env : VEnv) (hlen : ∀ x, (env.H x).length = 32) (rs : Nat) (hrs : 1 ≤ rs)
    (hrs2 : rs ≤ 16384) (b b' : Bundle) (signers : List Signer) (t : GoTime.T)
    (hfirst : b.signatures = none) (hall : signAll env.H rs b signers = some b')
    (hs : ∀ s ∈ signers, bm_SignerOk env t b s)
    (hsig : ∀ s ∈ signers, env.sigVerify (bm_leaf s).cert (bm_signerMsg env.H rs b s) s.sig = true)
    (hn : b.exchanges.length < 2 ^ 64) (ver : BVer) (hver : ver = b.version)
    (e : Exch) (he : e ∈ b.exchanges) (e'' : Exch) (hback : bfp_Back (bm_view env.H rs signers e) e'') :
    brs_Verdict env rs b signers ver e e'' := by
  obtain ⟨_, _, _, _, _, hv⟩ := bm_honest_verifies_all env hlen rs hrs hrs2 b b' signers t hfirst hall hs hsig hn
  subst hver
  constructor
  · intro s hsm hc
    have hno := brs_signAll_nodigest env.H rs b signers [] b b' (bm_shape_nil env.H rs b) hall s hsm e he hc
    have hview : bm_view env.H rs signers e = piExch env.H rs e := by
      unfold bm_view
      rw [if_pos (List.any_eq_true.mpr ⟨s, hsm, hc⟩)]
    rw [hview] at hback
    rw [brs_verifyExchange_back_digest env b.version _ (piExch env.H rs e) e'' hback _
      (brs_piExch_values env.H rs e hno)]
    exact (hv e he).1 s hsm hc
  · intro hnone
    apply brs_unsigned_back env b.version _ e e''
    · rw [hback.1, bm_view_url]
    · exact bm_trusted_lookup_none env.H rs b signers e.url hnone

/-- **(2) sign with any sequence of signers, write, read back, verify.**  Hypotheses of `bm_honest_verifies_all`
    (the signers ran one after the other on a bundle `b` without signatures section and produced `b'`; every signer
    is `bm_SignerOk` and the environment accepts its signature on the message it was given), plus: the signed
    bundle `b'` is in the domain `RDomG` of the round-trip theorem, `WriteTo` accepts it and the file is shorter
    than `2^63` bytes.  Then `Read` succeeds on the file; the bundle `b''` it returns has the version of `b` and the
    signatures section of `b'`, so that `NewVerifier` accepts it at `t` and trusts one (subset, leaf) pair per
    signer; and the exchanges of `b''` correspond one to one (by URL) to the original exchanges of `b`, each with
    the verdict `brs_Verdict`: verified with the original body under the covering signer's leaf certificate, or
    unsigned when no signer covers the URL. -/
theorem brs_honest_roundtrip (env : VEnv) (hlen : ∀ x, (env.H x).length = 32) (rs : Nat) (hrs : 1 ≤ rs)
    (hrs2 : rs ≤ 16384) (b b' : Bundle) (signers : List Signer) (t : GoTime.T)
    (hfirst : b.signatures = none) (hall : signAll env.H rs b signers = some b')
    (hs : ∀ s ∈ signers, bm_SignerOk env t b s)
    (hsig : ∀ s ∈ signers, env.sigVerify (bm_leaf s).cert (bm_signerMsg env.H rs b s) s.sig = true)
    (hn : b.exchanges.length < 2 ^ 64)
    (url : BUrlFacts) (parseOk : Bytes → Bool) (out : Bytes)
    (hd : RDomG url parseOk b') (hw : write b' = .ok (.ok out)) (hout : out.length < 2 ^ 63) :
    ∃ b'', read url parseOk out = .ok b'' ∧ b''.version = b.version ∧ b''.signatures = b'.signatures ∧
      newVerifier env (sigsOf b'') t b''.version = some (bm_trusted env.H rs b signers) ∧
      (∀ e ∈ b.exchanges, ∃ e'' ∈ b''.exchanges, e''.url = e.url ∧
        brs_Verdict env rs b signers b''.version e e'') ∧
      (∀ e'' ∈ b''.exchanges, ∃ e ∈ b.exchanges, e''.url = e.url ∧
        brs_Verdict env rs b signers b''.version e e'') := by
  obtain ⟨_, hv, hex, hnv, _, _⟩ := bm_honest_verifies_all env hlen rs hrs hrs2 b b' signers t hfirst hall hs hsig hn
  obtain ⟨b'', σ, hr, h1, _, _, h4, hperm, _, hf⟩ := bfp_read_write url parseOk b' out hd hw hout
  have hver : b''.version = b.version := by rw [h1, hv]
  have hsigs : sigsOf b'' = sigsOf b' := by unfold sigsOf; rw [h4]
  refine ⟨b'', hr, hver, h4, by rw [hsigs, hver]; exact hnv, ?_, ?_⟩
  · intro e he
    have hm : bm_view env.H rs signers e ∈ σ := by
      apply hperm.mem_iff.mpr
      rw [hex]
      exact List.mem_map.mpr ⟨e, he, rfl⟩
    obtain ⟨e'', he'', hback⟩ := brs_forall₂_mem_left hf _ hm
    refine ⟨e'', he'', by rw [hback.1, bm_view_url], ?_⟩
    exact brs_view_back env hlen rs hrs hrs2 b b' signers t hfirst hall hs hsig hn _ hver e he e'' hback
  · intro e'' he''
    obtain ⟨f, hfm, hback⟩ := bfp_forall₂_mem hf e'' he''
    have hfm' := hperm.mem_iff.mp hfm
    rw [hex] at hfm'
    obtain ⟨e, he, rfl⟩ := List.mem_map.mp hfm'
    refine ⟨e, he, by rw [hback.1, bm_view_url], ?_⟩
    exact brs_view_back env hlen rs hrs hrs2 b b' signers t hfirst hall hs hsig hn _ hver e he e'' hback

/-- `brs_Verdict` as a `match` on the first signer that covers the URL (by `bm_honest_verifies_all` it is the
    only one) -/
theorem brs_Verdict_find {env : VEnv} {rs : Nat} {b : Bundle} {signers : List Signer} {ver : BVer} {e e'' : Exch}
    (h : brs_Verdict env rs b signers ver e e'') :
    verifyExchange env ver (bm_trusted env.H rs b signers) e'' =
      match signers.find? (fun s => s.canSign e.url) with
      | some s => .verified e.resp.body (bm_leaf s).cert
      | none => .unsigned := by
  cases hf : signers.find? (fun s => s.canSign e.url) with
  | some s =>
    have hsm := List.mem_of_find?_eq_some hf
    have hc : s.canSign e.url = true := List.find?_some (p := fun s : Signer => s.canSign e.url) hf
    exact h.1 s hsm hc
  | none =>
    rw [List.find?_eq_none] at hf
    exact h.2 (fun s hsm => by simpa using hf s hsm)

/-- (2), every original exchange, verdict as a `match` -/
theorem brs_honest_roundtrip_find (env : VEnv) (hlen : ∀ x, (env.H x).length = 32) (rs : Nat) (hrs : 1 ≤ rs)
    (hrs2 : rs ≤ 16384) (b b' : Bundle) (signers : List Signer) (t : GoTime.T)
    (hfirst : b.signatures = none) (hall : signAll env.H rs b signers = some b')
    (hs : ∀ s ∈ signers, bm_SignerOk env t b s)
    (hsig : ∀ s ∈ signers, env.sigVerify (bm_leaf s).cert (bm_signerMsg env.H rs b s) s.sig = true)
    (hn : b.exchanges.length < 2 ^ 64)
    (url : BUrlFacts) (parseOk : Bytes → Bool) (out : Bytes)
    (hd : RDomG url parseOk b') (hw : write b' = .ok (.ok out)) (hout : out.length < 2 ^ 63) :
    ∃ b'' vss, read url parseOk out = .ok b'' ∧ b''.signatures = b'.signatures ∧
      newVerifier env (sigsOf b'') t b''.version = some vss ∧
      ∀ e ∈ b.exchanges, ∃ e'' ∈ b''.exchanges, e''.url = e.url ∧
        verifyExchange env b''.version vss e'' =
          match signers.find? (fun s => s.canSign e.url) with
          | some s => .verified e.resp.body (bm_leaf s).cert
          | none => .unsigned := by
  obtain ⟨b'', hr, _, h4, hnv, hfw, _⟩ := brs_honest_roundtrip env hlen rs hrs hrs2 b b' signers t hfirst hall hs hsig hn
    url parseOk out hd hw hout
  refine ⟨b'', _, hr, h4, hnv, ?_⟩
  intro e he
  obtain ⟨e'', he'', hu, hverd⟩ := hfw e he
  exact ⟨e'', he'', hu, brs_Verdict_find hverd⟩

/-! ## §3 one signer -/

/-- **(3) one signer**, phrased on the `addSignature` call and the message it returned: after writing the signed
    bundle and reading it back, `NewVerifier` trusts the signer's subset, every exchange of `b` whose URL the
    certificate covers has a counterpart that verifies with the original body under the leaf certificate, and the
    counterparts of the others are unsigned. -/
theorem brs_honest_roundtrip_single (env : VEnv) (hlen : ∀ x, (env.H x).length = 32) (rs : Nat) (hrs : 1 ≤ rs)
    (hrs2 : rs ≤ 16384) (b b' : Bundle) (s : Signer) (msg : Bytes) (t : GoTime.T)
    (hfirst : b.signatures = none)
    (hadd : addSignature env.H s.canSign rs b s.certs s.validityUrl s.date s.expires s.sig = some (b', msg))
    (hok : bm_SignerOk env t b s) (hsv : env.sigVerify (bm_leaf s).cert msg s.sig = true)
    (hn : b.exchanges.length < 2 ^ 64)
    (url : BUrlFacts) (parseOk : Bytes → Bool) (out : Bytes)
    (hd : RDomG url parseOk b') (hw : write b' = .ok (.ok out)) (hout : out.length < 2 ^ 63) :
    ∃ b'', read url parseOk out = .ok b'' ∧ b''.signatures = b'.signatures ∧
      newVerifier env (sigsOf b'') t b''.version = some [(bm_subset env.H rs b s, bm_leaf s)] ∧
      ∀ e ∈ b.exchanges, ∃ e'' ∈ b''.exchanges, e''.url = e.url ∧
        (s.canSign e.url = true →
          verifyExchange env b''.version [(bm_subset env.H rs b s, bm_leaf s)] e'' =
            .verified e.resp.body (bm_leaf s).cert) ∧
        (s.canSign e.url = false →
          verifyExchange env b''.version [(bm_subset env.H rs b s, bm_leaf s)] e'' = .unsigned) := by
  have hall : signAll env.H rs b [s] = some b' := by
    rw [signAll]; simp only [hadd]; rfl
  have hm := (bm_shape_step (bm_shape_nil env.H rs b) hadd).2.1
  obtain ⟨b'', hr, _, h4, hnv, hfw, _⟩ := brs_honest_roundtrip env hlen rs hrs hrs2 b b' [s] t hfirst hall
    (fun x hx => by rw [List.mem_singleton.mp hx]; exact hok)
    (fun x hx => by rw [List.mem_singleton.mp hx, ← hm]; exact hsv) hn url parseOk out hd hw hout
  refine ⟨b'', hr, h4, hnv, ?_⟩
  intro e he
  obtain ⟨e'', he'', hu, hv1, hv2⟩ := hfw e he
  refine ⟨e'', he'', hu, ?_, ?_⟩
  · intro hc
    exact hv1 s (List.mem_singleton.mpr rfl) hc
  · intro hc
    exact hv2 (fun x hx => by rw [List.mem_singleton.mp hx]; exact hc)

/-
  Not covered here
    * `RDomG url parseOk b'` (for the SIGNED bundle) is a hypothesis of (2)/(3); it is not derived from conditions on
      the original bundle `b` and the signers (it would need: `RDomG` of `b`, ASCII digests — true for the base64
      `mi-sha256-03=` value —, `parseOk` on every chain certificate, and `authIdx`, which follows from `SignedBy`).
    * `write b' = .ok (.ok out)` is a hypothesis too (the writer accepts `b'` iff the responses are encodable and the
      URLs distinct; for the covered exchanges the former follows from `signAll`'s success, `bs_signExchanges_spec`).
    * no closed non-vacuity instance of (2): `decide +kernel` does not reduce `signAll … bm_ex.b [sg 97, sg 98]` nor
      `write` of the result (the kernel gets stuck; `#eval` gives a 734-byte file), and a hand evaluation like
      `brt_ex_write` for a bundle with a signatures section was not attempted.  Satisfiability of the signing
      hypotheses alone is `bm_ex.hypotheses_satisfiable`.
-/

end WebPkg.BSig
