import WebPkg.Model.Base64
import WebPkg.Proofs.Basic
namespace WebPkg.Base64

theorem enc6_fin (url : Bool) : ∀ v : Fin 64, dec6 url (enc6 url v.val) = some v.val ∧ enc6 url v.val ≠ 61 ∧
    enc6 url v.val ≠ 10 ∧ enc6 url v.val ≠ 13 := by
  cases url <;> decide

theorem enc6_props (url : Bool) (v : Nat) (hv : v < 64) : dec6 url (enc6 url v) = some v ∧ enc6 url v ≠ 61 ∧
    enc6 url v ≠ 10 ∧ enc6 url v ≠ 13 := enc6_fin url ⟨v, hv⟩

theorem ofNat_toNat (a : UInt8) : UInt8.ofNat a.toNat = a := by simp

theorem beq_61_false {c : UInt8} (h : c ≠ 61) : (c == 61) = false := by simp [h]

/-- the quantum decoder inverts the encoder (both alphabets, with and without padding) -/
theorem decodeQuanta_encode (url pad : Bool) : ∀ (n : Nat) (bs : Bytes), bs.length ≤ n →
    decodeQuanta url pad (encode url pad bs) = some bs := by
  intro n
  induction n using Nat.strongRecOn with
  | _ n ih =>
    intro bs hbs
    match bs, hbs with
    | [], _ => simp [encode, decodeQuanta]
    | [a], _ =>
      have ha := a.toNat_lt
      have p0 := enc6_props url (a.toNat / 4) (by omega)
      have p1 := enc6_props url (a.toNat % 4 * 16) (by omega)
      have e : b0 (a.toNat / 4) (a.toNat % 4 * 16) = a := by
        unfold b0
        have : a.toNat / 4 * 4 + a.toNat % 4 * 16 / 16 = a.toNat := by omega
        rw [this, ofNat_toNat]
      cases pad <;> simp [encode, decodeQuanta, p0.1, p1.1, e]
    | [a, b], _ =>
      have ha := a.toNat_lt
      have hb := b.toNat_lt
      have p0 := enc6_props url (a.toNat / 4) (by omega)
      have p1 := enc6_props url (a.toNat % 4 * 16 + b.toNat / 16) (by omega)
      have p2 := enc6_props url (b.toNat % 16 * 4) (by omega)
      have e0 : b0 (a.toNat / 4) (a.toNat % 4 * 16 + b.toNat / 16) = a := by
        unfold b0
        have : a.toNat / 4 * 4 + (a.toNat % 4 * 16 + b.toNat / 16) / 16 = a.toNat := by omega
        rw [this, ofNat_toNat]
      have e1 : b1 (a.toNat % 4 * 16 + b.toNat / 16) (b.toNat % 16 * 4) = b := by
        unfold b1
        have : (a.toNat % 4 * 16 + b.toNat / 16) % 16 * 16 + b.toNat % 16 * 4 / 4 = b.toNat := by omega
        rw [this, ofNat_toNat]
      cases pad <;> simp [encode, decodeQuanta, p0.1, p1.1, p2.1, e0, e1, beq_61_false p2.2.1]
    | a :: b :: c :: rest, hl =>
      have ha := a.toNat_lt
      have hb := b.toNat_lt
      have hc := c.toNat_lt
      have p0 := enc6_props url (a.toNat / 4) (by omega)
      have p1 := enc6_props url (a.toNat % 4 * 16 + b.toNat / 16) (by omega)
      have p2 := enc6_props url (b.toNat % 16 * 4 + c.toNat / 64) (by omega)
      have p3 := enc6_props url (c.toNat % 64) (by omega)
      have e0 : b0 (a.toNat / 4) (a.toNat % 4 * 16 + b.toNat / 16) = a := by
        unfold b0
        have : a.toNat / 4 * 4 + (a.toNat % 4 * 16 + b.toNat / 16) / 16 = a.toNat := by omega
        rw [this, ofNat_toNat]
      have e1 : b1 (a.toNat % 4 * 16 + b.toNat / 16) (b.toNat % 16 * 4 + c.toNat / 64) = b := by
        unfold b1
        have : (a.toNat % 4 * 16 + b.toNat / 16) % 16 * 16 + (b.toNat % 16 * 4 + c.toNat / 64) / 4 = b.toNat := by omega
        rw [this, ofNat_toNat]
      have e2 : b2 (b.toNat % 16 * 4 + c.toNat / 64) (c.toNat % 64) = c := by
        unfold b2
        have : (b.toNat % 16 * 4 + c.toNat / 64) % 4 * 64 + c.toNat % 64 = c.toNat := by omega
        rw [this, ofNat_toNat]
      have ihr := ih rest.length (by simp at hl; omega) rest (Nat.le_refl _)
      simp only [encode, decodeQuanta, p0.1, p1.1, p2.1, p3.1, beq_61_false p2.2.1, beq_61_false p3.2.1,
        Bool.and_false, Bool.false_eq_true, if_false, ihr, e0, e1, e2]

def okc (c : UInt8) : Bool := c != 10 && c != 13

theorem okc_of {c : UInt8} (h : c ≠ 10 ∧ c ≠ 13) : okc c = true := by simp [okc, h.1, h.2]

theorem encode_no_crlf (url pad : Bool) : ∀ (n : Nat) (bs : Bytes), bs.length ≤ n →
    (encode url pad bs).all okc = true := by
  intro n
  induction n using Nat.strongRecOn with
  | _ n ih =>
    intro bs hbs
    match bs, hbs with
    | [], _ => simp [encode]
    | [a], _ =>
      have ha := a.toNat_lt
      have p0 := okc_of (enc6_props url (a.toNat / 4) (by omega)).2.2
      have p1 := okc_of (enc6_props url (a.toNat % 4 * 16) (by omega)).2.2
      have p61 : okc 61 = true := by decide
      cases pad <;> simp [encode, p0, p1, p61]
    | [a, b], _ =>
      have ha := a.toNat_lt
      have hb := b.toNat_lt
      have p0 := okc_of (enc6_props url (a.toNat / 4) (by omega)).2.2
      have p1 := okc_of (enc6_props url (a.toNat % 4 * 16 + b.toNat / 16) (by omega)).2.2
      have p2 := okc_of (enc6_props url (b.toNat % 16 * 4) (by omega)).2.2
      have p61 : okc 61 = true := by decide
      cases pad <;> simp [encode, p0, p1, p2, p61]
    | a :: b :: c :: rest, hl =>
      have ha := a.toNat_lt
      have hb := b.toNat_lt
      have hc := c.toNat_lt
      have p0 := okc_of (enc6_props url (a.toNat / 4) (by omega)).2.2
      have p1 := okc_of (enc6_props url (a.toNat % 4 * 16 + b.toNat / 16) (by omega)).2.2
      have p2 := okc_of (enc6_props url (b.toNat % 16 * 4 + c.toNat / 64) (by omega)).2.2
      have p3 := okc_of (enc6_props url (c.toNat % 64) (by omega)).2.2
      have ihr := ih rest.length (by simp at hl; omega) rest (Nat.le_refl _)
      simp only [encode, List.all_cons, p0, p1, p2, p3, ihr, Bool.and_self]

/-- `DecodeString(EncodeToString(bs)) = bs` for StdEncoding, RawStdEncoding, URLEncoding, RawURLEncoding -/
theorem decode_encode (url pad : Bool) (bs : Bytes) : decode url pad (encode url pad bs) = some bs := by
  unfold decode
  have hf : (encode url pad bs).filter (fun c => c != 10 && c != 13) = encode url pad bs := by
    apply List.filter_eq_self.mpr
    intro c hc
    have := List.all_eq_true.mp (encode_no_crlf url pad bs.length bs (Nat.le_refl _)) c hc
    simpa [okc] using this
  rw [hf]
  exact decodeQuanta_encode url pad bs.length bs (Nat.le_refl _)

end WebPkg.Base64
