import WebPkg.Model.Basic
/- Lemmas about big-endian encodings and byte comparison (core Lean only). -/
namespace WebPkg

@[simp] theorem beBytes_length (k n : Nat) : (beBytes k n).length = k := by
  induction k generalizing n with
  | zero => simp [beBytes]
  | succ k ih => simp [beBytes, ih]

theorem beVal_append_single (bs : Bytes) (b : UInt8) : beVal (bs ++ [b]) = beVal bs * 256 + b.toNat := by
  simp [beVal, List.foldl_append]

theorem toNat_ofNat_lt {x : Nat} (h : x < 256) : (UInt8.ofNat x).toNat = x := by
  simp [UInt8.toNat_ofNat']; omega

theorem beVal_beBytes (k n : Nat) : beVal (beBytes k n) = n % 256 ^ k := by
  induction k generalizing n with
  | zero => simp [beBytes, beVal, Nat.mod_one]
  | succ k ih =>
    simp only [beBytes, beVal_append_single, ih]
    rw [toNat_ofNat_lt (Nat.mod_lt _ (by decide))]
    rw [Nat.pow_succ, Nat.mul_comm (256 ^ k) 256, Nat.mod_mul]
    omega

theorem beVal_beBytes_of_lt {k n : Nat} (h : n < 256 ^ k) : beVal (beBytes k n) = n := by
  rw [beVal_beBytes, Nat.mod_eq_of_lt h]

theorem rev_induction {α : Type} {P : List α → Prop} (h0 : P [])
    (hs : ∀ bs b, P bs → P (bs ++ [b])) : ∀ bs, P bs := by
  intro bs
  rw [← List.reverse_reverse bs]
  induction bs.reverse with
  | nil => exact h0
  | cons x xs ih => rw [List.reverse_cons]; exact hs _ _ ih

theorem beVal_lt (bs : Bytes) : beVal bs < 256 ^ bs.length := by
  induction bs using rev_induction with
  | h0 => simp [beVal]
  | hs bs b ih =>
    rw [beVal_append_single, List.length_append, List.length_singleton, Nat.pow_succ]
    have := b.toNat_lt
    omega

theorem beBytes_beVal (bs : Bytes) : beBytes bs.length (beVal bs) = bs := by
  induction bs using rev_induction with
  | h0 => simp [beBytes]
  | hs bs b ih =>
    rw [beVal_append_single, List.length_append, List.length_singleton, beBytes]
    have hb := b.toNat_lt
    have h1 : (beVal bs * 256 + b.toNat) / 256 = beVal bs := by omega
    have h2 : (beVal bs * 256 + b.toNat) % 256 = b.toNat := by omega
    rw [h1, h2, ih]
    simp

theorem beBytes_inj {k a b : Nat} (ha : a < 256 ^ k) (hb : b < 256 ^ k) (h : beBytes k a = beBytes k b) : a = b := by
  have := congrArg beVal h
  rwa [beVal_beBytes_of_lt ha, beVal_beBytes_of_lt hb] at this

/-! ### bytes.Compare -/

theorem ble_refl (a : Bytes) : ble a a = true := by
  induction a with
  | nil => simp [ble]
  | cons x xs ih => simp [ble, ih]

theorem ble_total (a b : Bytes) : ble a b = true ∨ ble b a = true := by
  induction a generalizing b with
  | nil => simp [ble]
  | cons x xs ih =>
    cases b with
    | nil => simp [ble]
    | cons y ys =>
      simp only [ble]
      by_cases h1 : x < y
      · simp [h1]
      · by_cases h2 : y < x
        · simp [h1, h2]
        · simp [h1, h2]; exact ih ys

theorem ble_trans {a b c : Bytes} (h1 : ble a b = true) (h2 : ble b c = true) : ble a c = true := by
  induction a generalizing b c with
  | nil => simp [ble]
  | cons x xs ih =>
    cases b with
    | nil => simp [ble] at h1
    | cons y ys =>
      cases c with
      | nil => simp [ble] at h2
      | cons z zs =>
        simp only [ble] at *
        by_cases hxy : x < y
        · by_cases hyz : y < z
          · have : x < z := UInt8.lt_trans hxy hyz
            simp [this]
          · by_cases hzy : z < y
            · simp [hyz, hzy] at h2
            · have : y = z := UInt8.le_antisymm (UInt8.not_lt.mp hzy) (UInt8.not_lt.mp hyz)
              subst this; simp [hxy]
        · by_cases hyx : y < x
          · simp [hxy, hyx] at h1
          · have hxy' : x = y := UInt8.le_antisymm (UInt8.not_lt.mp hyx) (UInt8.not_lt.mp hxy)
            subst hxy'
            simp [hxy] at h1
            by_cases hxz : x < z
            · simp [hxz]
            · by_cases hzx : z < x
              · simp [hxz, hzx] at h2
              · simp [hxz, hzx] at h2 ⊢
                exact ih h1 h2

theorem ble_antisymm {a b : Bytes} (h1 : ble a b = true) (h2 : ble b a = true) : a = b := by
  induction a generalizing b with
  | nil => cases b with
    | nil => rfl
    | cons y ys => simp [ble] at h2
  | cons x xs ih =>
    cases b with
    | nil => simp [ble] at h1
    | cons y ys =>
      simp only [ble] at h1 h2
      by_cases hxy : x < y
      · have : ¬ y < x := fun h => absurd (UInt8.lt_trans hxy h) (UInt8.lt_irrefl _)
        simp [hxy, this] at h2
      · by_cases hyx : y < x
        · simp [hxy, hyx] at h1
        · have hxy' : x = y := UInt8.le_antisymm (UInt8.not_lt.mp hyx) (UInt8.not_lt.mp hxy)
          subst hxy'
          simp [hxy] at h1 h2
          rw [ih h1 h2]

theorem blt_iff {a b : Bytes} : blt a b = true ↔ ble a b = true ∧ a ≠ b := by
  simp [blt]

theorem blt_irrefl (a : Bytes) : blt a a = false := by simp [blt]

theorem blt_trans {a b c : Bytes} (h1 : blt a b = true) (h2 : blt b c = true) : blt a c = true := by
  rw [blt_iff] at *
  refine ⟨ble_trans h1.1 h2.1, ?_⟩
  intro h; subst h
  exact h1.2 (ble_antisymm h1.1 h2.1)

end WebPkg
